import Sds.Driver.Run
def main : IO Unit := Sds.Driver.main
