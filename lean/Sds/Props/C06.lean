/-
C06 — Serialization round trip is the identity and sizes are exact.

Property theorems only (helper lemmas live in Proofs/).  The model (Model/Ser.lean): a file is a list of
8-byte elements (`Elems = List Word`), `toBytes` / `ofBytes` give the little-endian byte view, and a
`Codec α` is the pair (`ser`, `load`) of a `Serialize` impl.  In the model
  `size_in_elements(x)` **is** `c.size x = (c.ser x).length`, and `size_in_bytes(x) = 8 * size_in_elements(x)`.

Quantifiers: every value `x` of each serializable type — integers and pairs, vectors of them, byte vectors,
strings, optional values, raw / integer vectors, rank and select supports, plain bitvectors with any of the
8 subsets of support structures, sparse / run-length vectors, wavelet matrix and its core — that satisfies the
type's representation invariant (stated in each theorem: lengths fit a `usize`, the raw vector has exactly ⌈len/64⌉ words with a zero tail, …; these hold
of every value the API can produce), and every continuation `rest` of the stream (so: every concatenation).
The codecs have no arithmetic mode — no `Mode` parameter occurs in serialization — except `rlC m`, whose loader
rebuilds the sample indexes with the mode's arithmetic; its theorems hold for both modes.

Each `…_roundtrip` theorem says: loading what was serialized, followed by anything, yields **the same value**
(Lean equality, hence it answers every query as `x` does — `loaded_bit_vector_answers_as_original` spells
that out) and **exactly the rest** of the stream (so exactly `size_in_elements(x)` elements = `8 ×` that many
bytes are consumed), together with the size predicted from the parameters alone.

**Composite structures** (sparse vector, run-length vector, wavelet-matrix core, wavelet matrix; lemmas in
Proofs/Codec2).  The same law is proven for **every value satisfying the serialization invariant of its type**:
 * `Codec2.sparseWF s`: `high` already carries the select / select_zero supports that `load` enables, `high` and
   `low` are serializable (`bitVectorWF`, `intVecWF`), `low.len = high.count_ones`,
   `high.len = low.len + buckets(len, low.width)` (the two checks of `SparseVector::load`), `len < 2^64`;
 * `Codec2.wmCoreWF c`: 1..64 levels, each a serializable bitvector carrying all three supports, all of one length;
 * `Codec2.wmWF w`: `wmCoreWF w.data`, `w.len` = the length of the levels `< 2^64`, `first` serializable;
 * `Codec2.rlWF m v` (mode `m`): `samples`, `data` serializable, one sample pair per 64-unit block of `data`,
   `ones ≤ len < 2^64`, ones ≤ bits at every block start, and the three sample indexes (which are **not stored**)
   are what `SampleIndex::new` builds from the stored samples.  `Codec2.rlWFg m` is the weaker form without the
   "no subtraction wraps" clauses; it is also *necessary* for a round trip (`run_length_vector_invariant_necessary`).
Everything the builders build satisfies the invariant (`Codec2.ofValues_sparseWF` / `sparse_ofValues_lawful`,
`ofValues_wmCoreWF`, `ofValues_wmWF` / `wm_ofValues_lawful`, `build_rlWF` / `build_roundtrip` for every accepted
call history of the `RLBuilder`), under file-size side conditions only (`hhigh`, `hlow`, `hfirst`, `hsize`).
**Values returned by the loaders on an arbitrary accepted file** (section "what the loaders return"; lemmas in
Proofs/LoadWF).  For each loader the predicate `LoadWF.…Ld` lists exactly the checks it performs; `…WF → …Ld`
(`load_checks_weaker_than_invariants`), every loaded value satisfies `…Ld` (for the types whose loader *builds*
supports — sparse vector, wavelet matrix — under the agreement condition stated below) and every `…Ld` value obeys
the codec law (`loaded_values_obey_codec_law`: round trip with any continuation, every strict prefix refused with
`eof`), so the generic statements of this file and of C14 apply to loaded values although they need **not** satisfy
the representation invariants.  The `loaded_value_reserializes_*` theorems: if `c.load es = ok (x, rest)` then
 (i)  `es = c.ser x ++ rest` — what was read is exactly the serialization of the returned value — and
 (ii) `c.load (c.ser x ++ rest') = ok (x, rest')` for every `rest'` — the returned value loads back;
 * both hold **exactly, without any hypothesis**, for `rawVecC`, `intVecC`, `rankSupC`, `selSupC` and `rlC m` (both
   modes); for these `…Ld x ↔ x is returned by the loader on some file` (`loadable_values_characterised`);
 * `bitVectorC`: (i) is **false** — `Option<T>::load` only tests its length prefix for `≠ 0` and never compares it
   with the size of what follows (`bit_vector_load_not_exact`: `[0,0,0,5,0,0,0]` loads to the value whose
   serialization is `[0,0,0,1,0,0,0]`).  True: `es` is `ser b ++ rest` up to the three option prefixes
   (`LoadWF.bitVectorRaw`, same length; with the true sizes as prefixes it is `ser b`:
   `bit_vector_file_canonical_form`), and (ii) holds for files shorter than 2^64 elements;
 * `sparseC`, `wmCoreC`, `wmC`: the loader *adds* the support structures the file lacks (`enable_select`,
   `enable_select_zero`; all three for every level of a core), so (i) is false also in length
   (`sparse_load_not_exact_and_reload_can_fail_in_model`: a 12-element file whose value serializes to 38
   elements).  True: `es` is the universe size / width, the raw form of the bitvector(s) `h0` **as stored**, the other parts, and the returned bitvector is
   `h0` with the supports enabled; when the file carries the supports, `es` is `ser x ++ rest` up to option
   prefixes.  (ii) holds whenever every support that had to be **built** agrees with the stored `ones` counter —
   guaranteed if the file carried the supports, or if `LoadWF.CountOk` (`ones` = number of set bits, `len < 2^63`)
   holds of the stored bitvector — and is **false in the model** otherwise (same theorem, and
   `wavelet_matrix_core_reload_can_fail_in_model`:
   `ones = 0` stored with one bit set; the model builds the select support from the set bits of `data`, one
   superblock, and `BitVector::load` then refuses it against `⌈ones/4096⌉ = 0`).
   **On such files the model is not a transcription of the code**: `SelectSupport::new` is driven by the stored
   counter (`count_ones()` / `one_iter()`), and with a counter that disagrees with the data its iterator runs off
   the words through `word_unchecked` (observed on this very file: the debug profile aborts on the
   `get_unchecked` precondition inside `SparseVector::load`; the release profile reads past the buffer and
   "loads").  Statements about files violating `CountOk` whose supports are absent are statements about the model
   only.
**Checked on load** (= the `LoadWF.…Ld` predicates): `RawVector` ⌈len/64⌉ = number of words; `IntVector`
`len * width = data.len`; `SelectSupport` `samples.len/2 = ⌈long.len/4096⌉ + ⌈short.len/64⌉`; `BitVector` `ones ≤ len`
and, for each *present* support, rank samples = ⌈len/512⌉, select superblocks = ⌈ones/4096⌉, select_zero superblocks =
⌈(len - ones)/4096⌉; `SparseVector` `low.len = high.count_ones()` (the stored counter) and `high.len = low.len +
buckets(len, low.width)`; `RLVector` `samples.len/2 = ⌈data.len/64⌉`, and the construction of the three sample
indexes must succeed (assertions of `SampleIndex::new`, `len - ones`); `WMCore` `1 ≤ width ≤ 64`, all levels of the
length of the first; `WaveletMatrix` `len` = the length of the levels.
**Trusted on load** (the representation-invariant clauses no loader checks; each with the accepting model run in the
non-vacuity section): the unused bits of the last word of a raw vector; `1 ≤ width ≤ 64` of an integer vector
(`[5,0,0,0]`: five items of width 0; `[0,100,0,0]`: width 100) — and `len * width` is exact in the model whereas the
code multiplies `usize`s (a product ≥ 2^64 is `InvalidData` in the model; in the code an overflow panic in the
debug profile and a wrapped product in release: the 32-byte file `[2^32, 2^32, 0, 0]` panics resp. "loads" — observed); the length prefix of a present `Option`; `ones` = number of set bits of `data`; the contents of a present
rank / select support (only their sizes are compared with `len`, `ones`, `len - ones`); for a sparse vector the low
width against the universe, positions sorted and below the universe; for a run-length vector that the samples are
the block starts of `data` and that `data` decodes to `ones` ones in `len` bits (the three sample indexes are
rebuilt, so they are always right); for a wavelet matrix the contents and length of `first` and the mutual
consistency of the levels.
No `_partial` theorem remains.
-/
import Sds.Proofs.Codec
import Sds.Proofs.Supports
import Sds.Proofs.Mapper
import Sds.Proofs.Glue2
import Sds.Proofs.Codec2
import Sds.Proofs.LoadWF
import Sds.Proofs.SerShapes
import Sds.Proofs.GenEqLoad
import Sds.Proofs.GenEqLoad2
import Sds.Proofs.GenEqLoad3
import Sds.Proofs.GenEqLoad4
import Sds.Proofs.GenEqLoad5

namespace Sds.C06
open Sds Outcome

/-! ### integers, pairs, vectors of them -/

theorem u64_roundtrip (x : Word) (rest : Elems) :
    u64C.load (u64C.ser x ++ rest) = ok (x, rest) ∧ u64C.size x = 1 :=
  ⟨u64C_lawful.roundtrip x rest trivial, rfl⟩

theorem usize_roundtrip (n : Nat) (hn : n < 2 ^ 64) (rest : Elems) :
    usizeC.load (usizeC.ser n ++ rest) = ok (n, rest) ∧ usizeC.size n = 1 :=
  ⟨usizeC_lawful.roundtrip n rest hn, rfl⟩

theorem pair_roundtrip (p : Word × Word) (rest : Elems) :
    pairC.load (pairC.ser p ++ rest) = ok (p, rest) ∧ pairC.size p = 2 :=
  ⟨pairC_lawful.roundtrip p rest trivial, rfl⟩

/-- `Vec<u64>` (also `Vec<usize>`): length prefix + items -/
theorem vec_u64_roundtrip (a : Array Word) (ha : a.size < 2 ^ 64) (rest : Elems) :
    vecU64C.load (vecU64C.ser a ++ rest) = ok (a, rest) ∧ vecU64C.size a = a.size + 1 :=
  ⟨vecU64C_lawful.roundtrip a rest ha, vecU64C_ser_length a⟩

/-- `Vec<(u64, u64)>` -/
theorem vec_pair_roundtrip (a : Array (Word × Word)) (ha : a.size < 2 ^ 64) (rest : Elems) :
    vecPairC.load (vecPairC.ser a ++ rest) = ok (a, rest) ∧ vecPairC.size a = a.size * 2 + 1 :=
  ⟨vecPairC_lawful.roundtrip a rest ha, vecPairC_ser_length a⟩

/-! ### byte vectors and strings (zero padded to whole elements) -/

theorem bytes_roundtrip (bs : List UInt8) (hb : bs.length < 2 ^ 64) (rest : Elems) :
    bytesC.load (bytesC.ser bs ++ rest) = ok (bs, rest) ∧ bytesC.size bs = (bs.length + 7) / 8 + 1 :=
  ⟨bytesC_lawful.roundtrip bs rest hb, bytesC_ser_length bs⟩

/-- `String`: `valid` abstracts `String::from_utf8`; every `String` value is valid UTF-8 -/
theorem string_roundtrip (valid : List UInt8 → Bool) (bs : List UInt8) (hb : bs.length < 2 ^ 64)
    (hv : valid bs = true) (rest : Elems) :
    (stringC valid).load ((stringC valid).ser bs ++ rest) = ok (bs, rest) ∧
    (stringC valid).size bs = (bs.length + 7) / 8 + 1 :=
  ⟨(stringC_lawful valid).roundtrip bs rest ⟨hb, hv⟩, bytesC_ser_length bs⟩

/-! ### `Option<T>` for every `T` whose codec obeys the law -/

/-- an absent value takes one element; a present one its own size plus the length prefix -/
theorem option_roundtrip {α} (c : Codec α) (W : α → Prop) (hc : Lawful c W) (o : Option α)
    (ho : match o with
      | none => True
      | some x => W x ∧ 0 < (c.ser x).length ∧ (c.ser x).length < 2 ^ 64) (rest : Elems) :
    (optionC c).load ((optionC c).ser o ++ rest) = ok (o, rest) ∧
    (optionC c).size o = (match o with | none => 1 | some x => c.size x + 1) := by
  refine ⟨(optionC_lawful hc).roundtrip o rest ho, ?_⟩
  cases o <;> simp [Codec.size, optionC]

/-! ### raw and integer vectors -/

/-- `RawVector`: header (`len`, word count) + ⌈len/64⌉ words -/
theorem raw_vector_roundtrip (v : RawVec) (hv : v.WF) (hlen : v.len < 2 ^ 64) (rest : Elems) :
    rawVecC.load (rawVecC.ser v ++ rest) = ok (v, rest) ∧ rawVecC.size v = (v.len + 63) / 64 + 2 := by
  refine ⟨rawVecC_lawful.roundtrip v rest ⟨hv, hlen⟩, ?_⟩
  show (rawVecC.ser v).length = _
  rw [rawVecC_ser_length, hv.size_eq]

/-- `IntVector`: `len`, `width`, then the raw vector of `len * width` bits -/
theorem int_vector_roundtrip (v : IntVec) (hv : v.WF) (hlen : v.len < 2 ^ 64) (hw : v.width < 2 ^ 64)
    (hbits : v.data.len < 2 ^ 64) (rest : Elems) :
    intVecC.load (intVecC.ser v ++ rest) = ok (v, rest) ∧
    intVecC.size v = (v.len * v.width + 63) / 64 + 4 := by
  refine ⟨intVecC_lawful.roundtrip v rest ⟨hv, hlen, hw, hbits⟩, ?_⟩
  show (intVecC.ser v).length = _
  rw [intVecC_ser_length, hv.2.2.2.size_eq, hv.2.2.1]

/-! ### support structures and the plain bitvector -/

theorem rank_support_roundtrip (s : RankSup) (hs : s.samples.size < 2 ^ 64) (rest : Elems) :
    rankSupC.load (rankSupC.ser s ++ rest) = ok (s, rest) ∧ rankSupC.size s = 1 + 2 * s.samples.size :=
  ⟨rankSupC_lawful.roundtrip s rest hs, SupportProofs.rankSupC_ser_length s⟩

theorem select_support_roundtrip (s : SelSup) (hs : selSupWF s) (rest : Elems) :
    selSupC.load (selSupC.ser s ++ rest) = ok (s, rest) ∧
    selSupC.size s = (4 + s.samples.data.data.size) + (4 + s.long.data.data.size) +
      (4 + s.short.data.data.size) :=
  ⟨selSupC_lawful.roundtrip s rest hs, SupportProofs.selSupC_ser_length s⟩

/-- `BitVector` with **any** subset of the three supports present (`bitVectorWF` covers the 8 combinations at
once: it constrains a support only when it is present); the size is the `ones` counter plus the parts -/
theorem bit_vector_roundtrip (b : BitVector) (hb : bitVectorWF b) (rest : Elems) :
    bitVectorC.load (bitVectorC.ser b ++ rest) = ok (b, rest) ∧
    bitVectorC.size b = 1 + rawVecC.size b.data + (optionC rankSupC).size b.rank +
      (optionC selSupC).size b.select + (optionC selSupC).size b.selectZero := by
  refine ⟨bitVectorC_lawful.roundtrip b rest hb, ?_⟩
  simp only [Codec.size, bitVectorC, List.length_cons, List.length_append]
  omega

/-- … in particular every bitvector the API builds — `BitVector::from(raw)` followed by any subset of
`enable_rank` / `enable_select` / `enable_select_zero` — round-trips, with the subset intact -/
theorem built_bit_vector_roundtrip (v : RawVec) (hv : v.WF) (hlen : v.len < 2 ^ 62) (r s z : Bool)
    (rest : Elems) :
    bitVectorWF (SupportProofs.enableSome r s z (BitVector.ofRaw v)) ∧
    bitVectorC.load (bitVectorC.ser (SupportProofs.enableSome r s z (BitVector.ofRaw v)) ++ rest) =
      ok (SupportProofs.enableSome r s z (BitVector.ofRaw v), rest) :=
  ⟨SupportProofs.ofRaw_enableSome_wf hv hlen r s z, SupportProofs.ofRaw_enableSome_roundtrip hv hlen r s z rest⟩

/-- whatever `load` returns on a serialization is the original, so it answers every query as the original -/
theorem loaded_bit_vector_answers_as_original (b : BitVector) (hb : bitVectorWF b) (rest : Elems)
    (b' : BitVector) (rest' : Elems) (h : bitVectorC.load (bitVectorC.ser b ++ rest) = ok (b', rest')) :
    b' = b ∧ rest' = rest ∧
    (∀ i, b'.get i = b.get i) ∧ (∀ i, b'.rankQ i = b.rankQ i) ∧
    (∀ (m : Mode) i, b'.rankZeroQ m i = b.rankZeroQ m i) ∧
    (∀ (m : Mode) k, b'.selectQ m k = b.selectQ m k) ∧
    (∀ (m : Mode) k, b'.selectZeroQ m k = b.selectZeroQ m k) := by
  rw [bitVectorC_lawful.roundtrip b rest hb] at h
  cases h
  exact ⟨rfl, rfl, fun _ => rfl, fun _ => rfl, fun _ _ => rfl, fun _ _ => rfl, fun _ _ => rfl⟩

/-! ### bytes: exactly `8 × size_in_elements` are written and consumed; back-to-back structures -/

/-- every codec above obeys the law used by the generic statements below -/
theorem all_codecs_lawful (valid : List UInt8 → Bool) :
    Lawful u64C (fun _ => True) ∧ Lawful usizeC (fun n => n < 2 ^ 64) ∧ Lawful pairC (fun _ => True) ∧
    Lawful vecU64C (fun a => a.size < 2 ^ 64) ∧ Lawful vecPairC (fun a => a.size < 2 ^ 64) ∧
    Lawful bytesC (fun bs => bs.length < 2 ^ 64) ∧
    Lawful (stringC valid) (fun bs => bs.length < 2 ^ 64 ∧ valid bs = true) ∧
    Lawful rawVecC (fun v => v.WF ∧ v.len < 2 ^ 64) ∧
    Lawful intVecC (fun v => v.WF ∧ v.len < 2 ^ 64 ∧ v.width < 2 ^ 64 ∧ v.data.len < 2 ^ 64) ∧
    Lawful rankSupC (fun s => s.samples.size < 2 ^ 64) ∧ Lawful selSupC selSupWF ∧
    Lawful bitVectorC bitVectorWF :=
  ⟨u64C_lawful, usizeC_lawful, pairC_lawful, vecU64C_lawful, vecPairC_lawful, bytesC_lawful,
    stringC_lawful valid, rawVecC_lawful, intVecC_lawful, rankSupC_lawful, selSupC_lawful, bitVectorC_lawful⟩

/-- **bytes written = `8 * size_in_elements` = `size_in_bytes`**, for every codec and every value -/
theorem bytes_written_exact {α} (c : Codec α) (x : α) :
    (toBytes (c.ser x)).length = 8 * c.size x :=
  length_toBytes (c.ser x)

/-- **byte-level round trip**: the bytes of a serialization followed by the bytes of anything load back to the
value and leave exactly what followed — so exactly `8 * size_in_elements(x)` bytes are consumed -/
theorem bytes_roundtrip_exact {α} (c : Codec α) (W : α → Prop) (hc : Lawful c W) (x : α) (hx : W x)
    (rest : Elems) :
    c.load (ofBytes (toBytes (c.ser x) ++ toBytes rest)) = ok (x, rest) ∧
    (toBytes (c.ser x) ++ toBytes rest).length = 8 * c.size x + 8 * rest.length := by
  have e : toBytes (c.ser x) ++ toBytes rest = toBytes (c.ser x ++ rest) := by
    simp [toBytes, List.flatMap_append]
  refine ⟨by rw [e]; exact roundtrip_bytes hc x hx rest, ?_⟩
  rw [List.length_append, length_toBytes, length_toBytes]; rfl

/-- **structures written back to back load back in sequence**: the first load leaves exactly the
serialization of the second (and what follows), and loading both returns both values and the rest -/
theorem back_to_back {α β} (c1 : Codec α) (c2 : Codec β) (W1 : α → Prop) (W2 : β → Prop)
    (h1 : Lawful c1 W1) (h2 : Lawful c2 W2) (x : α) (y : β) (rest : Elems) (hx : W1 x) (hy : W2 y) :
    c1.load (c1.ser x ++ c2.ser y ++ rest) = ok (x, c2.ser y ++ rest) ∧
    (do let (a, r1) ← c1.load (c1.ser x ++ c2.ser y ++ rest)
        let (b, r2) ← c2.load r1
        pure ((a, b), r2)) = ok ((x, y), rest) :=
  ⟨load_concat h1 c2 x y rest hx, load_concat_seq h1 h2 x y rest hx hy⟩

/-- … and any number of them: two lawful codecs in sequence form a lawful codec (of the pair), so the
statement extends to every finite sequence of structures in one stream by iteration -/
theorem sequence_of_lawful_is_lawful {α β} (c1 : Codec α) (c2 : Codec β) (W1 : α → Prop) (W2 : β → Prop)
    (h1 : Lawful c1 W1) (h2 : Lawful c2 W2) :
    Lawful (seqC c1 c2) (fun p => W1 p.1 ∧ W2 p.2) ∧
    (∀ p, (seqC c1 c2).size p = c1.size p.1 + c2.size p.2) :=
  ⟨seqC_lawful h1 h2, fun p => by simp [Codec.size, seqC]⟩

/-! ### composite structures: sparse vector, run-length vector, wavelet-matrix core, wavelet matrix

First for **every value satisfying the serialization invariant** of its type (`Codec2.sparseWF`,
`Codec2.wmCoreWF`, `Codec2.wmWF`, `Codec2.rlWF m` / `Codec2.rlWFg m`; see the header), then for everything the
builders build.  Each `…_roundtrip_wf` theorem gives: the element-level round trip with arbitrary trailing data,
the byte-level round trip (exactly `8 * size` bytes written, exactly those consumed: what is left is `rest`), and
`size_in_elements` as the sum of the sizes of the parts. -/

/-- the four composite codecs obey the codec law on their invariants, so every generic statement above
(`bytes_roundtrip_exact`, `back_to_back`, `sequence_of_lawful_is_lawful`, `option_roundtrip`) applies to them,
in any order and mixed with the other types; `rlWF m → rlWFg m` (`Codec2.rlWF.general`) -/
theorem composite_codecs_lawful (m : Mode) :
    Lawful sparseC Codec2.sparseWF ∧ Lawful wmCoreC Codec2.wmCoreWF ∧ Lawful wmC Codec2.wmWF ∧
    Lawful (rlC m) (Codec2.rlWF m) ∧ Lawful (rlC m) (Codec2.rlWFg m) ∧
    (∀ v, Codec2.rlWF m v → Codec2.rlWFg m v) :=
  ⟨Codec2.sparseC_lawful, Codec2.wmCoreC_lawful, Codec2.wmC_lawful, Codec2.rlC_lawful m, Codec2.rlC_lawful_g m,
    fun _ h => h.general⟩

/-- `SparseVector`, every value satisfying `sparseWF` -/
theorem sparse_vector_roundtrip_wf (s : Sparse) (hs : Codec2.sparseWF s) (rest : Elems) :
    sparseC.load (sparseC.ser s ++ rest) = ok (s, rest) ∧
    sparseC.load (ofBytes (toBytes (sparseC.ser s) ++ toBytes rest)) = ok (s, rest) ∧
    (toBytes (sparseC.ser s) ++ toBytes rest).length = 8 * sparseC.size s + 8 * rest.length ∧
    sparseC.size s = 1 + bitVectorC.size s.high + intVecC.size s.low :=
  have h := bytes_roundtrip_exact sparseC _ Codec2.sparseC_lawful s hs rest
  ⟨Codec2.sparseC_lawful.roundtrip s rest hs, h.1, h.2, Codec2.sparseC_size s⟩

/-- `WMCore`, every value satisfying `wmCoreWF` -/
theorem wavelet_matrix_core_roundtrip_wf (c : WMCore) (hc : Codec2.wmCoreWF c) (rest : Elems) :
    wmCoreC.load (wmCoreC.ser c ++ rest) = ok (c, rest) ∧
    wmCoreC.load (ofBytes (toBytes (wmCoreC.ser c) ++ toBytes rest)) = ok (c, rest) ∧
    (toBytes (wmCoreC.ser c) ++ toBytes rest).length = 8 * wmCoreC.size c + 8 * rest.length ∧
    wmCoreC.size c = 1 + (c.levels.toList.map bitVectorC.size).sum :=
  have h := bytes_roundtrip_exact wmCoreC _ Codec2.wmCoreC_lawful c hc rest
  ⟨Codec2.wmCoreC_lawful.roundtrip c rest hc, h.1, h.2, Codec2.wmCoreC_size c⟩

/-- `WaveletMatrix`, every value satisfying `wmWF` -/
theorem wavelet_matrix_roundtrip_wf (w : WM) (hw : Codec2.wmWF w) (rest : Elems) :
    wmC.load (wmC.ser w ++ rest) = ok (w, rest) ∧
    wmC.load (ofBytes (toBytes (wmC.ser w) ++ toBytes rest)) = ok (w, rest) ∧
    (toBytes (wmC.ser w) ++ toBytes rest).length = 8 * wmC.size w + 8 * rest.length ∧
    wmC.size w = 1 + wmCoreC.size w.data + intVecC.size w.first :=
  have h := bytes_roundtrip_exact wmC _ Codec2.wmC_lawful w hw rest
  ⟨Codec2.wmC_lawful.roundtrip w rest hw, h.1, h.2, Codec2.wmC_size w⟩

/-- `RLVector`, both modes, every value satisfying `rlWFg m` (hence every value satisfying `rlWF m`): the three
sample indexes are not stored, `load` rebuilds them, and the loaded value is **equal** to the original, indexes
included.  Size: two counters, two integer vectors = 10 elements + the words of both. -/
theorem run_length_vector_roundtrip_wf (m : Mode) (v : RL) (hv : Codec2.rlWFg m v) (rest : Elems) :
    (rlC m).load ((rlC m).ser v ++ rest) = ok (v, rest) ∧
    (rlC m).load (ofBytes (toBytes ((rlC m).ser v) ++ toBytes rest)) = ok (v, rest) ∧
    (toBytes ((rlC m).ser v) ++ toBytes rest).length = 8 * (rlC m).size v + 8 * rest.length ∧
    (rlC m).size v = 2 + intVecC.size v.samples + intVecC.size v.data ∧
    (rlC m).size v = 10 + v.samples.data.data.size + v.data.data.data.size :=
  have h := bytes_roundtrip_exact (rlC m) _ (Codec2.rlC_lawful_g m) v hv rest
  ⟨(Codec2.rlC_lawful_g m).roundtrip v rest hv, h.1, h.2, Codec2.rlC_size m v, Codec2.rlC_size_words m v⟩

/-- for the run-length vector the invariant is also **necessary**: a vector whose counters and integer vectors
are serializable round-trips (with some continuation) only if it satisfies `rlWFg m` -/
theorem run_length_vector_invariant_necessary (m : Mode) (v : RL) (r : Elems) (hs : intVecWF v.samples)
    (hd : intVecWF v.data) (hlen : v.len < 2 ^ 64) (hones : v.ones < 2 ^ 64)
    (h : (rlC m).load ((rlC m).ser v ++ r) = ok (v, r)) : Codec2.rlWFg m v :=
  Codec2.rlWFg_of_roundtrip m hs hd hlen hones h

/-- what the loaders return, on **any** input they accept, has the derived parts the invariants ask for: a
loaded sparse vector has its select supports enabled and passes the two consistency checks (clauses 1, 4, 5 of
`sparseWF`); every level of a loaded wavelet-matrix core carries all three supports (the `enableAll` clause of
`wmCoreWF`) -/
theorem loaded_composites_have_shape :
    (∀ (es r : Elems) (s : Sparse), sparseC.load es = ok (s, r) →
      s.high.enableSelect.enableSelectZero = s.high ∧ s.low.len = s.high.countOnes ∧
      s.high.len = s.low.len + Sparse.getBuckets s.len s.low.width) ∧
    (∀ (es r : Elems) (c : WMCore), wmCoreC.load es = ok (c, r) →
      ∀ b, b ∈ c.levels.toList → b.enableAll = b) :=
  ⟨fun _ _ _ h => Codec2.sparseC_load_shape h, fun _ _ _ h => Codec2.wmCoreC_load_shape h⟩

/-- **back to back**: a sparse vector, a run-length vector and a wavelet matrix in one stream — the first load
leaves exactly the serializations of the other two (and what follows), and loading the three in sequence returns
the three values and the rest (any other order / selection: `back_to_back` with `composite_codecs_lawful`) -/
theorem composite_back_to_back (m : Mode) (s : Sparse) (v : RL) (w : WM) (rest : Elems)
    (hs : Codec2.sparseWF s) (hv : Codec2.rlWF m v) (hw : Codec2.wmWF w) :
    sparseC.load (sparseC.ser s ++ (rlC m).ser v ++ wmC.ser w ++ rest) =
      ok (s, (rlC m).ser v ++ wmC.ser w ++ rest) ∧
    (do let (a, r1) ← sparseC.load (sparseC.ser s ++ (rlC m).ser v ++ wmC.ser w ++ rest)
        let (b, r2) ← (rlC m).load r1
        let (c, r3) ← wmC.load r2
        pure ((a, b, c), r3)) = ok ((s, v, w), rest) :=
  ⟨Codec2.composite_load_concat m s v w rest hs, Codec2.composite_load_seq m s v w rest hs hv hw⟩

/-- … and the three as one record form a lawful codec whose size is the sum of the three sizes -/
theorem composite_sequence_lawful (m : Mode) :
    Lawful (seqC sparseC (seqC (rlC m) wmC))
      (fun p => Codec2.sparseWF p.1 ∧ Codec2.rlWF m p.2.1 ∧ Codec2.wmWF p.2.2) ∧
    (∀ p, (seqC sparseC (seqC (rlC m) wmC)).size p =
      sparseC.size p.1 + ((rlC m).size p.2.1 + wmC.size p.2.2)) :=
  ⟨Codec2.composite_lawful m, fun p => by simp [Codec.size, seqC]⟩

/-! #### everything the builders build

The builder outputs satisfy the invariants under the side condition that the parts fit a `usize`-addressed file
(their length fields are `usize`): `hhigh`, `hlow` for the sparse vector, `hfirst` for the `first` array of the
wavelet matrix (`max V < 2^58`), `hsize` for the two integer vectors of the run-length vector. -/

/-- `SparseVector` (set or multiset mode, every admissible low width) -/
theorem sparse_vector_roundtrip (w n : Nat) (multi : Bool) (P : List Nat) (hw1 : 1 ≤ w)
    (hw : w ≤ 63) (hn : n < 2 ^ 64) (hm : P.length < 2 ^ 63)
    (hsorted : if multi then sortedLe P = true else sortedStrict P = true) (hbound : ∀ p ∈ P, p < n)
    (hhigh : P.length + Sparse.getBuckets n w < 2 ^ 63) (hlow : P.length * w < 2 ^ 64) :
    ∃ s, Sparse.ofValues w n multi P = ok s ∧
      (∀ rest, sparseC.load (sparseC.ser s ++ rest) = ok (s, rest)) ∧
      sparseC.size s = 1 + bitVectorC.size s.high + intVecC.size s.low ∧
      Codec2.sparseWF s := by
  obtain ⟨s, h1, _, hwf⟩ := Codec2.ofValues_sparseWF w n multi P hw1 hw hn hm hsorted hbound hhigh hlow
  exact ⟨s, h1, fun rest => Codec2.sparseC_lawful.roundtrip s rest hwf, Codec2.sparseC_size s, hwf⟩

/-- `WMCore` -/
theorem wavelet_matrix_core_roundtrip (V : List Nat) (hlen : V.length < 2 ^ 63) (rest : Elems) :
    wmCoreC.load (wmCoreC.ser (WMCore.ofValues V) ++ rest) = ok (WMCore.ofValues V, rest) ∧
    wmCoreC.size (WMCore.ofValues V) =
      1 + ((WMCore.ofValues V).levels.toList.map bitVectorC.size).sum ∧
    Codec2.wmCoreWF (WMCore.ofValues V) :=
  have hwf := Codec2.ofValues_wmCoreWF V hlen
  ⟨Codec2.wmCoreC_lawful.roundtrip _ rest hwf, Codec2.wmCoreC_size _, hwf⟩

/-- `WaveletMatrix` -/
theorem wavelet_matrix_roundtrip (V : List Nat) (hV : ∀ v, v ∈ V → v < 2 ^ 64) (hlen : V.length < 2 ^ 63)
    (hfirst : (V.foldl max 0 + 1) * 64 < 2 ^ 64) (rest : Elems) :
    wmC.load (wmC.ser (WM.ofValues V) ++ rest) = ok (WM.ofValues V, rest) ∧
    wmC.size (WM.ofValues V) =
      1 + wmCoreC.size (WM.ofValues V).data + intVecC.size (WM.ofValues V).first ∧
    Codec2.wmWF (WM.ofValues V) :=
  have hwf := Codec2.ofValues_wmWF V hV hlen hfirst
  ⟨Codec2.wmC_lawful.roundtrip _ rest hwf, Codec2.wmC_size _, hwf⟩

/-- `RLVector`, both modes: the vector converted (`From<RLBuilder>`) from the builder reached by **any accepted
history** of `try_set` / `set_len` / `set_bit` calls on an empty builder (`callArgsOk`: arguments are `usize`s) -/
theorem run_length_vector_roundtrip (m : Mode) (calls : List RL.BCall) (hc : ∀ c ∈ calls, RL.callArgsOk c)
    (b : RLBuilder) (hb : RL.runBCalls m calls {} = ok b) (v : RL) (hv : RL.ofBuilder m b = ok v)
    (hsize : 128 * v.samples.len < 2 ^ 64) (rest : Elems) :
    (rlC m).load ((rlC m).ser v ++ rest) = ok (v, rest) ∧
    (rlC m).size v = 10 + v.samples.data.data.size + v.data.data.data.size ∧
    Codec2.rlWF m v :=
  have hwf := Codec2.build_rlWF m calls hc b hb v hv hsize
  ⟨(Codec2.rlC_lawful m).roundtrip v rest hwf, Codec2.rlC_size_words m v, hwf⟩

/-- `hsize` stated on the builder: each block takes 256 data bits and two samples, the final `flush` adds at
most one block -/
theorem run_length_vector_size_condition (m : Mode) (b : RLBuilder) (v : RL) (hv : RL.ofBuilder m b = ok v)
    (hsize : 256 * (b.samples.size + 1) < 2 ^ 64) : 128 * v.samples.len < 2 ^ 64 :=
  Codec2.ofBuilder_size m hv hsize

/-- the four composite types together (this replaces the former `composite_structures_roundtrip_partial`):
**every** value satisfying the invariant of its type, any continuation, both modes for the run-length vector -/
theorem composite_structures_roundtrip (m : Mode) (s : Sparse) (c : WMCore) (w : WM) (v : RL)
    (hs : Codec2.sparseWF s) (hc : Codec2.wmCoreWF c) (hw : Codec2.wmWF w) (hv : Codec2.rlWF m v)
    (rest : Elems) :
    sparseC.load (sparseC.ser s ++ rest) = ok (s, rest) ∧
    wmCoreC.load (wmCoreC.ser c ++ rest) = ok (c, rest) ∧
    wmC.load (wmC.ser w ++ rest) = ok (w, rest) ∧
    (rlC m).load ((rlC m).ser v ++ rest) = ok (v, rest) :=
  ⟨Codec2.sparseC_lawful.roundtrip s rest hs, Codec2.wmCoreC_lawful.roundtrip c rest hc,
    Codec2.wmC_lawful.roundtrip w rest hw, (Codec2.rlC_lawful m).roundtrip v rest hv⟩

/-- … and for the builder outputs, under the hypotheses of the four builder-level theorems -/
theorem built_composite_structures_roundtrip (m : Mode) (w n : Nat) (multi : Bool) (P : List Nat)
    (hw1 : 1 ≤ w) (hw : w ≤ 63) (hn : n < 2 ^ 64) (hm : P.length < 2 ^ 63)
    (hsorted : if multi then sortedLe P = true else sortedStrict P = true) (hbound : ∀ p ∈ P, p < n)
    (hhigh : P.length + Sparse.getBuckets n w < 2 ^ 63) (hlow : P.length * w < 2 ^ 64)
    (V : List Nat) (hV : ∀ v, v ∈ V → v < 2 ^ 64) (hlen : V.length < 2 ^ 63)
    (hfirst : (V.foldl max 0 + 1) * 64 < 2 ^ 64)
    (calls : List RL.BCall) (hc : ∀ c ∈ calls, RL.callArgsOk c)
    (b : RLBuilder) (hb : RL.runBCalls m calls {} = ok b) (v : RL) (hv : RL.ofBuilder m b = ok v)
    (hsize : 128 * v.samples.len < 2 ^ 64) (rest : Elems) :
    (∃ s, Sparse.ofValues w n multi P = ok s ∧ sparseC.load (sparseC.ser s ++ rest) = ok (s, rest)) ∧
    wmCoreC.load (wmCoreC.ser (WMCore.ofValues V) ++ rest) = ok (WMCore.ofValues V, rest) ∧
    wmC.load (wmC.ser (WM.ofValues V) ++ rest) = ok (WM.ofValues V, rest) ∧
    (rlC m).load ((rlC m).ser v ++ rest) = ok (v, rest) := by
  obtain ⟨s, h1, h2, _⟩ := sparse_vector_roundtrip w n multi P hw1 hw hn hm hsorted hbound hhigh hlow
  exact ⟨⟨s, h1, h2 rest⟩, (wavelet_matrix_core_roundtrip V hlen rest).1,
    (wavelet_matrix_roundtrip V hV hlen hfirst rest).1,
    (run_length_vector_roundtrip m calls hc b hb v hv hsize rest).1⟩

/-! ### what the loaders return on an arbitrary accepted file

`c.load es = ok (x, rest)` for **any** element list `es` — not a serialization of anything known.  See the header
for the summary; `LoadWF.…Ld` are the checks of the loaders. -/

/-- the loader checks are implied by the serialization invariants (the converse fails: see the examples) -/
theorem load_checks_weaker_than_invariants (m : Mode) :
    (∀ v, rawVecWF v → LoadWF.rawVecLd v) ∧ (∀ v, intVecWF v → LoadWF.intVecLd v) ∧
    (∀ s, selSupWF s → LoadWF.selSupLd s) ∧ (∀ b, bitVectorWF b → LoadWF.bitVectorLd b) ∧
    (∀ s, Codec2.sparseWF s → LoadWF.sparseLd s) ∧ (∀ c, Codec2.wmCoreWF c → LoadWF.wmCoreLd c) ∧
    (∀ w, Codec2.wmWF w → LoadWF.wmLd w) ∧ (∀ v, Codec2.rlWFg m v → LoadWF.rlLd m v) :=
  ⟨fun _ => LoadWF.rawVecLd_of_wf, fun _ => LoadWF.intVecLd_of_wf, fun _ => LoadWF.selSupLd_of_wf,
    fun _ => LoadWF.bitVectorLd_of_wf, fun _ => LoadWF.sparseLd_of_wf, fun _ => LoadWF.wmCoreLd_of_wf,
    fun _ => LoadWF.wmLd_of_wf, fun _ => LoadWF.rlLd_of_wfg⟩

/-- **the checks of the loaders suffice for the codec law** (round trip with any continuation; every strict
prefix refused with `eof`): `bytes_roundtrip_exact`, `back_to_back`, `sequence_of_lawful_is_lawful`,
`option_roundtrip` and the truncation theorems of C14 apply to every value passing them -/
theorem loaded_values_obey_codec_law (m : Mode) :
    LawfulP IsEof rawVecC LoadWF.rawVecLd ∧ LawfulP IsEof intVecC LoadWF.intVecLd ∧
    LawfulP IsEof rankSupC rankSupWF ∧ LawfulP IsEof selSupC LoadWF.selSupLd ∧
    LawfulP IsEof bitVectorC LoadWF.bitVectorLd ∧ LawfulP IsEof sparseC LoadWF.sparseLd ∧
    LawfulP IsEof wmCoreC LoadWF.wmCoreLd ∧ LawfulP IsEof wmC LoadWF.wmLd ∧
    LawfulP IsEof (rlC m) (LoadWF.rlLd m) :=
  ⟨LoadWF.rawVecC_lawful_ld, LoadWF.intVecC_lawful_ld, rankSupC_lawfulEof, LoadWF.selSupC_lawful_ld,
    LoadWF.bitVectorC_lawful_ld, LoadWF.sparseC_lawful_ld, LoadWF.wmCoreC_lawful_ld, LoadWF.wmC_lawful_ld,
    LoadWF.rlC_lawful_ld m⟩

/-- `RawVector`: (i), (ii) and the checks, for every accepted file -/
theorem loaded_value_reserializes_raw_vector (es rest : Elems) (v : RawVec)
    (h : rawVecC.load es = ok (v, rest)) :
    es = rawVecC.ser v ++ rest ∧ (∀ rest', rawVecC.load (rawVecC.ser v ++ rest') = ok (v, rest')) ∧
    LoadWF.rawVecLd v :=
  have ⟨e, l⟩ := LoadWF.rawVecC_load_inv h
  ⟨e, fun r => (LoadWF.rawVecC_lawful_ld.loads v l).1 r, l⟩

/-- `IntVector` -/
theorem loaded_value_reserializes_int_vector (es rest : Elems) (v : IntVec)
    (h : intVecC.load es = ok (v, rest)) :
    es = intVecC.ser v ++ rest ∧ (∀ rest', intVecC.load (intVecC.ser v ++ rest') = ok (v, rest')) ∧
    LoadWF.intVecLd v :=
  have ⟨e, l⟩ := LoadWF.intVecC_load_inv h
  ⟨e, fun r => (LoadWF.intVecC_lawful_ld.loads v l).1 r, l⟩

/-- `RankSupport` and `SelectSupport` (as stand-alone structures) -/
theorem loaded_value_reserializes_supports (es rest : Elems) :
    (∀ s, rankSupC.load es = ok (s, rest) →
      es = rankSupC.ser s ++ rest ∧ (∀ rest', rankSupC.load (rankSupC.ser s ++ rest') = ok (s, rest'))) ∧
    (∀ s, selSupC.load es = ok (s, rest) →
      es = selSupC.ser s ++ rest ∧ (∀ rest', selSupC.load (selSupC.ser s ++ rest') = ok (s, rest')) ∧
      LoadWF.selSupLd s) :=
  ⟨fun s h => have ⟨e, l⟩ := LoadWF.rankSupC_load_inv h; ⟨e, fun r => (rankSupC_lawfulEof.loads s l).1 r⟩,
   fun s h => have ⟨e, l⟩ := LoadWF.selSupC_load_inv h
     ⟨e, fun r => (LoadWF.selSupC_lawful_ld.loads s l).1 r, l⟩⟩

/-- `RLVector`, both modes: (i) and (ii) hold exactly — the sample indexes are not stored, and reloading rebuilds
the same ones from the same stored samples -/
theorem loaded_value_reserializes_run_length_vector (m : Mode) (es rest : Elems) (v : RL)
    (h : (rlC m).load es = ok (v, rest)) :
    es = (rlC m).ser v ++ rest ∧ (∀ rest', (rlC m).load ((rlC m).ser v ++ rest') = ok (v, rest')) ∧
    LoadWF.rlLd m v :=
  have ⟨e, l⟩ := LoadWF.rlC_load_inv m h
  ⟨e, fun r => ((LoadWF.rlC_lawful_ld m).loads v l).1 r, l⟩

/-- for the exact codecs the checks characterise the loadable values: `…Ld x` iff some file loads to `x` -/
theorem loadable_values_characterised (m : Mode) :
    (∀ v, LoadWF.rawVecLd v ↔ ∃ es r, rawVecC.load es = ok (v, r)) ∧
    (∀ v, LoadWF.intVecLd v ↔ ∃ es r, intVecC.load es = ok (v, r)) ∧
    (∀ s, LoadWF.selSupLd s ↔ ∃ es r, selSupC.load es = ok (s, r)) ∧
    (∀ v, LoadWF.rlLd m v ↔ ∃ es r, (rlC m).load es = ok (v, r)) :=
  ⟨fun v => ⟨fun l => ⟨_, [], (LoadWF.rawVecC_lawful_ld.loads v l).1 []⟩,
      fun ⟨_, _, h⟩ => (LoadWF.rawVecC_load_inv h).2⟩,
   fun v => ⟨fun l => ⟨_, [], (LoadWF.intVecC_lawful_ld.loads v l).1 []⟩,
      fun ⟨_, _, h⟩ => (LoadWF.intVecC_load_inv h).2⟩,
   fun s => ⟨fun l => ⟨_, [], (LoadWF.selSupC_lawful_ld.loads s l).1 []⟩,
      fun ⟨_, _, h⟩ => (LoadWF.selSupC_load_inv h).2⟩,
   fun v => ⟨fun l => ⟨_, [], ((LoadWF.rlC_lawful_ld m).loads v l).1 []⟩,
      fun ⟨_, _, h⟩ => (LoadWF.rlC_load_inv m h).2⟩⟩

/-- `BitVector` with any supports: the file is the serialization of the returned value **up to the length
prefixes of the three options** (`n1 n2 n3`, arbitrary non-zero words for present supports — `Option<T>::load`
does not compare them with anything); it has the length of the serialization, and for a file shorter than 2^64
elements the value passes all checks again, so (ii) holds -/
theorem loaded_value_reserializes_bit_vector (es rest : Elems) (b : BitVector)
    (h : bitVectorC.load es = ok (b, rest)) (hl : es.length < 2 ^ 64) :
    (∃ n1 n2 n3 : Word, es = LoadWF.bitVectorRaw b n1 n2 n3 ++ rest) ∧
    es.length = bitVectorC.size b + rest.length ∧
    (∀ rest', bitVectorC.load (bitVectorC.ser b ++ rest') = ok (b, rest')) ∧ LoadWF.bitVectorLd b := by
  obtain ⟨n1, n2, n3, e, l⟩ := LoadWF.bitVectorC_load_inv h
  have hlen : es.length = bitVectorC.size b + rest.length := by
    rw [e, List.length_append, LoadWF.bitVectorRaw_length]; rfl
  have hld := l (by unfold Codec.size at hlen; omega)
  exact ⟨⟨n1, n2, n3, e⟩, hlen, fun r => (LoadWF.bitVectorC_lawful_ld.loads b hld).1 r, hld⟩

/-- … with the true sizes as prefixes the raw form **is** the serialization -/
theorem bit_vector_file_canonical_form (b : BitVector) :
    LoadWF.bitVectorRaw b (LoadWF.optLen rankSupC b.rank) (LoadWF.optLen selSupC b.select)
      (LoadWF.optLen selSupC b.selectZero) = bitVectorC.ser b :=
  LoadWF.bitVectorRaw_canon b

/-- (i) is false for `bitVectorC`: a present rank support (of an empty vector) announced as 5 elements long is
accepted; the value serializes with the true size 1 -/
theorem bit_vector_load_not_exact :
    bitVectorC.load [0, 0, 0, 5, 0, 0, 0] = ok (⟨0, ⟨0, #[]⟩, some ⟨#[]⟩, none, none⟩, []) ∧
    bitVectorC.ser ⟨0, ⟨0, #[]⟩, some ⟨#[]⟩, none, none⟩ = [0, 0, 0, 1, 0, 0, 0] := by decide

/-- `SparseVector`, files shorter than 2^64 elements: what was read is the universe size, a bitvector `h0` in raw
form, the low parts; the returned `high` is `h0` with both select supports enabled.  If every support that had to
be built agrees with the stored counter (`CountOk h0`, needed only when a support is absent from the file) the value
passes all checks again and (ii) holds.  If the file carried both supports, `high = h0` and the file has the length
of the serialization (it is the serialization up to the option prefixes). -/
theorem loaded_value_reserializes_sparse_vector (es rest : Elems) (s : Sparse)
    (h : sparseC.load es = ok (s, rest)) (hl : es.length < 2 ^ 64) :
    ∃ (h0 : BitVector) (n1 n2 n3 : Word),
      es = BitVec.ofNat 64 s.len :: (LoadWF.bitVectorRaw h0 n1 n2 n3 ++ intVecC.ser s.low) ++ rest ∧
      s.high = h0.enableSelect.enableSelectZero ∧ LoadWF.bitVectorLd h0 ∧
      (((h0.select = none ∨ h0.selectZero = none) → LoadWF.CountOk h0) →
        LoadWF.sparseLd s ∧ ∀ rest', sparseC.load (sparseC.ser s ++ rest') = ok (s, rest')) ∧
      (h0.select.isSome → h0.selectZero.isSome →
        s.high = h0 ∧ es.length = sparseC.size s + rest.length) := by
  obtain ⟨h0, n1, n2, n3, e, hh, hld, hc⟩ := LoadWF.sparseC_loaded h hl
  refine ⟨h0, n1, n2, n3, e, hh, hld, fun c => ⟨hc c, fun r => (LoadWF.sparseC_lawful_ld.loads s (hc c)).1 r⟩,
    fun h1 h2 => ?_⟩
  have e1 : s.high = h0 := by
    rw [hh, SupportProofs.enableSelect_of_some h1, SupportProofs.enableSelectZero_of_some h2]
  refine ⟨e1, ?_⟩
  have hsz := Codec2.sparseC_size s
  rw [e1] at hsz
  rw [e]
  unfold Codec.size
  simp only [List.length_cons, List.length_append, LoadWF.bitVectorRaw_length]
  omega

/-- (i) is false for `sparseC` also in length: a 12-element file without select supports loads to a value whose
serialization has 38 elements.  And (ii) is **false in the model** when a built support disagrees with the stored
counter: here `ones = 0` is stored with one bit set, and re-loading the serialization of the returned value fails
with `InvalidData` (on this file the model is not a transcription of the code — see the header) -/
theorem sparse_load_not_exact_and_reload_can_fail_in_model :
    (do let (s, r) ← sparseC.load [2, 0, 1, 1, 1, 0, 0, 0, 0, 1, 0, 0]
        return (r, s.high.ones, s.high.data.bits.count true, (sparseC.ser s).length,
          decide (sparseC.load (sparseC.ser s) = fault (.err .invalid)))) = ok ([], 0, 1, 38, true) := by
  decide +kernel

/-- `WMCore`: the width, then `width` bitvectors `L` in raw form; the returned levels are those with all three
supports enabled; (ii) under the same agreement condition, level by level -/
theorem loaded_value_reserializes_wavelet_matrix_core (es rest : Elems) (c : WMCore)
    (h : wmCoreC.load es = ok (c, rest)) (hl : es.length < 2 ^ 64) :
    ∃ (L : List BitVector) (ns : List (Word × Word × Word)),
      es = BitVec.ofNat 64 c.width :: LoadWF.levelsRaw L ns ++ rest ∧
      c.levels.toList = L.map BitVector.enableAll ∧ L.length = c.width ∧ ns.length = c.width ∧
      (∀ b, b ∈ L → LoadWF.bitVectorLd b) ∧
      ((∀ b, b ∈ L → (b.select = none ∨ b.selectZero = none) → LoadWF.CountOk b) →
        LoadWF.wmCoreLd c ∧ ∀ rest', wmCoreC.load (wmCoreC.ser c ++ rest') = ok (c, rest')) := by
  obtain ⟨L, ns, e, hlv, hL, hns, hld, hc⟩ := LoadWF.wmCoreC_loaded h hl
  exact ⟨L, ns, e, hlv, hL, hns, hld,
    fun c' => ⟨hc c', fun r => (LoadWF.wmCoreC_lawful_ld.loads c (hc c')).1 r⟩⟩

/-- `WaveletMatrix`: the length, the core as above, the `first` array (exact) -/
theorem loaded_value_reserializes_wavelet_matrix (es rest : Elems) (w : WM)
    (h : wmC.load es = ok (w, rest)) (hl : es.length < 2 ^ 64) :
    ∃ (L : List BitVector) (ns : List (Word × Word × Word)),
      es = BitVec.ofNat 64 w.len ::
        (BitVec.ofNat 64 w.data.width :: LoadWF.levelsRaw L ns ++ intVecC.ser w.first) ++ rest ∧
      w.data.levels.toList = L.map BitVector.enableAll ∧ L.length = w.data.width ∧ ns.length = w.data.width ∧
      (∀ b, b ∈ L → LoadWF.bitVectorLd b) ∧
      ((∀ b, b ∈ L → (b.select = none ∨ b.selectZero = none) → LoadWF.CountOk b) →
        LoadWF.wmLd w ∧ ∀ rest', wmC.load (wmC.ser w ++ rest') = ok (w, rest')) := by
  obtain ⟨L, ns, e, hlv, hL, hns, hld, hc⟩ := LoadWF.wmC_loaded h hl
  exact ⟨L, ns, e, hlv, hL, hns, hld,
    fun c' => ⟨hc c', fun r => (LoadWF.wmC_lawful_ld.loads w (hc c')).1 r⟩⟩

/-- the same failure of (ii) in the model for a core: one level, `ones = 0` stored with one bit set -/
theorem wavelet_matrix_core_reload_can_fail_in_model :
    (do let (c, r) ← wmCoreC.load [1, 0, 1, 1, 1, 0, 0, 0]
        return (r, (wmCoreC.ser c).length, decide (wmCoreC.load (wmCoreC.ser c) = fault (.err .invalid)))) =
      ok ([], 37, true) := by decide +kernel

/-! **What is not proven** (no `_partial` theorem remains in this file).  The round-trip statements of the first
sections quantify over the invariants, not over "every value of the Lean type": a `Sparse` / `WM` / `RL` record that
violates even the loader checks (e.g. an `RL` whose `rankIndex` field is not the index of its samples) is not a value
the library can hold, and does not round-trip.  For **loaded** values the section above replaces the former gap:
every value a loader returns satisfies `LoadWF.…Ld` of its type (for the composite types with supports absent from
the file: provided `CountOk`), which is all the codec law needs; it does **not** satisfy the full representation
invariant in general, and no theorem says so: the clauses listed under "Trusted on load" in the header are checked
by no loader, exactly as in the Rust code (examples below).  Not proven either: anything about *queries* on a loaded
value that violates those clauses (C06 is about serialization; files that follow the format document are the
subject of C07), and nothing is claimed about the Rust code on files whose `ones` counter disagrees with the data
when supports are built on load — there the model does not follow the code (header). -/

/-! ### non-vacuity: concrete values meeting the hypotheses -/

example : (RawVec.ofBits [true, false, true]).WF ∧ (RawVec.ofBits [true, false, true]).len < 2 ^ 62 := by
  decide
example : (#[1, 2, 3] : Array Word).size < 2 ^ 64 := by decide
example : ([1, 2, 3, 4, 5, 6, 7, 8, 9] : List UInt8).length < 2 ^ 64 := by decide
example : (IntVec.ofList 5 [1, 2, 3]).WF := by decide
/-- one fully concrete round trip (a three-bit vector, followed by two more elements) -/
example : rawVecC.load (rawVecC.ser (RawVec.ofBits [true, false, true]) ++ [7, 9]) =
    ok (RawVec.ofBits [true, false, true], [7, 9]) := by decide

/-- **trusted on load**, one accepting run per clause: a file the raw-vector loader accepts although the value
violates the representation invariant (bit 3 set in a 3-bit vector) — it satisfies the loader checks, and (i),
(ii) hold of it -/
example : rawVecC.load [3, 1, 13] = ok (⟨3, #[13]⟩, []) ∧ ¬ (⟨3, #[13]⟩ : RawVec).WF ∧
    LoadWF.rawVecLd ⟨3, #[13]⟩ ∧ rawVecC.ser ⟨3, #[13]⟩ = [3, 1, 13] := by
  refine ⟨by decide, by decide, ⟨by decide, by decide⟩, by decide⟩
/-- integer vectors of width 0 (five items) and width 100 (no item) are accepted -/
example : intVecC.load [5, 0, 0, 0] = ok (⟨5, 0, ⟨0, #[]⟩⟩, []) ∧ ¬ (⟨5, 0, ⟨0, #[]⟩⟩ : IntVec).WF ∧
    intVecC.load [0, 100, 0, 0] = ok (⟨0, 100, ⟨0, #[]⟩⟩, []) ∧ ¬ (⟨0, 100, ⟨0, #[]⟩⟩ : IntVec).WF := by decide
/-- a bitvector whose `ones` counter (0) is not the number of set bits (1) is accepted -/
example : bitVectorC.load [0, 1, 1, 1, 0, 0, 0] = ok (⟨0, ⟨1, #[1]⟩, none, none, none⟩, []) ∧
    ¬ LoadWF.CountOk ⟨0, ⟨1, #[1]⟩, none, none, none⟩ := by
  refine ⟨by decide, fun h => absurd h.1 (by decide)⟩

/-- a sparse vector meeting `sparseWF`: 3 of 10 positions set, low width 2 (set mode), and a multiset -/
example : ∃ s, Sparse.ofValues 2 10 false [0, 5, 9] = ok s ∧ Codec2.sparseWF s :=
  have ⟨s, h, _, hwf⟩ := Codec2.ofValues_sparseWF 2 10 false [0, 5, 9] (by decide) (by decide) (by decide)
    (by decide) (by decide) (by decide) (by decide) (by decide)
  ⟨s, h, hwf⟩
example : ∃ s, Sparse.ofValues 2 10 true [0, 5, 5, 9] = ok s ∧ Codec2.sparseWF s :=
  have ⟨s, h, _, hwf⟩ := Codec2.ofValues_sparseWF 2 10 true [0, 5, 5, 9] (by decide) (by decide) (by decide)
    (by decide) (by decide) (by decide) (by decide) (by decide)
  ⟨s, h, hwf⟩
/-- … its 41-element file followed by two more elements, loaded by evaluation -/
example : (do let s ← Sparse.ofValues 2 10 false [0, 5, 9]
              let (s', r) ← sparseC.load (sparseC.ser s ++ [7, 9])
              return (decide (s' = s), r, sparseC.size s)) = ok (true, [7, 9], 41) := by decide +kernel

/-- a wavelet matrix (and its core) meeting `wmWF` / `wmCoreWF`: four values of width 2 -/
example : Codec2.wmWF (WM.ofValues [3, 1, 0, 2]) ∧ Codec2.wmCoreWF (WMCore.ofValues [3, 1, 0, 2]) :=
  ⟨Codec2.ofValues_wmWF _ (by decide) (by decide) (by decide), Codec2.ofValues_wmCoreWF _ (by decide)⟩
/-- … the 77-element file of the core followed by two more elements, loaded by evaluation; the whole matrix by
the theorem (`start_offsets` sorts by well-founded recursion, which the kernel does not evaluate) -/
example : wmCoreC.load (wmCoreC.ser (WMCore.ofValues [3, 1, 0, 2]) ++ [7, 9]) =
    ok (WMCore.ofValues [3, 1, 0, 2], [7, 9]) ∧ wmCoreC.size (WMCore.ofValues [3, 1, 0, 2]) = 77 := by
  decide +kernel
example : wmC.load (wmC.ser (WM.ofValues [3, 1, 0, 2]) ++ [7, 9]) = ok (WM.ofValues [3, 1, 0, 2], [7, 9]) :=
  (wavelet_matrix_roundtrip [3, 1, 0, 2] (by decide) (by decide) (by decide) [7, 9]).1

/-- a run-length vector meeting `rlWF`, both modes: the accepted history `set_len(10); try_set(10, 5)` — all
hypotheses of `run_length_vector_roundtrip` hold of it -/
example (m : Mode) : ∃ b v, (∀ c ∈ [RL.BCall.setLen 10, .set 10 5], RL.callArgsOk c) ∧
    RL.runBCalls m [.setLen 10, .set 10 5] {} = ok b ∧ RL.ofBuilder m b = ok v ∧
    128 * v.samples.len < 2 ^ 64 ∧ Codec2.rlWF m v := by
  have hc : ∀ c ∈ [RL.BCall.setLen 10, .set 10 5], RL.callArgsOk c := by
    intro c hc; simp at hc; rcases hc with rfl | rfl <;> simp [RL.callArgsOk, U64]
  have h : (do let b ← RL.runBCalls m [.setLen 10, .set 10 5] {}
               let v ← RL.ofBuilder m b
               return decide (128 * v.samples.len < 2 ^ 64)) = ok true := by cases m <;> decide +kernel
  obtain ⟨b, hb, h⟩ := bind_eq_ok h
  obtain ⟨v, hv, h⟩ := bind_eq_ok h
  have hs : 128 * v.samples.len < 2 ^ 64 := by
    injection h with h; exact of_decide_eq_true h
  exact ⟨b, v, hc, hb, hv, hs, Codec2.build_rlWF m _ hc b hb v hv hs⟩
/-- … its 12-element file followed by two more elements, loaded by evaluation in both modes -/
example : ∀ m : Mode, (do let b ← RL.runBCalls m [.setLen 10, .set 10 5] {}
                          let v ← RL.ofBuilder m b
                          let (v', r) ← (rlC m).load ((rlC m).ser v ++ [7, 9])
                          return (decide (v' = v), r, (rlC m).size v)) = ok (true, [7, 9], 12) := by
  intro m; cases m <;> decide +kernel

/-! **Field order as extracted from the source on this run.**  `Generated/SerShape.lean` lists, for every
`impl Serialize` of the library, the statements of `serialize_header` / `serialize_body` in order, the `T::load(reader)?`
calls of `load` in order and the summands of `size_in_elements` (tools/ser_shape.py).  The obligations below pin them to
the layouts the codecs of the model implement (the `*_roundtrip` / `*_size` theorems above are about those codecs), so a
field that is written but not read back, read in another order, or left out of the size stops a named `rfl`. -/
theorem serializers_as_extracted_from_source :
    Generated.allSerShapes.length = 14 ∧
    (Generated.serShape_RawVector.header = [.field "len", .fieldHeader "data"] ∧
     Generated.serShape_RawVector.body = [.fieldBody "data"] ∧
     Generated.serShape_RawVector.loads = ["usize", "<Vec<u64> as Serialize>"]) ∧
    (Generated.serShape_IntVector.header = [.field "len", .field "width", .fieldHeader "data"] ∧
     Generated.serShape_IntVector.body = [.fieldBody "data"] ∧
     Generated.serShape_IntVector.loads = ["usize", "usize", "RawVector"]) ∧
    (Generated.serShape_BitVector.header = [.field "ones"] ∧
     Generated.serShape_BitVector.body = [.field "data", .field "rank", .field "select", .field "select_zero"] ∧
     Generated.serShape_BitVector.loads = ["usize", "RawVector", "Option::<RankSupport>",
       "Option::<SelectSupport<Identity>>", "Option::<SelectSupport<Complement>>"]) ∧
    (Generated.serShape_SelectSupport_T.body = [.field "samples", .field "long", .field "short"] ∧
     Generated.serShape_SelectSupport_T.loads = ["IntVector", "IntVector", "IntVector"]) ∧
    (Generated.serShape_SparseVector.header = [.field "len"] ∧
     Generated.serShape_SparseVector.body = [.field "high", .field "low"] ∧
     Generated.serShape_SparseVector.loads = ["usize", "BitVector", "IntVector"]) ∧
    (Generated.serShape_RLVector.header = [.field "len", .field "ones"] ∧
     Generated.serShape_RLVector.body = [.field "samples", .field "data"] ∧
     Generated.serShape_RLVector.loads = ["usize", "usize", "IntVector", "IntVector"]) ∧
    (Generated.serShape_WaveletMatrix.header = [.field "len"] ∧
     Generated.serShape_WaveletMatrix.body = [.field "data", .field "first"] ∧
     Generated.serShape_WaveletMatrix.loads = ["usize", "WMCore", "IntVector"]) ∧
    (Generated.serShape_WMCore.body = [.localValue "width", .each "levels"] ∧
     Generated.serShape_WMCore.loads = ["usize", "BitVector"]) :=
  ⟨rfl, ⟨rfl, rfl, rfl⟩, ⟨rfl, rfl, rfl⟩, ⟨rfl, rfl, rfl⟩, ⟨rfl, rfl⟩, ⟨rfl, rfl, rfl⟩, ⟨rfl, rfl, rfl⟩, ⟨rfl, rfl, rfl⟩,
   ⟨rfl, rfl⟩⟩

/-- … and the sizes: every field that is written is counted (the `size = elements written` theorems above are about the
codecs; this pins the code's own `size_in_elements` bodies to the same field lists) -/
theorem sizes_as_extracted_from_source :
    Generated.serShape_RawVector.size = ["self.len.size_in_elements()", "self.data.size_in_elements()"] ∧
    Generated.serShape_IntVector.size =
      ["self.len.size_in_elements()", "self.width.size_in_elements()", "self.data.size_in_elements()"] ∧
    Generated.serShape_BitVector.size = ["self.ones.size_in_elements()", "self.data.size_in_elements()",
      "self.rank.size_in_elements()", "self.select.size_in_elements()", "self.select_zero.size_in_elements()"] ∧
    Generated.serShape_SelectSupport_T.size = ["self.samples.size_in_elements()", "self.long.size_in_elements()",
      "self.short.size_in_elements()"] ∧
    Generated.serShape_SparseVector.size = ["self.len.size_in_elements()", "self.high.size_in_elements()",
      "self.low.size_in_elements()"] ∧
    Generated.serShape_RLVector.size = ["self.len.size_in_elements()", "self.ones.size_in_elements()",
      "self.samples.size_in_elements()", "self.data.size_in_elements()"] ∧
    Generated.serShape_Vec_V.size = ["1", "self.len() * V::elements()"] ∧
    Generated.serShape_Vec_u8.size = ["1", "bits::bytes_to_words(self.len())"] :=
  ⟨rfl, rfl, rfl, rfl, rfl, rfl, rfl, rfl⟩

/-- the codecs of the model write the fields in that order (definitional) -/
theorem model_codecs_follow_the_extracted_order (s : Sparse) (c : WMCore) :
    sparseC.ser s = usizeC.ser s.len ++ (bitVectorC.ser s.high ++ intVecC.ser s.low) ∧
    wmCoreC.ser c = usizeC.ser c.width ++ c.levels.toList.flatMap bitVectorC.ser :=
  ⟨rfl, rfl⟩

/-! **The `load` functions as translated from the source on this run** (`Generated/FnsLoad.lean`): `RawVector`, `IntVector`,
`RankSupport`, `SelectSupport`, `BitVector`, `SparseVector` and `WaveletMatrix` — statement by statement with the reader
threaded through: the order of the `T::load(reader)?` calls, every sanity check (`bits_to_words(len) != data.len()`,
`len * width != data.len()`, the three block-count checks of the bitvector, the two of the sparse vector, …), the error
kind of each, the `enable_select` / `enable_select_zero` after a sparse load.  On every stream on which the arithmetic
the loaders perform on header words does not leave `usize` — the predicates `RawOk`, `IntOk`, `SelOk`, `BvOk`,
`SparseOk`, `WmOk` of `Proofs/GenEqLoad.lean`, which mirror the loaders; true of every stream whose words are below 2^32
and, for the bitvector, of every stream shorter than 2^57 words — the code as it is NOW is the `load` of the model codec
that the round-trip, size and prefix theorems above and in C14 are about.  Outside these predicates the real loaders
panic (checked build) or accept after wrap-around (release build) where the `Nat` model rejects:
`GenEq.raw_load_ne_overflow` (`[2^64-1, 0]`), `GenEq.int_load_ne_overflow` (`[2^32, 2^32, 0, 0]`), … — observation O11 in
DESIGN.md; no stream the library writes or the document describes is of that kind. -/
theorem loaders_as_translated_from_source (m : Mode) (es : Elems) :
    (GenEq.RawOk es → Generated.gen_RawVector_load m es = rawVecC.load es) ∧
    (GenEq.IntOk es → Generated.gen_IntVector_load m es = intVecC.load es) ∧
    Generated.gen_RankSupport_load m es = rankSupC.load es ∧
    (GenEq.SelOk es → Generated.gen_SelectSupport_load m es = selSupC.load es) ∧
    (GenEq.BvOk es → Generated.gen_BitVector_load m es = bitVectorC.load es) ∧
    (GenEq.SparseOk es → Generated.gen_SparseVector_load m es = sparseC.load es) ∧
    (GenEq.WmOk es → Generated.gen_WaveletMatrix_load m es = wmC.load es) :=
  ⟨GenEq.raw_load_eq m es, GenEq.int_load_eq m es, GenEq.rank_load_eq m es, GenEq.sel_load_eq m es,
   GenEq.bv_load_eq m es, GenEq.sparse_load_eq m es, GenEq.wm_load_eq m es⟩

/-- … in particular on every stream of words below 2^32 (no further condition except, for the sparse vector, a low
width of at most 64 in what is read) -/
theorem loaders_on_small_streams (m : Mode) (es : Elems) (h : ∀ w ∈ es, w.toNat < 2 ^ 32) :
    Generated.gen_RawVector_load m es = rawVecC.load es ∧
    Generated.gen_IntVector_load m es = intVecC.load es ∧
    Generated.gen_SelectSupport_load m es = selSupC.load es ∧
    Generated.gen_BitVector_load m es = bitVectorC.load es ∧
    (GenEq.SparseWidthOk es → Generated.gen_SparseVector_load m es = sparseC.load es) ∧
    Generated.gen_WaveletMatrix_load m es = wmC.load es :=
  ⟨GenEq.raw_load_eq_small m es h, GenEq.int_load_eq_small m es h, GenEq.sel_load_eq_small m es h,
   GenEq.bv_load_eq_small m es h, fun hw => GenEq.sparse_load_eq_small m es h hw, GenEq.wm_load_eq_small m es h⟩

/-- the translated `IntVector::load` on what the library writes for `[5, 8191, 77]` at width 13, followed by a marker
word: the vector and the rest of the stream -/
example : Generated.gen_IntVector_load .checked (intVecC.ser (IntVec.ofList 13 [5, 8191, 77]) ++ [99])
    = ok (IntVec.ofList 13 [5, 8191, 77], [99]) := by decide +kernel

/-! **The loaders of the run-length vector and of the wavelet-matrix core as translated from the source on this run**
(`Generated/FnsLoad2.lean`, `FnsLoad3.lean`).  `RLVector::load`: the four `T::load(reader)?`, the block-count check, the
three sample indexes rebuilt over `(0..sample_blocks).map(|block| samples.get(..))`, `len - ones`; `WMCore::load`: the width
check, the `for _ in 0..width` loop loading one bitvector per level with the reader threaded through the loop state and the
first level's length remembered in `len: Option<usize>`, `init_support`.  On every stream on which the header arithmetic
stays inside `usize` (`RlOk`, `WmCoreOk`, in the style of the predicates above) the code as it is NOW is the `load` of the
model codec; for the run-length vector in the checked build additionally "no stored sample has more ones than bits"
(`RlNoUnderflow`, true of every library-written file) — without it both sides still panic, with different panic KINDS,
because the model evaluates the zero column before the other two indexes and the source after (observation O16,
`GenEq.rl_load_ne_order`; `rl_load_eq_iff` gives the exact condition). -/
theorem rl_and_wm_core_loaders_as_translated_from_source (m : Mode) (es : Elems) :
    (GenEq.RlOk es → GenEq.RlNoUnderflow es → Generated.gen_RLVector_load m es = (rlC m).load es) ∧
    (GenEq.RlOk es → Generated.gen_RLVector_load .wrapping es = (rlC .wrapping).load es) ∧
    (GenEq.WmCoreOk es → Generated.gen_WMCore_load m es = wmCoreC.load es) ∧
    ((∀ w ∈ es, w.toNat < 2 ^ 32) → Generated.gen_WMCore_load m es = wmCoreC.load es) :=
  ⟨GenEq.rl_load_eq_of_noUnderflow m es, GenEq.rl_load_eq_wrapping es, GenEq.wm_core_load_eq m es,
   GenEq.wm_core_load_eq_small m es⟩

/-- `WaveletMatrix::load` with NOTHING left to the model: translated over the translated `WMCore::load` (which is translated
over the translated `BitVector::load`, …) — the whole loader stack of the wavelet matrix, as the source has it on this
run, is the `load` of the model codec on every stream whose header arithmetic stays inside `usize` -/
theorem wavelet_matrix_loader_stack_as_translated_from_source (m : Mode) (es : Elems) :
    (GenEq.WmFullOk es → Generated.gen_WaveletMatrix_load_full m es = wmC.load es) ∧
    ((∀ w ∈ es, w.toNat < 2 ^ 32) → Generated.gen_WaveletMatrix_load_full m es = wmC.load es) :=
  ⟨GenEq.wm_load_full_eq m es, GenEq.wm_load_full_eq_small m es⟩

/-- `BitVector::load` with nothing left to the model either: the generic `impl<V: Serialize> Serialize for Option<V> { fn load }`
translated at the two instances `BitVector::load` uses (the length prefix is only tested against 0 — by the code and by the
model's `optionC` alike), and `BitVector::load` translated over them.  Equal to the model codec on every stream whose
header arithmetic stays inside `usize`, which now includes the arithmetic INSIDE the select supports
(`GenEq.BvSelOk`; `bv_load_full_ne_select` shows that `BvOk` alone does not suffice: observation O18). -/
theorem bit_vector_loader_stack_as_translated_from_source (m : Mode) (es : Elems) :
    Generated.gen_Option_RankSupport_load m es = (optionC rankSupC).load es ∧
    (GenEq.OptSelOk es → Generated.gen_Option_SelectSupport_load m es = (optionC selSupC).load es) ∧
    (GenEq.BvOk es → GenEq.BvSelOk es → Generated.gen_BitVector_load_full m es = bitVectorC.load es) ∧
    ((∀ w ∈ es, w.toNat < 2 ^ 32) → Generated.gen_BitVector_load_full m es = bitVectorC.load es) :=
  ⟨GenEq.opt_rank_load_eq m es, GenEq.opt_sel_load_eq m es, GenEq.bv_load_full_eq m es, GenEq.bv_load_full_eq_small m es⟩

/-- … and the composite loaders over the FULL bitvector loader: `SparseVector::load`, `WMCore::load` and
`WaveletMatrix::load` with every inner `T::load` a translated function (`Generated/FnsLoad5.lean`) -/
theorem composite_loader_stacks_as_translated_from_source (m : Mode) (es : Elems) :
    (GenEq.SparseFullOk es → Generated.gen_SparseVector_load_full m es = sparseC.load es) ∧
    (GenEq.WmCoreFullOk es → Generated.gen_WMCore_load_full m es = wmCoreC.load es) ∧
    (GenEq.WmFull2Ok es → Generated.gen_WaveletMatrix_load_full2 m es = wmC.load es) ∧
    ((∀ w ∈ es, w.toNat < 2 ^ 32) →
        Generated.gen_WMCore_load_full m es = wmCoreC.load es ∧ Generated.gen_WaveletMatrix_load_full2 m es = wmC.load es ∧
        (GenEq.SparseWidthOk es → Generated.gen_SparseVector_load_full m es = sparseC.load es)) :=
  ⟨GenEq.sparse_load_full_eq m es, GenEq.wm_core_load_full_eq m es, GenEq.wm_load_full2_eq m es,
   fun h => ⟨GenEq.wm_core_load_full_eq_small m es h, GenEq.wm_load_full2_eq_small m es h,
     fun hw => GenEq.sparse_load_full_eq_small m es h hw⟩⟩

end Sds.C06
