/-
C06 — Serialization round trip is the identity and sizes are exact.

Property theorems only (helper lemmas live in Proofs/).  The model (Model/Ser.lean): a file is a list of
8-byte elements (`Elems = List Word`), `toBytes` / `ofBytes` give the little-endian byte view, and a
`Codec α` is the pair (`ser`, `load`) of a `Serialize` impl.  In the model
  `size_in_elements(x)` **is** `c.size x = (c.ser x).length`, and `size_in_bytes(x) = 8 * size_in_elements(x)`.

Quantifiers: every value `x` of each serializable type — integers and pairs, vectors of them, byte vectors,
strings, optional values, raw / integer vectors, rank and select supports, plain bitvectors with any of the
8 subsets of support structures — that satisfies the type's representation invariant (stated in each
theorem: lengths fit a `usize`, the raw vector has exactly ⌈len/64⌉ words with a zero tail, …; these hold
of every value the API can produce), and every continuation `rest` of the stream (so: every concatenation).
The codecs have no arithmetic mode: no `Mode` parameter occurs in serialization.

Each `…_roundtrip` theorem says: loading what was serialized, followed by anything, yields **the same value**
(Lean equality, hence it answers every query as `x` does — `loaded_bit_vector_answers_as_original` spells
that out) and **exactly the rest** of the stream (so exactly `size_in_elements(x)` elements = `8 ×` that many
bytes are consumed), together with the size predicted from the parameters alone.

**Partial** (see the end of the file): the sparse vector, the wavelet-matrix core and the wavelet matrix are
proven for every value their builders produce (under file-size side conditions); the run-length vector `rlC`
is covered by correspondence testing only.
-/
import Sds.Proofs.Codec
import Sds.Proofs.Supports
import Sds.Proofs.Mapper
import Sds.Proofs.Glue2

namespace Sds.C06
open Sds Outcome

/-! ### integers, pairs, vectors of them -/

theorem u64_roundtrip (x : Word) (rest : Elems) :
    u64C.load (u64C.ser x ++ rest) = ok (x, rest) ∧ u64C.size x = 1 :=
  ⟨u64C_lawful.roundtrip x rest trivial, rfl⟩

theorem usize_roundtrip (n : Nat) (hn : n < 2 ^ 64) (rest : Elems) :
    usizeC.load (usizeC.ser n ++ rest) = ok (n, rest) ∧ usizeC.size n = 1 :=
  ⟨usizeC_lawful.roundtrip n rest hn, rfl⟩

theorem pair_roundtrip (p : Word × Word) (rest : Elems) :
    pairC.load (pairC.ser p ++ rest) = ok (p, rest) ∧ pairC.size p = 2 :=
  ⟨pairC_lawful.roundtrip p rest trivial, rfl⟩

/-- `Vec<u64>` (also `Vec<usize>`): length prefix + items -/
theorem vec_u64_roundtrip (a : Array Word) (ha : a.size < 2 ^ 64) (rest : Elems) :
    vecU64C.load (vecU64C.ser a ++ rest) = ok (a, rest) ∧ vecU64C.size a = a.size + 1 :=
  ⟨vecU64C_lawful.roundtrip a rest ha, vecU64C_ser_length a⟩

/-- `Vec<(u64, u64)>` -/
theorem vec_pair_roundtrip (a : Array (Word × Word)) (ha : a.size < 2 ^ 64) (rest : Elems) :
    vecPairC.load (vecPairC.ser a ++ rest) = ok (a, rest) ∧ vecPairC.size a = a.size * 2 + 1 :=
  ⟨vecPairC_lawful.roundtrip a rest ha, vecPairC_ser_length a⟩

/-! ### byte vectors and strings (zero padded to whole elements) -/

theorem bytes_roundtrip (bs : List UInt8) (hb : bs.length < 2 ^ 64) (rest : Elems) :
    bytesC.load (bytesC.ser bs ++ rest) = ok (bs, rest) ∧ bytesC.size bs = (bs.length + 7) / 8 + 1 :=
  ⟨bytesC_lawful.roundtrip bs rest hb, bytesC_ser_length bs⟩

/-- `String`: `valid` abstracts `String::from_utf8`; every `String` value is valid UTF-8 -/
theorem string_roundtrip (valid : List UInt8 → Bool) (bs : List UInt8) (hb : bs.length < 2 ^ 64)
    (hv : valid bs = true) (rest : Elems) :
    (stringC valid).load ((stringC valid).ser bs ++ rest) = ok (bs, rest) ∧
    (stringC valid).size bs = (bs.length + 7) / 8 + 1 :=
  ⟨(stringC_lawful valid).roundtrip bs rest ⟨hb, hv⟩, bytesC_ser_length bs⟩

/-! ### `Option<T>` for every `T` whose codec obeys the law -/

/-- an absent value takes one element; a present one its own size plus the length prefix -/
theorem option_roundtrip {α} (c : Codec α) (W : α → Prop) (hc : Lawful c W) (o : Option α)
    (ho : match o with
      | none => True
      | some x => W x ∧ 0 < (c.ser x).length ∧ (c.ser x).length < 2 ^ 64) (rest : Elems) :
    (optionC c).load ((optionC c).ser o ++ rest) = ok (o, rest) ∧
    (optionC c).size o = (match o with | none => 1 | some x => c.size x + 1) := by
  refine ⟨(optionC_lawful hc).roundtrip o rest ho, ?_⟩
  cases o <;> simp [Codec.size, optionC]

/-! ### raw and integer vectors -/

/-- `RawVector`: header (`len`, word count) + ⌈len/64⌉ words -/
theorem raw_vector_roundtrip (v : RawVec) (hv : v.WF) (hlen : v.len < 2 ^ 64) (rest : Elems) :
    rawVecC.load (rawVecC.ser v ++ rest) = ok (v, rest) ∧ rawVecC.size v = (v.len + 63) / 64 + 2 := by
  refine ⟨rawVecC_lawful.roundtrip v rest ⟨hv, hlen⟩, ?_⟩
  show (rawVecC.ser v).length = _
  rw [rawVecC_ser_length, hv.size_eq]

/-- `IntVector`: `len`, `width`, then the raw vector of `len * width` bits -/
theorem int_vector_roundtrip (v : IntVec) (hv : v.WF) (hlen : v.len < 2 ^ 64) (hw : v.width < 2 ^ 64)
    (hbits : v.data.len < 2 ^ 64) (rest : Elems) :
    intVecC.load (intVecC.ser v ++ rest) = ok (v, rest) ∧
    intVecC.size v = (v.len * v.width + 63) / 64 + 4 := by
  refine ⟨intVecC_lawful.roundtrip v rest ⟨hv, hlen, hw, hbits⟩, ?_⟩
  show (intVecC.ser v).length = _
  rw [intVecC_ser_length, hv.2.2.2.size_eq, hv.2.2.1]

/-! ### support structures and the plain bitvector -/

theorem rank_support_roundtrip (s : RankSup) (hs : s.samples.size < 2 ^ 64) (rest : Elems) :
    rankSupC.load (rankSupC.ser s ++ rest) = ok (s, rest) ∧ rankSupC.size s = 1 + 2 * s.samples.size :=
  ⟨rankSupC_lawful.roundtrip s rest hs, SupportProofs.rankSupC_ser_length s⟩

theorem select_support_roundtrip (s : SelSup) (hs : selSupWF s) (rest : Elems) :
    selSupC.load (selSupC.ser s ++ rest) = ok (s, rest) ∧
    selSupC.size s = (4 + s.samples.data.data.size) + (4 + s.long.data.data.size) +
      (4 + s.short.data.data.size) :=
  ⟨selSupC_lawful.roundtrip s rest hs, SupportProofs.selSupC_ser_length s⟩

/-- `BitVector` with **any** subset of the three supports present (`bitVectorWF` covers the 8 combinations at
once: it constrains a support only when it is present); the size is the `ones` counter plus the parts -/
theorem bit_vector_roundtrip (b : BitVector) (hb : bitVectorWF b) (rest : Elems) :
    bitVectorC.load (bitVectorC.ser b ++ rest) = ok (b, rest) ∧
    bitVectorC.size b = 1 + rawVecC.size b.data + (optionC rankSupC).size b.rank +
      (optionC selSupC).size b.select + (optionC selSupC).size b.selectZero := by
  refine ⟨bitVectorC_lawful.roundtrip b rest hb, ?_⟩
  simp only [Codec.size, bitVectorC, List.length_cons, List.length_append]
  omega

/-- … in particular every bitvector the API builds — `BitVector::from(raw)` followed by any subset of
`enable_rank` / `enable_select` / `enable_select_zero` — round-trips, with the subset intact -/
theorem built_bit_vector_roundtrip (v : RawVec) (hv : v.WF) (hlen : v.len < 2 ^ 62) (r s z : Bool)
    (rest : Elems) :
    bitVectorWF (SupportProofs.enableSome r s z (BitVector.ofRaw v)) ∧
    bitVectorC.load (bitVectorC.ser (SupportProofs.enableSome r s z (BitVector.ofRaw v)) ++ rest) =
      ok (SupportProofs.enableSome r s z (BitVector.ofRaw v), rest) :=
  ⟨SupportProofs.ofRaw_enableSome_wf hv hlen r s z, SupportProofs.ofRaw_enableSome_roundtrip hv hlen r s z rest⟩

/-- whatever `load` returns on a serialization is the original, so it answers every query as the original -/
theorem loaded_bit_vector_answers_as_original (b : BitVector) (hb : bitVectorWF b) (rest : Elems)
    (b' : BitVector) (rest' : Elems) (h : bitVectorC.load (bitVectorC.ser b ++ rest) = ok (b', rest')) :
    b' = b ∧ rest' = rest ∧
    (∀ i, b'.get i = b.get i) ∧ (∀ i, b'.rankQ i = b.rankQ i) ∧
    (∀ (m : Mode) i, b'.rankZeroQ m i = b.rankZeroQ m i) ∧
    (∀ (m : Mode) k, b'.selectQ m k = b.selectQ m k) ∧
    (∀ (m : Mode) k, b'.selectZeroQ m k = b.selectZeroQ m k) := by
  rw [bitVectorC_lawful.roundtrip b rest hb] at h
  cases h
  exact ⟨rfl, rfl, fun _ => rfl, fun _ => rfl, fun _ _ => rfl, fun _ _ => rfl, fun _ _ => rfl⟩

/-! ### bytes: exactly `8 × size_in_elements` are written and consumed; back-to-back structures -/

/-- every codec above obeys the law used by the generic statements below -/
theorem all_codecs_lawful (valid : List UInt8 → Bool) :
    Lawful u64C (fun _ => True) ∧ Lawful usizeC (fun n => n < 2 ^ 64) ∧ Lawful pairC (fun _ => True) ∧
    Lawful vecU64C (fun a => a.size < 2 ^ 64) ∧ Lawful vecPairC (fun a => a.size < 2 ^ 64) ∧
    Lawful bytesC (fun bs => bs.length < 2 ^ 64) ∧
    Lawful (stringC valid) (fun bs => bs.length < 2 ^ 64 ∧ valid bs = true) ∧
    Lawful rawVecC (fun v => v.WF ∧ v.len < 2 ^ 64) ∧
    Lawful intVecC (fun v => v.WF ∧ v.len < 2 ^ 64 ∧ v.width < 2 ^ 64 ∧ v.data.len < 2 ^ 64) ∧
    Lawful rankSupC (fun s => s.samples.size < 2 ^ 64) ∧ Lawful selSupC selSupWF ∧
    Lawful bitVectorC bitVectorWF :=
  ⟨u64C_lawful, usizeC_lawful, pairC_lawful, vecU64C_lawful, vecPairC_lawful, bytesC_lawful,
    stringC_lawful valid, rawVecC_lawful, intVecC_lawful, rankSupC_lawful, selSupC_lawful, bitVectorC_lawful⟩

/-- **bytes written = `8 * size_in_elements` = `size_in_bytes`**, for every codec and every value -/
theorem bytes_written_exact {α} (c : Codec α) (x : α) :
    (toBytes (c.ser x)).length = 8 * c.size x :=
  length_toBytes (c.ser x)

/-- **byte-level round trip**: the bytes of a serialization followed by the bytes of anything load back to the
value and leave exactly what followed — so exactly `8 * size_in_elements(x)` bytes are consumed -/
theorem bytes_roundtrip_exact {α} (c : Codec α) (W : α → Prop) (hc : Lawful c W) (x : α) (hx : W x)
    (rest : Elems) :
    c.load (ofBytes (toBytes (c.ser x) ++ toBytes rest)) = ok (x, rest) ∧
    (toBytes (c.ser x) ++ toBytes rest).length = 8 * c.size x + 8 * rest.length := by
  have e : toBytes (c.ser x) ++ toBytes rest = toBytes (c.ser x ++ rest) := by
    simp [toBytes, List.flatMap_append]
  refine ⟨by rw [e]; exact roundtrip_bytes hc x hx rest, ?_⟩
  rw [List.length_append, length_toBytes, length_toBytes]; rfl

/-- **structures written back to back load back in sequence**: the first load leaves exactly the
serialization of the second (and what follows), and loading both returns both values and the rest -/
theorem back_to_back {α β} (c1 : Codec α) (c2 : Codec β) (W1 : α → Prop) (W2 : β → Prop)
    (h1 : Lawful c1 W1) (h2 : Lawful c2 W2) (x : α) (y : β) (rest : Elems) (hx : W1 x) (hy : W2 y) :
    c1.load (c1.ser x ++ c2.ser y ++ rest) = ok (x, c2.ser y ++ rest) ∧
    (do let (a, r1) ← c1.load (c1.ser x ++ c2.ser y ++ rest)
        let (b, r2) ← c2.load r1
        pure ((a, b), r2)) = ok ((x, y), rest) :=
  ⟨load_concat h1 c2 x y rest hx, load_concat_seq h1 h2 x y rest hx hy⟩

/-- … and any number of them: two lawful codecs in sequence form a lawful codec (of the pair), so the
statement extends to every finite sequence of structures in one stream by iteration -/
theorem sequence_of_lawful_is_lawful {α β} (c1 : Codec α) (c2 : Codec β) (W1 : α → Prop) (W2 : β → Prop)
    (h1 : Lawful c1 W1) (h2 : Lawful c2 W2) :
    Lawful (seqC c1 c2) (fun p => W1 p.1 ∧ W2 p.2) ∧
    (∀ p, (seqC c1 c2).size p = c1.size p.1 + c2.size p.2) :=
  ⟨seqC_lawful h1 h2, fun p => by simp [Codec.size, seqC]⟩

/-! ### composite structures: sparse vector, wavelet-matrix core, wavelet matrix

Proven for every value the builders produce, under the side condition that the parts fit a `usize`-addressed
file (their length fields are `usize`): `hhigh`, `hlow` for the sparse vector, `hfirst` for the `first` array of
the wavelet matrix (`max V < 2^58`). -/

/-- `SparseVector` (set or multiset mode, every admissible low width) -/
theorem sparse_vector_roundtrip (w n : Nat) (multi : Bool) (P : List Nat) (hw1 : 1 ≤ w)
    (hw : w ≤ 63) (hn : n < 2 ^ 64) (hm : P.length < 2 ^ 63)
    (hsorted : if multi then sortedLe P = true else sortedStrict P = true) (hbound : ∀ p ∈ P, p < n)
    (hhigh : P.length + Sparse.getBuckets n w < 2 ^ 63) (hlow : P.length * w < 2 ^ 64) :
    ∃ s, Sparse.ofValues w n multi P = ok s ∧
      (∀ rest, sparseC.load (sparseC.ser s ++ rest) = ok (s, rest)) ∧
      sparseC.size s = 1 + bitVectorC.size s.high + intVecC.size s.low := by
  obtain ⟨s, raw, h1, he, hwf, hrl, hones, hhi, hlwf⟩ :=
    ofValues_shape w n multi P hw1 hw hn hm hsorted hbound
  obtain ⟨s', h1', _, hload⟩ :=
    sparse_load_any_supports w n multi P hw1 hw hn hm hsorted hbound hhigh hlow
  rw [h1] at h1'; cases h1'
  refine ⟨s, h1, fun rest => ?_, ?_⟩
  · have h := hload true true rest
    have e : SupportProofs.enableSome false true true (BitVector.ofRaw s.high.data) = s.high := by
      have hd : s.high.data = raw := by rw [hhi]; simp; rfl
      rw [hd, hhi]; rfl
    rw [e, ← he.len_eq] at h
    exact h
  · simp [Codec.size, sparseC]; omega

/-- `WMCore` -/
theorem wavelet_matrix_core_roundtrip (V : List Nat) (hlen : V.length < 2 ^ 63) (rest : Elems) :
    wmCoreC.load (wmCoreC.ser (WMCore.ofValues V) ++ rest) = ok (WMCore.ofValues V, rest) ∧
    wmCoreC.size (WMCore.ofValues V) =
      1 + ((WMCore.ofValues V).levels.toList.map bitVectorC.size).sum := by
  refine ⟨wmCore_roundtrip V hlen rest, ?_⟩
  simp only [Codec.size, wmCoreC, List.length_cons, List.length_flatMap]
  show _ = 1 + (List.map (fun a => (bitVectorC.ser a).length) _).sum
  omega

/-- `WaveletMatrix` -/
theorem wavelet_matrix_roundtrip (V : List Nat) (hV : ∀ v, v ∈ V → v < 2 ^ 64) (hlen : V.length < 2 ^ 63)
    (hfirst : (V.foldl max 0 + 1) * 64 < 2 ^ 64) (rest : Elems) :
    wmC.load (wmC.ser (WM.ofValues V) ++ rest) = ok (WM.ofValues V, rest) ∧
    wmC.size (WM.ofValues V) =
      1 + wmCoreC.size (WM.ofValues V).data + intVecC.size (WM.ofValues V).first := by
  refine ⟨wm_roundtrip V hV hlen hfirst rest, ?_⟩
  simp [Codec.size, wmC]; omega

/-! **Partial.**  Full intended statement: for `c ∈ {sparseC, rlC, wmCoreC, wmC}` and every value `x` of the
type, `c.load (c.ser x ++ rest) = ok (x, rest)`, with `c.size x` the sum of the sizes of the parts.
Proven: the three theorems above, bundled below.
Missing (covered by correspondence testing only):
 * the run-length vector `rlC`: its loader is modelled and exercised by the driver; no round-trip theorem;
 * values of the three proven types that satisfy the loader's checks but are not produced by the builders
   (the theorems quantify over builder inputs, not over an invariant on `Sparse` / `WM`). -/
theorem composite_structures_roundtrip_partial (w n : Nat) (multi : Bool) (P : List Nat) (hw1 : 1 ≤ w)
    (hw : w ≤ 63) (hn : n < 2 ^ 64) (hm : P.length < 2 ^ 63)
    (hsorted : if multi then sortedLe P = true else sortedStrict P = true) (hbound : ∀ p ∈ P, p < n)
    (hhigh : P.length + Sparse.getBuckets n w < 2 ^ 63) (hlow : P.length * w < 2 ^ 64)
    (V : List Nat) (hV : ∀ v, v ∈ V → v < 2 ^ 64) (hlen : V.length < 2 ^ 63)
    (hfirst : (V.foldl max 0 + 1) * 64 < 2 ^ 64) (rest : Elems) :
    (∃ s, Sparse.ofValues w n multi P = ok s ∧ sparseC.load (sparseC.ser s ++ rest) = ok (s, rest)) ∧
    wmCoreC.load (wmCoreC.ser (WMCore.ofValues V) ++ rest) = ok (WMCore.ofValues V, rest) ∧
    wmC.load (wmC.ser (WM.ofValues V) ++ rest) = ok (WM.ofValues V, rest) := by
  obtain ⟨s, h1, h2, _⟩ := sparse_vector_roundtrip w n multi P hw1 hw hn hm hsorted hbound hhigh hlow
  exact ⟨⟨s, h1, h2 rest⟩, wmCore_roundtrip V hlen rest, wm_roundtrip V hV hlen hfirst rest⟩

/-! ### non-vacuity: concrete values meeting the hypotheses -/

example : (RawVec.ofBits [true, false, true]).WF ∧ (RawVec.ofBits [true, false, true]).len < 2 ^ 62 := by
  decide
example : (#[1, 2, 3] : Array Word).size < 2 ^ 64 := by decide
example : ([1, 2, 3, 4, 5, 6, 7, 8, 9] : List UInt8).length < 2 ^ 64 := by decide
example : (IntVec.ofList 5 [1, 2, 3]).WF := by decide
/-- one fully concrete round trip (a three-bit vector, followed by two more elements) -/
example : rawVecC.load (rawVecC.ser (RawVec.ofBits [true, false, true]) ++ [7, 9]) =
    ok (RawVec.ofBits [true, false, true], [7, 9]) := by decide

end Sds.C06
