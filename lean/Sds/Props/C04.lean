/-
C04 — Wavelet matrix reproduces the vector and answers rank/select-type queries.

Property theorems only (helper lemmas live in Proofs/).  Quantifiers: every list `V` of `u64` values
(`∀ v ∈ V, v < 2^64`: this covers all five source item types, which are converted to `u64` before the
builder runs) of length `< 2^63` (0 and 1 included), every index / rank / value argument — also indices
past the end, ranks `≥ 2^63`, values absent from `V` and values `≥ 2^width` — and both arithmetic modes.

**Unconditional.**  `Proofs/WM` proves the queries from two interface hypotheses: `hbv` (a plain bitvector
built from a bit list with all supports enabled answers get / rank / rank_zero / select / select_zero by
the list specification) and `hiv` (`IntVector::from` + `pack` keeps its content).  Both are discharged in
`Proofs/Glue2` (`levelOk_ofBits`, `intVec_ofList_pack_get`) from the plain-bitvector and integer-vector
theorems, so nothing is assumed below: `WM.ofValues_ok_full`.

List-level vocabulary used in the statements (definitions in Proofs/WM.lean, all elementary):
  `widthOf V = bit_len(max V)` (1 for the empty vector);
  `selectVal V v r` = index of the `r`-th occurrence of `v` in `V` — characterised in `select_exact`;
  `firstPos w V v = |{u ∈ V : key u < key v}|`, where the key is the reversal of the low `w` bits —
    for `v < 2^w` this is `|{u ∈ V : reverse_bits u < reverse_bits v}|` (`first_is_reverse_bits_count`);
  `S w V w` = the sequence stored (conceptually) below the last level.
-/
import Sds.Proofs.Glue2
import Sds.Proofs.GenEqIdx
import Sds.Proofs.GenEqLoop4
import Sds.Proofs.GenEqWM
import Sds.Proofs.GenEqConstr5
import Sds.Proofs.GenEqWMNew

namespace Sds.C04
open Sds Outcome

/-! ### shape: length and minimal width -/

/-- the matrix has the length of `V`, and its width is the least width `≥ 1` in which every value fits
(so between 1 and 64) -/
theorem length_and_minimal_width (V : List Nat) (hV : ∀ v, v ∈ V → v < 2 ^ 64) (hlen : V.length < 2 ^ 63) :
    (WM.ofValues V).len = V.length ∧
    (WM.ofValues V).data.len = ok V.length ∧
    (WM.ofValues V).data.width = bitLen (BitVec.ofNat 64 (V.foldl max 0)) ∧
    1 ≤ (WM.ofValues V).data.width ∧ (WM.ofValues V).data.width ≤ 64 ∧
    (∀ v, v ∈ V → v < 2 ^ (WM.ofValues V).data.width) ∧
    (∀ w', 1 ≤ w' → (∀ v, v ∈ V → v < 2 ^ w') → (WM.ofValues V).data.width ≤ w') := by
  have hw := WM.ofValues_ok_full V hV hlen
  have hwd : (WM.ofValues V).data.width = widthOf V := hw.core.width_eq
  rw [hwd]
  exact ⟨hw.len, len_ok hw.core, rfl, widthOf_pos V, widthOf_le V, lt_two_pow_widthOf V hV,
    fun w' h1 h2 => widthOf_minimal V w' h1 h2⟩

/-! ### the queries -/

/-- `get(i) = V[i]` for every index in range … -/
theorem get_exact (V : List Nat) (hV : ∀ v, v ∈ V → v < 2 ^ 64) (hlen : V.length < 2 ^ 63)
    (m : Mode) (i : Nat) (hi : i < V.length) : (WM.ofValues V).get m i = ok V[i] :=
  get_ok_wm (WM.ofValues_ok_full V hV hlen) m i hi

/-- … and past the end it is the documented `unwrap` panic of the library (never a wrong value) -/
theorem get_out_of_range (V : List Nat) (hV : ∀ v, v ∈ V → v < 2 ^ 64) (hlen : V.length < 2 ^ 63)
    (m : Mode) (i : Nat) (hi : V.length ≤ i) : (WM.ofValues V).get m i = fault (.panic .unwrap) :=
  get_panic (WM.ofValues_ok_full V hV hlen) m i hi

/-- `rank(i, v)` = occurrences of `v` before `i`, for every index (clamped past the end) and every value -/
theorem rank_exact (V : List Nat) (hV : ∀ v, v ∈ V → v < 2 ^ 64) (hlen : V.length < 2 ^ 63)
    (m : Mode) (i v : Nat) : (WM.ofValues V).rank m i v = ok ((V.take i).count v) :=
  rank_ok_wm (WM.ofValues_ok_full V hV hlen) m i v

/-- `select(r, v)` = index of the `r`-th occurrence of `v`, or `None` when `v` has at most `r` occurrences,
for every rank (also `r ≥ 2^63`, where `start + rank` would overflow) and every value -/
theorem select_exact (V : List Nat) (hV : ∀ v, v ∈ V → v < 2 ^ 64) (hlen : V.length < 2 ^ 63)
    (m : Mode) (r v : Nat) :
    (WM.ofValues V).select m r v = ok (selectVal V v r) ∧
    (∀ i, selectVal V v r = some i ↔ (V[i]? = some v ∧ (V.take i).count v = r)) ∧
    (selectVal V v r = none ↔ V.count v ≤ r) :=
  ⟨select_ok_wm (WM.ofValues_ok_full V hV hlen) m r v, fun i => selectVal_eq_some V v r i,
    selectVal_eq_none V v r⟩

/-- `inverse_select(i)` = `(rank of V[i] among its occurrences, V[i])`, `None` past the end -/
theorem inverse_select_exact (V : List Nat) (hV : ∀ v, v ∈ V → v < 2 ^ 64) (hlen : V.length < 2 ^ 63)
    (m : Mode) (i : Nat) :
    (WM.ofValues V).inverseSelect m i =
      ok (if h : i < V.length then some ((V.take i).count V[i], V[i]) else none) := by
  have hw := WM.ofValues_ok_full V hV hlen
  by_cases h : i < V.length
  · rw [dif_pos h]; exact inverseSelect_ok hw m i h
  · rw [dif_neg h]; exact inverseSelect_none hw m i (Nat.le_of_not_lt h)

/-- `contains(v)` for every value -/
theorem contains_exact (V : List Nat) (hV : ∀ v, v ∈ V → v < 2 ^ 64) (hlen : V.length < 2 ^ 63)
    (v : Nat) : (WM.ofValues V).contains v = ok (decide (v ∈ V)) :=
  contains_ok (WM.ofValues_ok_full V hV hlen) v

/-- `value_iter(v)` / `select_iter`: from state `r` (the next rank) the iterator yields
`(r, index of the r-th occurrence)` and moves to `r + 1`, and ends (for good) when there is none -/
theorem value_iter_exact (V : List Nat) (hV : ∀ v, v ∈ V → v < 2 ^ 64) (hlen : V.length < 2 ^ 63)
    (m : Mode) (v r : Nat) :
    (WM.ofValues V).valueIterNext m v r = ok (if r ≥ V.length then (none, r) else
      match selectVal V v r with
      | some idx => (some (r, idx), r + 1)
      | none => (none, V.length)) :=
  valueIterNext_ok (WM.ofValues_ok_full V hV hlen) m v r

/-- `predecessor(i, v)` (default method, starting rank of the returned value iterator): the rank of the
last occurrence of `v` at or before `i`, or `len` (empty iterator) when there is none — every `i`, also
`usize::MAX` -/
theorem predecessor_exact (V : List Nat) (hV : ∀ v, v ∈ V → v < 2 ^ 64) (hlen : V.length < 2 ^ 63)
    (m : Mode) (i v : Nat) :
    (WM.ofValues V).predecessor m i v =
      ok (if (V.take (i + 1)).count v > 0 then (V.take (i + 1)).count v - 1 else V.length) :=
  predecessor_ok (WM.ofValues_ok_full V hV hlen) m i v

/-- `successor(i, v)` (default method): the rank of the first occurrence of `v` at or after `i`, i.e. the
number of occurrences before `i` (the value iterator is empty from that rank on when there is none) -/
theorem successor_exact (V : List Nat) (hV : ∀ v, v ∈ V → v < 2 ^ 64) (hlen : V.length < 2 ^ 63)
    (m : Mode) (i v : Nat) : (WM.ofValues V).successor m i v = ok ((V.take i).count v) :=
  successor_ok (WM.ofValues_ok_full V hV hlen) m i v

/-- values that are absent — in particular all values outside the alphabet, `v ≥ 2^width` — have no
occurrences: `contains` is false, every `rank` is 0, every `select` is `None`, the value iterator is empty,
`predecessor` gives the empty iterator, `successor` rank 0 (where `select` is `None`) -/
theorem absent_values_have_no_occurrences (V : List Nat) (hV : ∀ v, v ∈ V → v < 2 ^ 64)
    (hlen : V.length < 2 ^ 63) (m : Mode) (v : Nat)
    (habs : v ∉ V ∨ v ≥ 2 ^ (WM.ofValues V).data.width) :
    (WM.ofValues V).contains v = ok false ∧
    (∀ i, (WM.ofValues V).rank m i v = ok 0) ∧
    (∀ r, (WM.ofValues V).select m r v = ok none) ∧
    (∀ r, ((WM.ofValues V).valueIterNext m v r).toOption.map (·.1) = some none) ∧
    (∀ i, (WM.ofValues V).predecessor m i v = ok V.length) ∧
    (∀ i, (WM.ofValues V).successor m i v = ok 0) := by
  have hw := WM.ofValues_ok_full V hV hlen
  have hnot : v ∉ V := by
    rcases habs with h | h
    · exact h
    · intro hm
      have := hw.core.bound v hm
      rw [hw.core.width_eq] at h
      omega
  have hc : ∀ L : List Nat, (∀ x, x ∈ L → x ∈ V) → L.count v = 0 :=
    fun L hL => List.count_eq_zero.mpr (fun h => hnot (hL v h))
  have hsel : ∀ r, selectVal V v r = none := fun r =>
    (selectVal_eq_none V v r).mpr (by rw [hc V (fun _ h => h)]; exact Nat.zero_le _)
  refine ⟨?_, ?_, ?_, ?_, ?_, ?_⟩
  · rw [contains_ok hw]; simp [hnot]
  · intro i; rw [rank_ok_wm hw, hc _ (fun _ h => List.mem_of_mem_take h)]
  · intro r; rw [select_ok_wm hw, hsel]
  · intro r
    rw [valueIterNext_ok hw, hsel]
    by_cases hr : r ≥ V.length <;> simp [hr, Outcome.toOption]
  · intro i
    rw [predecessor_ok hw, hc _ (fun _ h => List.mem_of_mem_take h)]; rfl
  · intro i; rw [successor_ok hw, hc _ (fun _ h => List.mem_of_mem_take h)]

/-! ### the core mapping -/

/-- `first`: for a value inside the alphabet the number of elements with a smaller key is the number of
elements whose 64-bit reversal is smaller -/
theorem first_is_reverse_bits_count (V : List Nat) (hV : ∀ v, v ∈ V → v < 2 ^ 64) (hlen : V.length < 2 ^ 63)
    (v : Nat) (hv : v < 2 ^ (WM.ofValues V).data.width) :
    firstPos (WM.ofValues V).data.width V v = V.countP (fun u => decide (rev64 u < rev64 v)) := by
  have hw := WM.ofValues_ok_full V hV hlen
  rw [hw.core.width_eq] at hv ⊢
  exact firstPos_eq_rev64 hw.core v hv

/-- **`map_down`** sends position `i` to the position of `V[i]` in the stable sort of `V` by reversed bit
representation: there is a list `L` (the sequence below the last level) that is a permutation of `V`, sorted
by `reverse_bits`, and `map_down(i) = (p, V[i])` where `L[p] = V[i]` and
`p = |{u ∈ V : reverse_bits u < reverse_bits V[i]}| + |{j < i : V[j] = V[i]}|` — smaller keys first, equal
elements in their original order (stability).  Past the end the answer is `None`. -/
theorem map_down_is_stable_sort_position (V : List Nat) (hV : ∀ v, v ∈ V → v < 2 ^ 64)
    (hlen : V.length < 2 ^ 63) (m : Mode) :
    ∃ L : List Nat, L.Perm V ∧ L.Pairwise (fun a b => rev64 a ≤ rev64 b) ∧
      (∀ i (hi : i < V.length),
        (WM.ofValues V).data.mapDown m i =
          ok (some (V.countP (fun u => decide (rev64 u < rev64 V[i])) + (V.take i).count V[i], V[i])) ∧
        L[V.countP (fun u => decide (rev64 u < rev64 V[i])) + (V.take i).count V[i]]? = some V[i]) ∧
      (∀ i, V.length ≤ i → (WM.ofValues V).data.mapDown m i = ok none) := by
  have hw := WM.ofValues_ok_full V hV hlen
  have hc := hw.core
  refine ⟨S (widthOf V) V (widthOf V), S_perm _ _ _,
    S_sorted_rev64 _ V hc.width_pos hc.width_le hc.bound, ?_, fun i hi => mapDown_none hc m i hi⟩
  intro i hi
  have h := mapDown_ok hc m i hi
  have hf := firstPos_eq_rev64 hc V[i] (hc.bound _ (List.getElem_mem hi))
  unfold finalPos at h
  rw [hf] at h
  exact h

/-- **`map_down_with(i, v)`**, every index (clamped) and every value: `first v` plus the number of
occurrences of `v` before `i`; only the low `width` bits of `v` are looked at -/
theorem map_down_with_exact (V : List Nat) (hV : ∀ v, v ∈ V → v < 2 ^ 64) (hlen : V.length < 2 ^ 63)
    (m : Mode) (i v : Nat) :
    (WM.ofValues V).data.mapDownWith m i v =
      ok (firstPos (WM.ofValues V).data.width V v +
          (V.take i).count (v % 2 ^ (WM.ofValues V).data.width)) ∧
    (WM.ofValues V).data.mapDownWith m i v =
      (WM.ofValues V).data.mapDownWith m i (v % 2 ^ (WM.ofValues V).data.width) := by
  have hw := WM.ofValues_ok_full V hV hlen
  rw [hw.core.width_eq]
  exact ⟨mapDownWith_ok' hw.core m i v, mapDownWith_mod hw.core m i v⟩

/-- **`map_up_with(p, v)`**, every position and every value, both modes, never a fault: `None` below
`first v`, and at `first v + r` the index of the `r`-th occurrence of `v` -/
theorem map_up_with_exact (V : List Nat) (hV : ∀ v, v ∈ V → v < 2 ^ 64) (hlen : V.length < 2 ^ 63)
    (m : Mode) (p v : Nat) :
    (WM.ofValues V).data.mapUpWith m p v =
      ok (if p < firstPos (WM.ofValues V).data.width V v then none
          else selectVal V (v % 2 ^ (WM.ofValues V).data.width)
                 (p - firstPos (WM.ofValues V).data.width V v)) := by
  have hw := WM.ofValues_ok_full V hV hlen
  rw [hw.core.width_eq]
  exact mapUpWith_total hw.core m p v

/-- **mapping up inverts mapping down**: from the position `map_down` returns for `i`, and from the one
`map_down_with(i, V[i])` returns, `map_up_with` comes back to `i` -/
theorem map_up_inverts_map_down (V : List Nat) (hV : ∀ v, v ∈ V → v < 2 ^ 64) (hlen : V.length < 2 ^ 63)
    (m : Mode) (i : Nat) (hi : i < V.length) :
    (∃ p, (WM.ofValues V).data.mapDown m i = ok (some (p, V[i])) ∧
      (WM.ofValues V).data.mapUpWith m p V[i] = ok (some i)) ∧
    ((WM.ofValues V).data.mapDownWith m i V[i] >>= fun d => (WM.ofValues V).data.mapUpWith m d V[i]) =
      ok (some i) := by
  have hw := WM.ofValues_ok_full V hV hlen
  have hc := hw.core
  have hv := hc.bound _ (List.getElem_mem hi)
  refine ⟨⟨_, (mapDown_ok hc m i hi).1, ?_⟩, mapUpWith_mapDownWith hc m i hi⟩
  unfold finalPos
  rw [mapUpWith_ok hc m _ _ hv]
  congr 1
  exact (selectVal_eq_some V V[i] _ i).mpr ⟨List.getElem?_eq_getElem hi, rfl⟩

/-! ### every structure satisfying the invariant (e.g. a loaded one) answers the same way

The theorems above are instances of theorems about any `w : WM` with `w.Ok V width` (the levels hold the bit
columns of `V` and `first` holds the start offsets); the builder establishes that invariant: -/

theorem builder_establishes_invariant (V : List Nat) (hV : ∀ v, v ∈ V → v < 2 ^ 64)
    (hlen : V.length < 2 ^ 63) : (WM.ofValues V).Ok V (bitLen (BitVec.ofNat 64 (V.foldl max 0))) :=
  WM.ofValues_ok_full V hV hlen

/-! ### defects of the code as first written (documentation; the `…Old` definitions model the code before
the `fix:` commits, the theorems above are about the repaired code) -/

/-- F3: the default `predecessor(usize::MAX, _)` overflowed `index + 1` in checked builds, on every
structure … -/
theorem F3_predecessor_old_panics (w : WM) (v : Nat) :
    WM.predecessorOld .checked w (2 ^ 64 - 1) v = fault (.panic .overflow) :=
  F3_predecessorOld_checked w v

/-- … where the repaired method (`saturating_add`) answers -/
theorem F3_predecessor_repaired (V : List Nat) (hV : ∀ v, v ∈ V → v < 2 ^ 64) (hlen : V.length < 2 ^ 63)
    (m : Mode) (v : Nat) :
    (WM.ofValues V).predecessor m (2 ^ 64 - 1) v = ok (if V.count v > 0 then V.count v - 1 else V.length) :=
  F3_predecessor_ok (WM.ofValues_ok_full V hV hlen) m v

/-- F4: `map_up_one` computed `index - zeros` unchecked, and `select` computed `start + rank` unchecked: on
`V = [0, 1]` the checked build panicked (the release build happened to answer `None`) … -/
theorem F4_old_code_panics :
    mapUpWithOld .checked (WMCore.ofValues [0, 1]) 0 1 = fault (.panic .overflow) ∧
    mapUpWithOld .wrapping (WMCore.ofValues [0, 1]) 0 1 = ok none ∧
    (WM.ofValues [0, 1]).selectOld .checked (2 ^ 64 - 1) 1 = fault (.panic .overflow) ∧
    (WM.ofValues [0, 1]).selectOld .wrapping (2 ^ 64 - 1) 1 = ok none :=
  ⟨F4_mapUpWith_checked, F4_mapUpWith_wrapping, F4_select_checked, F4_select_wrapping⟩

/-- … where the repaired code answers `None` in both builds -/
theorem F4_repaired :
    (WMCore.ofValues [0, 1]).mapUpWith .checked 0 1 = ok none ∧
    (WMCore.ofValues [0, 1]).mapUpWith .wrapping 0 1 = ok none ∧
    (WM.ofValues [0, 1]).select .checked (2 ^ 64 - 1) 1 = ok none ∧
    (WM.ofValues [0, 1]).select .wrapping (2 ^ 64 - 1) 1 = ok none :=
  ⟨F4_mapUpWith_repaired_checked, F4_mapUpWith_repaired_wrapping, F4_select_repaired_checked,
    F4_select_repaired_wrapping⟩

/-! ### non-vacuity: concrete vectors meeting the hypotheses (sparse alphabet with missing values, the empty
vector, a vector holding `u64::MAX`), and the reference answers on one of them -/

example : (∀ v, v ∈ [5, 0, 5, 9, 0] → v < 2 ^ 64) ∧ [5, 0, 5, 9, 0].length < 2 ^ 63 := by decide
example : (∀ v, v ∈ ([] : List Nat) → v < 2 ^ 64) ∧ ([] : List Nat).length < 2 ^ 63 := by decide
example : (∀ v, v ∈ [2 ^ 64 - 1, 0] → v < 2 ^ 64) ∧ [2 ^ 64 - 1, 0].length < 2 ^ 63 := by decide
example : (([5, 0, 5, 9, 0].take 3).count 5 = 2 ∧ selectVal [5, 0, 5, 9, 0] 5 1 = some 2 ∧
    selectVal [5, 0, 5, 9, 0] 5 2 = none ∧ selectVal [5, 0, 5, 9, 0] 7 0 = none ∧
    bitLen (BitVec.ofNat 64 ([5, 0, 5, 9, 0].foldl max 0)) = 4 ∧
    bitLen (BitVec.ofNat 64 (([] : List Nat).foldl max 0)) = 1) := by decide
/-- the hypothesis of `absent_values_have_no_occurrences` is met by a missing value and by one outside the
alphabet -/
example : (7 ∉ [5, 0, 5, 9, 0]) ∧ (16 ∉ [5, 0, 5, 9, 0]) := by decide

/-! **The level steps of `wm_core.rs` as translated from the source on this run** (`Generated/FnsIdx.lean`):
`bit_value`, `map_down_one`, `map_down_zero`, `map_up_one` (with the `checked_sub` of the repair of F4) and `map_up_zero`.
The code as it is NOW is the model function the theorems above are about; `map_down_one` adds in `usize`, which cannot
overflow on a level shorter than 2^64 bits (`zeros + rank ≤ len`). -/
theorem wm_level_steps_as_translated_from_source (m : Mode) (c : WMCore) (i l : Nat) :
    (l < c.width → c.width ≤ 64 → Generated.gen_WMCore_bit_value m c l = ok (BitVec.ofNat 64 (c.bitValue l))) ∧
    ((∀ b r, c.level l = ok b → b.rankQ i = ok r → b.countZeros + r < U64) →
      Generated.gen_WMCore_map_down_one m c i l = c.mapDownOne i l) ∧
    Generated.gen_WMCore_map_down_zero m c i l = c.mapDownZero m i l ∧
    Generated.gen_WMCore_map_up_one m c i l = c.mapUpOne m i l ∧
    Generated.gen_WMCore_map_up_zero m c i l = c.mapUpZero m i l :=
  ⟨fun h1 h2 => GenEq.wm_bit_value_eq m c l h1 h2, fun hs => GenEq.wm_map_down_one_eq_model m c i l hs,
   GenEq.wm_map_down_zero_eq m c i l, GenEq.wm_map_up_one_eq m c i l, GenEq.wm_map_up_zero_eq m c i l⟩

/-- the translated `map_up_one` below the zero count answers `None` (finding F4) instead of wrapping around -/
example : Generated.gen_WMCore_map_up_one .checked (WMCore.ofValues [0, 1]) 0 0 = ok none := by decide +kernel

/-! **The level loops of `wm_core.rs` as translated from the source on this run** (`Generated/FnsLoop.lean`): `map_down`,
`map_down_with`, `map_down_with_two_positions` (`for level in 0..width`) and `map_up_with` (`for level in
(0..width).rev()` with `?` inside).  Each `for` becomes `loopM` over a counter and the variables the body assigns; a `?` in
a branch makes the branch yield an `Option` that is matched after it.  On every core that encodes a vector (`Encodes`, the
predicate the construction provably establishes), for every index and value and both build modes, the code as it is NOW
is the model fold the theorems above are about — the bit test `value & bit_value(level) != 0` being the model's
`(value / 2^(width-1-level)) % 2 = 1` for every natural `value`, and the `u64` accumulation in `map_down` never
overflowing.  The two-position variant equals running `map_down_with` twice. -/
theorem wm_level_loops_as_translated_from_source {c : WMCore} {V : List Nat} {width : Nat} (hc : c.Encodes V width)
    (m : Mode) (index second value : Nat) :
    Generated.gen_WMCore_map_down_with m c index (BitVec.ofNat 64 value) = c.mapDownWith m index value ∧
    Generated.gen_WMCore_map_up_with m c index (BitVec.ofNat 64 value) = c.mapUpWith m index value ∧
    Generated.gen_WMCore_map_down m c index =
      (c.mapDown m index).bind (fun r => ok (r.map (fun p => (p.1, BitVec.ofNat 64 p.2)))) ∧
    Generated.gen_WMCore_map_down_with_two_positions m c index second (BitVec.ofNat 64 value) =
      (do let a ← c.mapDownWith m index value; let b ← c.mapDownWith m second value; pure (a, b)) :=
  ⟨GenEq.wm_map_down_with_eq_of_encodes hc m index value, GenEq.wm_map_up_with_eq_of_encodes hc m index value,
   GenEq.wm_map_down_eq_of_encodes hc m index, GenEq.wm_map_down_two_eq_of_encodes hc m index second value⟩

/-! **The queries of `WaveletMatrix` as translated from the source on this run** (`Generated/FnsWM.lean`): `start`,
`contains` (with its short-circuit `&&`), `rank`, `inverse_select` (the closure of `Option::map` included), `select` (the
`checked_add` of the repair of F4), `get`, `ValueIter::next`, and the default `predecessor` / `successor` of
`ops::VectorIndex` (the `saturating_add` of the repair of F3).  On every matrix whose core encodes a vector, for every
index, rank and 64-bit value and both build modes, the code as it is NOW is the model function the theorems above are
about (items are `u64` words in the code and naturals in the model). -/
theorem wavelet_matrix_queries_as_translated_from_source {w : WM} {V : List Nat} {width : Nat} (hc : w.data.Encodes V width)
    (m : Mode) (index rank value : Nat) (hv : value < U64) (hlen : w.len < U64) :
    Generated.gen_WaveletMatrix_start m w (BitVec.ofNat 64 value) = w.start value ∧
    Generated.gen_WaveletMatrix_contains m w (BitVec.ofNat 64 value) = w.contains value ∧
    Generated.gen_WaveletMatrix_rank m w index (BitVec.ofNat 64 value) = w.rank m index value ∧
    Generated.gen_WaveletMatrix_select m w rank (BitVec.ofNat 64 value) = w.select m rank value ∧
    Generated.gen_WaveletMatrix_inverse_select m w index =
      (w.inverseSelect m index).bind (fun r => ok (r.map (fun p => (p.1, BitVec.ofNat 64 p.2)))) ∧
    Generated.gen_WaveletMatrix_get m w index = (w.get m index).bind (fun v => ok (BitVec.ofNat 64 v)) ∧
    Generated.gen_ValueIter_next m w (BitVec.ofNat 64 value, rank) =
      (w.valueIterNext m value rank).bind (fun r => ok (r.1, (BitVec.ofNat 64 value, r.2))) ∧
    Generated.gen_VectorIndex_predecessor m w index (BitVec.ofNat 64 value) = w.predecessor m index value ∧
    Generated.gen_VectorIndex_successor m w index (BitVec.ofNat 64 value) = w.successor m index value :=
  ⟨GenEq.wmx_start_eq m w value hv, GenEq.wmx_contains_eq m w value hv, GenEq.wmx_rank_eq_of_encodes hc m index value hv,
   GenEq.wmx_select_eq_of_encodes hc m rank value hv, GenEq.wmx_inverse_select_eq_of_encodes hc m index,
   GenEq.wmx_get_eq_of_encodes hc m index,
   GenEq.wmx_value_iter_next_eq m w value rank hv (by rw [hc.width_eq]; exact hc.width_le) hlen,
   GenEq.wmx_predecessor_eq_of_encodes hc m index value hv, GenEq.wmx_successor_eq_of_encodes hc m index value hv⟩

/-! **The wavelet-matrix core as built from a vector, translated from the source on this run**
(`Generated/FnsConstr5.lean`): the body of `macro_rules! wm_core_from` instantiated at `u64` (the five instances differ only
in the item type) — the maximum, `bit_len`, the `for level in 0..width` loop with `bit_value = 1 << (width - 1 - level)`,
the stable partition of `source` into `zeros` / `ones` while one bit per value is pushed, `source = zeros ++ ones`,
`BitVector::from(raw_data)` — and `WMCore::init_support` (the `iter_mut()` loop calling the four `enable_*`), equal to
the model's `WMCore.ofValues`, which the query theorems above are about, for every vector of fewer than 2^64 − 63 items. -/
theorem wm_core_construction_as_translated_from_source (m : Mode) (source : Array Word) (hb : source.size + 63 < U64) :
    Generated.gen_WMCore_from_u64 m source = ok (WMCore.ofValues (source.toList.map (·.toNat))) ∧
    (∀ c : WMCore, Generated.gen_WMCore_init_support m c = ok c.initSupport) :=
  ⟨GenEq.wm_core_from_eq m source hb, GenEq.wm_init_support_eq m⟩

/-! **`WaveletMatrix::from(Vec<u64>)` and `start_offsets` as translated from the source on this run**
(`Generated/FnsWMNew.lean`; the macro body `wavelet_matrix_from` at `u64`): the alphabet array `(i, 0)` for `i in 0..=max`,
the counting loop `counts[value].1 += 1`, `sort_unstable_by_key` by the bit-reversed value, the prefix sums through
`iter_mut()` (absent values get `len`), the sort back by value, `collect()` into an integer vector, `pack()` — and the
assembly `WaveletMatrix { len, data: WMCore::from(source), first }`.  Equal to the model's `WM.ofValues`, which every query
theorem above is about, for every vector whose alphabet array fits the representation bound; both sorts have distinct keys,
so the instability of Rust's sort is immaterial (`GenEq.wn_sorted_unique`). -/
theorem wavelet_matrix_construction_as_translated_from_source (m : Mode) (cap : Nat) (source : Array Word)
    (hb : source.size + 63 < U64)
    (hn : ((source.toList.map (·.toNat)).foldl max 0 + 1) * 64 + 63 < U64) :
    Generated.gen_WaveletMatrix_from_u64 m cap source = ok (WM.ofValues (source.toList.map (·.toNat))) :=
  GenEq.wm_from_eq m cap source hb hn

theorem start_offsets_as_translated_from_source (m : Mode) (cap : Nat) (iter : List Word) (len : Nat) (maxv : Word)
    (hle : ∀ x, x ∈ iter → x ≤ maxv) (hn : (maxv.toNat + 1) * 64 + 63 < U64) (hlen : iter.length < U64) :
    Generated.gen_WaveletMatrix_start_offsets m cap iter len maxv =
      ok (WM.startOffsets (iter.map (·.toNat)) len maxv.toNat) :=
  GenEq.wm_start_offsets_eq m cap iter len maxv hle hn hlen

end Sds.C04
