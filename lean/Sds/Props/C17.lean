/-
C17 — Bit-level primitives are exact at every offset, width and word pattern.

Property theorems only (helper lemmas live in Proofs/).  Quantifiers: every array, every bit offset
(not only 0..191), every width 1..64, every value and background; every table entry of the tables as
extracted from bits.rs on this run; every argument in the documented domain of each helper, both
arithmetic modes.
-/
import Sds.Proofs.Bits
import Sds.Proofs.Tables
import Sds.Proofs.Round
import Sds.Proofs.BitsMore
import Sds.Proofs.GenFns
import Sds.Proofs.GenEqBits
import Sds.Proofs.GenEqSelect

namespace Sds.C17
open Sds Outcome

/-- write then read returns the value truncated to the width — one-word and two-word branch alike -/
theorem read_after_write (a : Array Word) (off : Nat) (v : Word) (w : Nat) (hw : 1 ≤ w) (hw' : w ≤ 64)
    (hidx : (off + w - 1) / 64 < a.size) :
    readInt (writeInt a off v w) off w = v &&& lowSet w :=
  readInt_writeInt a off v w hw hw' hidx

/-- the guarded functions (index checks as in the code) succeed on exactly these arguments -/
theorem read_after_write_guarded (a : Array Word) (off : Nat) (v : Word) (w : Nat) (hw : 1 ≤ w) (hw' : w ≤ 64)
    (hidx : (off + w - 1) / 64 < a.size) :
    (writeIntM a off v w >>= fun a' => readIntM a' off w) = ok (v &&& lowSet w) := by
  have hdiv : off / 64 < a.size := by
    have : off / 64 ≤ (off + w - 1) / 64 := Nat.div_le_div_right (by omega)
    omega
  have hm := Nat.div_add_mod off 64
  have hml := Nat.mod_lt off (show 64 > 0 by decide)
  have hsz := size_writeInt a off v w
  unfold writeIntM readIntM
  have hnw : ¬ (w > 64) := by omega
  simp only [hnw, if_false]
  by_cases h1 : off % 64 + w ≤ 64
  · simp only [h1, if_true, hdiv, bind_ok, hsz]
    exact congrArg ok (readInt_writeInt a off v w hw hw' hidx)
  · have hidx1 : off / 64 + 1 < a.size := by
      have : (off + w - 1) / 64 = off / 64 + 1 := by omega
      omega
    simp only [h1, if_false, hidx1, if_true, bind_ok, hsz]
    exact congrArg ok (readInt_writeInt a off v w hw hw' hidx)

/-- a write changes no bit outside the field -/
theorem write_frame (a : Array Word) (off : Nat) (v : Word) (w : Nat) (hw : 1 ≤ w) (hw' : w ≤ 64)
    (hidx : (off + w - 1) / 64 < a.size) (j : Nat) (hj : j < off ∨ off + w ≤ j) :
    getBit (writeInt a off v w) j = getBit a j := by
  rw [getBit_writeInt a off v w hw hw' hidx]
  have : ¬ (off ≤ j ∧ j < off + w) := by omega
  simp [this]

/-- inside the field the written bits are exactly the value's -/
theorem write_field (a : Array Word) (off : Nat) (v : Word) (w : Nat) (hw : 1 ≤ w) (hw' : w ≤ 64)
    (hidx : (off + w - 1) / 64 < a.size) (i : Nat) (hi : i < w) :
    getBit (writeInt a off v w) (off + i) = v.getLsbD i := by
  rw [getBit_writeInt a off v w hw hw' hidx]
  have : off ≤ off + i ∧ off + i < off + w := by omega
  simp [this]

/-- and the number of words never changes -/
theorem write_size (a : Array Word) (off : Nat) (v : Word) (w : Nat) : (writeInt a off v w).size = a.size :=
  size_writeInt a off v w

/-- masks: the tables extracted from the source hold the mathematical masks over 0..=64 -/
theorem low_set_exact (n : Nat) (h : n ≤ 64) : lowSetT n = ok (BitVec.ofNat 64 (2 ^ n - 1)) := by
  rw [lowSetT_eq n h]; rfl

theorem high_set_exact (n : Nat) (h : n ≤ 64) : highSetT n = ok (BitVec.ofNat 64 (2 ^ 64 - 2 ^ (64 - n))) := by
  rw [highSetT_eq n h, highSet_eq_ofNat n h]

theorem low_set_unchecked_in_bounds (n : Nat) (h : n ≤ 64) : lowSetU n = ok (lowSet n) := lowSetU_eq n h
theorem high_set_unchecked_in_bounds (n : Nat) (h : n ≤ 64) : highSetU n = ok (highSet n) := highSetU_eq n h

/-- the select tables: all 65 and all 2048 entries -/
theorem ps_overflow_exact (i : Nat) (h : i ≤ 64) :
    Generated.PS_OVERFLOW[i]? = some ((128 - i) * 0x0101010101010101) := PS_OVERFLOW_get i h

theorem select_in_byte_exact (r x : Nat) (hr : r < 8) (hx : x < 256) :
    Generated.SELECT_IN_BYTE[256 * r + x]? = some ((selectBits (byteBits x) r).getD 0) := by
  have := SELECT_IN_BYTE_get (256 * r + x) (by omega)
  rw [this]
  unfold selectInByteNat
  have e1 : (256 * r + x) % 256 = x := by omega
  have e2 : (256 * r + x) / 256 = r := by omega
  rw [e1, e2]

/-- the source still has the shapes the model of `bits::select` was written against -/
theorem select_source_shape :
    Generated.SWAR_MASKS_AS_EXPECTED = true ∧ Generated.PDEP_SHAPE_AS_EXPECTED = true := by decide

/-- structural constants the model relies on -/
theorem bits_constants :
    Generated.WORD_BITS = 64 ∧ Generated.WORD_BYTES = 8 ∧ Generated.INDEX_SHIFT = 6 ∧ Generated.OFFSET_MASK = 63 := by
  decide

/-- rounding helpers: mathematical value on the whole documented domain, in both arithmetic modes -/
theorem bits_to_words_exact (m : Mode) (n : Nat) (h : n + 63 < U64) : bitsToWords m n = ok ((n + 63) / 64) :=
  bitsToWords_ok m n h
theorem bytes_to_words_exact (m : Mode) (n : Nat) (h : n + 7 < U64) : bytesToWords m n = ok ((n + 7) / 8) :=
  bytesToWords_ok m n h
theorem words_to_bits_exact (m : Mode) (n : Nat) (h : n * 64 < U64) : wordsToBits m n = ok (n * 64) :=
  wordsToBits_ok m n h
theorem words_to_bytes_exact (m : Mode) (n : Nat) (h : n * 8 < U64) : wordsToBytes m n = ok (n * 8) :=
  wordsToBytes_ok m n h
theorem round_up_bits_exact (m : Mode) (n : Nat) (h : n + 63 < U64) :
    roundUpToWordBits m n = ok (((n + 63) / 64) * 64) := roundUpToWordBits_ok m n h
theorem round_up_bytes_exact (m : Mode) (n : Nat) (h : n + 7 < U64) :
    roundUpToWordBytes m n = ok (((n + 7) / 8) * 8) := roundUpToWordBytes_ok m n h
theorem div_round_up_exact (m : Mode) (v n : Nat) (hn : n ≠ 0) (h : v + n < U64) :
    divRoundUp m v n = ok ((v + n - 1) / n) := divRoundUp_ok m v n hn h
theorem split_offset_exact (n : Nat) : splitOffset n = (n / 64, n % 64) := splitOffset_eq n
theorem bit_offset_exact (m : Mode) (i o : Nat) (h : i * 64 + o < U64) : bitOffset m i o = ok (i * 64 + o) :=
  bitOffset_ok m i o h

/-- F12 (repaired by a `fix:` commit): as first coded, `bits_to_words` / `bytes_to_words` panicked in
checked builds at the last value of their documented domain -/
theorem F12_counterexample :
    (U64 - 64 + 63 < U64 ∧ bitsToWordsOld .checked (U64 - 64) = fault (.panic .overflow)) ∧
    (U64 - 8 + 7 < U64 ∧ bytesToWordsOld .checked (U64 - 8) = fault (.panic .overflow)) :=
  ⟨bitsToWordsOld_counterexample, bytesToWordsOld_counterexample⟩

/-! ### bit length, bit reversal, bit counts, in-word select (Proofs/BitsMore) -/

/-- `bit_len`: for every word the result is in 1..=64, it is enough bits to write the value, and for a
non-zero value it is the least such number (the top bit of that width is needed) -/
theorem bit_len_exact (n : Word) :
    1 ≤ bitLen n ∧ bitLen n ≤ 64 ∧ n.toNat < 2 ^ bitLen n ∧ (n ≠ 0 → 2 ^ (bitLen n - 1) ≤ n.toNat) :=
  bitLen_spec n

/-- `bit_len(0) = 1`, as documented -/
theorem bit_len_zero : bitLen (0 : Word) = 1 := bitLen_zero

/-- `reverse_low`: for every word and every `bits` in 1..=64, bit `i` of the result is bit `bits-1-i` of
the argument for `i < bits`, and clear for `i ≥ bits` -/
theorem reverse_low_exact (n : Word) (bits i : Nat) (h1 : 1 ≤ bits) (h2 : bits ≤ 64) :
    (reverseLow n bits).getLsbD i = (decide (i < bits) && n.getLsbD (bits - 1 - i)) :=
  reverseLow_getLsbD n bits i h1 h2

/-- trailing zeros: for a non-zero word, the position of the lowest set bit; 64 for the zero word -/
theorem ctz_exact (w : Word) (h : w ≠ 0) :
    ctz w < 64 ∧ w.getLsbD (ctz w) = true ∧ ∀ j, j < ctz w → w.getLsbD j = false := ctz_spec w h
theorem ctz_of_zero : ctz (0 : Word) = 64 := ctz_zero

/-- leading zeros: for a non-zero word, `63 - clz` is the position of the highest set bit; 64 for zero -/
theorem clz_exact (w : Word) (h : w ≠ 0) :
    clz w < 64 ∧ w.getLsbD (63 - clz w) = true ∧ ∀ j, 63 - clz w < j → j < 64 → w.getLsbD j = false :=
  clz_spec w h
theorem clz_of_zero : clz (0 : Word) = 64 := clz_zero

/-- population count: at most 64, and the masked counts used by rank are the counts of the bits
below / at-or-above a position -/
theorem popcount_bound (w : Word) : popcount w ≤ 64 := popcount_le w
theorem popcount_below (w : Word) (o : Nat) (ho : o ≤ 64) :
    popcount (w &&& lowSet o) = ((bitsOfWord w).take o).count true := popcount_and_lowSet w o ho
theorem popcount_from (w : Word) (o : Nat) (ho : o ≤ 64) :
    popcount (w &&& ~~~ lowSet o) = ((bitsOfWord w).drop o).count true := popcount_and_not_lowSet w o ho

/-- the specification `selectBits` used below means what it should: the answer `p` is a position below 64
whose bit is set and that has exactly `r` set bits below it -/
theorem select_spec_meaning (w : Word) (r p : Nat) :
    selectBits (bitsOfWord w) r = some p ↔
      (p < 64 ∧ w.getLsbD p = true ∧ popcount (w &&& lowSet p) = r) := by
  rw [selectBits_word_iff]
  constructor
  · rintro ⟨h1, h2, h3⟩
    refine ⟨h1, h2, ?_⟩
    rw [popcount_and_lowSet w p (by omega), take_bitsOfWord_count w p (by omega)]; exact h3
  · rintro ⟨h1, h2, h3⟩
    refine ⟨h1, h2, ?_⟩
    rw [popcount_and_lowSet w p (by omega), take_bitsOfWord_count w p (by omega)] at h3; exact h3

/-- in-word select, BMI2 (`pdep` + `tzcnt`) path: for every word and every rank below the population
count the result is the position of the set bit of that rank -/
theorem select_pdep_exact (n : Word) (r : Nat) (h : r < popcount n) :
    selectBits (bitsOfWord n) r = some (selectPdep n r) := selectPdep_spec n r h

/-- in-word select, portable (SWAR + tables) path, in BOTH arithmetic modes: for every word and every rank
below the population count the function returns normally — no overflow panic of the unchecked `+`, no
over-long shift, no table index out of range of `_PS_OVERFLOW` / `_SELECT_IN_BYTE` — and the result is
the position of the set bit of that rank -/
theorem select_portable_exact (m : Mode) (n : Word) (r : Nat) (h : r < popcount n) :
    ∃ p, selectPortable m n r = ok p ∧ selectBits (bitsOfWord n) r = some p :=
  selectPortable_spec m n r h

/-- hence the two paths return the same position: building with or without `target-cpu=native`
cannot change a result -/
theorem select_paths_agree (m : Mode) (n : Word) (r : Nat) (h : r < popcount n) :
    selectPortable m n r = ok (selectPdep n r) := by
  obtain ⟨p, h1, h2⟩ := selectPortable_spec m n r h
  rw [selectPdep_spec n r h] at h2
  rw [h1, Option.some.inj h2]

/-- and in the positional reading: the returned position is below 64, its bit is set, and exactly `r`
set bits lie below it -/
theorem select_exact (m : Mode) (n : Word) (r : Nat) (h : r < popcount n) :
    ∃ p, selectPortable m n r = ok p ∧ selectPdep n r = p ∧
      p < 64 ∧ n.getLsbD p = true ∧ popcount (n &&& lowSet p) = r := by
  refine ⟨selectPdep n r, select_paths_agree m n r h, rfl, ?_⟩
  exact (select_spec_meaning n r _).1 (selectPdep_spec n r h)

/-- non-vacuity: the hypotheses of the read/write theorems are met by a concrete straddling write -/
example : (1 ≤ 13 ∧ 13 ≤ 64 ∧ (60 + 13 - 1) / 64 < (#[0, 0] : Array Word).size) := by decide
example : readInt (writeInt #[0xFFFFFFFFFFFFFFFF#64, 0#64] 60 0x1ABC#64 13) 60 13 = 0x1ABC#64 := by decide
/-- non-vacuity of the select theorems: a word with 5 set bits, rank 3 -/
example : (3 < popcount 0xF1#64) := by decide
example : ∃ p, selectPortable .checked 0xF1#64 3 = ok p ∧ selectPdep 0xF1#64 3 = p ∧
    p < 64 ∧ (0xF1#64 : Word).getLsbD p = true ∧ popcount (0xF1#64 &&& lowSet p) = 3 :=
  select_exact .checked 0xF1#64 3 (by decide)
example : (1 ≤ 4 ∧ 4 ≤ 64) ∧ (0x1ABC#64 : Word) ≠ 0 := by decide

/-! ### the helpers AS TRANSLATED FROM THE SOURCE on this run

`Generated/BitsFns.lean` is produced by tools/gen_lean.py from the bodies of the nine arithmetic helpers of `bits.rs`
(expression by expression: `+ - *` in the arithmetic mode, `/` panicking on zero, `<<` dropping the bits shifted out,
module constants substituted).  The equations below say that what the source says NOW is the model function all the
theorems above are about; a change to one of these bodies either keeps its equation true or breaks it by name. -/
theorem helpers_as_translated_from_source (m : Mode) (n v k : Nat) :
    Generated.gen_words_to_bytes m n = wordsToBytes m n ∧
    Generated.gen_bytes_to_words m n = bytesToWords m n ∧
    Generated.gen_round_up_to_word_bytes m n = roundUpToWordBytes m n ∧
    Generated.gen_words_to_bits m n = wordsToBits m n ∧
    Generated.gen_bits_to_words m n = bitsToWords m n ∧
    Generated.gen_round_up_to_word_bits m n = roundUpToWordBits m n ∧
    Generated.gen_div_round_up m v k = divRoundUp m v k ∧
    Generated.gen_split_offset m n = ok (splitOffset n) ∧
    Generated.gen_bit_offset m v k = bitOffset m v k :=
  ⟨GenFns.words_to_bytes_eq m n, GenFns.bytes_to_words_eq m n, GenFns.round_up_to_word_bytes_eq m n,
   GenFns.words_to_bits_eq m n, GenFns.bits_to_words_eq m n, GenFns.round_up_to_word_bits_eq m n,
   GenFns.div_round_up_eq m v k, GenFns.split_offset_eq m n, GenFns.bit_offset_eq m v k⟩

/-! **The remaining functions of `bits.rs`, translated statement by statement.**  `Generated/FnsBits.lean` is produced on
every run by `tools/rs2lean.py` from the bodies of `low_set`, `low_set_unchecked`, `high_set`, `high_set_unchecked`,
`bit_len`, `reverse_low`, `filler_value`, `read_int` and `write_int` (`let`, `if`/`else`, compound assignment to array
elements, table reads, shifts with the overflow rule of the build mode; the bounds hooks are dropped).  The equations say
that the code as it is NOW — both branches of `read_int` / `write_int`, the order of its reads and writes, its table
lookups — is the model function that `read_after_write`, `write_frame`, … above are about.  `select` follows below
(`select_as_translated_from_source`). -/
theorem bits_functions_as_translated_from_source (m : Mode) (a : Array Word) (off width n bits : Nat) (w v : Word) (b : Bool)
    (hoff : off < U64) :
    Generated.gen_low_set m n = lowSetT n ∧
    Generated.gen_low_set_unchecked m n = lowSetU n ∧
    Generated.gen_high_set m n = highSetT n ∧
    Generated.gen_high_set_unchecked m n = highSetU n ∧
    Generated.gen_bit_len m w = ok (bitLen w) ∧
    (1 ≤ bits → bits ≤ 64 → Generated.gen_reverse_low m w bits = ok (reverseLow w bits)) ∧
    Generated.gen_filler_value m b = ok (fillerValue b) ∧
    (width ≤ 64 → Generated.gen_read_int m a off width = readIntM a off width) ∧
    Generated.gen_write_int m a off v width = writeIntM a off v width :=
  ⟨GenEq.low_set_eq m n, GenEq.low_set_unchecked_eq m n, GenEq.high_set_eq m n, GenEq.high_set_unchecked_eq m n,
   GenEq.bit_len_eq m w, GenEq.reverse_low_eq m w bits, GenEq.filler_value_eq m b,
   fun hw => GenEq.read_int_eq m a off width hw hoff, GenEq.write_int_eq m a off v width hoff⟩

/-- non-vacuity: the translated `write_int` / `read_int`, run on a straddling field, give the documented result -/
example : (Generated.gen_write_int .checked #[0#64, 0#64] 60 0xFF#64 8 >>= fun a => Generated.gen_read_int .checked a 60 8)
    = ok 0xFF#64 := by decide

/-- **`bits::select` as translated from the source on this run, both `cfg` alternatives** (`Generated/FnsSelect.lean`): the
block compiled without BMI2 — the SWAR prefix sums with the overflow checks of the build mode, `overflowing_mul`, the two
`get_unchecked` table reads, the `u32` shifts that round the bit offset down to a byte, the variable shifts — and the block
compiled with it (`_pdep_u64` is the named function `pdep`, `trailing_zeros` is `ctz`).  For every word and every rank below
its population count — the safety precondition of the `unsafe fn` — the code as it is NOW returns, in both arithmetic
modes and on both paths, the position of the set bit of that rank; and whenever the hand model of the portable path
succeeds the translated code returns the same value.  (Outside the precondition the two are not equal: for `n = 0` the
release build returns 64 where the model reports an out-of-bounds read — `GenEq` examples, `decide +kernel`.) -/
theorem select_as_translated_from_source (m : Mode) (n : Word) (rank : Nat) (h : rank < popcount n) :
    (∃ p, Generated.gen_select_portable m n rank = ok p ∧ selectBits (bitsOfWord n) rank = some p) ∧
    (∃ p, Generated.gen_select_bmi2 m n rank = ok p ∧ selectBits (bitsOfWord n) rank = some p) ∧
    (∀ p, selectPortable m n rank = ok p → Generated.gen_select_portable m n rank = ok p) ∧
    Generated.gen_select_bmi2 m n rank = ok (selectPdep n rank) :=
  ⟨GenEq.select_portable_as_spec m n rank h, GenEq.select_bmi2_as_spec m n rank h,
   fun p hp => GenEq.select_portable_of_model_ok m n rank p hp,
   GenEq.select_bmi2_eq m n rank (by have := popcount_le n; omega)⟩

/-- non-vacuity: a word with 5 set bits, rank 3, both translated paths -/
example : Generated.gen_select_portable .checked 0xF1#64 3 = ok 6 ∧ Generated.gen_select_bmi2 .wrapping 0xF1#64 3 = ok 6 := by
  decide +kernel

end Sds.C17
