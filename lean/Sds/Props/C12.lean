/-
C12 — Buffered file writers produce exactly the in-memory serialization.

  "For every item width, every buffer size and every sequence of pushed values or bits, the file left by
   the buffered raw/integer vector writers after close() is byte-identical to serializing the equivalent
   in-memory vector, and len() counts what was pushed.  close() is idempotent, and dropping an open writer
   leaves the same complete file."

Property theorems only (helper lemmas live in Proofs/Writer.lean).  Quantifiers: every history of pushes
(`RawWriter.Push.bit b` and `RawWriter.Push.int x k` with k in 0..=64, in any order; an `extend` is the
sequence of the pushes it performs — `impl Extend for …Writer` is a `for` loop over `push`), every width in
1..=64, every requested buffer size (0, smaller than one item, not a multiple of the width or of 64: the
constructor rounds it up to a positive multiple of 64 bits, `buffer_rounding`).

Model (Model/Writer.lean): the file is a list of 64-bit elements — a header region that `close` rewrites
in place, then the body, which only grows by whole elements; `toBytes` (Model/Ser.lean) is the little-endian
byte view, so equality of element lists is equality of bytes (`*_bytes` theorems).  The sink has an optional
write budget; the headline theorems are for a sink that does not fail (`budget = none`), and the
`*_failing_sink` theorems cover every budget.

Remark on drop.  `impl Drop for RawVectorWriter` / `IntVectorWriter` is `let _ = self.close();`.  The model
therefore has no separate drop operation: dropping a writer IS `close` with the result discarded.  The two
drop situations are covered by `drop_open_writer_complete` / `int_drop_open_writer_complete` (drop of a
writer that is still open, after any history) and `drop_after_close_noop` (drop of a writer that was
closed explicitly).  What is read off the source rather than proven is only that `drop` calls `close`.
-/
import Sds.Proofs.Writer
import Sds.Generated.SerConsts
import Sds.Proofs.GenEqWriter

namespace Sds.C12
open Sds Outcome RawWriter

/-! ### the raw (bit) writer -/

/-- **Headline, raw writer.**  For every requested buffer size and every history of bit / integer pushes
(integer widths 0..=64), create–push–close succeeds and the file is exactly the serialisation of the
in-memory `RawVector` holding all pushed bits in order; `len` is the number of bits pushed; the writer is
closed, and closing it again returns the same writer (file included) unchanged. -/
theorem raw_writer_file (bufLen : Nat) (ps : List Push) (hps : ∀ p ∈ ps, p.valid) :
    ∃ w, RawWriter.writeAll [] bufLen ps = ok w ∧
      w.file = rawVecC.ser (RawVec.ofBits (allBits ps)) ∧
      w.len = (allBits ps).length ∧ w.isOpen = false ∧ w.close = ok w :=
  history_raw bufLen ps hps

/-- the same, byte for byte -/
theorem raw_writer_bytes (bufLen : Nat) (ps : List Push) (hps : ∀ p ∈ ps, p.valid) :
    ∃ w, RawWriter.writeAll [] bufLen ps = ok w ∧
      toBytes w.file = toBytes (rawVecC.ser (RawVec.ofBits (allBits ps))) := by
  obtain ⟨w, h, hf, _⟩ := history_raw bufLen ps hps
  exact ⟨w, h, congrArg toBytes hf⟩

/-- with a user header (the form `IntVectorWriter` builds on): the header is followed by the serialisation -/
theorem raw_writer_file_with_header (uh : List Word) (bufLen : Nat) (ps : List Push)
    (hps : ∀ p ∈ ps, p.valid) :
    ∃ w, RawWriter.writeAll uh bufLen ps = ok w ∧
      w.file = uh ++ rawVecC.ser (RawVec.ofBits (allBits ps)) ∧
      w.len = (allBits ps).length ∧ w.isOpen = false ∧ w.close = ok w :=
  history uh bufLen ps hps

/-- `len()` counts what was pushed at every moment of a history, not only at the end -/
theorem raw_len_counts_pushed (uh : List Word) (bufLen : Nat) (ps : List Push) (hps : ∀ p ∈ ps, p.valid) :
    ∃ w, pushAll ps (withBufLen uh bufLen) = ok w ∧ w.isOpen = true ∧ w.len = (allBits ps).length ∧
      pushed w = allBits ps := by
  obtain ⟨w, h, e⟩ := pushAll_none ps hps (withBufLen uh bufLen none) rfl (withBufLen_Good _ _ _) rfl
  refine ⟨w, h, e.isOpen, ?_, ?_⟩
  · rw [e.len_eq]; show 0 + _ = _; omega
  · rw [e.pushed_eq, withBufLen_pushed, List.nil_append]

/-- the buffer length actually used, for every requested size: the next multiple of 64, at least 64 — so
0, sizes below one item and non-multiples are all legal requests -/
theorem buffer_rounding (uh : List Word) (n : Nat) (bud : Option Nat) :
    (withBufLen uh n bud).bufLen = max (((n + 63) / 64) * 64) 64 ∧ Inv (withBufLen uh n bud) ∧
      pushed (withBufLen uh n bud) = [] :=
  ⟨withBufLen_bufLen uh n bud, withBufLen_Inv uh n bud, withBufLen_pushed uh n bud⟩

/-- one `push_bit` on any open writer satisfying the invariant: succeeds, keeps the invariant, appends
exactly that bit, `len` grows by one -/
theorem push_bit_step (w : RawWriter) (ho : w.isOpen = true) (hI : Inv w) (hb : w.budget = none) (b : Bool) :
    ∃ w', pushBit w b = ok w' ∧ Inv w' ∧ w'.isOpen = true ∧ pushed w' = pushed w ++ [b] ∧
      w'.len = w.len + 1 ∧ w'.budget = none :=
  pushBit_spec w ho hI hb b

/-- one `push_int` of any width 0..=64: appends exactly the low `k` bits of the value, `len` grows by `k` -/
theorem push_int_step (w : RawWriter) (ho : w.isOpen = true) (hI : Inv w) (hb : w.budget = none)
    (x : Word) (k : Nat) (hk : k ≤ 64) :
    ∃ w', pushInt w x k = ok w' ∧ Inv w' ∧ w'.isOpen = true ∧
      pushed w' = pushed w ++ (List.range k).map (fun i => x.getLsbD i) ∧
      w'.len = w.len + k ∧ w'.budget = none :=
  pushInt_spec w ho hI hb x k hk

/-- `close` on any open writer satisfying the invariant: the file is the user header followed by the
serialisation of everything pushed, `len` is unchanged, and closing again changes nothing -/
theorem close_step (w : RawWriter) (ho : w.isOpen = true) (hI : Inv w) (hb : w.budget = none) :
    ∃ w', close w = ok w' ∧ w'.isOpen = false ∧ w'.len = w.len ∧
      w'.file = w.userHeader ++ rawVecC.ser (RawVec.ofBits (pushed w)) ∧
      w'.body = (RawVec.ofBits (pushed w)).data.toList ∧
      w'.header = w.userHeader ++ [BitVec.ofNat 64 w.len, BitVec.ofNat 64 ((w.len + 63) / 64)] ∧
      close w' = ok w' :=
  close_spec w ho hI hb

/-! ### close is idempotent; drop -/

/-- **close is idempotent**, for ANY writer state (no invariant, any sink, any headers): whenever a close
succeeds, a second close succeeds and returns the very same writer — same file, same `len` -/
theorem close_idempotent (w w' : RawWriter) (uh uh' : List Word) (h : closeWith w uh = ok w') :
    closeWith w' uh' = ok w' :=
  closeWith_idem w uh uh' w' h

theorem close_idempotent' (w w' : RawWriter) (h : close w = ok w') : close w' = ok w' :=
  closeWith_idem w _ _ w' h

/-- **drop of an open writer** (= `close`, see the remark in the header): at the end of ANY history the
still-open writer is closed by drop into the complete file — the same file an explicit `close` produces —
and a second drop/close leaves it as it is -/
theorem drop_open_writer_complete (bufLen : Nat) (ps : List Push) (hps : ∀ p ∈ ps, p.valid)
    (w : RawWriter) (hw : pushAll ps (withBufLen [] bufLen) = ok w) :
    w.isOpen = true ∧
    ∃ w', close w = ok w' ∧ w'.file = rawVecC.ser (RawVec.ofBits (allBits ps)) ∧
      w'.len = (allBits ps).length ∧ w'.isOpen = false ∧ close w' = ok w' := by
  obtain ⟨w1, h1, e1⟩ := pushAll_none ps hps (withBufLen [] bufLen none) rfl (withBufLen_Good _ _ _) rfl
  have hw1 : w1 = w := by rw [h1] at hw; exact ok.inj hw
  subst hw1
  refine ⟨e1.isOpen, ?_⟩
  obtain ⟨w', h, rest⟩ := history_raw bufLen ps hps
  refine ⟨w', ?_, rest⟩
  unfold RawWriter.writeAll at h
  rw [h1, bind_ok] at h
  exact h

/-- **drop after an explicit close** does nothing: `close` on a closed writer returns it unchanged -/
theorem drop_after_close_noop (w : RawWriter) (uh : List Word) (hc : w.isOpen = false) :
    closeWith w uh = ok w :=
  closeWith_closed w uh hc

/-! ### the integer writer -/

/-- **Headline, integer writer.**  For every width in 1..=64, every requested buffer size (in items; 0
included) and every list of values, create–push–close succeeds and the file is exactly the serialisation
of the in-memory `IntVector` of that width holding the same values (each truncated to `width` bits, as
`IntVector::push` does); `len` is the number of values pushed; closing again changes nothing. -/
theorem int_writer_file (width bufLen : Nat) (xs : List Word) (h1 : 1 ≤ width) (h2 : width ≤ 64) :
    ∃ w, IntWriter.writeAll width bufLen xs = ok w ∧
      w.file = intVecC.ser (IntVec.ofList width (xs.map BitVec.toNat)) ∧
      w.len = xs.length ∧ w.close = ok w := by
  obtain ⟨w, h, f1, _, l, c⟩ := IntWriter.history width bufLen xs h1 h2
  exact ⟨w, h, f1, l, c⟩

/-- the same, byte for byte -/
theorem int_writer_bytes (width bufLen : Nat) (xs : List Word) (h1 : 1 ≤ width) (h2 : width ≤ 64) :
    ∃ w, IntWriter.writeAll width bufLen xs = ok w ∧
      toBytes w.file = toBytes (intVecC.ser (IntVec.ofList width (xs.map BitVec.toNat))) := by
  obtain ⟨w, h, f1, _⟩ := IntWriter.history width bufLen xs h1 h2
  exact ⟨w, h, congrArg toBytes f1⟩

/-- the file spelled out: `[len, width]`, then the raw vector of the `len * width` item bits -/
theorem int_writer_file_layout (width bufLen : Nat) (xs : List Word) (h1 : 1 ≤ width) (h2 : width ≤ 64) :
    ∃ w, IntWriter.writeAll width bufLen xs = ok w ∧
      w.file = [BitVec.ofNat 64 xs.length, BitVec.ofNat 64 width] ++
        rawVecC.ser (RawVec.ofBits (IntWriter.itemBits width xs)) ∧
      w.writer.len = xs.length * width ∧ w.writer.isOpen = false := by
  rcases IntWriter.history_budget width bufLen xs h1 h2 none with
    ⟨w, h, _, f2, _, _, wl, o, _⟩ | ⟨_, h⟩ | ⟨_, h⟩
  · exact ⟨w, h, by rw [f2, IntWriter.rawOf_eq_ofBits width h1 h2], wl, o⟩
  · exact absurd rfl h
  · exact absurd rfl h

/-- widths outside 1..=64 are refused by the constructor with an error (nothing is written) -/
theorem int_writer_bad_width (width bufLen : Nat) (budget : Option Nat) (h : width = 0 ∨ width > 64) :
    IntWriter.withBufLen width bufLen budget = fault (.err .other) :=
  IntWriter.withBufLen_bad width bufLen budget h

/-- close of the integer writer is idempotent, for any writer state -/
theorem int_close_idempotent (w w' : IntWriter) (h : w.close = ok w') : w'.close = ok w' :=
  IntWriter.close_idem w w' h

/-- drop of an open integer writer (= `close`) at the end of any history leaves the complete file -/
theorem int_drop_open_writer_complete (width bufLen : Nat) (xs : List Word) (h1 : 1 ≤ width) (h2 : width ≤ 64)
    (w : IntWriter)
    (hw : (IntWriter.withBufLen width bufLen >>= IntWriter.pushAll xs) = ok w) :
    ∃ w', w.close = ok w' ∧ w'.file = intVecC.ser (IntVec.ofList width (xs.map BitVec.toNat)) ∧
      w'.len = xs.length ∧ w'.close = ok w' := by
  obtain ⟨w', h, f1, _, l, c⟩ := IntWriter.history width bufLen xs h1 h2
  refine ⟨w', ?_, f1, l, c⟩
  unfold IntWriter.writeAll at h
  rw [hw, bind_ok] at h
  exact h

/-! ### a failing sink: never a truncated file reported as success -/

/-- **obligation on the source, re-checked on every run**: `impl Drop for RawVectorWriter` and `impl Drop for
IntVectorWriter` exist and call `self.close()` (extracted by tools/gen_lean.py); together with
`drop_open_writer_complete` / `int_drop_open_writer_complete` (drop = close in the model) this is the clause
"dropping an open writer leaves the same complete file" -/
theorem drop_calls_close :
    Generated.RAW_WRITER_DROP_CLOSES = true ∧ Generated.INT_WRITER_DROP_CLOSES = true := by decide

/-- for every write budget of the sink the run either succeeds with the complete, correct file, or stops
with the `unwrap` panic of a push (as the code does) or the io error of `close` -/
theorem raw_writer_failing_sink (uh : List Word) (bufLen : Nat) (ps : List Push) (hps : ∀ p ∈ ps, p.valid)
    (budget : Option Nat) :
    (∃ w, RawWriter.writeAll uh bufLen ps budget = ok w ∧
      w.file = uh ++ rawVecC.ser (RawVec.ofBits (allBits ps)) ∧
      w.body = (RawVec.ofBits (allBits ps)).data.toList ∧
      w.len = (allBits ps).length ∧ w.isOpen = false) ∨
    RawWriter.writeAll uh bufLen ps budget = fault (.panic .unwrap) ∨
    RawWriter.writeAll uh bufLen ps budget = fault (.err .other) :=
  RawWriter.history_budget uh bufLen ps hps budget

theorem int_writer_failing_sink (width bufLen : Nat) (xs : List Word) (h1 : 1 ≤ width) (h2 : width ≤ 64)
    (budget : Option Nat) :
    (∃ w, IntWriter.writeAll width bufLen xs budget = ok w ∧
      w.file = intVecC.ser (IntVec.ofList width (xs.map BitVec.toNat)) ∧
      w.len = xs.length ∧ w.close = ok w) ∨
    (IntWriter.writeAll width bufLen xs budget = fault (.panic .unwrap) ∧ budget ≠ none) ∨
    (IntWriter.writeAll width bufLen xs budget = fault (.err .other) ∧ budget ≠ none) := by
  rcases IntWriter.history_budget width bufLen xs h1 h2 budget with ⟨w, h, f1, _, l, _, _, _, c⟩ | h | h
  · exact Or.inl ⟨w, h, f1, l, c⟩
  · exact Or.inr (Or.inl h)
  · exact Or.inr (Or.inr h)

/-! ### non-vacuity -/

/-- a valid mixed history (bit, 13-bit integer, width-0 push, full 64-bit integer) -/
example : ∀ p ∈ [Push.bit true, Push.int 0x1ABC#64 13, Push.int 7#64 0, Push.int 0xFFFFFFFFFFFFFFFF#64 64],
    p.valid := by
  intro p hp
  simp only [List.mem_cons, List.not_mem_nil, or_false] at hp
  rcases hp with rfl | rfl | rfl | rfl <;> simp [Push.valid]

/-- the headline instantiated: buffer size 0, and the pushes above -/
example : ∃ w, RawWriter.writeAll [] 0 [Push.bit true, Push.int 0x1ABC#64 13] = ok w ∧
    w.file = rawVecC.ser (RawVec.ofBits (allBits [Push.bit true, Push.int 0x1ABC#64 13])) ∧
    w.len = (allBits [Push.bit true, Push.int 0x1ABC#64 13]).length ∧ w.isOpen = false ∧ w.close = ok w :=
  raw_writer_file 0 _ (by
    intro p hp
    simp only [List.mem_cons, List.not_mem_nil, or_false] at hp
    rcases hp with rfl | rfl <;> simp [Push.valid])

/-- width 13, buffer of 3 items (39 bits: neither a multiple of 64 nor of the width after rounding) -/
example : (1 ≤ 13 ∧ 13 ≤ 64) := by decide
example : ∃ w, IntWriter.writeAll 13 3 [1#64, 2#64, 0xFFFFFFFFFFFFFFFF#64] = ok w ∧
    w.file = intVecC.ser (IntVec.ofList 13 ([1#64, 2#64, 0xFFFFFFFFFFFFFFFF#64].map BitVec.toNat)) ∧
    w.len = 3 ∧ w.close = ok w :=
  int_writer_file 13 3 _ (by decide) (by decide)

/-- an open writer satisfying the invariant exists (hypotheses of the step theorems) -/
example : (withBufLen [] 0).isOpen = true ∧ Inv (withBufLen [] 0) ∧ (withBufLen [] 0).budget = none :=
  ⟨rfl, withBufLen_Inv _ _ _, rfl⟩

/-! **The writer methods as translated from the source on this run** (`Generated/FnsWriter.lean`): `RawVectorWriter::{push_bit,
push_int, close_with_header, close}` and `IntVectorWriter::{push, close}` — the order "push into the buffer, add to `len`,
test `buf.len() >= buf_len`, flush and `unwrap`", the early return of `push_int` for width 0, "if open: flush(Final)?,
write_header?, file = None" of `close_with_header`, the two header words of the integer writer.  The two methods that
touch the file (`flush`, `write_header`) are named by their model functions (`Model/WriterGlue.lean`).  For every writer
state satisfying the writer invariant `Good` (proved to hold initially and after every push) with fewer than 2^64 bits
pushed in total, and for every push history from a fresh writer with any buffer size and any sink budget
(`GenEq.wr_history_eq`: a failing sink gives the same `unwrap` panic at the same push on both sides), the code as it is NOW
is the model function the theorems above are about.  `RawVectorWriter::close()` passes an EMPTY header to
`close_with_header`; the model's `close` passes the writer's own user header, so the two agree for raw writers created
without a parent header (all the library and the property use; `GenEq.wr_close_eq` states the general fact,
observation O12 in DESIGN.md). -/
theorem writer_methods_as_translated_from_source (m : Mode) (w : RawWriter) (iw : IntWriter) (b : Bool) (x : Word)
    (width : Nat) (header : Array Word) (hw : width ≤ 64) (hg : RawWriter.Good w) (hB : w.bufLen < U64) :
    (w.len + 1 < U64 → Generated.gen_RawVectorWriter_push_bit m w b = w.pushBit b) ∧
    (w.len + width < U64 → Generated.gen_RawVectorWriter_push_int m w x width = w.pushInt x width) ∧
    Generated.gen_RawVectorWriter_close_with_header m w header = w.closeWith header.toList ∧
    Generated.gen_RawVectorWriter_close m w = w.closeWith [] ∧
    (w.userHeader = [] → Generated.gen_RawVectorWriter_close m w = w.close) ∧
    (IntWriter.Good iw → iw.writer.bufLen < U64 → iw.writer.len + iw.width < U64 → iw.len + 1 < U64 →
      Generated.gen_IntVectorWriter_push m iw x = iw.push x) ∧
    Generated.gen_IntVectorWriter_close m iw = iw.close :=
  ⟨fun hl => GenEq.wr_push_bit_eq_good m w b hg hB hl, fun hl => GenEq.wr_push_int_eq_good m w x width hw hg hB hl,
   GenEq.wr_close_with_header_eq m w header, GenEq.wr_close_eq m w, fun hu => GenEq.wr_close_eq_close m w hu,
   fun hgi hb hwl hl => GenEq.iwr_push_eq_good m iw x hgi hb hwl hl, GenEq.iwr_close_eq m iw⟩

end Sds.C12
