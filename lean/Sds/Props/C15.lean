/-
C15 — Sparse vectors built as multisets answer present-value queries naturally.

Property theorems only (helper lemmas live in Proofs/).  Quantifiers: every universe size `n < 2^64`, every
non-decreasing list `P` of values below `n` with `|P| < 2^63` — duplicates allowed, even more values than the
universe has elements (`|P| > n`) —, every low-part width `w` in `1..63` (the `f64` width rule of the code is
a parameter of the model: the theorems hold for every `w`, nothing is assumed about the rule), every query
argument, both arithmetic modes `m : Mode`.

Reference semantics (Sds/Spec/Bits.lean) on the sorted list `P` (a multiset):
  `selectSet P i = P[i]?` (the `i`-th value), `rankSet P i = |{p ∈ P : p < i}|` (with multiplicity),
  `getSet P i = P.contains i`, `succSet P x` = `(rank, value)` of the *first* occurrence of the least value
  `≥ x`, `predSet P x` = `(rank, value)` of the *last* occurrence of the greatest value `≤ x`.

What is **not** proven here and is covered by correspondence testing only: `try_from_iter` (the
`FromIterator`-style constructor) computes the universe as `last value + 1` and the number of values by
consuming the iterator, then runs the very builder modelled by `Sparse.ofValues w (last + 1) true P`.
`from_iter_universe` below states what that call does; that the Rust code passes exactly these arguments
is checked by the driver, not by a theorem.
`select_zero` / `zero_iter` are not claimed in multiset mode (the property does not ask for them).
-/
import Sds.Proofs.Glue2
import Sds.Proofs.GenEqSpMisc

namespace Sds.C15
open Sds Outcome

/-! ### the builder -/

/-- every non-decreasing list below the universe size is accepted — no bound relating `|P|` and `n` -/
theorem build_succeeds (w n : Nat) (P : List Nat) (hw1 : 1 ≤ w) (hw : w ≤ 63) (hn : n < 2 ^ 64)
    (hm : P.length < 2 ^ 63) (hsorted : sortedLe P = true) (hbound : ∀ p ∈ P, p < n) :
    ∃ s, Sparse.ofValues w n true P = ok s :=
  let ⟨s, h, _⟩ := ofValues_multi_ok w n P hw1 hw hn hm hsorted hbound
  ⟨s, h⟩

/-- everything else is refused with an error: a descent, or a value `≥ n` -/
theorem build_rejects (w n : Nat) (P : List Nat) (hw1 : 1 ≤ w) (hw : w ≤ 63)
    (hbad : ¬ (sortedLe P = true ∧ ∀ p ∈ P, p < n)) :
    Sparse.ofValues w n true P = fault (.err .other) :=
  ofValues_multi_reject w n P hw1 hw hbad

/-- **accepts exactly the non-decreasing sequences** (below the universe size) -/
theorem build_accepts_iff (w n : Nat) (P : List Nat) (hw1 : 1 ≤ w) (hw : w ≤ 63) (hn : n < 2 ^ 64)
    (hm : P.length < 2 ^ 63) :
    (∃ s, Sparse.ofValues w n true P = ok s) ↔ (sortedLe P = true ∧ ∀ p ∈ P, p < n) := by
  constructor
  · rintro ⟨s, h⟩
    apply Classical.byContradiction
    intro hbad
    rw [ofValues_multi_reject w n P hw1 hw hbad] at h
    cases h
  · rintro ⟨h1, h2⟩
    exact build_succeeds w n P hw1 hw hn hm h1 h2

/-- with the universe sized to `last + 1` (what `try_from_iter` passes — by correspondence only) the bound on
the values is automatic: a non-empty sequence is accepted iff it is non-decreasing -/
theorem from_iter_universe (w : Nat) (P : List Nat) (hne : P ≠ []) (hw1 : 1 ≤ w) (hw : w ≤ 63)
    (hn : P.getLast hne + 1 < 2 ^ 64) (hm : P.length < 2 ^ 63) :
    (∃ s, Sparse.ofValues w (P.getLast hne + 1) true P = ok s) ↔ sortedLe P = true := by
  rw [build_accepts_iff w _ P hw1 hw hn hm]
  constructor
  · exact fun h => h.1
  · intro h
    exact ⟨h, fun p hp => Nat.lt_succ_of_le (sortedLe_le_getLast P h hne p hp)⟩

/-! ### counts -/

/-- `len` = universe size, `count_ones` = number of values (with multiplicity), `count_zeros` saturates at 0
when there are at least as many values as positions -/
theorem len_and_counts (w n : Nat) (P : List Nat) (s : Sparse) (hw1 : 1 ≤ w) (hw : w ≤ 63)
    (hn : n < 2 ^ 64) (hm : P.length < 2 ^ 63) (hsorted : sortedLe P = true)
    (hbound : ∀ p ∈ P, p < n) (hs : Sparse.ofValues w n true P = ok s) :
    s.len = n ∧ s.countOnes = P.length ∧
    s.countZeros = (if P.length ≥ n then 0 else n - P.length) := by
  have he := ofValues_multi_encodes hw1 hw hn hm hsorted hbound hs
  refine ⟨he.len_eq, he.low_len, ?_⟩
  unfold Sparse.countZeros Sparse.countOnes
  rw [he.low_len, he.len_eq]

/-! ### queries -/

/-- `select(i)` = the `i`-th value (`None` from `count_ones` on) -/
theorem select_exact (w n : Nat) (P : List Nat) (s : Sparse) (hw1 : 1 ≤ w) (hw : w ≤ 63)
    (hn : n < 2 ^ 64) (hm : P.length < 2 ^ 63) (hsorted : sortedLe P = true)
    (hbound : ∀ p ∈ P, p < n) (hs : Sparse.ofValues w n true P = ok s)
    (m : Mode) (i : Nat) : s.select m i = ok (P[i]?) :=
  select_ok (ofValues_multi_encodes hw1 hw hn hm hsorted hbound hs) m i

/-- `rank(i)` = the number of values below `i`, counted with multiplicity, for every `i` -/
theorem rank_exact (w n : Nat) (P : List Nat) (s : Sparse) (hw1 : 1 ≤ w) (hw : w ≤ 63)
    (hn : n < 2 ^ 64) (hm : P.length < 2 ^ 63) (hsorted : sortedLe P = true)
    (hbound : ∀ p ∈ P, p < n) (hs : Sparse.ofValues w n true P = ok s)
    (m : Mode) (i : Nat) : s.rank m i = ok (P.filter (· < i)).length :=
  rank_ok (ofValues_multi_encodes hw1 hw hn hm hsorted hbound hs) m i

/-- `get(i)` = whether `i` occurs, for every `i` below the universe size -/
theorem get_exact (w n : Nat) (P : List Nat) (s : Sparse) (hw1 : 1 ≤ w) (hw : w ≤ 63)
    (hn : n < 2 ^ 64) (hm : P.length < 2 ^ 63) (hsorted : sortedLe P = true)
    (hbound : ∀ p ∈ P, p < n) (hs : Sparse.ofValues w n true P = ok s)
    (m : Mode) (i : Nat) (hi : i < n) : s.get m i = ok (P.contains i) :=
  get_ok (ofValues_multi_encodes hw1 hw hn hm hsorted hbound hs) m i hi

/-- `successor(x)`, every `x`: empty iterator when no value is `≥ x` (in particular for `x ≥ n`); otherwise
the iterator `select_iter(k)` at `(k, v) = succSet P x` — the **first** occurrence of the least value `≥ x` —
whose first item is `(k, v)` and which goes on to deliver `(i, P[i])` for `k ≤ i < |P|` -/
theorem successor_exact (w n : Nat) (P : List Nat) (s : Sparse) (hw1 : 1 ≤ w) (hw : w ≤ 63)
    (hn : n < 2 ^ 64) (hm : P.length < 2 ^ 63) (hsorted : sortedLe P = true)
    (hbound : ∀ p ∈ P, p < n) (hs : Sparse.ofValues w n true P = ok s)
    (m : Mode) (x : Nat) :
    match succSet P x with
    | none => s.successor m x = ok (SpOneIter.emptyIter s) ∧
        SpOneIter.nextQ m s (SpOneIter.emptyIter s) = ok (none, SpOneIter.emptyIter s)
    | some kv => ∃ it it', s.successor m x = ok it ∧ s.selectIter m kv.1 = ok it ∧
        SpOneIter.nextQ m s it = ok (some kv, it') ∧
        drain m s (P.length + 1) it = ok (itemsFrom P kv.1) := by
  have he := ofValues_multi_encodes hw1 hw hn hm hsorted hbound hs
  have h := succ_first he m x
  cases hp : succSet P x with
  | none => rw [hp] at h; exact h
  | some kv =>
    rw [hp] at h
    obtain ⟨it, it', h1, h2, h3, _⟩ := h
    obtain ⟨hk, _⟩ := succSet_spec x kv hp
    obtain ⟨it2, g1, g2⟩ := selectIter_drain he m kv.1 (Nat.le_of_lt hk)
    rw [h2] at g1; cases g1
    exact ⟨it, it', h1, h2, h3, g2⟩

/-- `predecessor(x)`, every `x` (also `x ≥ n`): empty iterator when no value is `≤ x`; otherwise the iterator
`select_iter(k)` at `(k, v) = predSet P x` — the **last** occurrence of the greatest value `≤ x` -/
theorem predecessor_exact (w n : Nat) (P : List Nat) (s : Sparse) (hw1 : 1 ≤ w) (hw : w ≤ 63)
    (hn : n < 2 ^ 64) (hm : P.length < 2 ^ 63) (hsorted : sortedLe P = true)
    (hbound : ∀ p ∈ P, p < n) (hs : Sparse.ofValues w n true P = ok s)
    (m : Mode) (x : Nat) :
    match predSet P x with
    | none => s.predecessor m x = ok (SpOneIter.emptyIter s) ∧
        SpOneIter.nextQ m s (SpOneIter.emptyIter s) = ok (none, SpOneIter.emptyIter s)
    | some kv => ∃ it it', s.predecessor m x = ok it ∧ s.selectIter m kv.1 = ok it ∧
        SpOneIter.nextQ m s it = ok (some kv, it') ∧
        drain m s (P.length + 1) it = ok (itemsFrom P kv.1) := by
  have he := ofValues_multi_encodes hw1 hw hn hm hsorted hbound hs
  have h := pred_first he m x
  cases hp : predSet P x with
  | none => rw [hp] at h; exact h
  | some kv =>
    rw [hp] at h
    obtain ⟨it, it', h1, h2, h3, _⟩ := h
    obtain ⟨hk, _⟩ := predSet_spec he.pw x kv hp
    obtain ⟨it2, g1, g2⟩ := selectIter_drain he m kv.1 (Nat.le_of_lt hk)
    rw [h2] at g1; cases g1
    exact ⟨it, it', h1, h2, h3, g2⟩

/-- the specification pairs are what the property says: `succSet` is the first occurrence (its rank is the
number of values `< x`), `predSet` the last one (its rank is the number of values `≤ x`, minus one) -/
theorem succSet_first_occurrence (P : List Nat) (x : Nat) (kv : Nat × Nat) (h : succSet P x = some kv) :
    ∃ (hk : kv.1 < P.length), kv.1 = (P.filter (· < x)).length ∧ kv.2 = P[kv.1] :=
  succSet_spec x kv h

theorem predSet_last_occurrence (P : List Nat) (hsorted : sortedLe P = true) (x : Nat) (kv : Nat × Nat)
    (h : predSet P x = some kv) :
    kv.1 = (P.filter (· ≤ x)).length - 1 ∧ ∃ (hk : kv.1 < P.length), kv.2 = P[kv.1] := by
  refine ⟨?_, predSet_spec (sortedLe_pairwise P hsorted) x kv h⟩
  unfold predSet at h
  simp only [] at h
  split at h
  · cases h
  · cases h; rfl

/-- **Headline.**  One value, all queries, all arguments, both modes. -/
theorem all_queries_exact (w n : Nat) (P : List Nat) (hw1 : 1 ≤ w) (hw : w ≤ 63) (hn : n < 2 ^ 64)
    (hm : P.length < 2 ^ 63) (hsorted : sortedLe P = true) (hbound : ∀ p ∈ P, p < n) :
    ∃ s, Sparse.ofValues w n true P = ok s ∧
      s.len = n ∧ s.countOnes = P.length ∧
      (∀ (m : Mode) (i : Nat), s.select m i = ok (P[i]?)) ∧
      (∀ (m : Mode) (i : Nat), s.rank m i = ok (rankSet P i)) ∧
      (∀ (m : Mode) (i : Nat), i < n → s.get m i = ok (getSet P i)) ∧
      (∀ (m : Mode) (x : Nat), s.predecessor m x = ok (match predSet P x with
          | none => SpOneIter.emptyIter s
          | some kv => s.iterAt w P kv.1)) ∧
      (∀ (m : Mode) (x : Nat), s.successor m x = ok (match succSet P x with
          | none => SpOneIter.emptyIter s
          | some kv => s.iterAt w P kv.1)) ∧
      (∀ (m : Mode) (r : Nat), s.selectIter m r = ok (s.iterAt w P r)) := by
  obtain ⟨s, hs, he⟩ := ofValues_multi_ok w n P hw1 hw hn hm hsorted hbound
  exact ⟨s, hs, he.len_eq, he.low_len, fun m r => select_ok he m r, fun m i => rank_ok he m i,
    fun m i hi => get_ok he m i hi, fun m x => pred_ok he m x, fun m x => succ_ok he m x,
    fun m r => selectIter_ok he m r⟩

/-! ### `rank_zero` on a multiset: `index - rank(index)`, which can underflow when values repeat -/

/-- in general `rank_zero(i)` is the mode-checked subtraction `i - rank(i)` … -/
theorem rank_zero_is_sub (w n : Nat) (P : List Nat) (s : Sparse) (hw1 : 1 ≤ w) (hw : w ≤ 63)
    (hn : n < 2 ^ 64) (hm : P.length < 2 ^ 63) (hsorted : sortedLe P = true)
    (hbound : ∀ p ∈ P, p < n) (hs : Sparse.ofValues w n true P = ok s)
    (m : Mode) (i : Nat) : s.rankZero m i = subM m i (rankSet P i) :=
  rankZero_eq (ofValues_multi_encodes hw1 hw hn hm hsorted hbound hs) m i

/-- … so it is exact whenever at most `i` values lie below `i` … -/
theorem rank_zero_exact_when_defined (w n : Nat) (P : List Nat) (s : Sparse) (hw1 : 1 ≤ w) (hw : w ≤ 63)
    (hn : n < 2 ^ 64) (hm : P.length < 2 ^ 63) (hsorted : sortedLe P = true)
    (hbound : ∀ p ∈ P, p < n) (hs : Sparse.ofValues w n true P = ok s)
    (m : Mode) (i : Nat) (hle : rankSet P i ≤ i) : s.rankZero m i = ok (i - rankSet P i) := by
  rw [rankZero_eq (ofValues_multi_encodes hw1 hw hn hm hsorted hbound hs) m i, subM_ok hle]

/-- … and when more than `i` values lie below `i` (possible only with duplicates) the checked build panics
with an arithmetic overflow and the release build returns the wrapped difference -/
theorem rank_zero_overfull (w n : Nat) (P : List Nat) (s : Sparse) (hw1 : 1 ≤ w) (hw : w ≤ 63)
    (hn : n < 2 ^ 64) (hm : P.length < 2 ^ 63) (hsorted : sortedLe P = true)
    (hbound : ∀ p ∈ P, p < n) (hs : Sparse.ofValues w n true P = ok s)
    (i : Nat) (hlt : i < rankSet P i) :
    s.rankZero .checked i = fault (.panic .overflow) ∧
    s.rankZero .wrapping i = ok ((i + U64 - rankSet P i) % U64) :=
  have he := ofValues_multi_encodes hw1 hw hn hm hsorted hbound hs
  ⟨rankZero_multiset_checked he i hlt, rankZero_multiset_wrapping he i hlt⟩

/-! ### iterators -/

/-- the set-bit iterator lists the values with their ranks, duplicates included -/
theorem one_iter_lists_values (w n : Nat) (P : List Nat) (s : Sparse) (hw1 : 1 ≤ w) (hw : w ≤ 63)
    (hn : n < 2 ^ 64) (hm : P.length < 2 ^ 63) (hsorted : sortedLe P = true)
    (hbound : ∀ p ∈ P, p < n) (hs : Sparse.ofValues w n true P = ok s) (m : Mode) :
    drain m s (P.length + 1) (SpOneIter.full s) = ok (itemsFrom P 0) :=
  drain_full (ofValues_multi_encodes hw1 hw hn hm hsorted hbound hs) m

/-- … in both directions: any interleaving of `next` / `next_back` answers exactly like the same calls on
the deque `[(0, P[0]), …, (|P|-1, P[|P|-1])]` -/
theorem one_iter_two_ended (w n : Nat) (P : List Nat) (s : Sparse) (hw1 : 1 ≤ w) (hw : w ≤ 63)
    (hn : n < 2 ^ 64) (hm : P.length < 2 ^ 63) (hsorted : sortedLe P = true)
    (hbound : ∀ p ∈ P, p < n) (hs : Sparse.ofValues w n true P = ok s) (m : Mode)
    (calls : List Sparse2.End) :
    ∃ it' r' R', Sparse2.runCalls m s calls (SpOneIter.full s) =
        ok ((Sparse2.runDeque calls (itemsFrom P 0)).1, it') ∧
      (Sparse2.runDeque calls (itemsFrom P 0)).2 = Sparse2.itemsBetween P r' R' ∧
      it'.remaining = R' - r' := by
  obtain ⟨it', r', R', h1, h2, h3⟩ :=
    Sparse2.runCalls_full (ofValues_multi_encodes hw1 hw hn hm hsorted hbound hs) m calls
  exact ⟨it', r', R', h1, h2, Sparse2.remaining_between r' R' it' h3⟩

/-- the all-bits iterator (both directions) lists the `n` membership bits — one bit per *distinct* position,
duplicates skipped: any interleaving of `next` / `next_back` answers like the deque
`[P.contains 0, …, P.contains (n-1)]` -/
theorem bit_iter_lists_distinct_positions (w n : Nat) (P : List Nat) (s : Sparse) (hw1 : 1 ≤ w)
    (hw : w ≤ 63) (hn : n < 2 ^ 64) (hm : P.length < 2 ^ 63) (hsorted : sortedLe P = true)
    (hbound : ∀ p ∈ P, p < n) (hs : Sparse.ofValues w n true P = ok s) (m : Mode)
    (calls : List Sparse2.End) :
    ∃ it it', s.iter m = ok it ∧
      Sparse2.runSpCalls m s calls it =
        ok ((Sparse2.runDeque calls ((List.range n).map fun i => P.contains i)).1, it') :=
  Sparse2.iter_runSpCalls (ofValues_multi_encodes hw1 hw hn hm hsorted hbound hs) m calls

/-! ### non-vacuity: an overfull multiset (5 values in a universe of 3), duplicates at both ends -/

example : (1 ≤ 1 ∧ 1 ≤ 63 ∧ 3 < 2 ^ 64 ∧ [0, 0, 1, 2, 2].length < 2 ^ 63 ∧ sortedLe [0, 0, 1, 2, 2] = true ∧
    (∀ p ∈ [0, 0, 1, 2, 2], p < 3) ∧ [0, 0, 1, 2, 2].length > 3) := by decide
example : ∃ s, Sparse.ofValues 1 3 true [0, 0, 1, 2, 2] = ok s :=
  build_succeeds 1 3 [0, 0, 1, 2, 2] (by decide) (by decide) (by decide) (by decide) (by decide) (by decide)
/-- the hypothesis of `rank_zero_overfull` is met there: 2 values lie below 1 -/
example : (1 : Nat) < rankSet [0, 0, 1, 2, 2] 1 := by decide
/-- the reference answers on that instance: first / last occurrences, values with multiplicity, distinct bits -/
example : (succSet [0, 0, 1, 2, 2] 2 = some (3, 2) ∧ predSet [0, 0, 1, 2, 2] 2 = some (4, 2) ∧
    predSet [0, 0, 1, 2, 2] 0 = some (1, 0) ∧ rankSet [0, 0, 1, 2, 2] 2 = 3 ∧
    itemsFrom [0, 0, 1, 2, 2] 0 = [(0, 0), (1, 0), (2, 1), (3, 2), (4, 2)] ∧
    bitsOfSet [0, 0, 1, 2, 2] 3 = [true, true, true] ∧ bitsOfSet [1, 1] 3 = [false, true, false]) := by decide
example : ([1, 1, 4].getLast (by decide) + 1 = 5 ∧ sortedLe [1, 1, 4] = true ∧ sortedLe [1, 4, 1] = false) := by
  decide

/-! **`SparseVector::try_from_iter` and `is_multiset` as translated from the source on this run**
(`Generated/FnsSpMisc2.lean`, `FnsSpMisc.lean`): `try_from_iter` takes `size_hint`, removes the LAST item with `next_back`
(universe = last + 1, or 0 for an empty iterator), builds a multiset builder, `try_set`s the remaining items in order and
then `universe - 1`, and converts — equal to the model's `Sparse.ofValues … true vals` (multiset mode) that the
theorems above start from, for every width the float rule can choose.  `is_multiset` walks the one-iterator with the
previous position (initially `len`, which no item equals) and returns at the first repetition. -/
theorem try_from_iter_as_translated_from_source (m : Mode) (fw : Nat) (vals : List Nat) (hfw1 : 1 ≤ fw) (hfw2 : fw ≤ 64)
    (hu : GenEq.tfiUniv vals < U64)
    (hh : vals.length + Sparse.getBuckets (GenEq.tfiUniv vals) (GenEq.spWidth fw (GenEq.tfiUniv vals) vals.length) + 63 < U64)
    (hl : vals.length * GenEq.spWidth fw (GenEq.tfiUniv vals) vals.length + 63 < U64) :
    Generated.gen_SparseVector_try_from_iter m fw vals =
      Sparse.ofValues (GenEq.spWidth fw (GenEq.tfiUniv vals) vals.length) (GenEq.tfiUniv vals) true vals :=
  GenEq.sp_try_from_iter_eq m fw vals hfw1 hfw2 hu hh hl

theorem is_multiset_as_translated_from_source (m : Mode) (items : List (Nat × Nat)) (s : Sparse) :
    Generated.gen_SparseVector_is_multiset m items s = ok (GenEq.isMultisetList s.len (items.map (·.2))) ∧
    (∀ n (l : List Nat), GenEq.isMultisetList n l = true ↔
        (l.head? = some n ∨ ∃ i, l[i]? = l[i + 1]? ∧ i + 1 < l.length)) :=
  ⟨GenEq.sp_is_multiset_eq m items s, fun n l => GenEq.isMultisetList_iff n l⟩

end Sds.C15
