/-
C01 — A plain bitvector answers every rank / select / predecessor / successor query exactly.

Property theorems only (helper lemmas live in Proofs/).

Quantifiers.  Every bit sequence `B` enters as the content `v.bits` of a well-formed raw vector `v`
(`RawVec.WF`: exact word count, zero tail) with `v.len < 2^64` (the length is a `usize`); the corollaries at the
end quantify over `B : List Bool` directly through the three public construction routes.  Every query argument
is an arbitrary `Nat` (so every `usize` value), and every theorem holds in both arithmetic modes `m : Mode`
(`checked` = overflow checks on, `wrapping` = release build).

Regime independence.  NO theorem below has a hypothesis on the length, the density or the clustering of the
bits: the same statement covers the empty vector, partial last words / blocks / superblocks, dense ("short")
and sparse ("long") select superblocks, all-zero and all-one vectors.  That is the claim "the answers never
depend on the sampling regime a query lands in".

Supports.  `(BitVector.ofRaw v).enableAll` is `BitVector::from(raw)` followed by `enable_rank`,
`enable_select`, `enable_select_zero`.  The `…_any_valid_support` theorems show that the answers are the same
for EVERY support structure satisfying the validity predicate (`RankSup.Valid`, `SelSup.Valid`), e.g. one
loaded from a file; `built_supports_valid` shows the constructed ones are valid.

The specification functions (`rankSpec`, `selectSpec`, `selectZeroSpec`, `predSpec`, `succSpec`) are the list
definitions of Spec/Bits.lean; `select_meaning` / `select_zero_meaning` restate what `selectSpec` means without
reference to its definition.
-/
import Sds.Proofs.Rank
import Sds.Proofs.Select
import Sds.Proofs.Iter
import Sds.Proofs.RawVec
import Sds.Proofs.Glue
import Sds.Proofs.GenEqIdx
import Sds.Proofs.GenEqBv
import Sds.Proofs.GenEqLoop2
import Sds.Proofs.GenEqConstr
import Sds.Proofs.GenEqConstr2
import Sds.Proofs.IterBridge

namespace Sds.C01
open Sds Outcome IterProofs

/-! ### len, count_ones, count_zeros, get -/

/-- `len()` is the length of the bit sequence -/
theorem len_exact (v : RawVec) : (BitVector.ofRaw v).enableAll.len = v.bits.length := by
  rw [RawVec.bits_length]; rfl

/-- `count_ones()` is the number of set bits -/
theorem count_ones_exact (v : RawVec) (hv : v.WF) :
    (BitVector.ofRaw v).enableAll.countOnes = v.bits.count true :=
  RawVec.countOnes_eq hv

/-- `count_zeros()` is the number of unset bits -/
theorem count_zeros_exact (v : RawVec) (hv : v.WF) :
    (BitVector.ofRaw v).enableAll.countZeros = v.bits.count false := by
  rw [Glue.count_false_eq, RawVec.bits_length, ← RawVec.countOnes_eq hv]; rfl

/-- `get(i) = B[i]` for every `i < len` (no panic, no out-of-bounds read) -/
theorem get_exact (v : RawVec) (hv : v.WF) (i : Nat) (hi : i < v.len) :
    (BitVector.ofRaw v).enableAll.get i = ok (v.bits[i]'(by rw [RawVec.bits_length]; exact hi)) := by
  have hw : i / 64 < v.data.size := word_lt_size hv hi
  have hb := RawVec.bit_eq_getElem? v i hi
  rw [List.getElem?_eq_getElem (by rw [RawVec.bits_length]; exact hi)] at hb
  have hb' := Option.some.inj hb
  show v.bitM i = _
  unfold RawVec.bitM
  rw [if_pos hw, hb']

/-! ### rank, rank_zero -/

/-- `rank(i)` = number of set bits before `i`, for EVERY `i` (past the end it is `count_ones`) -/
theorem rank_exact (v : RawVec) (hv : v.WF) (hlen : v.len < 2 ^ 64) (i : Nat) :
    (BitVector.ofRaw v).enableAll.rankQ i = ok (rankSpec v.bits i) :=
  rankQ_build hv hlen rfl rfl (countOnes_eq v hv) i

/-- `rank_zero(i) = i - rank(i)` for EVERY `i`, in both arithmetic modes (the subtraction never underflows) -/
theorem rank_zero_exact (v : RawVec) (hv : v.WF) (hlen : v.len < 2 ^ 64) (m : Mode) (i : Nat) :
    (BitVector.ofRaw v).enableAll.rankZeroQ m i = ok (i - rankSpec v.bits i) :=
  rankZeroQ_build hv hlen rfl rfl (countOnes_eq v hv) m i

/-- … which for `i ≤ len` is the number of unset bits before `i` -/
theorem rank_zero_exact_le (v : RawVec) (hv : v.WF) (hlen : v.len < 2 ^ 64) (m : Mode) (i : Nat)
    (hi : i ≤ v.len) :
    (BitVector.ofRaw v).enableAll.rankZeroQ m i = ok (rankZeroSpec v.bits i) := by
  rw [rank_zero_exact v hv hlen m i,
    sub_rankSpec_eq_rankZeroSpec v.bits i (by rw [RawVec.bits_length]; exact hi)]

/-! ### select, select_zero -/

/-- `select(r)` = position of the set bit of rank `r`, or `None`, for EVERY `r`, both modes -/
theorem select_exact (v : RawVec) (hv : v.WF) (hlen : v.len < 2 ^ 64) (m : Mode) (r : Nat) :
    (BitVector.ofRaw v).enableAll.selectQ m r = ok (selectSpec v.bits r) :=
  selectQ_enableAll hv hlen m r

/-- `select_zero(r)` = position of the unset bit of rank `r`, or `None`, for EVERY `r`, both modes -/
theorem select_zero_exact (v : RawVec) (hv : v.WF) (hlen : v.len < 2 ^ 64) (m : Mode) (r : Nat) :
    (BitVector.ofRaw v).enableAll.selectZeroQ m r = ok (selectZeroSpec v.bits r) :=
  selectZeroQ_enableAll hv hlen m r

/-- the answer is `None` exactly when `r ≥ count_ones` -/
theorem select_none_iff (v : RawVec) (hv : v.WF) (hlen : v.len < 2 ^ 64) (m : Mode) (r : Nat) :
    (BitVector.ofRaw v).enableAll.selectQ m r = ok none ↔ v.bits.count true ≤ r := by
  rw [select_exact v hv hlen m r, ← selectSpec_eq_none_iff]
  constructor
  · intro h; exact Outcome.ok.inj h
  · intro h; rw [h]

/-- the answer is `None` exactly when `r ≥ count_zeros` -/
theorem select_zero_none_iff (v : RawVec) (hv : v.WF) (hlen : v.len < 2 ^ 64) (m : Mode) (r : Nat) :
    (BitVector.ofRaw v).enableAll.selectZeroQ m r = ok none ↔ v.bits.count false ≤ r := by
  rw [select_zero_exact v hv hlen m r, ← Glue.count_true_map_not]
  have := selectSpec_eq_none_iff (v.bits.map not) r
  unfold selectZeroSpec
  unfold selectSpec at this
  rw [← this]
  constructor
  · intro h; exact Outcome.ok.inj h
  · intro h; rw [h]

/-- what a `Some(p)` answer of `select` means: `p` is a set position with exactly `r` set bits before it -/
theorem select_meaning (v : RawVec) (hv : v.WF) (hlen : v.len < 2 ^ 64) (m : Mode) (r p : Nat) :
    (BitVector.ofRaw v).enableAll.selectQ m r = ok (some p) ↔
      p < v.bits.length ∧ v.bits[p]? = some true ∧ rankSpec v.bits p = r := by
  rw [select_exact v hv hlen m r]
  have := selectBits_spec_sel v.bits r p
  unfold selectSpec rankSpec
  rw [← this]
  constructor
  · intro h; exact Outcome.ok.inj h
  · intro h; rw [h]

/-- what a `Some(p)` answer of `select_zero` means: `p` is an unset position with exactly `r` unset bits before it -/
theorem select_zero_meaning (v : RawVec) (hv : v.WF) (hlen : v.len < 2 ^ 64) (m : Mode) (r p : Nat) :
    (BitVector.ofRaw v).enableAll.selectZeroQ m r = ok (some p) ↔
      p < v.bits.length ∧ v.bits[p]? = some false ∧ rankZeroSpec v.bits p = r := by
  rw [select_zero_exact v hv hlen m r]
  have := selectBits_spec_sel (v.bits.map not) r p
  have e1 : ((v.bits.map not).take p).count true = (v.bits.take p).count false := by
    rw [← List.map_take, Glue.count_true_map_not]
  have e2 : (v.bits.map not)[p]? = some true ↔ v.bits[p]? = some false := by
    rw [List.getElem?_map]
    cases v.bits[p]? with
    | none => simp
    | some b => cases b <;> simp
  rw [e1, e2, List.length_map] at this
  unfold selectZeroSpec rankZeroSpec
  rw [← this]
  constructor
  · intro h; exact Outcome.ok.inj h
  · intro h; rw [h]

/-! ### any valid support (e.g. one loaded from a file) -/

/-- the supports that `enable_*` build are valid -/
theorem built_supports_valid (v : RawVec) (hv : v.WF) (hlen : v.len < 2 ^ 64) :
    (RankSup.build v).Valid v ∧
    (SelSup.build v.len (positionsT .ident v)).Valid .ident v ∧
    (SelSup.build v.len (positionsT .compl v)).Valid .compl v :=
  ⟨build_valid hv hlen, SelSup.build_valid hv hlen .ident, SelSup.build_valid hv hlen .compl⟩

/-- `rank_unchecked` with ANY valid rank support: exact, and no out-of-bounds read -/
theorem rank_any_valid_support (s : RankSup) (v : RawVec) (hv : v.WF) (hs : s.Valid v) (i : Nat)
    (hi : i < v.len) : s.rankU v i = ok (rankSpec v.bits i) :=
  rankU_ok hv hs i hi

/-- `rank` / `rank_zero` of a bitvector carrying ANY valid rank support, every `i`, both modes -/
theorem rank_query_any_valid_support (b : BitVector) (v : RawVec) (s : RankSup) (hv : v.WF)
    (hdata : b.data = v) (hones : b.ones = v.bits.count true) (hrank : b.rank = some s) (hs : s.Valid v)
    (m : Mode) (i : Nat) :
    b.rankQ i = ok (rankSpec v.bits i) ∧ b.rankZeroQ m i = ok (i - rankSpec v.bits i) :=
  ⟨rankQ_ok hv hdata hrank hs hones i, rankZeroQ_ok hv hdata hrank hs hones m i⟩

/-- `select_unchecked` with ANY valid select support, for the plain (`tr = .ident`: `select`) and the
complemented (`tr = .compl`: `select_zero`) vector: exact below the count, no fault in either mode -/
theorem select_any_valid_support (s : SelSup) (tr : Tr) (v : RawVec) (hv : v.WF) (hlen : v.len < 2 ^ 64)
    (hs : s.Valid tr v) (m : Mode) (r : Nat) (hr : r < (bitsT tr v.bits).count true) :
    ∃ p, s.selectU tr m v r = ok p ∧ selectSpec (bitsT tr v.bits) r = some p :=
  selectU_ok hv hlen hs m r hr

/-- `select` / `select_zero` of a bitvector carrying ANY valid select supports, every `r`, both modes -/
theorem select_query_any_valid_support (b : BitVector) (v : RawVec) (s : SelSup) (tr : Tr) (hv : v.WF)
    (hlen : v.len < 2 ^ 64) (hdata : b.data = v) (hones : b.ones = v.bits.count true)
    (hsup : b.supT tr = some s) (hs : s.Valid tr v) (m : Mode) (r : Nat) :
    b.selectT tr m r = ok (selectSpec (bitsT tr v.bits) r) :=
  selectT_ok hv hlen hdata hones hsup hs m r

/-! ### predecessor, successor -/

/-- `predecessor(x)` for EVERY `x` (also `x ≥ len`, also `usize::MAX`), any valid supports, both modes: the
call succeeds and the first item of the returned iterator is `(rank, position)` of the nearest set bit at or
before `x` — or the iterator is empty when there is none -/
theorem predecessor_any_valid_support (b : BitVector) (v : RawVec) (rs : RankSup) (s : SelSup) (hv : v.WF)
    (hlen : v.len < 2 ^ 64) (hdata : b.data = v) (hones : b.ones = v.bits.count true)
    (hrank : b.rank = some rs) (hrs : rs.Valid v) (hsel : b.select = some s) (hs : s.Valid .ident v)
    (m : Mode) (x : Nat) :
    ∃ it it', b.predecessorQ m x = ok it ∧
      OneIterSt.nextQ .ident m b it = ok (predSpec v.bits x, it') := by
  have C : Ctx b v := ⟨hv, hlen, hdata, hones⟩
  have h := predecessorQ_ok C hrank hrs hsel hs m x
  cases hp : predSpec v.bits x with
  | none =>
    rw [hp] at h
    exact ⟨_, _, h, nextQ_none .ident m b _ (Nat.le_refl _)⟩
  | some kp =>
    obtain ⟨k, p⟩ := kp
    rw [hp] at h
    obtain ⟨h1, h2, h3⟩ := h
    have hk : k < (onesPos (bitsT .ident v.bits)).length := by
      rcases Nat.lt_or_ge k (onesPos (bitsT .ident v.bits)).length with h' | h'
      · exact h'
      · have : (onesPos v.bits)[k]? = none := List.getElem?_eq_none h'
        rw [this] at h1; cases h1
    obtain ⟨p', hp1, hp2, _⟩ := nextQ_some C .ident m h3 hk
    have e : p' = p := by
      have : (onesPos v.bits)[k]? = some p' := hp1
      rw [h1] at this; exact (Option.some.inj this).symm
    subst e
    exact ⟨_, _, h2, hp2⟩

/-- `successor(x)` for EVERY `x`, any valid supports, both modes: first item = nearest set bit at or after `x`
with its rank, or the iterator is empty -/
theorem successor_any_valid_support (b : BitVector) (v : RawVec) (rs : RankSup) (s : SelSup) (hv : v.WF)
    (hlen : v.len < 2 ^ 64) (hdata : b.data = v) (hones : b.ones = v.bits.count true)
    (hrank : b.rank = some rs) (hrs : rs.Valid v) (hsel : b.select = some s) (hs : s.Valid .ident v)
    (m : Mode) (x : Nat) :
    ∃ it it', b.successorQ m x = ok it ∧
      OneIterSt.nextQ .ident m b it = ok (succSpec v.bits x, it') := by
  have C : Ctx b v := ⟨hv, hlen, hdata, hones⟩
  have h := successorQ_ok C hrank hrs hsel hs m x
  cases hp : succSpec v.bits x with
  | none =>
    rw [hp] at h
    exact ⟨_, _, h, nextQ_none .ident m b _ (Nat.le_refl _)⟩
  | some kp =>
    obtain ⟨k, p⟩ := kp
    rw [hp] at h
    obtain ⟨h1, h2, h3⟩ := h
    have hk : k < (onesPos (bitsT .ident v.bits)).length := by
      rcases Nat.lt_or_ge k (onesPos (bitsT .ident v.bits)).length with h' | h'
      · exact h'
      · have : (onesPos v.bits)[k]? = none := List.getElem?_eq_none h'
        rw [this] at h1; cases h1
    obtain ⟨p', hp1, hp2, _⟩ := nextQ_some C .ident m h3 hk
    have e : p' = p := by
      have : (onesPos v.bits)[k]? = some p' := hp1
      rw [h1] at this; exact (Option.some.inj this).symm
    subst e
    exact ⟨_, _, h2, hp2⟩

/-- `predecessor` on `BitVector::from(raw)` with the built supports -/
theorem predecessor_exact (v : RawVec) (hv : v.WF) (hlen : v.len < 2 ^ 64) (m : Mode) (x : Nat) :
    ∃ it it', (BitVector.ofRaw v).enableAll.predecessorQ m x = ok it ∧
      OneIterSt.nextQ .ident m (BitVector.ofRaw v).enableAll it = ok (predSpec v.bits x, it') :=
  predecessor_any_valid_support _ v _ _ hv hlen rfl (countOnes_eq v hv) rfl (build_valid hv hlen) rfl
    (SelSup.build_valid hv hlen .ident) m x

/-- `successor` on `BitVector::from(raw)` with the built supports -/
theorem successor_exact (v : RawVec) (hv : v.WF) (hlen : v.len < 2 ^ 64) (m : Mode) (x : Nat) :
    ∃ it it', (BitVector.ofRaw v).enableAll.successorQ m x = ok it ∧
      OneIterSt.nextQ .ident m (BitVector.ofRaw v).enableAll it = ok (succSpec v.bits x, it') :=
  successor_any_valid_support _ v _ _ hv hlen rfl (countOnes_eq v hv) rfl (build_valid hv hlen) rfl
    (SelSup.build_valid hv hlen .ident) m x

/-! ### the construction routes, and the statement over all bit sequences -/

/-- route 1, `FromIterator<bool>` (`push_bit` per item): well formed, content exactly `B` -/
theorem route_from_bits (B : List Bool) : (RawVec.ofBits B).WF ∧ (RawVec.ofBits B).bits = B :=
  ⟨RawVec.ofBits_WF B, RawVec.bits_ofBits B⟩

/-- route 2, conversion by `copy_bit_vec` (`with_len(|B|, false)`, then `set_bit(i, true)` for every set
position `i`): well formed, content exactly `B` -/
theorem route_copy (B : List Bool) :
    ((onesPos B).foldl (fun v i => v.setBit i true) (RawVec.withLen B.length false)).WF ∧
    ((onesPos B).foldl (fun v i => v.setBit i true) (RawVec.withLen B.length false)).bits = B :=
  Glue.copyBits_spec B

/-- route 3, from any raw vector: the representation is canonical, so EVERY well-formed raw vector with content
`B`, however produced (any operation history, see C05), is the same value — and hence gives the same bitvector -/
theorem route_any_raw (v : RawVec) (hv : v.WF) : v = RawVec.ofBits v.bits :=
  RawVec.canonical hv (RawVec.ofBits_WF _) (RawVec.bits_ofBits _).symm

/-- the conversion route yields the very same representation as the iterator route -/
theorem routes_agree (B : List Bool) :
    (onesPos B).foldl (fun v i => v.setBit i true) (RawVec.withLen B.length false) = RawVec.ofBits B :=
  RawVec.canonical (route_copy B).1 (RawVec.ofBits_WF B) ((route_copy B).2.trans (RawVec.bits_ofBits B).symm)

/-- **C01 over all bit sequences.**  For every `B` (of `usize` length), in both arithmetic modes, the plain
bitvector built from `B` with all supports enabled answers: -/
theorem all_queries_exact (B : List Bool) (hB : B.length < 2 ^ 64) (m : Mode) :
    (BitVector.ofRaw (RawVec.ofBits B)).enableAll.len = B.length ∧
    (BitVector.ofRaw (RawVec.ofBits B)).enableAll.countOnes = B.count true ∧
    (BitVector.ofRaw (RawVec.ofBits B)).enableAll.countZeros = B.count false ∧
    (∀ i (hi : i < B.length), (BitVector.ofRaw (RawVec.ofBits B)).enableAll.get i = ok B[i]) ∧
    (∀ i, (BitVector.ofRaw (RawVec.ofBits B)).enableAll.rankQ i = ok (rankSpec B i)) ∧
    (∀ i, (BitVector.ofRaw (RawVec.ofBits B)).enableAll.rankZeroQ m i = ok (i - rankSpec B i)) ∧
    (∀ i, i ≤ B.length → (BitVector.ofRaw (RawVec.ofBits B)).enableAll.rankZeroQ m i = ok (rankZeroSpec B i)) ∧
    (∀ r, (BitVector.ofRaw (RawVec.ofBits B)).enableAll.selectQ m r = ok (selectSpec B r)) ∧
    (∀ r, (BitVector.ofRaw (RawVec.ofBits B)).enableAll.selectZeroQ m r = ok (selectZeroSpec B r)) ∧
    (∀ r, selectSpec B r = none ↔ B.count true ≤ r) ∧
    (∀ r, selectZeroSpec B r = none ↔ B.count false ≤ r) ∧
    (∀ x, ∃ it it', (BitVector.ofRaw (RawVec.ofBits B)).enableAll.predecessorQ m x = ok it ∧
      OneIterSt.nextQ .ident m (BitVector.ofRaw (RawVec.ofBits B)).enableAll it = ok (predSpec B x, it')) ∧
    (∀ x, ∃ it it', (BitVector.ofRaw (RawVec.ofBits B)).enableAll.successorQ m x = ok it ∧
      OneIterSt.nextQ .ident m (BitVector.ofRaw (RawVec.ofBits B)).enableAll it = ok (succSpec B x, it')) := by
  have hv := RawVec.ofBits_WF B
  have hb := RawVec.bits_ofBits B
  have hl : (RawVec.ofBits B).len = B.length := by rw [← RawVec.bits_length, hb]
  have hlen : (RawVec.ofBits B).len < 2 ^ 64 := by rw [hl]; exact hB
  refine ⟨?_, ?_, ?_, ?_, ?_, ?_, ?_, ?_, ?_, ?_, ?_, ?_, ?_⟩
  · rw [len_exact, hb]
  · rw [count_ones_exact _ hv, hb]
  · rw [count_zeros_exact _ hv, hb]
  · intro i hi
    rw [get_exact _ hv i (by rw [hl]; exact hi)]
    simp only [hb]
  · intro i; rw [rank_exact _ hv hlen i, hb]
  · intro i; rw [rank_zero_exact _ hv hlen m i, hb]
  · intro i hi; rw [rank_zero_exact_le _ hv hlen m i (by rw [hl]; exact hi), hb]
  · intro r; rw [select_exact _ hv hlen m r, hb]
  · intro r; rw [select_zero_exact _ hv hlen m r, hb]
  · intro r; exact selectSpec_eq_none_iff B r
  · intro r
    rw [← Glue.count_true_map_not]
    exact selectSpec_eq_none_iff (B.map not) r
  · intro x
    have := predecessor_exact _ hv hlen m x
    rw [hb] at this; exact this
  · intro x
    have := successor_exact _ hv hlen m x
    rw [hb] at this; exact this

/-- … and the same bitvector results from the conversion route -/
theorem all_routes_same_bitvector (B : List Bool) :
    (BitVector.ofRaw ((onesPos B).foldl (fun v i => v.setBit i true) (RawVec.withLen B.length false))).enableAll
      = (BitVector.ofRaw (RawVec.ofBits B)).enableAll := by
  rw [routes_agree]

/-! ### non-vacuity -/

example : (RawVec.ofBits [true, false, true]).WF ∧ (RawVec.ofBits [true, false, true]).len < 2 ^ 64 := by decide
example : (RawVec.ofBits []).WF := by decide
example : (BitVector.ofRaw (RawVec.ofBits [true, false, true])).enableAll.rankQ 2 = ok 1 := by decide
example : (BitVector.ofRaw (RawVec.ofBits [true, false, true])).enableAll.selectQ .wrapping 1 = ok (some 2) := by
  decide
example : (BitVector.ofRaw (RawVec.ofBits [true, false, true])).enableAll.selectZeroQ .checked 1 = ok none := by
  decide
example : predSpec [true, false, true] 1 = some (0, 0) ∧ succSpec [true, false, true] 1 = some (1, 2) := by decide

/-! **`RankSupport::rank` / `rank_unchecked` as translated from the source on this run** (`Generated/FnsIdx.lean`,
tools/rs2lean.py: the block / word / offset arithmetic, the 9-bit relative-rank extraction, the masked popcount, the three
additions in the arithmetic of the build mode).  For every support whose block samples leave room for one block
(`sample + 575 < 2^64` — true of every support built from, or validated against, a vector shorter than 2^64 bits, since
the sample is a rank), the code as it is NOW is the model function `RankSup.rankU` that `rank_exact`, … above are about;
the safe variant is the same function with the out-of-range read turned into an index panic. -/
theorem rank_support_as_translated_from_source (m : Mode) (s : RankSup) (v : RawVec) (i : Nat) (hi : i < U64)
    (hs : ∀ k (h : k < s.samples.size), (s.samples[k]).1.toNat + 575 < U64) :
    Generated.gen_RankSupport_rank_unchecked m s v i = RankSup.rankU s v i ∧
    Generated.gen_RankSupport_rank m s v i = safely (RankSup.rankU s v i) :=
  ⟨GenEq.rank_unchecked_eq m s v i hs, GenEq.rank_eq_safely m s v i hi (fun h => hs _ h)⟩

/-- the hypothesis is met by a support as built, and the translated code returns the rank -/
example : Generated.gen_RankSupport_rank_unchecked .checked (RankSup.build (RawVec.ofBits [true, false, true, true]))
    (RawVec.ofBits [true, false, true, true]) 3 = ok 2 := by decide

/-! **The query methods of `BitVector` as translated from the source on this run** (`Generated/FnsBv.lean`): `len`,
`count_ones`, `get`, `rank`, `select`, `select_zero`, `select_iter`, `select_zero_iter`, `predecessor`, `successor`,
`one_iter`, `zero_iter`, `iter` — the range tests (`index >= len`, `rank >= count`), the `unwrap` of the optional support,
the `saturating_add` of the repair of F2, the cursors of the iterators returned.  The code as it is NOW is the model
function the theorems above are about (`rankQ`, `selectT`, `selectIterT`, `predecessorQ`, `successorQ`); the only
hypothesis is the one of `rank_support_as_translated_from_source` (rank samples are ranks of a vector shorter than 2^64). -/
theorem bit_vector_queries_as_translated_from_source (m : Mode) (b : BitVector) (i r v : Nat)
    (hs : ∀ s, b.rank = some s → ∀ k (h : k < s.samples.size), (s.samples[k]).1.toNat + 575 < U64) :
    Generated.gen_BitVector_len m b = ok b.len ∧
    Generated.gen_BitVector_count_ones m b = ok b.countOnes ∧
    Generated.gen_BitVector_get m b i = b.get i ∧
    Generated.gen_BitVector_rank m b i = b.rankQ i ∧
    Generated.gen_BitVector_select m b r = b.selectQ m r ∧
    Generated.gen_BitVector_select_zero m b r = b.selectZeroQ m r ∧
    Generated.gen_BitVector_select_iter m b r = b.selectIterT .ident m r ∧
    Generated.gen_BitVector_select_zero_iter m b r = b.selectIterT .compl m r ∧
    Generated.gen_BitVector_predecessor m b v = b.predecessorQ m v ∧
    Generated.gen_BitVector_successor m b v = b.successorQ m v ∧
    Generated.gen_BitVector_one_iter m b = ok (OneIterSt.full .ident b) ∧
    Generated.gen_BitVector_zero_iter m b = ok (OneIterSt.full .compl b) ∧
    Generated.gen_BitVector_iter m b = ok ⟨0, b.len⟩ :=
  ⟨GenEq.bv_len_eq m b, GenEq.bv_count_ones_eq m b, GenEq.bv_get_eq m b i, GenEq.bv_rank_eq m b i hs,
   GenEq.bv_select_eq m b r, GenEq.bv_select_zero_eq m b r, GenEq.bv_select_iter_eq m b r,
   GenEq.bv_select_zero_iter_eq m b r, GenEq.bv_predecessor_eq m b v hs, GenEq.bv_successor_eq m b v hs,
   GenEq.bv_one_iter_eq m b, GenEq.bv_zero_iter_eq m b, GenEq.bv_iter_eq m b⟩

/-- the translated `predecessor(usize::MAX)` on a vector with its supports returns the last set bit in the checked build
(finding F2: the unclamped `value + 1` panicked here) -/
example : Generated.gen_BitVector_predecessor .checked (BitVector.ofRaw (RawVec.ofBits [true, false, true])).enableAll (U64 - 1)
    = ok ⟨(1, 2), (2, 3)⟩ := by decide +kernel

/-! **`SelectSupport::select_unchecked` as translated from the source on this run — loop included**
(`Generated/FnsLoop.lean`).  The translator turns the `loop { … break }` of the word scan into `loopM` over the variables
the body assigns (`relative_rank, result, value, word`), with the iteration bound the model uses (one more than the number
of words).  For every rank and every vector of fewer than 2^64 words the code as it is NOW — sample lookup, long / short
decision on the low bit of the pointer, block sample, masked first word, scan, in-word select — is `SelSup.selectU`, the
function `select_exact` and the no-out-of-bounds theorems of C08 are about. -/
theorem select_unchecked_as_translated_from_source (m : Mode) (tr : Tr) (s : SelSup) (v : RawVec) (rank : Nat)
    (hr : rank < U64) (hv : v.data.size < U64) :
    Generated.gen_SelectSupport_select_unchecked m tr s v rank = s.selectU tr m v rank :=
  GenEq.select_unchecked_eq m tr s v rank hr hv

/-! **`RankSupport::new` as translated from the source on this run** (`Generated/FnsConstr.lean`): the two nested `for`
loops (512-bit blocks, 64-bit words; `block_ones << (word * 9)` packed into the relative ranks, `low_set(63)` mask, the
running absolute count) equal the model's `RankSup.build`, whose samples the rank theorems above are about, on every
size-exact vector of fewer than 2^64 − 512 bits. -/
theorem rank_support_new_as_translated_from_source (m : Mode) (v : RawVec)
    (hwf : v.data.size = (v.len + 63) / 64) (hl : v.len + 512 < U64) :
    Generated.gen_RankSupport_new m v = ok (RankSup.build v) :=
  GenEq.rank_support_new_eq m v hwf hl

/-! **`SelectSupport::new` as translated from the source on this run** (`Generated/FnsConstr2.lean`): the superblock count,
`log4`, the two `OneIter`s over the parent (each the list of its (rank, position) items: `next` = head / tail, `nth(k)` =
drop k), the `while sample != None` loop with `nth(SUPERBLOCK_SIZE - 1)`, the long / short decision `limit.1 - start.1 >=
log4`, the inner `for` loops pushing relative positions (every item / every 64th via `nth(BLOCK_SIZE - 1)`), and the three
`pack()` calls — equal to the model's `SelSup.build` over the transformed positions of the vector, for `select` and
`select_zero` alike, on every vector of fewer than 2^58 bits (`len * 64 + 127 < 2^64`).  The select theorems above are
about `SelSup.build`; with this the code that fills the samples NOW is that function.  That the list IS what the two
`OneIter`s yield is `one_iterators_as_translated_from_source` (C10) together with the iterator theorems. -/
theorem select_support_new_as_translated_from_source (m : Mode) (tr : Tr) (v : RawVec) (hlen : v.len * 64 + 127 < U64) :
    Generated.gen_SelectSupport_new m v.len (positionsT tr v).size (GenEq.enumerate (positionsT tr v)) =
      ok (SelSup.build v.len (positionsT tr v)) :=
  GenEq.select_support_new_positions m tr v hlen

/-- … and for ANY ascending positions below `len` (what a generic `Transformation` yields) -/
theorem select_support_new_as_translated_any_positions (m : Mode) (len : Nat) (pos : Array Nat)
    (hs : pos.toList.Pairwise (· < ·)) (hlt : ∀ x, x ∈ pos.toList → x < len) (hlen : len * 64 + 127 < U64) :
    Generated.gen_SelectSupport_new m len pos.size (GenEq.enumerate pos) = ok (SelSup.build len pos) :=
  GenEq.select_support_new_eq m len pos hs hlt hlen

/-- … and with the list step discharged (`Proofs/IterBridge.lean`): for ANY list `l` that simulates the freshly created
iterator (`Sim`: the relation preserved by the translated `next` / `nth`, `GenEq.gen_next_sim` / `gen_nth_sim`), the
translated `SelectSupport::new` fed with `l` builds the model's support -/
theorem select_support_new_from_the_real_iterator {b : BitVector} (g : GenEq.Good b) (tr : Tr) (m : Mode)
    (hlen : b.data.len * 64 + 127 < U64) {l : List (Nat × Nat)} (h : GenEq.Sim tr b (OneIterSt.full tr b) l) :
    Generated.gen_SelectSupport_new m b.len (b.countT tr) l = ok (SelSup.build b.len (positionsT tr b.data)) :=
  GenEq.select_support_new_via_iter g tr m hlen h

end Sds.C01
