/-
C08 — The safe API never touches memory outside a structure's buffers.

Property theorems only (helper lemmas live in Proofs/).

How the model sees an out-of-bounds access.  Every read the code performs through an UNCHECKED accessor is
modelled by one of three functions, each of which returns the distinguished fault `Fault.oob` when the index is
out of range instead of a value:
  * `getW`   — `Vec<u64>::get_unchecked` (word reads of `rank_unchecked`, `T::word_unchecked`, the scans of
               `select_unchecked` and of `OneIter<T>`), and the sample read of `rank_unchecked`;
  * `tableU` — `get_unchecked` into the constant tables `LOW_SET`, `HIGH_SET`, `PS_OVERFLOW`, `SELECT_IN_BYTE`;
  * `selWord` — `bits::select(word, rank)`, undefined when `rank ≥ popcount(word)`.
A fault propagates through every `do` block.  Hence every theorem of the form `query … = ok …` is also a theorem
"this call performs no out-of-bounds access" — and, read for `m = .checked`, "no overflow panic" — and the
theorems below, which say `= ok _` or `= ok _ ∨ = fault (.panic _)`, are the no-out-of-bounds statements.
Accesses through CHECKED indexing (`a[i]`, `assert!`) are modelled by `getC` / explicit tests and yield
`fault (.panic .index)` resp. `fault (.panic .assert)`: a panic, never `oob`.

Build configurations.  `m : Mode` ranges over `checked` (debug: overflow panics) and `wrapping` (optimised build
without overflow checks: arithmetic wraps, which is exactly how a wrapped index could become an out-of-bounds
read — see F1 below).  With / without BMI2: `in_word_select_both_paths`.

Quantifiers.  Every well-formed raw vector of `usize` length; every support satisfying the validity predicate
(built, or loaded from bytes the library wrote); every argument `i`, `r`, `x`, `n`, `k : Nat` (all `usize`
values, including `usize::MAX`); every finite call history on iterators; both modes.

Structures covered, each with a summary theorem for every argument and both modes:
  * the bit primitives, the plain bitvector with its rank / select supports, `OneIter<T>`, the two-cursor
    iterators, the integer vector's item access, the memory-mapped views' constructors —
    `plain_bitvector_api_no_oob_partial`;
  * the SAFE `Transformation::word` of the public trait (`Identity`: checked read; `Complement`: checked read from
    the last word index on, unchecked strictly below it) for every well-formed vector and EVERY index —
    `transformation_word_never_oob`, `transformation_word_in_range_value`; the guard is needed as written —
    `transformation_word_weakened_guard_reads_out_of_bounds`; the safe entry points of the support structures
    (`RankSupport::rank`, `SelectSupport::select`: bounds-checked accessors, modelled by `safely`) —
    `safe_support_entry_points_never_oob`;
  * the sparse (Elias–Fano) vector — `sparse_api_no_oob_partial` (every vector satisfying the encoding relation:
    built or loaded; set mode) and `sparse_multiset_api_no_oob_partial`; the builder:
    `sparse_builder_never_oob`;
  * the run-length vector — `run_length_api_no_oob_partial` (every accepted builder call history; the conversion
    `From<RLBuilder>` itself: C03 `conversion_never_faults`);
  * the wavelet matrix and its core mapping — `wavelet_matrix_api_no_oob_partial` (every matrix satisfying the
    invariant `WM.Ok`, e.g. every built one).
These are corollaries of the `= ok …` theorems of Proofs/Sparse, Sparse2, RLQueries, WM: in the model the only
source of the fault `oob` is an unchecked access with an out-of-range index (`getW`, `tableU`, `selWord`), and a
fault propagates through every `do` block, so `op … = ok r` says that no out-of-range index is formed anywhere
inside `op`, in the mode `m` it is stated for (both).  Where a call is outside the documented domain the
statement is `≠ fault .oob` (sparse `get(i)`, `i ≥ len`: a defined value or the documented panic) or the exact
panic (wavelet-matrix `get(i)`, `i ≥ len`: `unwrap`).

PARTIAL — why every summary keeps `_partial` in its name.
  (1) The theorems are about the MODEL: that the Rust code forms the same indices is the correspondence argument,
      and the real memory accesses (`get_unchecked`, `Vec::load`'s `set_len`, mapped slices) are observed through
      the bounds hooks in all four build configurations, not proven.
  (2) Writes, and reads through checked indexing, are modelled by total functions (`Array.setIfInBounds`, `rd`)
      whose in-range side conditions appear as hypotheses of the C17 / C05 theorems and are discharged there from
      the representation invariants; `intvec_get_in_bounds` / `intvec_set_in_bounds` show this for the integer
      vector.
  (3) Call SEQUENCES: iterators of the plain bitvector are covered under every call history (`next`,
      `next_back`, `nth k`, `nth_back k`, `len`); the sparse set-bit and all-bits iterators under every `next` /
      `next_back` history (their `nth` is the default repeated `next`); the sparse zero iterator and the
      run-length iterators drained by `next` to the end; NOT covered: `next` calls after the first on the
      iterators returned by `select_zero_iter(r)`, `r < count_zeros` (sparse and run-length), and histories
      mixing several structures.
  (4) Serialised / loaded structures are covered through their invariants (`Sparse.Encodes`, `WM.Ok`,
      `RankSup.Valid`, `SelSup.Valid`), which the loaders establish for bytes the library wrote (C06 / C07); a
      loaded run-length vector is covered by correspondence only.
-/
import Sds.Proofs.Rank
import Sds.Proofs.Select
import Sds.Proofs.Iter
import Sds.Proofs.BitsMore
import Sds.Proofs.Tables
import Sds.Proofs.IntVec
import Sds.Proofs.Glue
import Sds.Proofs.Glue2
import Sds.Proofs.Glue5
import Sds.Proofs.SafeApi
import Sds.Proofs.GenEqBv

namespace Sds.C08
open Sds Outcome IterProofs

/-! ### bit primitives: mask tables and in-word select -/

/-- the unchecked mask reads are in range on the whole documented domain `0..=64` -/
theorem mask_reads_in_range (n : Nat) (h : n ≤ 64) : lowSetU n = ok (lowSet n) ∧ highSetU n = ok (highSet n) :=
  ⟨lowSetU_eq n h, highSetU_eq n h⟩

/-- (documentation) outside that domain the unchecked read WOULD be out of bounds, and the checked one panics:
the model does distinguish the cases -/
theorem mask_reads_outside_domain (n : Nat) (h : 64 < n) :
    lowSetU n = fault .oob ∧ lowSetT n = fault (.panic .index) :=
  ⟨lowSetU_out n h, lowSetT_out n h⟩

/-- `bits::select`, portable (SWAR) path: for EVERY word and EVERY rank below the population count, in both
modes, the two unchecked table reads (`PS_OVERFLOW[rank + 1]`, `SELECT_IN_BYTE[…]`) are in range, no arithmetic
step overflows, and the answer is the specified bit -/
theorem in_word_select_portable (m : Mode) (n : Word) (r : Nat) (h : r < popcount n) :
    ∃ p, selectPortable m n r = ok p ∧ selectBits (bitsOfWord n) r = some p :=
  selectPortable_spec m n r h

/-- with and without BMI2: the PDEP path (no table at all) and the portable path return the same position,
which is what the model's `selWord` returns -/
theorem in_word_select_both_paths (m : Mode) (n : Word) (r : Nat) (h : r < popcount n) :
    selectPortable m n r = ok (selectPdep n r) ∧ selWord n r = ok (selectPdep n r) := by
  have hp := selectPdep_spec n r h
  obtain ⟨p, h1, h2⟩ := selectPortable_spec m n r h
  rw [hp] at h2
  have e : selectPdep n r = p := Option.some.inj h2
  refine ⟨by rw [h1, e], ?_⟩
  unfold selWord
  rw [hp]

/-- (documentation) `bits::select` with `rank ≥ popcount` is undefined behaviour in the code and `oob` in the
model; every caller below establishes `rank < popcount` first -/
theorem in_word_select_precondition (w : Word) (r : Nat) :
    (r < popcount w → ∃ p, selWord w r = ok p) ∧ (popcount w ≤ r → selWord w r = fault .oob) :=
  ⟨selWord_isOk w r, selWord_oob w r⟩

/-! ### rank -/

/-- `rank_unchecked(i)`, `i < len`, ANY valid support: the sample read and the word read are in range -/
theorem rank_unchecked_in_bounds (s : RankSup) (v : RawVec) (hv : v.WF) (hs : s.Valid v) (i : Nat)
    (hi : i < v.len) : ∃ r, s.rankU v i = ok r :=
  ⟨_, rankU_ok hv hs i hi⟩

/-- `rank(i)` for EVERY `i` on a bitvector whose rank support, IF present, is valid: the defined answer, or the
`unwrap` panic of a missing support — never an out-of-bounds read -/
theorem rank_never_oob (b : BitVector) (v : RawVec) (hv : v.WF) (hdata : b.data = v)
    (hones : b.ones = v.bits.count true) (hrank : ∀ s, b.rank = some s → s.Valid v) (i : Nat) :
    b.rankQ i = ok (rankSpec v.bits i) ∨ b.rankQ i = fault (.panic .unwrap) := by
  cases hr : b.rank with
  | some s => exact Or.inl (rankQ_ok hv hdata hr (hrank s hr) hones i)
  | none =>
    by_cases hi : i ≥ b.len
    · left
      unfold BitVector.rankQ
      rw [if_pos hi]
      have : v.bits.length ≤ i := by
        rw [RawVec.bits_length, ← hdata]; exact hi
      rw [rankSpec_of_ge v.bits i this, ← hones]; rfl
    · right
      unfold BitVector.rankQ
      rw [if_neg hi, hr]

/-- `rank_zero(i)` for EVERY `i`, both modes, likewise (with a valid support the subtraction never underflows) -/
theorem rank_zero_never_oob (b : BitVector) (v : RawVec) (s : RankSup) (hv : v.WF) (hdata : b.data = v)
    (hones : b.ones = v.bits.count true) (hrank : b.rank = some s) (hs : s.Valid v) (m : Mode) (i : Nat) :
    b.rankZeroQ m i = ok (i - rankSpec v.bits i) :=
  rankZeroQ_ok hv hdata hrank hs hones m i

/-! ### select -/

/-- `select_unchecked(r)`, `r < count`, ANY valid support, plain and complemented vector, both modes: the three
integer-vector reads pass their assertions, the word reads are in range, in-word select meets its precondition,
no addition overflows -/
theorem select_unchecked_in_bounds (s : SelSup) (tr : Tr) (v : RawVec) (hv : v.WF) (hlen : v.len < 2 ^ 64)
    (hs : s.Valid tr v) (m : Mode) (r : Nat) (hr : r < (bitsT tr v.bits).count true) :
    ∃ p, s.selectU tr m v r = ok p := by
  obtain ⟨p, h, _⟩ := selectU_ok hv hlen hs m r hr
  exact ⟨p, h⟩

/-- the word scan inside `select_unchecked` (and `nth`): started anywhere inside the buffer with more than `rr`
set bits at or after the start, it stops inside the buffer -/
theorem select_scan_in_bounds (v : RawVec) (hv : v.WF) (hlen : v.len < 2 ^ 64) (tr : Tr) (m : Mode)
    (fuel word wo rr : Nat) (w : Word) (hwo : wo ≤ 64) (hword : word < v.data.size)
    (hw : wordT tr v word = ok w) (hfuel : v.data.size ≤ fuel + word)
    (hcount : rankSpec (bitsT tr v.bits) (64 * word + wo) + rr < (bitsT tr v.bits).count true) :
    ∃ p, SelSup.scan tr m v fuel word (w &&& ~~~ lowSet wo) rr = ok p := by
  obtain ⟨p, h, _⟩ := scan_ok_count hv hlen tr m fuel word wo rr w hwo hword hw hfuel hcount
  exact ⟨p, h⟩

/-- `select(r)` / `select_zero(r)` for EVERY `r`, both modes, on a bitvector whose select support, IF present,
is valid: the defined answer or the `unwrap` panic — never an out-of-bounds read -/
theorem select_never_oob (b : BitVector) (v : RawVec) (tr : Tr) (hv : v.WF) (hlen : v.len < 2 ^ 64)
    (hdata : b.data = v) (hones : b.ones = v.bits.count true)
    (hsup : ∀ s, b.supT tr = some s → s.Valid tr v) (m : Mode) (r : Nat) :
    b.selectT tr m r = ok (selectSpec (bitsT tr v.bits) r) ∨ b.selectT tr m r = fault (.panic .unwrap) := by
  cases hsu : b.supT tr with
  | some s => exact Or.inl (selectT_ok hv hlen hdata hones hsu (hsup s hsu) m r)
  | none =>
    by_cases hr : r ≥ b.countT tr
    · left
      unfold BitVector.selectT
      rw [if_pos hr]
      rw [countT_eq hdata hones tr] at hr
      rw [selectSpec_eq_none _ r hr]
    · right
      unfold BitVector.selectT
      rw [if_neg hr, hsu]

/-! ### the safe `Transformation::word`; the safe entry points of the support structures -/

/-- `Transformation::word(parent, index)` of the public trait (`Identity`, `Complement`), EVERY well-formed vector
and EVERY index: never an out-of-bounds read.  In range (`64 * i < len`, i.e. `i < words`) it returns; from
`i ≥ words` on it is the index panic of the bounds-checked `RawVector::word` — for `Complement` too, whose unchecked
read sits in the branch `index < len / 64` only -/
theorem transformation_word_never_oob (tr : Tr) (v : RawVec) (hv : v.WF) (i : Nat) :
    wordSafeT tr v i ≠ fault .oob ∧
    ((64 * i < v.len ∧ ∃ w, wordSafeT tr v i = ok w) ∨
     (v.len ≤ 64 * i ∧ wordSafeT tr v i = fault (.panic .index))) ∧
    (v.data.size ≤ i → wordSafeT tr v i = fault (.panic .index)) := by
  refine ⟨SafeApi.wordSafeT_ne_oob hv tr i, ?_, SafeApi.wordSafeT_panic hv tr i⟩
  rcases SafeApi.wordSafeT_cases hv tr i with ⟨h1, h2⟩ | ⟨h1, h2⟩
  · exact .inl ⟨h1, _, h2⟩
  · exact .inr ⟨h1, h2⟩

/-- … and in range it is the same computation as `word_unchecked` (`wordT`), returning the word whose bit `k` is bit
`64 * i + k` of the transformed bit sequence where that position exists, and 0 from `len` on -/
theorem transformation_word_in_range_value (tr : Tr) (v : RawVec) (hv : v.WF) (i : Nat) (hi : 64 * i < v.len) :
    wordSafeT tr v i = wordT tr v i ∧
    ∃ w, wordSafeT tr v i = ok w ∧ ∀ k, k < 64 →
      (64 * i + k < v.len → (bitsT tr v.bits)[64 * i + k]? = some (w.getLsbD k)) ∧
      (v.len ≤ 64 * i + k → w.getLsbD k = false) :=
  SafeApi.wordSafeT_in_range hv tr i hi

/-- (documentation) the guard must be `index >= last_index`: with `index == last_index`
(`SafeApi.wordSafeTEq`) the call `Complement::word(v, 2)` on the well-formed 70-bit vector `SafeApi.cexVec` (two
words, `last_index = 1`) reaches the unchecked read with an index past the buffer; the code as written panics -/
theorem transformation_word_weakened_guard_reads_out_of_bounds :
    SafeApi.cexVec.WF ∧ SafeApi.cexVec.len = 70 ∧ SafeApi.cexVec.data.size = 2 ∧
    SafeApi.wordSafeTEq .compl SafeApi.cexVec 2 = fault .oob ∧
    wordSafeT .compl SafeApi.cexVec 2 = fault (.panic .index) :=
  ⟨SafeApi.wordSafeTEq_oob.1, rfl, rfl, SafeApi.wordSafeTEq_oob.2.1, SafeApi.wordSafeTEq_oob.2.2⟩

/-- the safe entry points `RankSupport::rank` / `SelectSupport::select` (`safely`: the computation of the unchecked
variants through bounds-checked accessors) never yield `oob`, whatever the unchecked computation does, and change no
other outcome.  (True by construction of `safely`; that the Rust entry points are this function is correspondence.) -/
theorem safe_support_entry_points_never_oob {α} (x : Outcome α) :
    safely x ≠ fault .oob ∧ (x ≠ fault .oob → safely x = x) ∧ (x = fault .oob → safely x = fault (.panic .index)) :=
  ⟨SafeApi.safely_ne_oob x, SafeApi.safely_eq x, fun h => by rw [h]; rfl⟩

/-! ### get, integer-vector items -/

/-- `get(i)` for EVERY bitvector and EVERY `i`: the word index is checked — the bit, or an index panic -/
theorem get_never_oob (b : BitVector) (i : Nat) :
    b.get i = ok (b.data.bit i) ∨ b.get i = fault (.panic .index) := by
  unfold BitVector.get RawVec.bitM
  by_cases h : i / 64 < b.data.data.size
  · left; rw [if_pos h]
  · right; rw [if_neg h]

/-- `IntVector::get(i)` for EVERY vector and EVERY `i`: the item, or the assertion panic -/
theorem intvec_get_never_oob (v : IntVec) (i : Nat) :
    v.get i = ok (v.getRaw i) ∨ v.get i = fault (.panic .assert) := by
  by_cases h : i < v.len
  · exact Or.inl (IntVec.get_ok v i h)
  · exact Or.inr (IntVec.get_fault v i (by omega))

/-- … and for an index that passes the assertion, the bit-field read of a well-formed vector lies inside the
word buffer: the index-guarded `read_int` succeeds, with the item -/
theorem intvec_get_in_bounds (v : IntVec) (hv : v.WF) (i : Nat) (hi : i < v.len) :
    readIntM v.data.data (i * v.width) v.width = ok (v.getRaw i) := by
  obtain ⟨h1, h64, hlen, hwf⟩ := hv
  have hsz := hwf.1
  have hf := IntVec.field_le (v := v) i hi
  have hget : v.getRaw i = readInt v.data.data (i * v.width) v.width := by
    unfold IntVec.getRaw RawVec.int; rw [if_neg (by omega)]
  rw [hget]
  unfold readIntM
  have hnw : ¬ (v.width > 64) := by omega
  simp only [hnw, if_false]
  generalize i * v.width = off at *
  by_cases hc : off % 64 + v.width ≤ 64
  · have hidx : off / 64 < v.data.data.size := by omega
    simp only [hc, if_true, hidx]
  · have hidx : off / 64 + 1 < v.data.data.size := by omega
    simp only [hc, if_false, hidx, if_true]

/-- likewise the bit-field write of `IntVector::set(i, x)`: the index-guarded `write_int` succeeds -/
theorem intvec_set_in_bounds (v : IntVec) (hv : v.WF) (i : Nat) (hi : i < v.len) (x : Word) :
    writeIntM v.data.data (i * v.width) x v.width = ok (writeInt v.data.data (i * v.width) x v.width) := by
  obtain ⟨h1, h64, hlen, hwf⟩ := hv
  have hsz := hwf.1
  have hf := IntVec.field_le (v := v) i hi
  unfold writeIntM
  have hnw : ¬ (v.width > 64) := by omega
  simp only [hnw, if_false]
  generalize i * v.width = off at *
  by_cases hc : off % 64 + v.width ≤ 64
  · have hidx : off / 64 < v.data.data.size := by omega
    simp only [hc, if_true, hidx]
  · have hidx : off / 64 + 1 < v.data.data.size := by omega
    simp only [hc, if_false, hidx, if_true]

/-! ### iterators -/

/-- `one_iter()` / `zero_iter()`: NO call history — `next`, `next_back`, `nth k`, `nth_back k` for every
`k : Nat`, `len`, in any order and number — makes any call fault, in either mode -/
theorem one_iter_never_faults (b : BitVector) (v : RawVec) (hv : v.WF) (hlen : v.len < 2 ^ 64)
    (hdata : b.data = v) (hones : b.ones = v.bits.count true) (tr : Tr) (m : Mode) (calls : List ICall) :
    ∃ os, oneRun tr m b (OneIterSt.full tr b) calls = ok os :=
  ⟨_, oneRun_full ⟨hv, hlen, hdata, hones⟩ tr m calls⟩

/-- the same from any state an iterator can be in (`Rel`: standing for a rank interval `[r, R)`) -/
theorem one_iter_never_faults_from_state (b : BitVector) (v : RawVec) (hv : v.WF) (hlen : v.len < 2 ^ 64)
    (hdata : b.data = v) (hones : b.ones = v.bits.count true) (tr : Tr) (m : Mode) (it : OneIterSt)
    (r R : Nat) (hrel : Rel tr v it r R) (calls : List ICall) :
    ∃ os, oneRun tr m b it calls = ok os :=
  ⟨_, oneRun_sim ⟨hv, hlen, hdata, hones⟩ tr m calls hrel⟩

/-- `nth(n)` for EVERY `n` (the repaired comparison `n >= limit.0 - next.0`): an item, or `None` — never a
fault; in particular `n = usize::MAX` -/
theorem one_iter_nth_never_faults (b : BitVector) (v : RawVec) (hv : v.WF) (hlen : v.len < 2 ^ 64)
    (hdata : b.data = v) (hones : b.ones = v.bits.count true) (tr : Tr) (m : Mode) (it : OneIterSt)
    (r R : Nat) (hrel : Rel tr v it r R) (n : Nat) :
    ∃ o it', OneIterSt.nthQ tr m b it n = ok (o, it') := by
  by_cases h : r + n < R
  · obtain ⟨p, _, h2, _⟩ := nthQ_some ⟨hv, hlen, hdata, hones⟩ tr m hrel n h
    exact ⟨_, _, h2⟩
  · exact ⟨_, _, (nthQ_none (b := b) tr m hrel n (by omega)).1⟩

/-- `select_iter(r)` / `select_zero_iter(r)` for EVERY `r`, then any call history: no fault -/
theorem select_iter_never_faults (b : BitVector) (v : RawVec) (s : SelSup) (hv : v.WF) (hlen : v.len < 2 ^ 64)
    (hdata : b.data = v) (hones : b.ones = v.bits.count true) (tr : Tr) (m : Mode)
    (hsup : b.supT tr = some s) (hs : s.Valid tr v) (r : Nat) (calls : List ICall) :
    ∃ it os, b.selectIterT tr m r = ok it ∧ oneRun tr m b it calls = ok os := by
  have C : Ctx b v := ⟨hv, hlen, hdata, hones⟩
  obtain ⟨h1, h2⟩ := Rel_selectIter C tr m hsup hs r
  by_cases hr : r < (onesPos (bitsT tr v.bits)).length
  · obtain ⟨p, _, hit, hrel⟩ := h1 hr
    exact ⟨_, _, hit, oneRun_sim C tr m calls hrel⟩
  · exact ⟨_, _, h2 (by omega), oneRun_sim C tr m calls (Rel_empty C tr)⟩

/-- `predecessor(x)` and `successor(x)` for EVERY `x` (also `x ≥ len`, `x = usize::MAX`), then any call
history: no fault -/
theorem predecessor_successor_never_fault (b : BitVector) (v : RawVec) (rs : RankSup) (s : SelSup) (hv : v.WF)
    (hlen : v.len < 2 ^ 64) (hdata : b.data = v) (hones : b.ones = v.bits.count true)
    (hrank : b.rank = some rs) (hrs : rs.Valid v) (hsel : b.select = some s) (hs : s.Valid .ident v)
    (m : Mode) (x : Nat) (calls : List ICall) :
    (∃ it os, b.predecessorQ m x = ok it ∧ oneRun .ident m b it calls = ok os) ∧
    (∃ it os, b.successorQ m x = ok it ∧ oneRun .ident m b it calls = ok os) := by
  have C : Ctx b v := ⟨hv, hlen, hdata, hones⟩
  constructor
  · have h := predecessorQ_ok C hrank hrs hsel hs m x
    cases hp : predSpec v.bits x with
    | none => rw [hp] at h; exact ⟨_, _, h, oneRun_sim C .ident m calls (Rel_empty C .ident)⟩
    | some kp =>
      obtain ⟨k, p⟩ := kp
      rw [hp] at h
      exact ⟨_, _, h.2.1, oneRun_sim C .ident m calls h.2.2⟩
  · have h := successorQ_ok C hrank hrs hsel hs m x
    cases hp : succSpec v.bits x with
    | none => rw [hp] at h; exact ⟨_, _, h, oneRun_sim C .ident m calls (Rel_empty C .ident)⟩
    | some kp =>
      obtain ⟨k, p⟩ := kp
      rw [hp] at h
      exact ⟨_, _, h.2.1, oneRun_sim C .ident m calls h.2.2⟩

/-- two-cursor iterators (`AccessIter`, `bit_vector::Iter`): under every call history the iterator consults its
parent only at indices below `len` — its answers do not depend on what `get` would return at or beyond `len` -/
theorem two_cursor_reads_in_range {α} (n : Nat) (get get' : Nat → α) (hagree : ∀ i, i < n → get i = get' i)
    (calls : List ICall) : cursorRun get ⟨0, n⟩ calls = cursorRun get' ⟨0, n⟩ calls := by
  have h1 := cursorRun_eq ((List.range n).map get) get (fun i hi => by
    rw [List.length_map, List.length_range] at hi
    rw [List.getElem?_map, List.getElem?_range hi]; rfl) calls
  have h2 := cursorRun_eq ((List.range n).map get) get' (fun i hi => by
    rw [List.length_map, List.length_range] at hi
    rw [List.getElem?_map, List.getElem?_range hi, ← hagree i hi]; rfl) calls
  rw [List.length_map, List.length_range] at h1 h2
  rw [h1, h2]

/-! ### memory-mapped views: the constructors never index outside the file -/

/-- `MappedSlice::new`, `MappedBytes::new`, `MappedStr::new`, `RawVectorMapper::new`, `IntVectorMapper::new`
(as repaired after finding F11, see C13), `MappedOption::new`: for EVERY file, EVERY offset and both modes the outcome is a
view, an `io::Error`, or a panic (overflow in a checked build, checked index) — never an out-of-bounds read -/
theorem view_slice_never_oob (m : Mode) (k : Nat) (file : Array Word) (offset : Nat) :
    View.slice m k file offset ≠ fault .oob := by
  unfold View.slice
  split
  · exact Glue.err_not_oob _
  · refine Glue.bind_not_oob (Glue.fileAt_not_oob _ _) (fun len => ?_)
    refine Glue.bind_not_oob (Glue.addM_not_oob _ _ _) (fun a => ?_)
    refine Glue.bind_not_oob (Glue.mulM_not_oob _ _ _) (fun b => ?_)
    refine Glue.bind_not_oob (Glue.addM_not_oob _ _ _) (fun e => ?_)
    split
    · exact Glue.err_not_oob _
    · exact Glue.ok_not_oob _

theorem view_bytes_never_oob (m : Mode) (file : Array Word) (offset : Nat) :
    View.bytes m file offset ≠ fault .oob := by
  unfold View.bytes
  split
  · exact Glue.err_not_oob _
  · refine Glue.bind_not_oob (Glue.fileAt_not_oob _ _) (fun len => ?_)
    refine Glue.bind_not_oob (Glue.addM_not_oob _ _ _) (fun a => ?_)
    refine Glue.bind_not_oob (Glue.bytesToWords_not_oob _ _) (fun b => ?_)
    refine Glue.bind_not_oob (Glue.addM_not_oob _ _ _) (fun e => ?_)
    split
    · exact Glue.err_not_oob _
    · exact Glue.ok_not_oob _

theorem view_str_never_oob (m : Mode) (valid : List UInt8 → Bool) (file : Array Word) (offset : Nat) :
    View.str m valid file offset ≠ fault .oob := by
  unfold View.str
  refine Glue.bind_not_oob (view_bytes_never_oob _ _ _) (fun v => ?_)
  split
  · exact Glue.ok_not_oob _
  · exact Glue.err_not_oob _

theorem view_raw_never_oob (m : Mode) (file : Array Word) (offset : Nat) :
    View.raw m file offset ≠ fault .oob := by
  unfold View.raw
  split
  · exact Glue.err_not_oob _
  · refine Glue.bind_not_oob (Glue.fileAt_not_oob _ _) (fun len => ?_)
    refine Glue.bind_not_oob (Glue.addM_not_oob _ _ _) (fun a => ?_)
    refine Glue.bind_not_oob (view_slice_never_oob _ _ _ _) (fun d => ?_)
    refine Glue.bind_not_oob (Glue.subM_not_oob _ _ _) (fun mo => ?_)
    exact Glue.ok_not_oob _

theorem view_int_never_oob (m : Mode) (file : Array Word) (offset : Nat) :
    View.int m file offset ≠ fault .oob := by
  unfold View.int
  split
  · exact Glue.err_not_oob _
  · refine Glue.bind_not_oob (Glue.addM_not_oob _ _ _) (fun o1 => ?_)
    split
    · exact Glue.err_not_oob _
    · refine Glue.bind_not_oob (Glue.fileAt_not_oob _ _) (fun len => ?_)
      refine Glue.bind_not_oob (Glue.fileAt_not_oob _ _) (fun width => ?_)
      refine Glue.bind_not_oob (Glue.addM_not_oob _ _ _) (fun o2 => ?_)
      refine Glue.bind_not_oob (view_raw_never_oob _ _ _) (fun d => ?_)
      refine Glue.bind_not_oob (Glue.subM_not_oob _ _ _) (fun mo => ?_)
      exact Glue.ok_not_oob _

theorem view_option_never_oob (m : Mode) (inner : Array Word → Nat → Outcome View)
    (hinner : ∀ file offset, inner file offset ≠ fault .oob) (file : Array Word) (offset : Nat) :
    View.option m inner file offset ≠ fault .oob := by
  unfold View.option
  split
  · exact Glue.err_not_oob _
  · refine Glue.bind_not_oob (Glue.fileAt_not_oob _ _) (fun dl => ?_)
    split
    · refine Glue.bind_not_oob (Glue.addM_not_oob _ _ _) (fun o1 => ?_)
      refine Glue.bind_not_oob (hinner _ _) (fun v => ?_)
      exact Glue.ok_not_oob _
    · exact Glue.ok_not_oob _

/-! ### F1 (repaired by a `fix:` commit): the defect this property caught

`OneIter::nth(n)` as first written tested `self.next.0 + n >= self.limit.0`.  For large `n` the sum overflows:
a checked build panics, and an optimised build wraps, passes the test and scans past the data. -/

/-- original code, checked build: `nth(n)` panics whenever `rank + n` overflows — any vector, any state -/
theorem F1_checked_general (tr : Tr) (b : BitVector) (it : OneIterSt) (n : Nat) (h : 2 ^ 64 ≤ it.next.1 + n) :
    OneIterSt.nthQOld tr .checked b it n = fault (.panic .overflow) :=
  nthQ_checked_overflow tr b it n h

/-- original code on the two-bit vector `11`, after one `next` (state `⟨(1,1),(2,2)⟩`, a legitimate state:
`F1_state_is_reachable`): `nth(usize::MAX)` panics in a checked build and READS OUT OF BOUNDS in an optimised
build — with all supports enabled and with none -/
theorem F1_counterexample :
    OneIterSt.nthQOld .ident .checked (BitVector.ofRaw (RawVec.ofBits [true, true])).enableAll
      ⟨(1, 1), (2, 2)⟩ (2 ^ 64 - 1) = fault (.panic .overflow) ∧
    OneIterSt.nthQOld .ident .wrapping (BitVector.ofRaw (RawVec.ofBits [true, true])).enableAll
      ⟨(1, 1), (2, 2)⟩ (2 ^ 64 - 1) = fault .oob ∧
    OneIterSt.nthQOld .ident .wrapping { ones := 2, data := RawVec.ofBits [true, true] }
      ⟨(1, 1), (2, 2)⟩ (2 ^ 64 - 1) = fault .oob :=
  ⟨F1_checked, F1_wrapping, F1_wrapping0⟩

/-- the state of the counterexample is the one reached by one `next` from `one_iter()`, and it stands for the
ranks `[1, 2)` -/
theorem F1_state_is_reachable :
    OneIterSt.nextQ .ident .checked (BitVector.ofRaw (RawVec.ofBits [true, true])).enableAll
      (OneIterSt.full .ident (BitVector.ofRaw (RawVec.ofBits [true, true])).enableAll) =
        ok (some (0, 0), ⟨(1, 1), (2, 2)⟩) ∧
    Rel .ident (RawVec.ofBits [true, true]) ⟨(1, 1), (2, 2)⟩ 1 2 :=
  ⟨F1_setup, F1_state_rel⟩

/-- repaired code, same inputs, both builds: `None`, iterator exhausted — as the reference queue answers -/
theorem F1_fixed (m : Mode) :
    OneIterSt.nthQ .ident m (BitVector.ofRaw (RawVec.ofBits [true, true])).enableAll
      ⟨(1, 1), (2, 2)⟩ (2 ^ 64 - 1) = ok (none, ⟨(2, 2), (2, 2)⟩) ∧
    (dequeStep (((pairs (onesPos (RawVec.ofBits [true, true]).bits)).take 2).drop 1) (.nth (2 ^ 64 - 1))).1
      = (IOut.none : IOut (Nat × Nat)) := by
  refine ⟨?_, F1_reference⟩
  cases m
  · exact F1_fixed_checked
  · exact F1_fixed_wrapping

/-! ### summary for the plain bitvector -/

/-- **C08 for the plain bitvector (partial: see the header for what other files cover).**  For every
well-formed raw vector of `usize` length, `BitVector::from(raw)` with all supports enabled, in both build
modes: every query with every argument, and every iterator under every call history, returns a value (or, for
`get` beyond the allocated words, panics on the checked index) — no call reaches an out-of-bounds access.

Full intended statement: the same for every structure of the library (sparse, run-length, wavelet matrix, the
vectors' mutating operations, the serialised / memory-mapped forms) and every sequence of calls mixing them. -/
theorem plain_bitvector_api_no_oob_partial (v : RawVec) (hv : v.WF) (hlen : v.len < 2 ^ 64) (m : Mode) :
    (∀ i, (BitVector.ofRaw v).enableAll.get i = ok (v.bit i) ∨
      (BitVector.ofRaw v).enableAll.get i = fault (.panic .index)) ∧
    (∀ i, ∃ r, (BitVector.ofRaw v).enableAll.rankQ i = ok r) ∧
    (∀ i, ∃ r, (BitVector.ofRaw v).enableAll.rankZeroQ m i = ok r) ∧
    (∀ tr r, ∃ o, (BitVector.ofRaw v).enableAll.selectT tr m r = ok o) ∧
    (∀ tr calls, ∃ os, oneRun tr m (BitVector.ofRaw v).enableAll
      (OneIterSt.full tr (BitVector.ofRaw v).enableAll) calls = ok os) ∧
    (∀ tr r calls, ∃ it os, (BitVector.ofRaw v).enableAll.selectIterT tr m r = ok it ∧
      oneRun tr m (BitVector.ofRaw v).enableAll it calls = ok os) ∧
    (∀ x calls, ∃ it os, (BitVector.ofRaw v).enableAll.predecessorQ m x = ok it ∧
      oneRun .ident m (BitVector.ofRaw v).enableAll it calls = ok os) ∧
    (∀ x calls, ∃ it os, (BitVector.ofRaw v).enableAll.successorQ m x = ok it ∧
      oneRun .ident m (BitVector.ofRaw v).enableAll it calls = ok os) := by
  have hones : (BitVector.ofRaw v).enableAll.ones = v.bits.count true := countOnes_eq v hv
  have hsupV : ∀ tr, ∃ s, (BitVector.ofRaw v).enableAll.supT tr = some s ∧ s.Valid tr v := by
    intro tr
    cases tr
    · exact ⟨_, rfl, SelSup.build_valid hv hlen .ident⟩
    · exact ⟨_, rfl, SelSup.build_valid hv hlen .compl⟩
  refine ⟨fun i => get_never_oob _ i, ?_, ?_, ?_, ?_, ?_, ?_, ?_⟩
  · intro i; exact ⟨_, rankQ_build hv hlen rfl rfl hones i⟩
  · intro i; exact ⟨_, rankZeroQ_build hv hlen rfl rfl hones m i⟩
  · intro tr r
    obtain ⟨s, h1, h2⟩ := hsupV tr
    exact ⟨_, selectT_ok hv hlen rfl hones h1 h2 m r⟩
  · intro tr calls; exact one_iter_never_faults _ v hv hlen rfl hones tr m calls
  · intro tr r calls
    obtain ⟨s, h1, h2⟩ := hsupV tr
    exact select_iter_never_faults _ v s hv hlen rfl hones tr m h1 h2 r calls
  · intro x calls
    exact (predecessor_successor_never_fault _ v _ _ hv hlen rfl hones rfl (build_valid hv hlen) rfl
      (SelSup.build_valid hv hlen .ident) m x calls).1
  · intro x calls
    exact (predecessor_successor_never_fault _ v _ _ hv hlen rfl hones rfl (build_valid hv hlen) rfl
      (SelSup.build_valid hv hlen .ident) m x calls).2

/-! ### summary for the sparse (Elias–Fano) vector -/

/-- the sparse builder (`SparseBuilder::new` + one `try_set` per value + `build`), set mode: for EVERY list of
values — sorted or not, in range or not — the outcome is a vector that encodes the list, or an `Err`; never an
out-of-bounds access, in particular never a write past the `high` / `low` buffers -/
theorem sparse_builder_never_oob (w n : Nat) (P : List Nat) (hw1 : 1 ≤ w) (hw : w ≤ 63) (hn : n < 2 ^ 64)
    (hm : P.length < 2 ^ 63) :
    Sparse.ofValues w n false P ≠ fault .oob ∧
    ((∃ s, Sparse.ofValues w n false P = ok s ∧ s.Encodes n w P) ∨
      Sparse.ofValues w n false P = fault (.err .other)) := by
  by_cases h : sortedStrict P = true ∧ ∀ p ∈ P, p < n
  · obtain ⟨s, h1, h2⟩ := ofValues_set_ok w n P hw1 hw hn hm h.1 h.2
    exact ⟨by rw [h1]; exact Glue.ok_not_oob _, Or.inl ⟨s, h1, h2⟩⟩
  · have h1 := ofValues_set_reject w n P hw1 hw h
    exact ⟨by rw [h1]; exact Glue.err_not_oob _, Or.inr h1⟩

/-- **C08 for the sparse vector, set mode (partial: see the header).**  For EVERY vector that encodes a
strictly increasing list `P` of positions below `n` (every built vector, every vector loaded from bytes the
library wrote), both modes, EVERY argument: `get` never reads out of bounds (and returns a value for every
`i < len`); `rank`, `rank_zero`, `select`, `select_zero`, `predecessor`, `successor`, `select_iter`,
`select_zero_iter` return a value; `one_iter()` and the iterators returned by `select_iter`, `predecessor`,
`successor` return a value under EVERY history of `next` / `next_back` calls, `iter()` likewise; `zero_iter()`
drained to the end returns its items.  No call forms an out-of-range index into `high` or `low`. -/
theorem sparse_api_no_oob_partial (s : Sparse) (n w : Nat) (P : List Nat) (hs : s.Encodes n w P)
    (hstrict : sortedStrict P = true) (m : Mode) :
    (∀ i, s.get m i ≠ fault .oob) ∧ (∀ i, i < n → ∃ r, s.get m i = ok r) ∧
    (∀ i, ∃ r, s.rank m i = ok r) ∧ (∀ i, ∃ r, s.rankZero m i = ok r) ∧
    (∀ r, ∃ o, s.select m r = ok o) ∧ (∀ r, ∃ o, s.selectZero m r = ok o) ∧
    (∀ r, ∃ z, s.selectZeroIter m r = ok z) ∧
    (∀ calls r, ∃ it res, s.selectIter m r = ok it ∧ Sparse2.runCalls m s calls it = ok res) ∧
    (∀ calls x, ∃ it res, s.predecessor m x = ok it ∧ Sparse2.runCalls m s calls it = ok res) ∧
    (∀ calls x, ∃ it res, s.successor m x = ok it ∧ Sparse2.runCalls m s calls it = ok res) ∧
    (∀ calls, ∃ res, Sparse2.runCalls m s calls (SpOneIter.full s) = ok res) ∧
    (∀ calls, ∃ it res, s.iter m = ok it ∧ Sparse2.runSpCalls m s calls it = ok res) ∧
    (∃ z items, s.zeroIter m = ok z ∧ Sparse2.drainZ m s (n - P.length + 1) z = ok items) := by
  refine ⟨fun i => Glue5.sparse_get_not_oob hs m i, fun i hi => ⟨_, get_ok hs m i hi⟩,
    fun i => ⟨_, rank_ok hs m i⟩, fun i => ⟨_, rankZero_ok hs hstrict m i⟩, fun r => ⟨_, select_ok hs m r⟩,
    fun r => ⟨_, Sparse2.selectZero_spec hs hstrict m r⟩,
    fun r => Glue5.sparse_selectZeroIter_ok hs hstrict m r,
    fun calls r => (Glue5.sparse_iter_histories hs m calls).1 r,
    fun calls x => (Glue5.sparse_iter_histories hs m calls).2.1 x,
    fun calls x => (Glue5.sparse_iter_histories hs m calls).2.2 x, ?_, ?_, ?_⟩
  · intro calls
    obtain ⟨it', _, _, h, _⟩ := Sparse2.runCalls_full hs m calls
    exact ⟨_, h⟩
  · intro calls
    obtain ⟨it, it', h1, h2⟩ := Sparse2.iter_runSpCalls hs m calls
    exact ⟨it, _, h1, h2⟩
  · obtain ⟨z, h1, h2⟩ := Sparse2.zeroIter_drain hs hstrict m
    exact ⟨z, _, h1, h2⟩

/-- **multiset mode (partial).**  The same for a non-decreasing list (duplicates allowed); `rank_zero`, which
the library does not define there, is `rank` followed by a subtraction: a value or the overflow panic of the
checked build — never an out-of-bounds access -/
theorem sparse_multiset_api_no_oob_partial (s : Sparse) (n w : Nat) (P : List Nat) (hs : s.Encodes n w P)
    (m : Mode) :
    (∀ i, s.get m i ≠ fault .oob) ∧ (∀ i, i < n → ∃ r, s.get m i = ok r) ∧
    (∀ i, ∃ r, s.rank m i = ok r) ∧ (∀ i, s.rankZero m i ≠ fault .oob) ∧
    (∀ r, ∃ o, s.select m r = ok o) ∧
    (∀ calls r, ∃ it res, s.selectIter m r = ok it ∧ Sparse2.runCalls m s calls it = ok res) ∧
    (∀ calls x, ∃ it res, s.predecessor m x = ok it ∧ Sparse2.runCalls m s calls it = ok res) ∧
    (∀ calls x, ∃ it res, s.successor m x = ok it ∧ Sparse2.runCalls m s calls it = ok res) ∧
    (∀ calls, ∃ res, Sparse2.runCalls m s calls (SpOneIter.full s) = ok res) ∧
    (∀ calls, ∃ it res, s.iter m = ok it ∧ Sparse2.runSpCalls m s calls it = ok res) := by
  refine ⟨fun i => Glue5.sparse_get_not_oob hs m i, fun i hi => ⟨_, get_ok hs m i hi⟩,
    fun i => ⟨_, rank_ok hs m i⟩, fun i => by rw [rankZero_eq hs m i]; exact Glue.subM_not_oob _ _ _,
    fun r => ⟨_, select_ok hs m r⟩,
    fun calls r => (Glue5.sparse_iter_histories hs m calls).1 r,
    fun calls x => (Glue5.sparse_iter_histories hs m calls).2.1 x,
    fun calls x => (Glue5.sparse_iter_histories hs m calls).2.2 x, ?_, ?_⟩
  · intro calls
    obtain ⟨it', _, _, h, _⟩ := Sparse2.runCalls_full hs m calls
    exact ⟨_, h⟩
  · intro calls
    obtain ⟨it, it', h1, h2⟩ := Sparse2.iter_runSpCalls hs m calls
    exact ⟨it, _, h1, h2⟩

/-! ### summary for the run-length vector -/

/-- **C08 for the run-length vector (partial: see the header).**  After EVERY accepted builder call history
(`try_set` / `set_len` / `set_bit`, `usize` arguments), for the converted vector, both modes, EVERY argument
(also `≥ len`, `usize::MAX`): `get`, `rank`, `rank_zero`, `select`, `select_zero`, `select_zero_iter` return a
value; `predecessor` / `successor` return an iterator whose `next` returns; `select_iter(r)`, `one_iter()`,
`iter()`, `zero_iter()` and `run_iter()` return their items when drained to the end.  Hence the sample reads
(`samples.get`), the code-unit reads (`data.get`) and the three `SampleIndex::range` lookups are all in range:
no block number, sample index or code offset outside the vectors is ever formed. -/
theorem run_length_api_no_oob_partial (m : Mode) (calls : List RL.BCall) (hc : ∀ c ∈ calls, RL.callArgsOk c)
    (b : RLBuilder) (hb : RL.runBCalls m calls {} = ok b) (v : RL) (hv : RL.ofBuilder m b = ok v) :
    (∀ i, ∃ r, v.get m i = ok r) ∧ (∀ i, ∃ r, v.rank m i = ok r) ∧ (∀ i, ∃ r, v.rankZero m i = ok r) ∧
    (∀ r, ∃ o, v.select m r = ok o) ∧ (∀ r, ∃ o, v.selectZero m r = ok o) ∧
    (∀ r, ∃ z, v.selectZeroIter m r = ok z) ∧
    (∀ x, ∃ oi o oi', v.predecessor m x = ok oi ∧ oi.nextQ m v = ok (o, oi')) ∧
    (∀ x, ∃ oi o oi', v.successor m x = ok oi ∧ oi.nextQ m v = ok (o, oi')) ∧
    (∀ r, ∃ st items, v.selectIter m r = ok st ∧ RLQ.drainOne m v (v.ones - r + 1) st = ok items) ∧
    (∃ st items, v.oneIter = ok st ∧ RLQ.drainOne m v (v.ones + 1) st = ok items) ∧
    (∃ st items, v.iter = ok st ∧ RLQ.drainBits m v (v.len + 1) st = ok items) ∧
    (∃ st items, v.zeroIter m = ok st ∧ RLQ.drainZero m v (v.countZeros + 1) st = ok items) ∧
    (∃ it0 res, v.runIter = ok it0 ∧
      RunIter.collect m v ((maximalRuns (calls.foldl RL.specCall [])).length + 1) it0 = ok res) := by
  have hsz := (Glue5.blocks_bound_calls m calls hc b hb v hv).2
  obtain ⟨g, e1, e2, e3⟩ := Glue5.rl_good m calls hc b hb v hv
  obtain ⟨_, _, _, q4, q5, q6, _, q8, q9, q10, q11⟩ := RLQ.build_queries m calls hc b hb v hv hsz
  obtain ⟨_, _, it0, e, _, h1, h2, _⟩ := RL.build_iterate_calls m calls hc b hb v hv
  refine ⟨fun i => ⟨_, q4 i⟩, fun i => ⟨_, q5 i⟩, fun i => ⟨_, q6 i⟩, fun r => ⟨_, q8 r⟩, fun r => ⟨_, q9 r⟩,
    fun r => (Glue5.rl_selectZeroIter_ok m g r).imp fun z h => h.1, ?_, ?_, ?_, ?_, ?_, ?_, ⟨it0, _, h1, h2⟩⟩
  · intro x; obtain ⟨oi, oi', a, c⟩ := q11 x; exact ⟨oi, _, oi', a, c⟩
  · intro x; obtain ⟨oi, oi', a, c⟩ := q10 x; exact ⟨oi, _, oi', a, c⟩
  · intro r
    obtain ⟨st, items, a, c, _⟩ := Glue5.rl_selectIter_drain m _ g e2 r (v.ones - r + 1) (by rw [e2]; exact Nat.le_refl _)
    exact ⟨st, items, a, c⟩
  · obtain ⟨st, items, a, c, _⟩ := RLQ.build_oneIter m calls hc b hb v hv hsz (v.ones + 1) (Nat.le_refl _)
    exact ⟨st, items, a, c⟩
  · obtain ⟨st, a, c⟩ := RLQ.build_iter m calls hc b hb v hv hsz (v.len + 1) (Nat.le_refl _)
    exact ⟨st, _, a, c⟩
  · obtain ⟨st, items, a, c, _⟩ := RLQ.build_zeroIter m calls hc b hb v hv hsz (v.countZeros + 1) (Nat.le_refl _)
    exact ⟨st, items, a, c⟩

/-! ### summary for the wavelet matrix -/

/-- **C08 for the wavelet matrix (partial: see the header).**  For EVERY matrix satisfying the invariant
`WM.Ok` (every built one: `WM.ofValues_ok_full`; every one loaded from bytes the library wrote), both modes,
EVERY index, rank and value — past the end, `usize::MAX`, absent, outside the alphabet: `rank`, `select`,
`inverse_select`, `contains`, `predecessor`, `successor`, the value iterator's `next`, and the core mappings
`map_down_with` / `map_up_with` return a value; `get` returns the item, or — past the end — panics on the
`unwrap` of `inverse_select`'s `None`.  No level bit vector, and not the `first` array, is indexed out of range. -/
theorem wavelet_matrix_api_no_oob_partial (w : WM) (V : List Nat) (width : Nat) (hw : w.Ok V width) (m : Mode) :
    (∀ i, (∃ x, w.get m i = ok x) ∨ w.get m i = fault (.panic .unwrap)) ∧
    (∀ i v, ∃ r, w.rank m i v = ok r) ∧ (∀ r v, ∃ o, w.select m r v = ok o) ∧
    (∀ i, ∃ o, w.inverseSelect m i = ok o) ∧ (∀ v, ∃ c, w.contains v = ok c) ∧
    (∀ i v, ∃ r, w.predecessor m i v = ok r) ∧ (∀ i v, ∃ r, w.successor m i v = ok r) ∧
    (∀ v r, ∃ o, w.valueIterNext m v r = ok o) ∧
    (∀ i v, ∃ p, w.data.mapDownWith m i v = ok p) ∧ (∀ p v, ∃ o, w.data.mapUpWith m p v = ok o) := by
  refine ⟨fun i => ?_, fun i v => ⟨_, rank_ok_wm hw m i v⟩, fun r v => ⟨_, select_ok_wm hw m r v⟩,
    fun i => ?_, fun v => ⟨_, contains_ok hw v⟩, fun i v => ⟨_, predecessor_ok hw m i v⟩,
    fun i v => ⟨_, successor_ok hw m i v⟩, fun v r => ⟨_, valueIterNext_ok hw m v r⟩,
    fun i v => ⟨_, mapDownWith_ok' hw.core m i v⟩, fun p v => ⟨_, mapUpWith_total hw.core m p v⟩⟩
  · by_cases h : i < V.length
    · exact Or.inl ⟨_, get_ok_wm hw m i h⟩
    · exact Or.inr (get_panic hw m i (Nat.le_of_not_lt h))
  · by_cases h : i < V.length
    · exact ⟨_, inverseSelect_ok hw m i h⟩
    · exact ⟨_, inverseSelect_none hw m i (Nat.le_of_not_lt h)⟩

/-! ### non-vacuity -/

example : (RawVec.ofBits [true, false, true]).WF ∧ (RawVec.ofBits [true, false, true]).len < 2 ^ 64 := by decide
example : (RankSup.build (RawVec.ofBits [true, false, true])).Valid (RawVec.ofBits [true, false, true]) :=
  build_valid (by decide) (by decide)
example : (IntVec.ofList 3 [5, 1, 2]).WF ∧ 1 < (IntVec.ofList 3 [5, 1, 2]).len := by decide
example : 1 < popcount 0x5#64 := by decide

/-- the hypotheses of the structure summaries are satisfiable: an encoded sparse vector, an accepted run-length
call history with its conversion, a built wavelet matrix -/
example : ∃ s, Sparse.ofValues 2 10 false [0, 5, 9] = ok s ∧ s.Encodes 10 2 [0, 5, 9] :=
  ofValues_set_ok 2 10 [0, 5, 9] (by decide) (by decide) (by decide) (by decide) (by decide) (by decide)
example :
    (do let b ← RL.runBCalls .wrapping [.set 0 2, .bit 4, .set 5 3, .setLen 12] {}
        let v ← RL.ofBuilder .wrapping b
        let g ← v.get .wrapping (2 ^ 64 - 1)
        let r ← v.rank .wrapping (2 ^ 64 - 1)
        return (v.len, v.blocks, g, r)) = ok (12, 1, false, 6) := by
  decide +kernel
example : (WM.ofValues [3, 1, 3, 0]).Ok [3, 1, 3, 0] (widthOf [3, 1, 3, 0]) :=
  WM.ofValues_ok_full _ (by decide) (by decide)

/-! **The word accessors of the two `Transformation`s as translated from the source on this run**
(`Generated/FnsBv.lean`): `Identity::{bit, word, word_unchecked, count_ones}` and `Complement::{bit, word, word_unchecked,
count_ones}` — in particular the `index >= last_index` test that decides whether the complemented word is masked, and
which of the two reads is the checked one.  The code as it is NOW is `wordT` / `wordSafeT`, the functions whose reads the
no-out-of-bounds theorems above follow; unconditional. -/
theorem transformation_accessors_as_translated_from_source (m : Mode) (b : BitVector) (i : Nat) :
    Generated.gen_Identity_word_unchecked m b i = wordT .ident b.data i ∧
    Generated.gen_Complement_word_unchecked m b i = wordT .compl b.data i ∧
    Generated.gen_Identity_word m b i = wordSafeT .ident b.data i ∧
    Generated.gen_Complement_word m b i = wordSafeT .compl b.data i ∧
    Generated.gen_Identity_bit m b i = b.get i ∧
    Generated.gen_Complement_bit m b i = (do let x ← b.get i; return !x) ∧
    Generated.gen_Identity_count_ones m b = ok b.countOnes ∧
    Generated.gen_Complement_count_ones m b = ok b.countZeros :=
  ⟨GenEq.identity_word_unchecked_eq m b i, GenEq.complement_word_unchecked_eq' m b i, GenEq.identity_word_eq m b i,
   GenEq.complement_word_eq' m b i, GenEq.identity_bit_eq m b i, GenEq.complement_bit_eq m b i,
   GenEq.identity_count_ones_eq m b, GenEq.complement_count_ones_eq m b⟩

/-- the translated safe `Complement::word` one word past the end panics on the index and never reads unchecked
(the seeded change `>=` → `==` turns this into an out-of-bounds read) -/
example : Generated.gen_Complement_word .wrapping (BitVector.ofRaw (RawVec.ofBits [true, false, true])) 2
    = fault (.panic .index) := by decide +kernel

end Sds.C08
