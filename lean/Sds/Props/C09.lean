/-
C09 — Queries are total: out-of-range and extreme arguments give the documented answer.

Property theorems only (helper lemmas live in Proofs/).

Quantifiers.  Arguments are `Nat`, so a statement "for every `i` with `i ≥ len`" covers `len`, `len + 1`, `2 len`,
`2^63`, `usize::MAX - 1`, `usize::MAX` and every other `usize` value at once; nothing below is restricted to a
list of sample values.  Both arithmetic modes `m : Mode` throughout; `= ok …` says in particular that the call
does not panic (no overflow in a checked build, no failed assertion, no `unwrap` of a missing support) and
reads nothing out of bounds.

Several of the documented answers do not even depend on the supports or on well-formedness — they are decided
by the first comparison in the code — and are stated for EVERY `b : BitVector` (`…_any_bitvector`); the
statements that identify the answer with the specification then use the C01 hypotheses.

PARTIAL (scope of this file).  Covered here: the plain bitvector (rank, rank_zero, select, select_zero,
select_iter, predecessor, successor), the iterators `OneIter<T>` and the two-cursor iterators with arbitrary
`nth` / `nth_back` arguments, and the integer-vector constructors.  The clauses of C09 about the sparse and
run-length bitvectors, the wavelet matrix and the core mapping are proven in the property files of those
structures (C02, C03, C04, C15).  The clause "the three bitvector types agree with each other" follows from
C01, C02 and C03 because each type is shown equal to the SAME list-level specification (`rankSpec`,
`selectSpec`, `predSpec`, `succSpec` on the common bit sequence), for every argument; it is not restated here.
The summary theorem is therefore named `plain_bitvector_total_partial`.
-/
import Sds.Proofs.Rank
import Sds.Proofs.Select
import Sds.Proofs.Iter
import Sds.Proofs.IntVec
import Sds.Proofs.Glue

namespace Sds.C09
open Sds Outcome IterProofs

/-! ### rank(i ≥ len) = count_ones -/

/-- for EVERY bitvector (supports present or not): `rank(i) = count_ones` as soon as `i ≥ len` -/
theorem rank_past_end_any_bitvector (b : BitVector) (i : Nat) (hi : b.len ≤ i) : b.rankQ i = ok b.countOnes := by
  unfold BitVector.rankQ; rw [if_pos hi]

/-- … which is the number of set bits of the sequence, and is what the specification says -/
theorem rank_past_end (v : RawVec) (hv : v.WF) (hlen : v.len < 2 ^ 64) (i : Nat) (hi : v.len ≤ i) :
    (BitVector.ofRaw v).enableAll.rankQ i = ok (v.bits.count true) ∧ rankSpec v.bits i = v.bits.count true := by
  have hs := rankSpec_of_ge v.bits i (by rw [RawVec.bits_length]; exact hi)
  refine ⟨?_, hs⟩
  rw [rankQ_build hv hlen rfl rfl (countOnes_eq v hv) i, hs]

/-- `rank_zero(i ≥ len) = i - count_ones` in both modes: no underflow, no panic -/
theorem rank_zero_past_end (v : RawVec) (hv : v.WF) (hlen : v.len < 2 ^ 64) (m : Mode) (i : Nat)
    (hi : v.len ≤ i) :
    (BitVector.ofRaw v).enableAll.rankZeroQ m i = ok (i - v.bits.count true) := by
  rw [rankZeroQ_build hv hlen rfl rfl (countOnes_eq v hv) m i,
    rankSpec_of_ge v.bits i (by rw [RawVec.bits_length]; exact hi)]

/-- `rank` for EVERY argument (C01) -/
theorem rank_every_argument (v : RawVec) (hv : v.WF) (hlen : v.len < 2 ^ 64) (m : Mode) (i : Nat) :
    (BitVector.ofRaw v).enableAll.rankQ i = ok (rankSpec v.bits i) ∧
    (BitVector.ofRaw v).enableAll.rankZeroQ m i = ok (i - rankSpec v.bits i) :=
  ⟨rankQ_build hv hlen rfl rfl (countOnes_eq v hv) i, rankZeroQ_build hv hlen rfl rfl (countOnes_eq v hv) m i⟩

/-! ### select / select_zero (r ≥ count) = None, with empty iterators -/

/-- for EVERY bitvector, `select` (`tr = .ident`) and `select_zero` (`tr = .compl`), both modes: `None` as soon
as `r ≥ count`, and `select_iter` / `select_zero_iter` return the empty iterator -/
theorem select_past_count_any_bitvector (b : BitVector) (tr : Tr) (m : Mode) (r : Nat) (hr : b.countT tr ≤ r) :
    b.selectT tr m r = ok none ∧ b.selectIterT tr m r = ok (OneIterSt.emptyIter tr b) := by
  constructor
  · unfold BitVector.selectT; rw [if_pos hr]
  · unfold BitVector.selectIterT; rw [if_pos hr]

/-- in terms of the sequence: `select(r)` is `None` EXACTLY when `r ≥ count_ones`, `select_zero(r)` EXACTLY when
`r ≥ count_zeros`, for every `r` -/
theorem select_none_exactly_past_count (v : RawVec) (hv : v.WF) (hlen : v.len < 2 ^ 64) (m : Mode) (r : Nat) :
    ((BitVector.ofRaw v).enableAll.selectQ m r = ok none ↔ v.bits.count true ≤ r) ∧
    ((BitVector.ofRaw v).enableAll.selectZeroQ m r = ok none ↔ v.bits.count false ≤ r) := by
  constructor
  · rw [selectQ_enableAll hv hlen m r, ← selectSpec_eq_none_iff]
    exact ⟨fun h => Outcome.ok.inj h, fun h => by rw [h]⟩
  · rw [selectZeroQ_enableAll hv hlen m r, ← Glue.count_true_map_not]
    have := selectSpec_eq_none_iff (v.bits.map not) r
    unfold selectZeroSpec
    unfold selectSpec at this
    rw [← this]
    exact ⟨fun h => Outcome.ok.inj h, fun h => by rw [h]⟩

/-- the empty iterator IS empty: under every call history (any `next` / `next_back` / `nth k` / `nth_back k` /
`len`) it answers only `None` resp. length 0, without fault -/
theorem empty_iterator_yields_nothing (b : BitVector) (v : RawVec) (hv : v.WF) (hlen : v.len < 2 ^ 64)
    (hdata : b.data = v) (hones : b.ones = v.bits.count true) (tr : Tr) (m : Mode) (calls : List ICall) :
    ∃ os, oneRun tr m b (OneIterSt.emptyIter tr b) calls = ok os ∧ ∀ o, o ∈ os → IsEmptyOut o :=
  oneRun_exhausted ⟨hv, hlen, hdata, hones⟩ tr m calls (Rel_empty ⟨hv, hlen, hdata, hones⟩ tr) (Nat.le_refl _)

/-! ### successor(x ≥ len) is empty; predecessor(x ≥ len) = predecessor(len - 1) -/

/-- for EVERY bitvector and both modes: `successor(x)` with `x ≥ len` is the empty iterator -/
theorem successor_past_end_any_bitvector (b : BitVector) (m : Mode) (x : Nat) (hx : b.len ≤ x) :
    b.successorQ m x = ok (OneIterSt.emptyIter .ident b) := by
  unfold BitVector.successorQ
  rw [rank_past_end_any_bitvector b x hx]
  simp

/-- for EVERY bitvector of `usize` length and both modes: `predecessor(x)` with `x ≥ len` — up to and including
`usize::MAX`, where the repaired code saturates `x + 1` — is `predecessor(len - 1)`.
(For `len = 0` the right-hand side reads `predecessor(0)`; both sides are then the empty iterator.) -/
theorem predecessor_past_end_any_bitvector (b : BitVector) (hlen : b.len < 2 ^ 64) (m : Mode) (x : Nat)
    (hx : b.len ≤ x) : b.predecessorQ m x = b.predecessorQ m (b.len - 1) := by
  have h1 : b.rankQ (BitVector.satAdd x 1) = ok b.countOnes := by
    apply rank_past_end_any_bitvector
    unfold BitVector.satAdd U64
    rw [Nat.min_def]; split <;> omega
  have h2 : b.rankQ (BitVector.satAdd (b.len - 1) 1) = ok b.countOnes := by
    apply rank_past_end_any_bitvector
    unfold BitVector.satAdd U64
    rw [Nat.min_def]; split <;> omega
  unfold BitVector.predecessorQ
  simp only [h1, h2]

/-- and what that common answer is (any valid supports): the iterator whose first item is the LAST set bit with
its rank `count_ones - 1` — `predSpec B x` for every such `x` is `predSpec B (len - 1)` — or the empty iterator
when there is no set bit -/
theorem predecessor_past_end (b : BitVector) (v : RawVec) (rs : RankSup) (s : SelSup) (hv : v.WF)
    (hlen : v.len < 2 ^ 64) (hdata : b.data = v) (hones : b.ones = v.bits.count true)
    (hrank : b.rank = some rs) (hrs : rs.Valid v) (hsel : b.select = some s) (hs : s.Valid .ident v)
    (m : Mode) (x : Nat) (hx : v.len ≤ x) :
    predSpec v.bits x = predSpec v.bits (v.len - 1) ∧
    match predSpec v.bits (v.len - 1) with
    | none => b.predecessorQ m x = ok (OneIterSt.emptyIter .ident b)
    | some (k, p) => (onesPos v.bits)[k]? = some p ∧ k + 1 = v.bits.count true ∧
        b.predecessorQ m x = ok ⟨(k, p), (b.countT .ident, b.len)⟩ := by
  have C : Ctx b v := ⟨hv, hlen, hdata, hones⟩
  have hr : ∀ y, v.len ≤ y + 1 → rankSpec (bitsT .ident v.bits) (y + 1) = v.bits.count true := fun y hy =>
    rankSpec_of_ge v.bits (y + 1) (by rw [RawVec.bits_length]; exact hy)
  have e : predSpec v.bits x = predSpec v.bits (v.len - 1) := by
    have e1 := predSpec_eq .ident v x
    have e2 := predSpec_eq .ident v (v.len - 1)
    rw [hr x (by omega)] at e1
    rw [hr (v.len - 1) (by omega)] at e2
    exact e1.trans e2.symm
  refine ⟨e, ?_⟩
  have h := predecessorQ_ok C hrank hrs hsel hs m x
  rw [e] at h
  have e2 := predSpec_eq .ident v (v.len - 1)
  rw [hr (v.len - 1) (by omega)] at e2
  cases hp : predSpec v.bits (v.len - 1) with
  | none => rw [hp] at h; exact h
  | some kp =>
    obtain ⟨k, p⟩ := kp
    rw [hp] at h
    refine ⟨h.1, ?_, h.2.1⟩
    have e3 : predSpec (bitsT .ident v.bits) (v.len - 1) = some (k, p) := hp
    rw [e3] at e2
    by_cases h0 : v.bits.count true = 0
    · rw [if_pos h0] at e2; cases e2
    · rw [if_neg h0] at e2
      have := (Prod.mk.inj (Option.some.inj e2)).1
      omega

/-- `predecessor` and `successor` for EVERY `x` (C01): the call succeeds in both modes and the first item of the
returned iterator is the specified `(rank, position)`, or the iterator is empty -/
theorem predecessor_successor_every_argument (v : RawVec) (hv : v.WF) (hlen : v.len < 2 ^ 64) (m : Mode) (x : Nat) :
    (∃ it it', (BitVector.ofRaw v).enableAll.predecessorQ m x = ok it ∧
      OneIterSt.nextQ .ident m (BitVector.ofRaw v).enableAll it = ok (predSpec v.bits x, it')) ∧
    (∃ it it', (BitVector.ofRaw v).enableAll.successorQ m x = ok it ∧
      OneIterSt.nextQ .ident m (BitVector.ofRaw v).enableAll it = ok (succSpec v.bits x, it')) := by
  have C : Ctx (BitVector.ofRaw v).enableAll v := ctx_enableAll hv hlen
  have hk : ∀ k p, (onesPos v.bits)[k]? = some p → k < (onesPos (bitsT .ident v.bits)).length := by
    intro k p h1
    rcases Nat.lt_or_ge k (onesPos (bitsT .ident v.bits)).length with h' | h'
    · exact h'
    · have : (onesPos v.bits)[k]? = none := List.getElem?_eq_none h'
      rw [this] at h1; cases h1
  constructor
  · have h := predecessorQ_enableAll hv hlen m x
    cases hp : predSpec v.bits x with
    | none => rw [hp] at h; exact ⟨_, _, h, IterProofs.nextQ_none .ident m _ _ (Nat.le_refl _)⟩
    | some kp =>
      obtain ⟨k, p⟩ := kp
      rw [hp] at h
      obtain ⟨h1, h2, h3⟩ := h
      obtain ⟨p', hp1, hp2, _⟩ := nextQ_some C .ident m h3 (hk k p h1)
      have e : p' = p := by
        have : (onesPos v.bits)[k]? = some p' := hp1
        rw [h1] at this; exact (Option.some.inj this).symm
      subst e
      exact ⟨_, _, h2, hp2⟩
  · have h := successorQ_enableAll hv hlen m x
    cases hp : succSpec v.bits x with
    | none => rw [hp] at h; exact ⟨_, _, h, IterProofs.nextQ_none .ident m _ _ (Nat.le_refl _)⟩
    | some kp =>
      obtain ⟨k, p⟩ := kp
      rw [hp] at h
      obtain ⟨h1, h2, h3⟩ := h
      obtain ⟨p', hp1, hp2, _⟩ := nextQ_some C .ident m h3 (hk k p h1)
      have e : p' = p := by
        have : (onesPos v.bits)[k]? = some p' := hp1
        rw [h1] at this; exact (Option.some.inj this).symm
      subst e
      exact ⟨_, _, h2, hp2⟩

/-! ### F2 (repaired by a `fix:` commit): `predecessor(usize::MAX)`

As first written, `predecessor(value)` computed `rank(value + 1)` with a plain `+`. -/

/-- original code, checked build: `predecessor(usize::MAX)` panics on EVERY bitvector -/
theorem F2_checked_counterexample (b : BitVector) :
    b.predecessorQOld .checked (2 ^ 64 - 1) = fault (.panic .overflow) :=
  F2_checked b

/-- original code, optimised build, on the vector `11`: the sum wraps to 0 and the answer is the EMPTY iterator,
although the specification says rank 1 at position 1 -/
theorem F2_wrapping_counterexample :
    (BitVector.ofRaw (RawVec.ofBits [true, true])).enableAll.predecessorQOld .wrapping (2 ^ 64 - 1) =
      ok (OneIterSt.emptyIter .ident (BitVector.ofRaw (RawVec.ofBits [true, true])).enableAll) ∧
    predSpec (RawVec.ofBits [true, true]).bits (2 ^ 64 - 1) = some (1, 1) :=
  ⟨F2_wrapping, F2_reference⟩

/-- repaired code (`saturating_add`), both builds, same input: the iterator at rank 1, position 1 -/
theorem F2_repaired (m : Mode) :
    (BitVector.ofRaw (RawVec.ofBits [true, true])).enableAll.predecessorQ m (2 ^ 64 - 1) = ok ⟨(1, 1), (2, 2)⟩ :=
  F2_fixed m

/-! ### Iterator::nth / nth_back beyond the remainder = None, and the iterator is exhausted -/

/-- `OneIter<T>::nth(n)` for EVERY `n` at least the number of remaining items (ranks `[r, R)`), both modes:
`None`, the iterator is exhausted (`next := limit`, standing for the empty interval `[R, R)`), no panic -/
theorem one_iter_nth_beyond (b : BitVector) (tr : Tr) (m : Mode) (v : RawVec) (it : OneIterSt) (r R : Nat)
    (hrel : Rel tr v it r R) (n : Nat) (hn : R - r ≤ n) :
    OneIterSt.nthQ tr m b it n = ok (none, { it with next := it.limit }) ∧
      Rel tr v { it with next := it.limit } R R :=
  nthQ_none tr m hrel n (by have := hrel.le; omega)

/-- `OneIter<T>::nth_back(k)` (the default: repeated `next_back`) for EVERY such `k`: `None`, exhausted -/
theorem one_iter_nth_back_beyond (b : BitVector) (v : RawVec) (hv : v.WF) (hlen : v.len < 2 ^ 64)
    (hdata : b.data = v) (hones : b.ones = v.bits.count true) (tr : Tr) (m : Mode) (it : OneIterSt) (r R : Nat)
    (hrel : Rel tr v it r R) (k : Nat) (hk : R - r ≤ k) :
    ∃ it', nthBackQ tr m b k it = ok (none, it') ∧ Rel tr v it' r r :=
  nthBackQ_none ⟨hv, hlen, hdata, hones⟩ tr m k hrel (by have := hrel.le; omega)

/-- … and an exhausted `OneIter<T>` stays exhausted under every further call history -/
theorem one_iter_exhausted_stays (b : BitVector) (v : RawVec) (hv : v.WF) (hlen : v.len < 2 ^ 64)
    (hdata : b.data = v) (hones : b.ones = v.bits.count true) (tr : Tr) (m : Mode) (calls : List ICall)
    (it : OneIterSt) (r : Nat) (hrel : Rel tr v it r r) :
    ∃ os, oneRun tr m b it calls = ok os ∧ ∀ o, o ∈ os → IsEmptyOut o :=
  oneRun_exhausted ⟨hv, hlen, hdata, hones⟩ tr m calls hrel (Nat.le_refl _)

/-- F1 repaired (see C08 for the defect): `nth(usize::MAX)` in the middle of a run answers `None` in both builds -/
theorem F1_repaired (m : Mode) :
    OneIterSt.nthQ .ident m (BitVector.ofRaw (RawVec.ofBits [true, true])).enableAll
      ⟨(1, 1), (2, 2)⟩ (2 ^ 64 - 1) = ok (none, ⟨(2, 2), (2, 2)⟩) := by
  cases m
  · exact F1_fixed_checked
  · exact F1_fixed_wrapping

/-- two-cursor iterators (`AccessIter`, `bit_vector::Iter`): `nth(k)` / `nth_back(k)` for EVERY `k` at least the
remainder answer `None` and leave the iterator exhausted (the `min` clamp keeps the cursor sum from overflowing) -/
theorem two_cursor_nth_beyond {α} (get : Nat → α) (c : Cursor) (k : Nat) (hk : c.limit - c.next ≤ k) :
    ((cursorStep get c (.nth k)).1 = .none ∧ Exhausted (cursorStep get c (.nth k)).2) ∧
    ((cursorStep get c (.nthBack k)).1 = .none ∧ Exhausted (cursorStep get c (.nthBack k)).2) := by
  have hmin : min k (c.limit - c.next) = c.limit - c.next := Nat.min_eq_right hk
  constructor
  · have h : (cursorStep get c (.nth k)).1 = .none := by
      simp only [cursorStep, hmin]
      rw [if_pos (by omega)]
    exact ⟨h, none_exhausted get c (.nth k) (by intro h; cases h) h⟩
  · have h : (cursorStep get c (.nthBack k)).1 = .none := by
      simp only [cursorStep, hmin]
      rw [if_pos (by omega)]
    exact ⟨h, none_exhausted get c (.nthBack k) (by intro h; cases h) h⟩

/-- … and with ARBITRARY arguments in an arbitrary call history they answer as the reference queue does
(`drop k` of a shorter list is empty), staying `None` once exhausted -/
theorem two_cursor_every_argument {α} (xs : List α) (get : Nat → α)
    (hx : ∀ i, i < xs.length → xs[i]? = some (get i)) (calls : List ICall) :
    cursorRun get ⟨0, xs.length⟩ calls = dequeRunM xs calls ∧
    ∀ (c : Cursor) (call : ICall), call ≠ .len → (cursorStep get c call).1 = .none →
      ∀ o, o ∈ cursorRun get (cursorStep get c call).2 calls → IsEmptyOut o :=
  ⟨cursorRun_eq xs get hx calls, fun c call hcall h => none_absorbing get c call hcall h calls⟩

/-! ### constructors reject invalid widths with an error -/

/-- `IntVector::new`, `with_len`, `with_capacity`: width 0 and every width above 64 (up to `usize::MAX`) is
refused with an error — not a panic — and every width 1..64 is accepted -/
theorem intvec_constructors_validate (w n c : Nat) (x : Word) :
    ((w = 0 ∨ 64 < w) → IntVec.new w = fault (.err .other) ∧ IntVec.withLen n w x = fault (.err .other) ∧
      IntVec.withCapacity c w = fault (.err .other)) ∧
    ((1 ≤ w ∧ w ≤ 64) → (∃ v, IntVec.new w = ok v ∧ v.WF ∧ v.width = w ∧ v.items = []) ∧
      (∃ v, IntVec.withLen n w x = ok v ∧ v.WF ∧ v.width = w ∧ v.len = n ∧
        v.items = List.replicate n (x.toNat % 2 ^ w)) ∧
      IntVec.withCapacity c w = ok ⟨0, w, RawVec.empty⟩) :=
  ⟨fun h => ⟨IntVec.new_reject w h, IntVec.withLen_reject n w x h, IntVec.withCapacity_reject c w h⟩,
    fun h => ⟨IntVec.new_ok_spec w h.1 h.2, IntVec.withLen_spec n w x h.1 h.2, IntVec.withCapacity_ok c w h.1 h.2⟩⟩

/-! ### summary for the plain bitvector -/

/-- **C09 for the plain bitvector (partial: see the header for what other files cover).**  For every
well-formed raw vector of `usize` length with all supports enabled, both modes, and EVERY argument: each query
returns its documented answer — none panics.

Full intended statement: the same for the sparse and run-length bitvectors, the wavelet matrix and the core
mapping, and agreement of the three bitvector types (see the header). -/
theorem plain_bitvector_total_partial (v : RawVec) (hv : v.WF) (hlen : v.len < 2 ^ 64) (m : Mode) :
    (∀ i, v.len ≤ i → (BitVector.ofRaw v).enableAll.rankQ i = ok (v.bits.count true)) ∧
    (∀ i, v.len ≤ i → (BitVector.ofRaw v).enableAll.rankZeroQ m i = ok (i - v.bits.count true)) ∧
    (∀ r, v.bits.count true ≤ r → (BitVector.ofRaw v).enableAll.selectQ m r = ok none ∧
      (BitVector.ofRaw v).enableAll.selectIterT .ident m r =
        ok (OneIterSt.emptyIter .ident (BitVector.ofRaw v).enableAll)) ∧
    (∀ r, v.bits.count false ≤ r → (BitVector.ofRaw v).enableAll.selectZeroQ m r = ok none ∧
      (BitVector.ofRaw v).enableAll.selectIterT .compl m r =
        ok (OneIterSt.emptyIter .compl (BitVector.ofRaw v).enableAll)) ∧
    (∀ x, v.len ≤ x → (BitVector.ofRaw v).enableAll.successorQ m x =
      ok (OneIterSt.emptyIter .ident (BitVector.ofRaw v).enableAll)) ∧
    (∀ x, v.len ≤ x → (BitVector.ofRaw v).enableAll.predecessorQ m x =
      (BitVector.ofRaw v).enableAll.predecessorQ m (v.len - 1)) ∧
    (∀ tr calls, ∃ os, oneRun tr m (BitVector.ofRaw v).enableAll
      (OneIterSt.emptyIter tr (BitVector.ofRaw v).enableAll) calls = ok os ∧ ∀ o, o ∈ os → IsEmptyOut o) ∧
    (∀ i r x, (∃ a, (BitVector.ofRaw v).enableAll.rankQ i = ok a) ∧
      (∃ a, (BitVector.ofRaw v).enableAll.rankZeroQ m i = ok a) ∧
      (∃ a, (BitVector.ofRaw v).enableAll.selectQ m r = ok a) ∧
      (∃ a, (BitVector.ofRaw v).enableAll.selectZeroQ m r = ok a) ∧
      (∃ a, (BitVector.ofRaw v).enableAll.predecessorQ m x = ok a) ∧
      (∃ a, (BitVector.ofRaw v).enableAll.successorQ m x = ok a)) := by
  have hones : (BitVector.ofRaw v).enableAll.ones = v.bits.count true := countOnes_eq v hv
  have hc1 : (BitVector.ofRaw v).enableAll.countT .ident = v.bits.count true := hones
  have hc0 : (BitVector.ofRaw v).enableAll.countT .compl = v.bits.count false := by
    rw [countT_eq (b := (BitVector.ofRaw v).enableAll) (v := v) rfl hones .compl]
    exact Glue.count_true_map_not v.bits
  refine ⟨fun i hi => (rank_past_end v hv hlen i hi).1, fun i hi => rank_zero_past_end v hv hlen m i hi,
    ?_, ?_, ?_, ?_, ?_, ?_⟩
  · intro r hr
    exact select_past_count_any_bitvector _ .ident m r (by rw [hc1]; exact hr)
  · intro r hr
    exact select_past_count_any_bitvector _ .compl m r (by rw [hc0]; exact hr)
  · intro x hx; exact successor_past_end_any_bitvector _ m x hx
  · intro x hx; exact predecessor_past_end_any_bitvector (BitVector.ofRaw v).enableAll hlen m x hx
  · intro tr calls; exact empty_iterator_yields_nothing _ v hv hlen rfl hones tr m calls
  · intro i r x
    obtain ⟨⟨it, _, hp, _⟩, ⟨it2, _, hs, _⟩⟩ := predecessor_successor_every_argument v hv hlen m x
    exact ⟨⟨_, (rank_every_argument v hv hlen m i).1⟩, ⟨_, (rank_every_argument v hv hlen m i).2⟩,
      ⟨_, selectQ_enableAll hv hlen m r⟩, ⟨_, selectZeroQ_enableAll hv hlen m r⟩, ⟨it, hp⟩, ⟨it2, hs⟩⟩

/-! ### non-vacuity -/

example : (RawVec.ofBits [true, false, true]).WF ∧ (RawVec.ofBits [true, false, true]).len < 2 ^ 64 := by decide
example : (BitVector.ofRaw (RawVec.ofBits [true, false, true])).enableAll.rankQ (2 ^ 64 - 1) = ok 2 := by decide
example : (BitVector.ofRaw (RawVec.ofBits [true, false, true])).enableAll.selectQ .checked (2 ^ 64 - 1) = ok none := by
  decide
/-- a legitimate mid-run iterator state (ranks `[1, 2)` of `11`) for the `nth` theorems -/
example : Rel .ident (RawVec.ofBits [true, true]) ⟨(1, 1), (2, 2)⟩ 1 2 := F1_state_rel
example : IntVec.new 0 = fault (.err .other) ∧ IntVec.new 65 = fault (.err .other) ∧
    IntVec.new (2 ^ 64 - 1) = fault (.err .other) := by decide

end Sds.C09
