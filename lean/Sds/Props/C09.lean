/-
C09 — Queries are total: out-of-range and extreme arguments give the documented answer.

Property theorems only (helper lemmas live in Proofs/).

Quantifiers.  Arguments are `Nat`, so a statement "for every `i` with `i ≥ len`" covers `len`, `len + 1`, `2 len`,
`2^63`, `usize::MAX - 1`, `usize::MAX` and every other `usize` value at once; nothing below is restricted to a
list of sample values.  Both arithmetic modes `m : Mode` throughout; `= ok …` says in particular that the call
does not panic (no overflow in a checked build, no failed assertion, no `unwrap` of a missing support) and
reads nothing out of bounds.

Several of the documented answers do not even depend on the supports or on well-formedness — they are decided
by the first comparison in the code — and are stated for EVERY `b : BitVector` (`…_any_bitvector`); the
statements that identify the answer with the specification then use the C01 hypotheses.

Scope of this file.  Covered, each with a structure-level summary theorem for EVERY argument and both modes:
  * the plain bitvector (`plain_bitvector_total`): rank, rank_zero, select, select_zero, select_iter,
    predecessor, successor; the iterators `OneIter<T>` and the two-cursor iterators with arbitrary `nth` /
    `nth_back` arguments; the integer-vector constructors;
  * the sparse (Elias–Fano) bitvector (`sparse_total`, set mode; `sparse_multiset_total`), for every vector
    satisfying the encoding relation — every built one (`sparse_built_total`) and every loaded one;
  * the run-length bitvector (`run_length_total`), for every accepted builder call history;
  * the wavelet matrix and its core mapping (`wavelet_matrix_total`, `wavelet_matrix_built_total`): index past
    the end, rank beyond the occurrences, absent value, value outside the alphabet;
  * agreement of the three bitvector types on a common bit sequence, for every argument
    (`three_bitvector_types_agree`).
In each summary the four documented answers are explicit: `rank` clamps to `count_ones` at `index ≥ len`;
`select(r)` / `select_zero(r)` are `None` for `r ≥ count`, with empty iterators; `successor` at `≥ len` is
empty; `predecessor` at `≥ len` behaves as at `len − 1` (empty when there is no set bit).

PARTIAL.  The summaries no longer carry `_partial` in their names because every structure the property names has
its summary; what is NOT claimed:
  * `Iterator::nth` / `nth_back` "beyond the remainder" is proven for the plain bitvector's `OneIter<T>` and the
    two-cursor iterators only; the sparse and run-length iterators use the default `nth` (repeated `next`), and
    for them only "the exhausted / empty iterator answers `None`" is stated here (call histories of `next` /
    `next_back`: C02, C10);
  * run-length `select_zero_iter(r)`, `r < count_zeros`: start position only (C03); sparse
    `select_zero_iter(r)`, `r < count_zeros`: success only;
  * sparse `get(i)`, `i ≥ len`, and wavelet-matrix `get(i)`, `i ≥ len`, are outside the documented domain
    (the library documents "may panic"): `get` past the end of the wavelet matrix IS the `unwrap` panic, in both
    modes (stated), for the sparse vector see C08 (`never out of bounds`);
  * multiset-mode sparse vectors: `rank_zero` / `select_zero` are not defined by the library there (C15).
-/
import Sds.Proofs.Rank
import Sds.Proofs.Select
import Sds.Proofs.Iter
import Sds.Proofs.IntVec
import Sds.Proofs.Glue
import Sds.Proofs.Glue2
import Sds.Proofs.Glue5

namespace Sds.C09
open Sds Outcome IterProofs

/-! ### rank(i ≥ len) = count_ones -/

/-- for EVERY bitvector (supports present or not): `rank(i) = count_ones` as soon as `i ≥ len` -/
theorem rank_past_end_any_bitvector (b : BitVector) (i : Nat) (hi : b.len ≤ i) : b.rankQ i = ok b.countOnes := by
  unfold BitVector.rankQ; rw [if_pos hi]

/-- … which is the number of set bits of the sequence, and is what the specification says -/
theorem rank_past_end (v : RawVec) (hv : v.WF) (hlen : v.len < 2 ^ 64) (i : Nat) (hi : v.len ≤ i) :
    (BitVector.ofRaw v).enableAll.rankQ i = ok (v.bits.count true) ∧ rankSpec v.bits i = v.bits.count true := by
  have hs := rankSpec_of_ge v.bits i (by rw [RawVec.bits_length]; exact hi)
  refine ⟨?_, hs⟩
  rw [rankQ_build hv hlen rfl rfl (countOnes_eq v hv) i, hs]

/-- `rank_zero(i ≥ len) = i - count_ones` in both modes: no underflow, no panic -/
theorem rank_zero_past_end (v : RawVec) (hv : v.WF) (hlen : v.len < 2 ^ 64) (m : Mode) (i : Nat)
    (hi : v.len ≤ i) :
    (BitVector.ofRaw v).enableAll.rankZeroQ m i = ok (i - v.bits.count true) := by
  rw [rankZeroQ_build hv hlen rfl rfl (countOnes_eq v hv) m i,
    rankSpec_of_ge v.bits i (by rw [RawVec.bits_length]; exact hi)]

/-- `rank` for EVERY argument (C01) -/
theorem rank_every_argument (v : RawVec) (hv : v.WF) (hlen : v.len < 2 ^ 64) (m : Mode) (i : Nat) :
    (BitVector.ofRaw v).enableAll.rankQ i = ok (rankSpec v.bits i) ∧
    (BitVector.ofRaw v).enableAll.rankZeroQ m i = ok (i - rankSpec v.bits i) :=
  ⟨rankQ_build hv hlen rfl rfl (countOnes_eq v hv) i, rankZeroQ_build hv hlen rfl rfl (countOnes_eq v hv) m i⟩

/-! ### select / select_zero (r ≥ count) = None, with empty iterators -/

/-- for EVERY bitvector, `select` (`tr = .ident`) and `select_zero` (`tr = .compl`), both modes: `None` as soon
as `r ≥ count`, and `select_iter` / `select_zero_iter` return the empty iterator -/
theorem select_past_count_any_bitvector (b : BitVector) (tr : Tr) (m : Mode) (r : Nat) (hr : b.countT tr ≤ r) :
    b.selectT tr m r = ok none ∧ b.selectIterT tr m r = ok (OneIterSt.emptyIter tr b) := by
  constructor
  · unfold BitVector.selectT; rw [if_pos hr]
  · unfold BitVector.selectIterT; rw [if_pos hr]

/-- in terms of the sequence: `select(r)` is `None` EXACTLY when `r ≥ count_ones`, `select_zero(r)` EXACTLY when
`r ≥ count_zeros`, for every `r` -/
theorem select_none_exactly_past_count (v : RawVec) (hv : v.WF) (hlen : v.len < 2 ^ 64) (m : Mode) (r : Nat) :
    ((BitVector.ofRaw v).enableAll.selectQ m r = ok none ↔ v.bits.count true ≤ r) ∧
    ((BitVector.ofRaw v).enableAll.selectZeroQ m r = ok none ↔ v.bits.count false ≤ r) := by
  constructor
  · rw [selectQ_enableAll hv hlen m r, ← selectSpec_eq_none_iff]
    exact ⟨fun h => Outcome.ok.inj h, fun h => by rw [h]⟩
  · rw [selectZeroQ_enableAll hv hlen m r, ← Glue.count_true_map_not]
    have := selectSpec_eq_none_iff (v.bits.map not) r
    unfold selectZeroSpec
    unfold selectSpec at this
    rw [← this]
    exact ⟨fun h => Outcome.ok.inj h, fun h => by rw [h]⟩

/-- the empty iterator IS empty: under every call history (any `next` / `next_back` / `nth k` / `nth_back k` /
`len`) it answers only `None` resp. length 0, without fault -/
theorem empty_iterator_yields_nothing (b : BitVector) (v : RawVec) (hv : v.WF) (hlen : v.len < 2 ^ 64)
    (hdata : b.data = v) (hones : b.ones = v.bits.count true) (tr : Tr) (m : Mode) (calls : List ICall) :
    ∃ os, oneRun tr m b (OneIterSt.emptyIter tr b) calls = ok os ∧ ∀ o, o ∈ os → IsEmptyOut o :=
  oneRun_exhausted ⟨hv, hlen, hdata, hones⟩ tr m calls (Rel_empty ⟨hv, hlen, hdata, hones⟩ tr) (Nat.le_refl _)

/-! ### successor(x ≥ len) is empty; predecessor(x ≥ len) = predecessor(len - 1) -/

/-- for EVERY bitvector and both modes: `successor(x)` with `x ≥ len` is the empty iterator -/
theorem successor_past_end_any_bitvector (b : BitVector) (m : Mode) (x : Nat) (hx : b.len ≤ x) :
    b.successorQ m x = ok (OneIterSt.emptyIter .ident b) := by
  unfold BitVector.successorQ
  rw [rank_past_end_any_bitvector b x hx]
  simp

/-- for EVERY bitvector of `usize` length and both modes: `predecessor(x)` with `x ≥ len` — up to and including
`usize::MAX`, where the repaired code saturates `x + 1` — is `predecessor(len - 1)`.
(For `len = 0` the right-hand side reads `predecessor(0)`; both sides are then the empty iterator.) -/
theorem predecessor_past_end_any_bitvector (b : BitVector) (hlen : b.len < 2 ^ 64) (m : Mode) (x : Nat)
    (hx : b.len ≤ x) : b.predecessorQ m x = b.predecessorQ m (b.len - 1) := by
  have h1 : b.rankQ (BitVector.satAdd x 1) = ok b.countOnes := by
    apply rank_past_end_any_bitvector
    unfold BitVector.satAdd U64
    rw [Nat.min_def]; split <;> omega
  have h2 : b.rankQ (BitVector.satAdd (b.len - 1) 1) = ok b.countOnes := by
    apply rank_past_end_any_bitvector
    unfold BitVector.satAdd U64
    rw [Nat.min_def]; split <;> omega
  unfold BitVector.predecessorQ
  simp only [h1, h2]

/-- and what that common answer is (any valid supports): the iterator whose first item is the LAST set bit with
its rank `count_ones - 1` — `predSpec B x` for every such `x` is `predSpec B (len - 1)` — or the empty iterator
when there is no set bit -/
theorem predecessor_past_end (b : BitVector) (v : RawVec) (rs : RankSup) (s : SelSup) (hv : v.WF)
    (hlen : v.len < 2 ^ 64) (hdata : b.data = v) (hones : b.ones = v.bits.count true)
    (hrank : b.rank = some rs) (hrs : rs.Valid v) (hsel : b.select = some s) (hs : s.Valid .ident v)
    (m : Mode) (x : Nat) (hx : v.len ≤ x) :
    predSpec v.bits x = predSpec v.bits (v.len - 1) ∧
    match predSpec v.bits (v.len - 1) with
    | none => b.predecessorQ m x = ok (OneIterSt.emptyIter .ident b)
    | some (k, p) => (onesPos v.bits)[k]? = some p ∧ k + 1 = v.bits.count true ∧
        b.predecessorQ m x = ok ⟨(k, p), (b.countT .ident, b.len)⟩ := by
  have C : Ctx b v := ⟨hv, hlen, hdata, hones⟩
  have hr : ∀ y, v.len ≤ y + 1 → rankSpec (bitsT .ident v.bits) (y + 1) = v.bits.count true := fun y hy =>
    rankSpec_of_ge v.bits (y + 1) (by rw [RawVec.bits_length]; exact hy)
  have e : predSpec v.bits x = predSpec v.bits (v.len - 1) := by
    have e1 := predSpec_eq .ident v x
    have e2 := predSpec_eq .ident v (v.len - 1)
    rw [hr x (by omega)] at e1
    rw [hr (v.len - 1) (by omega)] at e2
    exact e1.trans e2.symm
  refine ⟨e, ?_⟩
  have h := predecessorQ_ok C hrank hrs hsel hs m x
  rw [e] at h
  have e2 := predSpec_eq .ident v (v.len - 1)
  rw [hr (v.len - 1) (by omega)] at e2
  cases hp : predSpec v.bits (v.len - 1) with
  | none => rw [hp] at h; exact h
  | some kp =>
    obtain ⟨k, p⟩ := kp
    rw [hp] at h
    refine ⟨h.1, ?_, h.2.1⟩
    have e3 : predSpec (bitsT .ident v.bits) (v.len - 1) = some (k, p) := hp
    rw [e3] at e2
    by_cases h0 : v.bits.count true = 0
    · rw [if_pos h0] at e2; cases e2
    · rw [if_neg h0] at e2
      have := (Prod.mk.inj (Option.some.inj e2)).1
      omega

/-- `predecessor` and `successor` for EVERY `x` (C01): the call succeeds in both modes and the first item of the
returned iterator is the specified `(rank, position)`, or the iterator is empty -/
theorem predecessor_successor_every_argument (v : RawVec) (hv : v.WF) (hlen : v.len < 2 ^ 64) (m : Mode) (x : Nat) :
    (∃ it it', (BitVector.ofRaw v).enableAll.predecessorQ m x = ok it ∧
      OneIterSt.nextQ .ident m (BitVector.ofRaw v).enableAll it = ok (predSpec v.bits x, it')) ∧
    (∃ it it', (BitVector.ofRaw v).enableAll.successorQ m x = ok it ∧
      OneIterSt.nextQ .ident m (BitVector.ofRaw v).enableAll it = ok (succSpec v.bits x, it')) := by
  have C : Ctx (BitVector.ofRaw v).enableAll v := ctx_enableAll hv hlen
  have hk : ∀ k p, (onesPos v.bits)[k]? = some p → k < (onesPos (bitsT .ident v.bits)).length := by
    intro k p h1
    rcases Nat.lt_or_ge k (onesPos (bitsT .ident v.bits)).length with h' | h'
    · exact h'
    · have : (onesPos v.bits)[k]? = none := List.getElem?_eq_none h'
      rw [this] at h1; cases h1
  constructor
  · have h := predecessorQ_enableAll hv hlen m x
    cases hp : predSpec v.bits x with
    | none => rw [hp] at h; exact ⟨_, _, h, IterProofs.nextQ_none .ident m _ _ (Nat.le_refl _)⟩
    | some kp =>
      obtain ⟨k, p⟩ := kp
      rw [hp] at h
      obtain ⟨h1, h2, h3⟩ := h
      obtain ⟨p', hp1, hp2, _⟩ := nextQ_some C .ident m h3 (hk k p h1)
      have e : p' = p := by
        have : (onesPos v.bits)[k]? = some p' := hp1
        rw [h1] at this; exact (Option.some.inj this).symm
      subst e
      exact ⟨_, _, h2, hp2⟩
  · have h := successorQ_enableAll hv hlen m x
    cases hp : succSpec v.bits x with
    | none => rw [hp] at h; exact ⟨_, _, h, IterProofs.nextQ_none .ident m _ _ (Nat.le_refl _)⟩
    | some kp =>
      obtain ⟨k, p⟩ := kp
      rw [hp] at h
      obtain ⟨h1, h2, h3⟩ := h
      obtain ⟨p', hp1, hp2, _⟩ := nextQ_some C .ident m h3 (hk k p h1)
      have e : p' = p := by
        have : (onesPos v.bits)[k]? = some p' := hp1
        rw [h1] at this; exact (Option.some.inj this).symm
      subst e
      exact ⟨_, _, h2, hp2⟩

/-! ### F2 (repaired by a `fix:` commit): `predecessor(usize::MAX)`

As first written, `predecessor(value)` computed `rank(value + 1)` with a plain `+`. -/

/-- original code, checked build: `predecessor(usize::MAX)` panics on EVERY bitvector -/
theorem F2_checked_counterexample (b : BitVector) :
    b.predecessorQOld .checked (2 ^ 64 - 1) = fault (.panic .overflow) :=
  F2_checked b

/-- original code, optimised build, on the vector `11`: the sum wraps to 0 and the answer is the EMPTY iterator,
although the specification says rank 1 at position 1 -/
theorem F2_wrapping_counterexample :
    (BitVector.ofRaw (RawVec.ofBits [true, true])).enableAll.predecessorQOld .wrapping (2 ^ 64 - 1) =
      ok (OneIterSt.emptyIter .ident (BitVector.ofRaw (RawVec.ofBits [true, true])).enableAll) ∧
    predSpec (RawVec.ofBits [true, true]).bits (2 ^ 64 - 1) = some (1, 1) :=
  ⟨F2_wrapping, F2_reference⟩

/-- repaired code (`saturating_add`), both builds, same input: the iterator at rank 1, position 1 -/
theorem F2_repaired (m : Mode) :
    (BitVector.ofRaw (RawVec.ofBits [true, true])).enableAll.predecessorQ m (2 ^ 64 - 1) = ok ⟨(1, 1), (2, 2)⟩ :=
  F2_fixed m

/-! ### Iterator::nth / nth_back beyond the remainder = None, and the iterator is exhausted -/

/-- `OneIter<T>::nth(n)` for EVERY `n` at least the number of remaining items (ranks `[r, R)`), both modes:
`None`, the iterator is exhausted (`next := limit`, standing for the empty interval `[R, R)`), no panic -/
theorem one_iter_nth_beyond (b : BitVector) (tr : Tr) (m : Mode) (v : RawVec) (it : OneIterSt) (r R : Nat)
    (hrel : Rel tr v it r R) (n : Nat) (hn : R - r ≤ n) :
    OneIterSt.nthQ tr m b it n = ok (none, { it with next := it.limit }) ∧
      Rel tr v { it with next := it.limit } R R :=
  nthQ_none tr m hrel n (by have := hrel.le; omega)

/-- `OneIter<T>::nth_back(k)` (the default: repeated `next_back`) for EVERY such `k`: `None`, exhausted -/
theorem one_iter_nth_back_beyond (b : BitVector) (v : RawVec) (hv : v.WF) (hlen : v.len < 2 ^ 64)
    (hdata : b.data = v) (hones : b.ones = v.bits.count true) (tr : Tr) (m : Mode) (it : OneIterSt) (r R : Nat)
    (hrel : Rel tr v it r R) (k : Nat) (hk : R - r ≤ k) :
    ∃ it', nthBackQ tr m b k it = ok (none, it') ∧ Rel tr v it' r r :=
  nthBackQ_none ⟨hv, hlen, hdata, hones⟩ tr m k hrel (by have := hrel.le; omega)

/-- … and an exhausted `OneIter<T>` stays exhausted under every further call history -/
theorem one_iter_exhausted_stays (b : BitVector) (v : RawVec) (hv : v.WF) (hlen : v.len < 2 ^ 64)
    (hdata : b.data = v) (hones : b.ones = v.bits.count true) (tr : Tr) (m : Mode) (calls : List ICall)
    (it : OneIterSt) (r : Nat) (hrel : Rel tr v it r r) :
    ∃ os, oneRun tr m b it calls = ok os ∧ ∀ o, o ∈ os → IsEmptyOut o :=
  oneRun_exhausted ⟨hv, hlen, hdata, hones⟩ tr m calls hrel (Nat.le_refl _)

/-- F1 repaired (see C08 for the defect): `nth(usize::MAX)` in the middle of a run answers `None` in both builds -/
theorem F1_repaired (m : Mode) :
    OneIterSt.nthQ .ident m (BitVector.ofRaw (RawVec.ofBits [true, true])).enableAll
      ⟨(1, 1), (2, 2)⟩ (2 ^ 64 - 1) = ok (none, ⟨(2, 2), (2, 2)⟩) := by
  cases m
  · exact F1_fixed_checked
  · exact F1_fixed_wrapping

/-- two-cursor iterators (`AccessIter`, `bit_vector::Iter`): `nth(k)` / `nth_back(k)` for EVERY `k` at least the
remainder answer `None` and leave the iterator exhausted (the `min` clamp keeps the cursor sum from overflowing) -/
theorem two_cursor_nth_beyond {α} (get : Nat → α) (c : Cursor) (k : Nat) (hk : c.limit - c.next ≤ k) :
    ((cursorStep get c (.nth k)).1 = .none ∧ Exhausted (cursorStep get c (.nth k)).2) ∧
    ((cursorStep get c (.nthBack k)).1 = .none ∧ Exhausted (cursorStep get c (.nthBack k)).2) := by
  have hmin : min k (c.limit - c.next) = c.limit - c.next := Nat.min_eq_right hk
  constructor
  · have h : (cursorStep get c (.nth k)).1 = .none := by
      simp only [cursorStep, hmin]
      rw [if_pos (by omega)]
    exact ⟨h, none_exhausted get c (.nth k) (by intro h; cases h) h⟩
  · have h : (cursorStep get c (.nthBack k)).1 = .none := by
      simp only [cursorStep, hmin]
      rw [if_pos (by omega)]
    exact ⟨h, none_exhausted get c (.nthBack k) (by intro h; cases h) h⟩

/-- … and with ARBITRARY arguments in an arbitrary call history they answer as the reference queue does
(`drop k` of a shorter list is empty), staying `None` once exhausted -/
theorem two_cursor_every_argument {α} (xs : List α) (get : Nat → α)
    (hx : ∀ i, i < xs.length → xs[i]? = some (get i)) (calls : List ICall) :
    cursorRun get ⟨0, xs.length⟩ calls = dequeRunM xs calls ∧
    ∀ (c : Cursor) (call : ICall), call ≠ .len → (cursorStep get c call).1 = .none →
      ∀ o, o ∈ cursorRun get (cursorStep get c call).2 calls → IsEmptyOut o :=
  ⟨cursorRun_eq xs get hx calls, fun c call hcall h => none_absorbing get c call hcall h calls⟩

/-! ### constructors reject invalid widths with an error -/

/-- `IntVector::new`, `with_len`, `with_capacity`: width 0 and every width above 64 (up to `usize::MAX`) is
refused with an error — not a panic — and every width 1..64 is accepted -/
theorem intvec_constructors_validate (w n c : Nat) (x : Word) :
    ((w = 0 ∨ 64 < w) → IntVec.new w = fault (.err .other) ∧ IntVec.withLen n w x = fault (.err .other) ∧
      IntVec.withCapacity c w = fault (.err .other)) ∧
    ((1 ≤ w ∧ w ≤ 64) → (∃ v, IntVec.new w = ok v ∧ v.WF ∧ v.width = w ∧ v.items = []) ∧
      (∃ v, IntVec.withLen n w x = ok v ∧ v.WF ∧ v.width = w ∧ v.len = n ∧
        v.items = List.replicate n (x.toNat % 2 ^ w)) ∧
      IntVec.withCapacity c w = ok ⟨0, w, RawVec.empty⟩) :=
  ⟨fun h => ⟨IntVec.new_reject w h, IntVec.withLen_reject n w x h, IntVec.withCapacity_reject c w h⟩,
    fun h => ⟨IntVec.new_ok_spec w h.1 h.2, IntVec.withLen_spec n w x h.1 h.2, IntVec.withCapacity_ok c w h.1 h.2⟩⟩

/-! ### summary for the plain bitvector -/

/-- **C09 for the plain bitvector.**  For every well-formed raw vector of `usize` length with all supports
enabled, both modes, and EVERY argument: each query returns its documented answer — none panics.
(The other structures: `sparse_total`, `run_length_total`, `wavelet_matrix_total` below.) -/
theorem plain_bitvector_total (v : RawVec) (hv : v.WF) (hlen : v.len < 2 ^ 64) (m : Mode) :
    (∀ i, v.len ≤ i → (BitVector.ofRaw v).enableAll.rankQ i = ok (v.bits.count true)) ∧
    (∀ i, v.len ≤ i → (BitVector.ofRaw v).enableAll.rankZeroQ m i = ok (i - v.bits.count true)) ∧
    (∀ r, v.bits.count true ≤ r → (BitVector.ofRaw v).enableAll.selectQ m r = ok none ∧
      (BitVector.ofRaw v).enableAll.selectIterT .ident m r =
        ok (OneIterSt.emptyIter .ident (BitVector.ofRaw v).enableAll)) ∧
    (∀ r, v.bits.count false ≤ r → (BitVector.ofRaw v).enableAll.selectZeroQ m r = ok none ∧
      (BitVector.ofRaw v).enableAll.selectIterT .compl m r =
        ok (OneIterSt.emptyIter .compl (BitVector.ofRaw v).enableAll)) ∧
    (∀ x, v.len ≤ x → (BitVector.ofRaw v).enableAll.successorQ m x =
      ok (OneIterSt.emptyIter .ident (BitVector.ofRaw v).enableAll)) ∧
    (∀ x, v.len ≤ x → (BitVector.ofRaw v).enableAll.predecessorQ m x =
      (BitVector.ofRaw v).enableAll.predecessorQ m (v.len - 1)) ∧
    (∀ tr calls, ∃ os, oneRun tr m (BitVector.ofRaw v).enableAll
      (OneIterSt.emptyIter tr (BitVector.ofRaw v).enableAll) calls = ok os ∧ ∀ o, o ∈ os → IsEmptyOut o) ∧
    (∀ i r x, (∃ a, (BitVector.ofRaw v).enableAll.rankQ i = ok a) ∧
      (∃ a, (BitVector.ofRaw v).enableAll.rankZeroQ m i = ok a) ∧
      (∃ a, (BitVector.ofRaw v).enableAll.selectQ m r = ok a) ∧
      (∃ a, (BitVector.ofRaw v).enableAll.selectZeroQ m r = ok a) ∧
      (∃ a, (BitVector.ofRaw v).enableAll.predecessorQ m x = ok a) ∧
      (∃ a, (BitVector.ofRaw v).enableAll.successorQ m x = ok a)) := by
  have hones : (BitVector.ofRaw v).enableAll.ones = v.bits.count true := countOnes_eq v hv
  have hc1 : (BitVector.ofRaw v).enableAll.countT .ident = v.bits.count true := hones
  have hc0 : (BitVector.ofRaw v).enableAll.countT .compl = v.bits.count false := by
    rw [countT_eq (b := (BitVector.ofRaw v).enableAll) (v := v) rfl hones .compl]
    exact Glue.count_true_map_not v.bits
  refine ⟨fun i hi => (rank_past_end v hv hlen i hi).1, fun i hi => rank_zero_past_end v hv hlen m i hi,
    ?_, ?_, ?_, ?_, ?_, ?_⟩
  · intro r hr
    exact select_past_count_any_bitvector _ .ident m r (by rw [hc1]; exact hr)
  · intro r hr
    exact select_past_count_any_bitvector _ .compl m r (by rw [hc0]; exact hr)
  · intro x hx; exact successor_past_end_any_bitvector _ m x hx
  · intro x hx; exact predecessor_past_end_any_bitvector (BitVector.ofRaw v).enableAll hlen m x hx
  · intro tr calls; exact empty_iterator_yields_nothing _ v hv hlen rfl hones tr m calls
  · intro i r x
    obtain ⟨⟨it, _, hp, _⟩, ⟨it2, _, hs, _⟩⟩ := predecessor_successor_every_argument v hv hlen m x
    exact ⟨⟨_, (rank_every_argument v hv hlen m i).1⟩, ⟨_, (rank_every_argument v hv hlen m i).2⟩,
      ⟨_, selectQ_enableAll hv hlen m r⟩, ⟨_, selectZeroQ_enableAll hv hlen m r⟩, ⟨it, hp⟩, ⟨it2, hs⟩⟩

/-! ### summary for the sparse (Elias–Fano) bitvector -/

/-- **C09 for the sparse bitvector, set mode.**  For EVERY vector `s` that encodes a strictly increasing list
`P` of positions below `n` (`Sparse.Encodes`: every built vector — `sparse_built_total` — and every loaded
one), both modes, EVERY argument (`Nat`: every `usize` incl. `usize::MAX`):
`rank(i ≥ len) = count_ones`; `rank_zero(i ≥ len) = i − count_ones`; `select(r ≥ count_ones) = None` with the
empty iterator, whose `next` is `None`; `select_zero(r ≥ count_zeros) = None` with the empty iterator;
`successor(x ≥ len)` is the empty iterator; `predecessor(x ≥ len) = predecessor(len − 1)`, the empty iterator
when there is no set bit; and every query returns (no panic) the set-level reference answer. -/
theorem sparse_total (s : Sparse) (n w : Nat) (P : List Nat) (hs : s.Encodes n w P)
    (hstrict : sortedStrict P = true) (m : Mode) :
    (s.len = n ∧ s.countOnes = P.length ∧ s.countZeros = n - P.length) ∧
    (∀ i, n ≤ i → s.rank m i = ok P.length) ∧
    (∀ i, n ≤ i → s.rankZero m i = ok (i - P.length)) ∧
    (∀ r, P.length ≤ r → s.select m r = ok none ∧ s.selectIter m r = ok (SpOneIter.emptyIter s) ∧
      SpOneIter.nextQ m s (SpOneIter.emptyIter s) = ok (none, SpOneIter.emptyIter s)) ∧
    (∀ r, n - P.length ≤ r → s.selectZero m r = ok none ∧
      s.selectZeroIter m r = ok (SpZeroIter.emptyIter s) ∧
      SpZeroIter.nextQ m s (SpZeroIter.emptyIter s) = ok (none, SpZeroIter.emptyIter s)) ∧
    (∀ x, n ≤ x → s.successor m x = ok (SpOneIter.emptyIter s)) ∧
    (∀ x, n ≤ x → s.predecessor m x = s.predecessor m (n - 1) ∧ predSet P x = predSet P (n - 1)) ∧
    (P = [] → ∀ x, s.predecessor m x = ok (SpOneIter.emptyIter s)) ∧
    (∀ i r x, s.rank m i = ok (rankSet P i) ∧ s.rankZero m i = ok (i - rankSet P i) ∧
      s.select m r = ok (selectSet P r) ∧ s.selectZero m r = ok (selectZeroSet P n r) ∧
      (∃ it it', s.predecessor m x = ok it ∧ SpOneIter.nextQ m s it = ok (predSet P x, it')) ∧
      (∃ it it', s.successor m x = ok it ∧ SpOneIter.nextQ m s it = ok (succSet P x, it')) ∧
      s.selectIter m r = ok (s.iterAt w P r) ∧ (∃ z, s.selectZeroIter m r = ok z)) :=
  ⟨Glue5.sparse_counts hs, fun i hi => Glue5.sparse_rank_past hs m i hi,
    fun i hi => Glue5.sparse_rankZero_past hs hstrict m i hi,
    fun r hr => Glue5.sparse_select_past hs m r hr,
    fun r hr => ⟨(Glue5.sparse_selectZero_past hs hstrict m r hr).1,
      (Glue5.sparse_selectZero_past hs hstrict m r hr).2, Glue5.sparse_zeroEmpty_next m s⟩,
    fun x hx => Glue5.sparse_successor_past hs m x hx,
    fun x hx => Glue5.sparse_predecessor_clamp hs m x hx,
    fun hP x => Glue5.sparse_predecessor_empty hs hP m x,
    fun i r x => ⟨rank_ok hs m i, rankZero_ok hs hstrict m i, select_ok hs m r,
      Sparse2.selectZero_spec hs hstrict m r, Glue5.sparse_pred_first_item hs m x,
      Glue5.sparse_succ_first_item hs m x, selectIter_ok hs m r,
      Glue5.sparse_selectZeroIter_ok hs hstrict m r⟩⟩

/-- **multiset mode** (non-decreasing `P`, duplicates allowed): the same for `rank`, `select`, `successor`,
`predecessor`, for every argument (`rank_zero` / `select_zero` are not defined by the library there) -/
theorem sparse_multiset_total (s : Sparse) (n w : Nat) (P : List Nat) (hs : s.Encodes n w P) (m : Mode) :
    (s.len = n ∧ s.countOnes = P.length) ∧
    (∀ i, n ≤ i → s.rank m i = ok P.length) ∧
    (∀ r, P.length ≤ r → s.select m r = ok none ∧ s.selectIter m r = ok (SpOneIter.emptyIter s) ∧
      SpOneIter.nextQ m s (SpOneIter.emptyIter s) = ok (none, SpOneIter.emptyIter s)) ∧
    (∀ x, n ≤ x → s.successor m x = ok (SpOneIter.emptyIter s)) ∧
    (∀ x, n ≤ x → s.predecessor m x = s.predecessor m (n - 1) ∧ predSet P x = predSet P (n - 1)) ∧
    (P = [] → ∀ x, s.predecessor m x = ok (SpOneIter.emptyIter s)) ∧
    (∀ i r x, s.rank m i = ok (rankSet P i) ∧ s.select m r = ok (selectSet P r) ∧
      (∃ it it', s.predecessor m x = ok it ∧ SpOneIter.nextQ m s it = ok (predSet P x, it')) ∧
      (∃ it it', s.successor m x = ok it ∧ SpOneIter.nextQ m s it = ok (succSet P x, it'))) :=
  ⟨⟨(Glue5.sparse_counts hs).1, (Glue5.sparse_counts hs).2.1⟩, fun i hi => Glue5.sparse_rank_past hs m i hi,
    fun r hr => Glue5.sparse_select_past hs m r hr,
    fun x hx => Glue5.sparse_successor_past hs m x hx,
    fun x hx => Glue5.sparse_predecessor_clamp hs m x hx,
    fun hP x => Glue5.sparse_predecessor_empty hs hP m x,
    fun i r x => ⟨rank_ok hs m i, select_ok hs m r, Glue5.sparse_pred_first_item hs m x,
      Glue5.sparse_succ_first_item hs m x⟩⟩

/-- the hypothesis of `sparse_total` holds of every built vector: every admissible low width `1..63`, every
universe `n < 2^64`, every strictly increasing list of fewer than 2^63 positions below `n` -/
theorem sparse_built_total (w n : Nat) (P : List Nat) (hw1 : 1 ≤ w) (hw : w ≤ 63) (hn : n < 2 ^ 64)
    (hm : P.length < 2 ^ 63) (hsorted : sortedStrict P = true) (hbound : ∀ p ∈ P, p < n) (m : Mode) :
    ∃ s, Sparse.ofValues w n false P = ok s ∧ s.Encodes n w P ∧
      (∀ i, n ≤ i → s.rank m i = ok s.countOnes) ∧
      (∀ r, s.countOnes ≤ r → s.select m r = ok none) ∧
      (∀ r, s.countZeros ≤ r → s.selectZero m r = ok none) ∧
      (∀ x, n ≤ x → s.successor m x = ok (SpOneIter.emptyIter s)) ∧
      (∀ x, n ≤ x → s.predecessor m x = s.predecessor m (n - 1)) := by
  obtain ⟨s, h1, hs⟩ := ofValues_set_ok w n P hw1 hw hn hm hsorted hbound
  obtain ⟨_, c1, c0⟩ := Glue5.sparse_counts hs
  exact ⟨s, h1, hs, fun i hi => by rw [c1]; exact Glue5.sparse_rank_past hs m i hi,
    fun r hr => (Glue5.sparse_select_past hs m r (by rw [← c1]; exact hr)).1,
    fun r hr => (Glue5.sparse_selectZero_past hs hsorted m r (by rw [← c0]; exact hr)).1,
    fun x hx => Glue5.sparse_successor_past hs m x hx,
    fun x hx => (Glue5.sparse_predecessor_clamp hs m x hx).1⟩

/-! ### summary for the run-length bitvector -/

/-- **C09 for the run-length bitvector.**  For EVERY accepted builder call history (`try_set` / `set_len` /
`set_bit`, `usize` arguments) describing the bit sequence `B`, the converted vector, both modes, EVERY argument
(also `≥ len`, `usize::MAX = 2^64 − 1` and beyond): `rank(i ≥ len) = count_ones`;
`rank_zero(i ≥ len) = i − count_ones`; `get(i ≥ len) = false` (no panic); `select(r ≥ count_ones) = None` with
the empty iterator, whose `next` is `None`; `select_zero(r ≥ count_zeros) = None` with the empty iterator;
`successor(x ≥ len)` is the empty iterator; `predecessor(x ≥ len)` is the computation of
`predecessor(len − 1)`, whose first item is the last set bit with rank `count_ones − 1`, or nothing when there is
no set bit; and every query returns (no panic, no overflow in the checked build) the list-level answer. -/
theorem run_length_total (m : Mode) (calls : List RL.BCall) (hc : ∀ c ∈ calls, RL.callArgsOk c)
    (b : RLBuilder) (hb : RL.runBCalls m calls {} = ok b) (v : RL) (hv : RL.ofBuilder m b = ok v)
    (B : List Bool) (hB : calls.foldl RL.specCall [] = B) :
    (v.len = B.length ∧ v.ones = B.count true ∧ v.countZeros = B.count false) ∧
    (∀ i, B.length ≤ i → v.rank m i = ok (B.count true)) ∧
    (∀ i, B.length ≤ i → v.rankZero m i = ok (i - B.count true)) ∧
    (∀ i, B.length ≤ i → v.get m i = ok false) ∧
    (∀ r, B.count true ≤ r → v.select m r = ok none ∧ v.selectIter m r = ok (RLOneIter.emptyIter v) ∧
      (RLOneIter.emptyIter v).nextQ m v = ok (none, RLOneIter.emptyIter v)) ∧
    (∀ r, B.count false ≤ r → v.selectZero m r = ok none ∧ v.selectZeroIter m r = ok (Glue5.rlZeroEnd v) ∧
      (Glue5.rlZeroEnd v).nextQ m v = ok (none, Glue5.rlZeroEnd v)) ∧
    (∀ x, B.length ≤ x → v.successor m x = ok (RLOneIter.emptyIter v)) ∧
    (∀ x, B.length ≤ x → v.predecessor m x = v.predecessor m (B.length - 1) ∧
      predSpec B x = predSpec B (B.length - 1) ∧
      predSpec B x = if B.count true = 0 then none
        else some (B.count true - 1, (onesPos B)[B.count true - 1]?.getD 0)) ∧
    (∀ i r x, v.rank m i = ok (rankSpec B i) ∧ v.rankZero m i = ok (i - rankSpec B i) ∧
      v.select m r = ok (selectSpec B r) ∧ v.selectZero m r = ok (selectZeroSpec B r) ∧
      (∃ oi oi', v.predecessor m x = ok oi ∧ oi.nextQ m v = ok (predSpec B x, oi')) ∧
      (∃ oi oi', v.successor m x = ok oi ∧ oi.nextQ m v = ok (succSpec B x, oi')) ∧
      (∃ st, v.selectIter m r = ok st) ∧ (∃ z, v.selectZeroIter m r = ok z)) := by
  subst hB
  obtain ⟨g, e1, e2, e3⟩ := Glue5.rl_good m calls hc b hb v hv
  obtain ⟨_, _, _, q4, q5, q6, _, q8, q9, q10, q11⟩ :=
    RLQ.build_queries m calls hc b hb v hv (Glue5.blocks_bound_calls m calls hc b hb v hv).2
  refine ⟨⟨e1, e2, e3⟩, fun i hi => by rw [q5 i, rankSpec_of_ge _ i hi],
    fun i hi => by rw [q6 i, rankSpec_of_ge _ i hi],
    fun i hi => by rw [q4 i, Glue5.getSpec_ge _ i hi],
    fun r hr => ⟨(Glue5.rl_select_past m v r (by rw [e2]; exact hr)).1,
      (Glue5.rl_select_past m v r (by rw [e2]; exact hr)).2, RLQ.oneIter_nextQ_empty m v⟩,
    fun r hr => ⟨(Glue5.rl_selectZero_past m v r (by rw [e3]; exact hr)).1,
      (Glue5.rl_selectZero_past m v r (by rw [e3]; exact hr)).2,
      Glue5.rl_zeroEnd_next m v (by rw [e1, e2]; exact List.count_le_length)⟩,
    fun x hx => Glue5.rl_successor_past m v x (by rw [e1]; exact hx),
    fun x hx => ⟨by rw [← e1]; exact (Glue5.rl_predecessor_clamp m v x (by rw [e1]; exact hx)).1,
      Glue5.predSpec_clamp _ x hx, Glue5.predSpec_of_ge _ x (by omega)⟩,
    fun i r x => ⟨q5 i, q6 i, q8 r, q9 r, q11 x, q10 x,
      ?_, ?_⟩⟩
  · obtain ⟨st, _, h, _⟩ := Glue5.rl_selectIter_drain m _ g e2 r _ (Nat.le_refl _)
    exact ⟨st, h⟩
  · obtain ⟨z, hz, _⟩ := Glue5.rl_selectZeroIter_ok m g r
    exact ⟨z, hz⟩

/-! ### summary for the wavelet matrix and its core mapping -/

/-- **C09 for the wavelet matrix.**  For EVERY matrix satisfying the invariant `WM.Ok` (the built one:
`wavelet_matrix_built_total`; any loaded one), both modes, EVERY index, rank and value (`Nat`): with an index
`≥ len`, `rank` clamps to the number of occurrences, `successor` likewise, `inverse_select` is `None`, `get` is
the documented `unwrap` panic (never a wrong value), `predecessor` behaves as at `len − 1`;
`select(r, v)` with `r ≥` the occurrences of `v` is `None` and the value iterator ends; a value that does not
occur — in particular every value outside the alphabet, `v ≥ 2^width` — has `contains = false`, `rank = 0`,
`select = None`, the empty `predecessor` (`len`) and `successor` rank 0; the core mappings `map_down_with`,
`map_up_with` return for every position and value; and every query returns the list-level answer. -/
theorem wavelet_matrix_total (w : WM) (V : List Nat) (width : Nat) (hw : w.Ok V width) (m : Mode) :
    (∀ i v, V.length ≤ i → w.rank m i v = ok (V.count v) ∧ w.successor m i v = ok (V.count v)) ∧
    (∀ r v, V.count v ≤ r → w.select m r v = ok none ∧ ∃ st, w.valueIterNext m v r = ok (none, st)) ∧
    (∀ i, V.length ≤ i → w.inverseSelect m i = ok none ∧ w.get m i = fault (.panic .unwrap)) ∧
    (∀ i v, V.length ≤ i → w.predecessor m i v = w.predecessor m (V.length - 1) v ∧
      w.predecessor m i v = ok (if V.count v > 0 then V.count v - 1 else V.length)) ∧
    (∀ v, (v ∉ V ∨ 2 ^ width ≤ v) → w.contains v = ok false ∧ (∀ i, w.rank m i v = ok 0) ∧
      (∀ r, w.select m r v = ok none) ∧ (∀ i, w.predecessor m i v = ok V.length) ∧
      (∀ i, w.successor m i v = ok 0)) ∧
    (∀ i r v, w.rank m i v = ok ((V.take i).count v) ∧ w.select m r v = ok (selectVal V v r) ∧
      w.contains v = ok (decide (v ∈ V)) ∧
      w.predecessor m i v =
        ok (if (V.take (i + 1)).count v > 0 then (V.take (i + 1)).count v - 1 else V.length) ∧
      w.successor m i v = ok ((V.take i).count v) ∧
      (∃ o, w.inverseSelect m i = ok o) ∧
      w.data.mapDownWith m i v = ok (firstPos width V v + (V.take i).count (v % 2 ^ width)) ∧
      w.data.mapUpWith m i v = ok (if i < firstPos width V v then none
        else selectVal V (v % 2 ^ width) (i - firstPos width V v))) := by
  refine ⟨fun i v hi => Glue5.wm_rank_past hw m i v hi, fun r v hr => Glue5.wm_select_past hw m r v hr,
    fun i hi => ⟨inverseSelect_none hw m i hi, get_panic hw m i hi⟩,
    fun i v hi => ⟨Glue5.wm_predecessor_clamp hw m i v hi, Glue5.wm_predecessor_past hw m i v (by omega)⟩,
    fun v hv => Glue5.wm_absent hw m v (hv.elim id (Glue5.wm_outside_alphabet hw v)),
    fun i r v => ⟨rank_ok_wm hw m i v, select_ok_wm hw m r v, contains_ok hw v, predecessor_ok hw m i v,
      successor_ok hw m i v, ?_, mapDownWith_ok' hw.core m i v, mapUpWith_total hw.core m i v⟩⟩
  by_cases h : i < V.length
  · exact ⟨_, inverseSelect_ok hw m i h⟩
  · exact ⟨_, inverseSelect_none hw m i (Nat.le_of_not_lt h)⟩

/-- the hypothesis of `wavelet_matrix_total` holds of every built matrix: every list of `u64` values shorter
than 2^63 (with the four documented out-of-range answers spelled out for it) -/
theorem wavelet_matrix_built_total (V : List Nat) (hV : ∀ v, v ∈ V → v < 2 ^ 64) (hlen : V.length < 2 ^ 63)
    (m : Mode) :
    (WM.ofValues V).Ok V (widthOf V) ∧
    (∀ i v, V.length ≤ i → (WM.ofValues V).rank m i v = ok (V.count v)) ∧
    (∀ r v, V.count v ≤ r → (WM.ofValues V).select m r v = ok none) ∧
    (∀ i, V.length ≤ i → (WM.ofValues V).inverseSelect m i = ok none) ∧
    (∀ i v, V.length ≤ i →
      (WM.ofValues V).predecessor m i v = (WM.ofValues V).predecessor m (V.length - 1) v) :=
  have hw := WM.ofValues_ok_full V hV hlen
  ⟨hw, fun i v hi => (Glue5.wm_rank_past hw m i v hi).1, fun r v hr => (Glue5.wm_select_past hw m r v hr).1,
    fun i hi => inverseSelect_none hw m i hi, fun i v hi => Glue5.wm_predecessor_clamp hw m i v hi⟩

/-! ### the three bitvector types agree -/

/-- **the three bitvector types agree with each other**, for every bit sequence `B` of `usize` length with
fewer than 2^63 set bits (the sparse builder's bound), every admissible low width, both modes, EVERY argument:
the plain bitvector built from `B`, the sparse vector built from the set positions of `B` over the universe
`|B|`, and the run-length vector converted after ANY accepted call history describing `B` return the same
`rank`, `rank_zero`, `select`, `select_zero`, and the same first item for `predecessor` and `successor` —
namely the list-level answers on `B` — in-range and out-of-range alike. -/
theorem three_bitvector_types_agree (B : List Bool) (hB : B.length < 2 ^ 64) (hones : B.count true < 2 ^ 63)
    (w : Nat) (hw1 : 1 ≤ w) (hw : w ≤ 63) (m : Mode)
    (calls : List RL.BCall) (hc : ∀ c ∈ calls, RL.callArgsOk c) (hspec : calls.foldl RL.specCall [] = B)
    (b : RLBuilder) (hb : RL.runBCalls m calls {} = ok b) :
    ∃ s v, Sparse.ofValues w B.length false (onesPos B) = ok s ∧ RL.ofBuilder m b = ok v ∧
      (∀ i, (BitVector.ofRaw (RawVec.ofBits B)).enableAll.rankQ i = ok (rankSpec B i) ∧
        s.rank m i = ok (rankSpec B i) ∧ v.rank m i = ok (rankSpec B i)) ∧
      (∀ i, (BitVector.ofRaw (RawVec.ofBits B)).enableAll.rankZeroQ m i = ok (i - rankSpec B i) ∧
        s.rankZero m i = ok (i - rankSpec B i) ∧ v.rankZero m i = ok (i - rankSpec B i)) ∧
      (∀ r, (BitVector.ofRaw (RawVec.ofBits B)).enableAll.selectQ m r = ok (selectSpec B r) ∧
        s.select m r = ok (selectSpec B r) ∧ v.select m r = ok (selectSpec B r)) ∧
      (∀ r, (BitVector.ofRaw (RawVec.ofBits B)).enableAll.selectZeroQ m r = ok (selectZeroSpec B r) ∧
        s.selectZero m r = ok (selectZeroSpec B r) ∧ v.selectZero m r = ok (selectZeroSpec B r)) ∧
      (∀ x, (∃ it it', (BitVector.ofRaw (RawVec.ofBits B)).enableAll.predecessorQ m x = ok it ∧
          OneIterSt.nextQ .ident m (BitVector.ofRaw (RawVec.ofBits B)).enableAll it = ok (predSpec B x, it')) ∧
        (∃ it it', s.predecessor m x = ok it ∧ SpOneIter.nextQ m s it = ok (predSpec B x, it')) ∧
        (∃ oi oi', v.predecessor m x = ok oi ∧ oi.nextQ m v = ok (predSpec B x, oi'))) ∧
      (∀ x, (∃ it it', (BitVector.ofRaw (RawVec.ofBits B)).enableAll.successorQ m x = ok it ∧
          OneIterSt.nextQ .ident m (BitVector.ofRaw (RawVec.ofBits B)).enableAll it = ok (succSpec B x, it')) ∧
        (∃ it it', s.successor m x = ok it ∧ SpOneIter.nextQ m s it = ok (succSpec B x, it')) ∧
        (∃ oi oi', v.successor m x = ok oi ∧ oi.nextQ m v = ok (succSpec B x, oi'))) := by
  subst hspec
  obtain ⟨hst, hbd, hl⟩ := Glue5.onesPos_admissible (calls.foldl RL.specCall [])
  obtain ⟨s, hs1, hs⟩ := ofValues_set_ok w _ _ hw1 hw hB (by rw [hl]; exact hones) hst hbd
  obtain ⟨v, hv⟩ := RL.ofBuilder_total m calls hc b hb
  obtain ⟨_, _, _, _, q5, q6, _, q8, q9, q10, q11⟩ :=
    RLQ.build_queries m calls hc b hb v hv (Glue5.blocks_bound_calls m calls hc b hb v hv).2
  obtain ⟨r1, r2, r3, r4⟩ := Glue5.set_specs_onesPos (calls.foldl RL.specCall [])
  have hwf := RawVec.ofBits_WF (calls.foldl RL.specCall [])
  have hbits := RawVec.bits_ofBits (calls.foldl RL.specCall [])
  have hlen : (RawVec.ofBits (calls.foldl RL.specCall [])).len < 2 ^ 64 := by
    rw [← RawVec.bits_length, hbits]; exact hB
  have hplain := fun x => predecessor_successor_every_argument _ hwf hlen m x
  have hrk := fun i => rank_every_argument _ hwf hlen m i
  simp only [hbits] at hplain hrk
  refine ⟨s, v, hs1, hv, fun i => ⟨(hrk i).1, by rw [rank_ok hs m i, r1], q5 i⟩,
    fun i => ⟨(hrk i).2, by rw [rankZero_ok hs hst m i, r1], q6 i⟩,
    fun r => ⟨by rw [selectQ_enableAll hwf hlen m r, hbits], by rw [select_ok hs m r, r2], q8 r⟩,
    fun r => ⟨by rw [selectZeroQ_enableAll hwf hlen m r, hbits],
      by rw [Sparse2.selectZero_spec hs hst m r, Glue5.selectZeroSet_onesPos], q9 r⟩,
    fun x => ⟨(hplain x).1, by rw [← r3 x]; exact Glue5.sparse_pred_first_item hs m x, q11 x⟩,
    fun x => ⟨(hplain x).2, by rw [← r4 x]; exact Glue5.sparse_succ_first_item hs m x, q10 x⟩⟩

/-! ### non-vacuity -/

example : (RawVec.ofBits [true, false, true]).WF ∧ (RawVec.ofBits [true, false, true]).len < 2 ^ 64 := by decide
example : (BitVector.ofRaw (RawVec.ofBits [true, false, true])).enableAll.rankQ (2 ^ 64 - 1) = ok 2 := by decide
example : (BitVector.ofRaw (RawVec.ofBits [true, false, true])).enableAll.selectQ .checked (2 ^ 64 - 1) = ok none := by
  decide
/-- a legitimate mid-run iterator state (ranks `[1, 2)` of `11`) for the `nth` theorems -/
example : Rel .ident (RawVec.ofBits [true, true]) ⟨(1, 1), (2, 2)⟩ 1 2 := F1_state_rel
example : IntVec.new 0 = fault (.err .other) ∧ IntVec.new 65 = fault (.err .other) ∧
    IntVec.new (2 ^ 64 - 1) = fault (.err .other) := by decide

/-- sparse: an encoded vector exists (built from `[0, 5, 9]` over the universe 10, low width 2), and the
reference answers at out-of-range arguments -/
example : ∃ s, Sparse.ofValues 2 10 false [0, 5, 9] = ok s ∧ s.Encodes 10 2 [0, 5, 9] :=
  ofValues_set_ok 2 10 [0, 5, 9] (by decide) (by decide) (by decide) (by decide) (by decide) (by decide)
example : rankSet [0, 5, 9] (2 ^ 64 - 1) = 3 ∧ selectSet [0, 5, 9] 3 = none ∧ succSet [0, 5, 9] 10 = none ∧
    predSet [0, 5, 9] (2 ^ 64 - 1) = some (2, 9) ∧ predSet [0, 5, 9] 9 = some (2, 9) := by decide
/-- run-length: an accepted call history, converted, queried at `usize::MAX` in both modes -/
example :
    (do let b ← RL.runBCalls .checked [.set 0 2, .bit 4, .set 5 3, .setLen 12] {}
        let v ← RL.ofBuilder .checked b
        let r ← v.rank .checked (2 ^ 64 - 1)
        let s ← v.select .checked (2 ^ 64 - 1)
        let p ← v.predecessor .checked (2 ^ 64 - 1)
        let (pi, _) ← p.nextQ .checked v
        return (v.len, r, s, pi)) = ok (12, 6, none, some (5, 7)) := by
  decide +kernel
example :
    (do let b ← RL.runBCalls .wrapping [.set 0 2, .bit 4, .set 5 3, .setLen 12] {}
        let v ← RL.ofBuilder .wrapping b
        let r ← v.rank .wrapping (2 ^ 64 - 1)
        let s ← v.successor .wrapping (2 ^ 64 - 1)
        let (si, _) ← s.nextQ .wrapping v
        return (v.len, r, si)) = ok (12, 6, none) := by
  decide +kernel
example : ∀ c ∈ [RL.BCall.set 0 2, .bit 4, .set 5 3, .setLen 12], RL.callArgsOk c := by
  intro c hc
  simp only [List.mem_cons, List.mem_nil_iff, or_false] at hc
  rcases hc with rfl | rfl | rfl | rfl <;> first | trivial | (show _ < U64; decide)
/-- wavelet matrix: the invariant holds of the matrix built from `[3, 1, 3, 0]` -/
example : (WM.ofValues [3, 1, 3, 0]).Ok [3, 1, 3, 0] (widthOf [3, 1, 3, 0]) :=
  WM.ofValues_ok_full _ (by decide) (by decide)

end Sds.C09
