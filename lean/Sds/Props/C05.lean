/-
C05 — Raw and integer vectors behave as plain sequences under any operation history.

Property theorems only (helper lemmas live in Proofs/).

Quantifiers.  Every finite operation sequence (`List Op`) applied inside the documented domain of each
operation (`Valid`: `set_bit` / `set_int` / `set` address existing items, integer widths are ≤ 64 — outside
these the code panics), from ANY well-formed starting vector; every width 1..64; every value `x : Word`, also
values wider than the item width (the reference holds `x mod 2^width`, resp. the low `w` bits of `x`).
No arithmetic mode appears because none of these operations does position arithmetic on caller-supplied
operands (their models contain no `addM`/`subM`/`mulM`).

The reference sequence.  For `RawVec` the observable content is `v.bits : List Bool` and an operation acts on
it by `RawVec.Op.spec` (plain list surgery: append, `set`, `take`, `replicate`, `map not`).  For `IntVec`
the observable state is `IntVec.view v = (v.width, v.items) : Nat × List Nat`, acted on by `IntVec.Op.spec`.

Operations covered.  RawVec: `push_bit`, `push_int` (width 0..64), `set_bit`, `set_int`, `resize` up / down
with a fill value, `pop_bit`, `pop_int`, `complement`, `clear`; construction `with_len(n, fill)` and from a bool
iterator.  IntVec: `push`, `pop`, `set`, `resize` up / down, `clear`, `pack`, `extend`; construction `new`,
`with_len(n, width, fill)`, from a list.
`reserve` / `with_capacity` are the identity on the modelled state `(len, data)` (capacity is not part of the
model); that they do not disturb the content in the real code is checked by the correspondence tests only.
-/
import Sds.Proofs.RawVec
import Sds.Proofs.IntVec
import Sds.Proofs.Codec
import Sds.Proofs.GenEqVec
import Sds.Proofs.GenEqVec2
import Sds.Proofs.GenEqConstr2
import Sds.Proofs.GenEqConstr4
import Sds.Proofs.GenEqConstr5
import Sds.Proofs.GenEqConstr3
import Sds.Proofs.GenEqVec3
import Sds.Proofs.GenEqFromExt
import Sds.Proofs.GenEqFromExt2

namespace Sds.C05
open Sds Outcome

/-! ### raw vectors -/

/-- one operation: the representation stays well formed and the content changes as the list-level
specification says -/
theorem raw_step (op : RawVec.Op) (v : RawVec) (hv : v.WF) (hp : op.pre v.len) :
    (op.run v).WF ∧ (op.run v).bits = op.spec v.bits :=
  RawVec.Op.step op hv hp

/-- **any history**: from any well-formed vector, after any valid operation sequence the vector is well formed
and its content is the reference sequence -/
theorem raw_history (v : RawVec) (hv : v.WF) (ops : List RawVec.Op) (hvalid : RawVec.Valid ops v.bits) :
    (ops.foldl (fun v op => op.run v) v).WF ∧
      (ops.foldl (fun v op => op.run v) v).bits = ops.foldl (fun L op => op.spec L) v.bits :=
  RawVec.history hv ops hvalid

/-- constructions: `with_len(n, fill)` is `n` copies of the fill value; collecting a bool iterator gives the
items; the empty vector is empty — all well formed -/
theorem raw_constructors (n : Nat) (fill : Bool) (B : List Bool) :
    ((RawVec.withLen n fill).WF ∧ (RawVec.withLen n fill).bits = List.replicate n fill) ∧
    ((RawVec.ofBits B).WF ∧ (RawVec.ofBits B).bits = B) ∧
    (RawVec.empty.WF ∧ RawVec.empty.bits = []) :=
  ⟨⟨RawVec.withLen_WF n fill, RawVec.bits_withLen n fill⟩, ⟨RawVec.ofBits_WF B, RawVec.bits_ofBits B⟩,
    ⟨RawVec.empty_WF, rfl⟩⟩

/-- `bit(i)` returns the reference item -/
theorem raw_get_bit (v : RawVec) (i : Nat) (hi : i < v.len) : v.bits[i]? = some (v.bit i) :=
  RawVec.bit_eq_getElem? v i hi

/-- `int(off, w)` returns the `w` reference bits starting at `off` (bit `i` of the result is reference bit
`off + i`; bits at and above `w` are zero) -/
theorem raw_get_int (v : RawVec) (off w : Nat) (hw : 1 ≤ w) (hw' : w ≤ 64) (hr : off + w ≤ v.len) (i : Nat) :
    (v.int off w).getLsbD i = (decide (i < w) && v.bits.getD (off + i) false) := by
  rw [RawVec.int_getLsbD v off w hw hw' i]
  by_cases h : i < w
  · have hlt : off + i < v.len := by omega
    have := RawVec.bits_getElem? v (off + i)
    rw [if_pos hlt] at this
    simp [h, List.getD, this]
  · simp [h]

/-- read-after-write: `set_int` then `int` returns the value truncated to the width -/
theorem raw_int_after_set_int (v : RawVec) (hv : v.WF) (off : Nat) (x : Word) (w : Nat) (hw : 1 ≤ w)
    (hw' : w ≤ 64) (hr : off + w ≤ v.len) : (v.setInt off x w).int off w = x &&& lowSet w :=
  RawVec.int_setInt hv off x w hw hw' hr

/-- `pop_bit` returns what the reference returns: the last item, or `None` on the empty vector (which is left
unchanged) -/
theorem raw_pop_bit (v : RawVec) :
    (v.len ≠ 0 → v.popBit.1 = v.bits[v.len - 1]?) ∧ (v.len = 0 → v.popBit = (none, v)) :=
  ⟨fun h => RawVec.popBit_fst h, fun h => RawVec.popBit_empty v h⟩

/-- `pop_int(w)` returns the last `w` reference bits (as `int(len - w, w)` would) and removes them; with fewer
than `w` bits it returns `None` and changes nothing -/
theorem raw_pop_int (v : RawVec) (hv : v.WF) (w : Nat) (hw : 1 ≤ w) (hw' : w ≤ 64) :
    (w ≤ v.len →
      (∃ r, (v.popInt w).1 = some r ∧
        ∀ i, r.getLsbD i = (decide (i < w) && v.bits.getD (v.len - w + i) false)) ∧
      (v.popInt w).2.WF ∧ (v.popInt w).2.bits = v.bits.take (v.len - w)) ∧
    (v.len < w → v.popInt w = (none, v)) := by
  refine ⟨fun h => ⟨⟨v.int (v.len - w) w, ?_, ?_⟩, (RawVec.popInt_spec hv w hw hw' h).2⟩,
    fun h => RawVec.popInt_short v w h⟩
  · rw [RawVec.popInt_eq v w hw h]
  · intro i
    exact raw_get_int v (v.len - w) w hw hw' (by omega) i

/-- **canonical representation**: two well-formed raw vectors with the same content are the same value (same
length, same words) -/
theorem raw_canonical (v w : RawVec) (hv : v.WF) (hw : w.WF) (h : v.bits = w.bits) : v = w :=
  RawVec.canonical hv hw h

/-- … so they compare equal, serialize to identical elements (hence bytes) and report the same `count_ones`,
which is the number of set items of the content -/
theorem raw_equal_observables (v w : RawVec) (hv : v.WF) (hw : w.WF) (h : v.bits = w.bits) :
    (v == w) = true ∧ rawVecC.ser v = rawVecC.ser w ∧ toBytes (rawVecC.ser v) = toBytes (rawVecC.ser w) ∧
    v.countOnes = w.countOnes ∧ v.countOnes = v.bits.count true := by
  have e := RawVec.canonical hv hw h
  subst e
  exact ⟨by simp, rfl, rfl, rfl, RawVec.countOnes_eq hv⟩

/-- **no matter how they were produced**: two valid histories from the empty vector whose reference results
agree produce identical representations -/
theorem raw_history_canonical (ops1 ops2 : List RawVec.Op) (h1 : RawVec.Valid ops1 [])
    (h2 : RawVec.Valid ops2 [])
    (he : ops1.foldl (fun L op => op.spec L) [] = ops2.foldl (fun L op => op.spec L) []) :
    ops1.foldl (fun v op => op.run v) RawVec.empty = ops2.foldl (fun v op => op.run v) RawVec.empty :=
  RawVec.history_canonical ops1 ops2 h1 h2 he

/-- the same from arbitrary well-formed starting vectors -/
theorem raw_history_canonical_general (v1 v2 : RawVec) (hv1 : v1.WF) (hv2 : v2.WF)
    (ops1 ops2 : List RawVec.Op) (h1 : RawVec.Valid ops1 v1.bits) (h2 : RawVec.Valid ops2 v2.bits)
    (he : ops1.foldl (fun L op => op.spec L) v1.bits = ops2.foldl (fun L op => op.spec L) v2.bits) :
    ops1.foldl (fun v op => op.run v) v1 = ops2.foldl (fun v op => op.run v) v2 := by
  have r1 := RawVec.history hv1 ops1 h1
  have r2 := RawVec.history hv2 ops2 h2
  apply RawVec.canonical r1.1 r2.1
  rw [r1.2, r2.2, he]

/-! ### integer vectors -/

/-- one operation on an integer vector -/
theorem int_step (op : IntVec.Op) (v : IntVec) (hv : v.WF) (hp : op.pre v.len) :
    (op.run v).WF ∧ IntVec.view (op.run v) = IntVec.Op.spec (IntVec.view v) op :=
  IntVec.Op.step op hv hp

/-- **any history**: after any valid operation sequence the vector is well formed and its (width, content) is
the reference (width, sequence), where every written value appears truncated to the item width
(`IntVec.Op.spec` stores `x.toNat % 2 ^ w`) -/
theorem int_history (v : IntVec) (hv : v.WF) (ops : List IntVec.Op) (hvalid : IntVec.Valid ops (IntVec.view v)) :
    (ops.foldl (fun v op => op.run v) v).WF ∧
      IntVec.view (ops.foldl (fun v op => op.run v) v) = ops.foldl IntVec.Op.spec (IntVec.view v) :=
  IntVec.history hv ops hvalid

/-- along any history every item of the reference stays below `2 ^ width` -/
theorem int_history_items_lt (v : IntVec) (hv : v.WF) (ops : List IntVec.Op)
    (hvalid : IntVec.Valid ops (IntVec.view v)) :
    ∀ x ∈ (ops.foldl IntVec.Op.spec (IntVec.view v)).2, x < 2 ^ (ops.foldl IntVec.Op.spec (IntVec.view v)).1 :=
  IntVec.history_items_lt hv ops hvalid

/-- constructions: `new(width)`, `with_len(n, width, fill)` (the fill value truncated to the width) and
collecting a list, for every width 1..64 -/
theorem int_constructors (n w : Nat) (h1 : 1 ≤ w) (h2 : w ≤ 64) (fill : Word) (xs : List Nat) :
    (∃ v, IntVec.new w = ok v ∧ v.WF ∧ v.width = w ∧ v.items = []) ∧
    (∃ v, IntVec.withLen n w fill = ok v ∧ v.WF ∧ v.width = w ∧ v.len = n ∧
      v.items = List.replicate n (fill.toNat % 2 ^ w)) ∧
    ((IntVec.ofList w xs).WF ∧ (IntVec.ofList w xs).width = w ∧ (IntVec.ofList w xs).items = xs.map (· % 2 ^ w)) :=
  ⟨IntVec.new_ok_spec w h1 h2, IntVec.withLen_spec n w fill h1 h2, IntVec.ofList_spec w xs h1 h2⟩

/-- `get(i)` returns the reference item; outside the vector it panics (assertion), it never reads -/
theorem int_get (v : IntVec) (i : Nat) :
    (i < v.len → ∃ r, v.get i = ok r ∧ v.items[i]? = some r.toNat) ∧
    (v.len ≤ i → v.get i = fault (.panic .assert)) :=
  ⟨fun h => IntVec.get_spec v i h, fun h => IntVec.get_fault v i h⟩

/-- read-after-write: `set(i, x)` then `get(i)` returns `x` truncated to the width -/
theorem int_get_after_set (v : IntVec) (hv : v.WF) (i : Nat) (hi : i < v.len) (x : Word) :
    ∃ v', v.set i x = ok v' ∧ v'.get i = ok (x &&& lowSet v.width) :=
  IntVec.get_set hv i hi x

/-- `pop` returns what the reference returns: the last item and the rest; `None` on the empty vector, which is
left unchanged -/
theorem int_pop (v : IntVec) (hv : v.WF) :
    (v.len ≠ 0 → (∃ r, v.pop.1 = some r ∧ some r.toNat = v.items.getLast?) ∧
      v.pop.2.WF ∧ v.pop.2.width = v.width ∧ v.pop.2.items = v.items.dropLast) ∧
    (v.len = 0 → v.pop.1 = none ∧ v.pop.2 = v) :=
  ⟨fun h => IntVec.pop_spec hv h, fun h => IntVec.pop_empty_spec hv h⟩

/-- **canonical representation**: same width and same content ⇒ the same value -/
theorem int_canonical (v w : IntVec) (hv : v.WF) (hw : w.WF) (hwd : v.width = w.width)
    (h : v.items = w.items) : v = w :=
  IntVec.canonical hv hw hwd h

/-- … so they compare equal, serialize to identical elements (hence bytes) and hold the same number of set
bits -/
theorem int_equal_observables (v w : IntVec) (hv : v.WF) (hw : w.WF) (hwd : v.width = w.width)
    (h : v.items = w.items) :
    (v == w) = true ∧ intVecC.ser v = intVecC.ser w ∧ toBytes (intVecC.ser v) = toBytes (intVecC.ser w) ∧
    v.data.countOnes = w.data.countOnes := by
  have e := IntVec.canonical hv hw hwd h
  subst e
  exact ⟨by simp, rfl, rfl, rfl⟩

/-- **no matter how they were produced**: two valid histories from any well-formed starting vectors whose
reference results agree in width and content produce identical values -/
theorem int_history_canonical (v1 v2 : IntVec) (hw1 : v1.WF) (hw2 : v2.WF) (ops1 ops2 : List IntVec.Op)
    (h1 : IntVec.Valid ops1 (IntVec.view v1)) (h2 : IntVec.Valid ops2 (IntVec.view v2))
    (he : ops1.foldl IntVec.Op.spec (IntVec.view v1) = ops2.foldl IntVec.Op.spec (IntVec.view v2)) :
    ops1.foldl (fun v op => op.run v) v1 = ops2.foldl (fun v op => op.run v) v2 :=
  IntVec.history_canonical hw1 hw2 ops1 ops2 h1 h2 he

/-- **`pack()`** keeps the content; on a non-empty vector it selects exactly the width of the largest item
(`bit_len(max)`): every item fits, and no width `w' ≥ 1` that holds all items is smaller; on an empty vector it
changes nothing; it is idempotent -/
theorem pack_exact (v : IntVec) (hv : v.WF) :
    v.pack.WF ∧ v.pack.items = v.items ∧ v.pack.len = v.len ∧
    (v.len ≠ 0 → v.pack.width = bitLen (BitVec.ofNat 64 (v.items.foldl max 0))) ∧
    (v.len ≠ 0 → ∀ x ∈ v.items, x < 2 ^ v.pack.width) ∧
    (v.len ≠ 0 → ∀ w', 1 ≤ w' → (∀ x ∈ v.items, x < 2 ^ w') → v.pack.width ≤ w') ∧
    (v.len = 0 → v.pack = v) ∧
    v.pack.pack = v.pack :=
  ⟨(IntVec.pack_spec hv).1, (IntVec.pack_spec hv).2.1, IntVec.pack_len v, (IntVec.pack_spec hv).2.2,
    fun h0 => (IntVec.pack_width_tight hv h0).1, fun h0 w' hw hfit => IntVec.pack_width_minimal hv h0 w' hw hfit,
    fun h0 => IntVec.pack_empty v h0, IntVec.pack_pack hv⟩

/-- `bit_len` is the width of a value: between 1 and 64, the value fits, and a non-zero value needs all the bits -/
theorem bit_len_exact (n : Word) :
    1 ≤ bitLen n ∧ bitLen n ≤ 64 ∧ n.toNat < 2 ^ bitLen n ∧ (n ≠ 0 → 2 ^ (bitLen n - 1) ≤ n.toNat) :=
  bitLen_spec_int n

/-! ### non-vacuity -/

example : (RawVec.ofBits [true, false, true]).WF := by decide
example : RawVec.Valid [.pushBit true, .pushInt 0x1F#64 3, .setBit 1 false, .resize 70 true, .popInt 5,
    .complement, .popBit] [] := by
  simp [RawVec.Valid, RawVec.Op.pre, RawVec.Op.spec]
example : (IntVec.ofList 3 [5, 9, 2]).WF ∧ (IntVec.ofList 3 [5, 9, 2]).items = [5, 1, 2] := by decide
example : IntVec.Valid [.push 300#64, .push 7#64, .set 0 1#64, .pack, .pop, .resize 4 9#64, .extend [1#64], .clear]
    (8, []) := by
  simp [IntVec.Valid, IntVec.Op.pre, IntVec.Op.spec]

/-! **The vector operations as translated from the source on this run.**  `Generated/FnsVec.lean` is produced by
`tools/rs2lean.py` from the bodies of `RawVector::{bit, int, word, word_unchecked, set_unused_bits, set_bit, set_int,
push_bit, push_int, pop_bit, pop_int, resize}` and `IntVector::{get, set, push}` — statement by statement, with the
overflow, shift and index-panic behaviour of the build mode.  On every vector satisfying the representation invariant
whose length in bits stays below 2^64 (with 63 bits of headroom where the code rounds up to whole words), and for item
widths in the documented range, the code as it is NOW computes exactly the model operation that the history theorems
above (`raw_history_refines`, `int_history_refines`, …) are about.  `WF` gives the size-exact hypothesis. -/
theorem raw_vector_ops_as_translated_from_source (m : Mode) (v : RawVec) (hwf : v.WF) (hl : v.len + 63 < U64)
    (i off w n : Nat) (x : Word) (b : Bool) (hw : w ≤ 64) :
    Generated.gen_RawVector_bit m v i = v.bitM i ∧
    Generated.gen_RawVector_word m v i = v.wordM i ∧
    Generated.gen_RawVector_word_unchecked m v i = v.wordU i ∧
    (off < U64 → off + w ≤ 64 * v.data.size → Generated.gen_RawVector_int m v off w = ok (v.int off w)) ∧
    Generated.gen_RawVector_set_unused_bits m v b = ok (v.setUnusedBits b) ∧
    (i / 64 < v.data.size → Generated.gen_RawVector_set_bit m v i b = ok (v.setBit i b)) ∧
    (off < U64 → off + w ≤ 64 * v.data.size → Generated.gen_RawVector_set_int m v off x w = ok (v.setInt off x w)) ∧
    Generated.gen_RawVector_push_bit m v b = ok (v.pushBit b) ∧
    (v.len + w < U64 → Generated.gen_RawVector_push_int m v x w = ok (v.pushInt x w)) ∧
    Generated.gen_RawVector_pop_bit m v = ok v.popBit ∧
    Generated.gen_RawVector_pop_int m v w = ok (v.popInt w) ∧
    (n + 63 < U64 → Generated.gen_RawVector_resize m v n b = ok (v.resize n b)) := by
  have hs : v.data.size = (v.len + 63) / 64 := hwf.1
  exact ⟨GenEq.raw_bit_eq m v i, GenEq.raw_word_eq m v i, GenEq.raw_word_unchecked_eq m v i,
    fun ho hin => GenEq.raw_int_eq m v off w hw ho hin, GenEq.raw_set_unused_bits_eq m v b hs,
    fun hi => GenEq.raw_set_bit_eq m v i b hi, fun ho hin => GenEq.raw_set_int_eq m v off x w hw ho hin,
    GenEq.raw_push_bit_eq_sz m v b hs (by omega), fun hl' => GenEq.raw_push_int_eq_sz m v x w hw hs hl hl',
    GenEq.raw_pop_bit_eq m v hs (by omega), GenEq.raw_pop_int_eq m v w hw hs (by omega),
    fun hn => GenEq.raw_resize_eq_sz m v n b hs hn⟩

theorem int_vector_ops_as_translated_from_source (m : Mode) (v : IntVec) (hwf : v.WF) (i : Nat) (x : Word)
    (hb : (v.len + 1) * v.width + 63 < U64) :
    Generated.gen_IntVector_get m v i = v.get i ∧
    Generated.gen_IntVector_set m v i x = v.set i x ∧
    Generated.gen_IntVector_push m v x = ok (v.push x) := by
  have hb' : v.len * v.width < U64 := by
    have : v.len * v.width ≤ (v.len + 1) * v.width := Nat.mul_le_mul_right _ (by omega)
    omega
  exact ⟨GenEq.int_get_eq m v i hwf hb', GenEq.int_set_eq m v i x hwf hb', GenEq.int_push_eq m v x hwf hb⟩

/-- the hypotheses are satisfiable: a three-item vector of width 13 -/
example : (IntVec.ofList 13 [5, 8191, 77]).WF ∧
    ((IntVec.ofList 13 [5, 8191, 77]).len + 1) * (IntVec.ofList 13 [5, 8191, 77]).width + 63 < U64 := by decide

/-- … and on it the translated code returns the stored item (and panics on the index one past the end) -/
example : Generated.gen_IntVector_get .wrapping (IntVec.ofList 13 [5, 8191, 77]) 1 = ok 8191#64 ∧
    Generated.gen_IntVector_get .wrapping (IntVec.ofList 13 [5, 8191, 77]) 3 = fault (.panic .assert) := by decide

/-- `IntVector::{new, with_len, pop, clear}` as translated from the source on this run (`Generated/FnsVec2.lean`; the
`for _ in 0..len` of `with_len` becomes `loopM` over a counter and the local vector) -/
theorem int_vector_more_ops_as_translated_from_source (m : Mode) (v : IntVec) (len width : Nat) (value : Word) :
    Generated.gen_IntVector_new m width = IntVec.new width ∧
    (len * width + 63 < U64 → Generated.gen_IntVector_with_len m len width value = IntVec.withLen len width value) ∧
    (v.WF → v.len * v.width + 62 < U64 → Generated.gen_IntVector_pop m v = ok v.pop) ∧
    Generated.gen_IntVector_clear m v = ok v.clear :=
  ⟨GenEq.int_new_eq m width, fun h => GenEq.int_with_len_eq' m len width value h,
   fun hwf hb => GenEq.int_pop_eq m v hwf hb, GenEq.int_clear_eq m v⟩

/-! **`IntVector::pack` as translated from the source on this run** (`Generated/FnsConstr2.lean`): the early return on an
empty vector, `bit_len(self.iter().max().unwrap())` (the items read in order through `get`), the early return when the
width is already minimal, `len * new_width` for the capacity, and the re-push loop `for value in self.iter()` — equal to
the model's `pack` on every well-formed vector whose bit length fits a `usize` with room for rounding. -/
theorem int_vector_pack_as_translated_from_source (m : Mode) (v : IntVec) (hwf : v.WF)
    (hb : v.len * v.width + 63 < U64) :
    Generated.gen_IntVector_pack m v = ok v.pack :=
  GenEq.int_pack_eq m v hwf hb

/-! **`RawVector::with_capacity` and `IntVector::with_capacity` as translated from the source on this run**
(`Generated/FnsConstr4.lean`): the width check (`Err` for 0 and above 64), `capacity * width`, `bits_to_words` — equal to
the model constructors (which ignore the capacity) whenever the requested capacity in bits fits a `usize` with room for
rounding; beyond that the code panics where the model does not (`GenEq.int_with_capacity_ne`: a request of 2^58 words). -/
theorem with_capacity_as_translated_from_source (m : Mode) (cap width : Nat) :
    (cap + 63 < U64 → Generated.gen_RawVector_with_capacity m cap = ok RawVec.empty) ∧
    ((1 ≤ width → width ≤ 64 → cap * width + 63 < U64) →
        Generated.gen_IntVector_with_capacity m cap width = IntVec.withCapacity cap width) :=
  ⟨GenEq.raw_with_capacity_eq m cap, GenEq.int_with_capacity_eq' m cap width⟩

/-! **`RawVector::complement` as translated from the source on this run** (`Generated/FnsConstr3.lean`): the clone, the
`iter_mut()` loop `*word = !*word` and `set_unused_bits(false)` — equal to the model's `complement` on every size-exact
vector. -/
theorem raw_complement_as_translated_from_source (m : Mode) (v : RawVec) (hs : v.data.size = (v.len + 63) / 64) :
    Generated.gen_RawVector_complement m v = ok v.complement :=
  GenEq.raw_complement_eq m v hs

/-! **`RawVector::{new, with_len}` and `BitVector::from(RawVector)` as translated from the source on this run**
(`Generated/FnsConstr3.lean`): `vec![filler_value(value); bits_to_words(len)]` then `set_unused_bits(false)`; the set-bit
count taken by `count_ones` over the words. -/
theorem raw_constructors_as_translated_from_source (m : Mode) :
    Generated.gen_RawVector_new m = ok RawVec.empty ∧
    (∀ len value, len + 63 < U64 → Generated.gen_RawVector_with_len m len value = ok (RawVec.withLen len value)) ∧
    (∀ v : RawVec, 64 * v.data.size < U64 → Generated.gen_BitVector_from_raw m v = ok (BitVector.ofRaw v)) :=
  ⟨GenEq.raw_new_eq m, fun len value h => GenEq.raw_with_len_eq m len value h, fun v h => GenEq.bv_from_raw_eq m v h⟩

/-! **`IntVector::resize` and the two `reserve`s as translated from the source on this run** (`Generated/FnsVec3.lean`): the
`match new_len { new_len if … }` of `resize` (an if / else-if chain), the `while self.len() < new_len { self.push(value) }`
loop, the shrink through `RawVector::resize(new_len * width, false)`; `reserve` with the `Vec` capacity — which no model
can see — as the ARBITRARY parameter `cap`.  Equal to the model's `resize` for every `cap`, on every well-formed vector
whose new bit length fits a `usize` with room for rounding. -/
theorem int_vector_resize_as_translated_from_source (m : Mode) (cap : Nat) (v : IntVec) (new_len : Nat) (value : Word)
    (hwf : v.WF) (hb : new_len ≠ v.len → new_len * v.width + 63 < U64) :
    Generated.gen_IntVector_resize m cap v new_len value = ok (v.resize new_len value) :=
  GenEq.int_resize_eq m cap v new_len value hwf hb

theorem reserve_as_translated_from_source (m : Mode) (cap additional : Nat) :
    (∀ v : RawVec, v.len + additional + 63 < U64 → Generated.gen_RawVector_reserve m cap v additional = ok v) ∧
    (∀ v : IntVec, v.data.len + additional * v.width + 63 < U64 → Generated.gen_IntVector_reserve m cap v additional = ok v) :=
  ⟨fun v h => GenEq.raw_reserve_eq m cap v additional h, fun v h => GenEq.int_reserve_eq m cap v additional h⟩

/-! **`Extend<u64>`, `From<Vec<u64>>`, `FromIterator<u64>` for `IntVector` as translated from the source on this run**
(`Generated/FnsFromExt.lean`: the body of `macro_rules! from_extend_int_vector` at `(u64, 64)`; the other four instances
differ in the item type and the width constant): `size_hint`, `reserve(lower_bound)` (for every `Vec` capacity `cap`), the
`while let Some(value) = iter.next()` loop of pushes; `with_capacity(v.len(), 64).unwrap()` / `new(64).unwrap()` then
`extend`.  Equal to the model's `extend` and to the vector `IntVec.ofList 64 …` the correspondence check compares with. -/
theorem int_vector_from_extend_as_translated_from_source (m : Mode) (cap : Nat) :
    (∀ (v : IntVec) (iter : List Word), v.WF → (v.len + iter.length) * v.width + 63 < U64 →
        Generated.gen_IntVector_extend_u64 m cap v iter = ok (v.extend iter)) ∧
    (∀ a : Array Word, a.size * 64 + 63 < U64 →
        Generated.gen_IntVector_from_vec_u64 m cap a = ok (IntVec.ofList 64 (a.toList.map (·.toNat)))) ∧
    (∀ iter : List Word, iter.length * 64 + 63 < U64 →
        Generated.gen_IntVector_from_iter_u64 m cap iter = ok (IntVec.ofList 64 (iter.map (·.toNat)))) :=
  ⟨fun v iter hwf hb => GenEq.int_extend_eq m cap v iter hwf hb, fun a hb => GenEq.int_from_vec_eq m cap a hb,
   fun iter hb => GenEq.int_from_iter_eq m cap iter hb⟩

/-- **the `u8` / `u16` / `u32` / `usize` instances of `macro_rules! from_extend_int_vector` as translated from the source on
this run** (`Generated/FnsFromExt2.lean`).  `Extend<$t>` does not mention the item type: its translation at every instance is
definitionally the translation at `u64`.  `From<Vec<$t>>` and `FromIterator<$t>` build the empty vector of the instance's
width `$w` and extend it — the model's `extend`, which stores each item truncated to `$w` bits. -/
theorem int_vector_macro_instances_as_translated_from_source (m : Mode) (cap : Nat) (a : Array Word) (it : List Word) :
    (@Generated.gen_IntVector_extend_u8 = @Generated.gen_IntVector_extend_u64 ∧
     @Generated.gen_IntVector_extend_u16 = @Generated.gen_IntVector_extend_u64 ∧
     @Generated.gen_IntVector_extend_u32 = @Generated.gen_IntVector_extend_u64 ∧
     @Generated.gen_IntVector_extend_usize = @Generated.gen_IntVector_extend_u64) ∧
    (a.size * 8 + 63 < U64 → Generated.gen_IntVector_from_vec_u8 m cap a = ok ((⟨0, 8, RawVec.empty⟩ : IntVec).extend a.toList)) ∧
    (a.size * 16 + 63 < U64 → Generated.gen_IntVector_from_vec_u16 m cap a = ok ((⟨0, 16, RawVec.empty⟩ : IntVec).extend a.toList)) ∧
    (a.size * 32 + 63 < U64 → Generated.gen_IntVector_from_vec_u32 m cap a = ok ((⟨0, 32, RawVec.empty⟩ : IntVec).extend a.toList)) ∧
    (a.size * 64 + 63 < U64 → Generated.gen_IntVector_from_vec_usize m cap a = ok ((⟨0, 64, RawVec.empty⟩ : IntVec).extend a.toList)) ∧
    (it.length * 8 + 63 < U64 → Generated.gen_IntVector_from_iter_u8 m cap it = ok ((⟨0, 8, RawVec.empty⟩ : IntVec).extend it)) ∧
    (it.length * 16 + 63 < U64 → Generated.gen_IntVector_from_iter_u16 m cap it = ok ((⟨0, 16, RawVec.empty⟩ : IntVec).extend it)) ∧
    (it.length * 32 + 63 < U64 → Generated.gen_IntVector_from_iter_u32 m cap it = ok ((⟨0, 32, RawVec.empty⟩ : IntVec).extend it)) ∧
    (it.length * 64 + 63 < U64 → Generated.gen_IntVector_from_iter_usize m cap it = ok ((⟨0, 64, RawVec.empty⟩ : IntVec).extend it)) :=
  ⟨⟨GenEq.int_extend_u8_is_u64, GenEq.int_extend_u16_is_u64, GenEq.int_extend_u32_is_u64, GenEq.int_extend_usize_is_u64⟩,
   GenEq.int_from_vec_u8_eq m cap a, GenEq.int_from_vec_u16_eq m cap a, GenEq.int_from_vec_u32_eq m cap a,
   GenEq.int_from_vec_usize_eq m cap a, GenEq.int_from_iter_u8_eq m cap it, GenEq.int_from_iter_u16_eq m cap it,
   GenEq.int_from_iter_u32_eq m cap it, GenEq.int_from_iter_usize_eq m cap it⟩

end Sds.C05
