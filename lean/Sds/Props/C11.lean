/-
C11 — Conversions between bitvector types preserve the bits and are canonical.

  "Converting a bitvector of any of the three types into any other, directly or through any chain of
   conversions (From, copy_bit_vec), preserves the length and the exact set of set positions.  The result is
   equal to, and serializes identically to, the structure that the target type's own builder produces from
   the same bits, so a structure's representation does not depend on the construction route (bit at a time,
   by runs with adjacent runs merged, from a raw vector, from an iterator, by conversion)."

Property theorems only (helper lemmas live in Proofs/RawVec.lean, IntVec.lean, Glue.lean, Glue2.lean,
Glue4.lean, Iter.lean, Sparse.lean, Sparse2.lean, RL.lean, RLQueries.lean, RLCanon.lean, Builders.lean).

**How a conversion is modelled.**  In the library every conversion between the three bitvector types
(`BitVector`, `SparseVector`, `RLVector`) is the composition of two steps, and the model has exactly these
two steps, not a separate function per pair of types:
  (A) the SOURCE lists its content: `len()` and `one_iter()` — the pairs (rank, position) of its set bits in
      increasing order (for a run-length source also: `run_iter()`, the maximal runs);
  (B) the TARGET's builder is fed that content: plain — `copy_bit_vec`: `RawVector::with_len(len, false)` and
      one `set_bit(p, true)` per listed position; sparse — `SparseBuilder::new(len, count_ones)`, one `set` per
      position, `build`; run-length — one `try_set` per position / per run, `set_len(len)`, `From<RLBuilder>`.
§1 proves (A) for each source type: the listing is EXACTLY the set positions.  §2–§4 prove, for each target
type, that the result of (B) is a function of the pair (length, set of positions) alone and is the value the
target's own builder produces from the same bits (so equal, and — serialization being a function of the
value — byte-identical when serialized).  §5 composes them: the canonical representative of a bit sequence `B`
in each type (`RawVec.ofBits B`, `Sparse.ofValues w |B| false (onesPos B)`, `rlOf m B`) lists `(onesPos B, |B|)`,
and each target fed `(onesPos B, |B|)` yields ITS canonical representative of `B`; so every chain of conversions,
of any length, ending in a given type lands on that type's canonical representative of the source's bits.
Explicit round trips for every pair of types and a length-3 chain are spelled out.

Quantifiers: every bit sequence `B` of `usize` length (as the content `v.bits` of a well-formed raw vector,
or directly), every universe `n < 2^64` and every strictly increasing position list `P` below it with fewer
than 2^63 elements, EVERY low width `w` in 1..=63 for the sparse target (the width rule is a parameter),
every accepted builder call history (`try_set` / `set_bit` / `set_len` in any decomposition) for the
run-length target, both arithmetic modes.

**Run-length target: full.**  `rl_same_bits_same_builder`: two accepted call histories describing the same bit
sequence reach the SAME builder state (all six fields; also across arithmetic modes) — the pending run absorbs
every adjacent call, a run is flushed only when a later call leaves a gap, so the encoded `data`, the block
`samples`, `tail`, `ones` and the pending run are functions of the described bits.  Hence
`rl_same_bits_same_value`: the converted vectors are EQUAL as values (same `data` units, block samples, and the
three sample indexes) and serialize identically; `rl_value_closed_form`: the value is
`From<RLBuilder>` of `RLCanon.canonFlushed B`, computed from `maximalRuns B`, `|B|` and the number of set bits.
The block-count side condition of the run-length query theorems is discharged (`RLCanon.blocks_bound`), so the
chains through the run-length type carry no extra hypothesis.

**Not formalised as a single statement**: the exhaustive enumeration of all 27 chains of length ≤ 3 as one
theorem; it follows by composing the listing theorem (`canonical_representatives_list_their_bits`) with the three
feeding theorems (`bits_into_plain`, `plain_into_sparse_preserves_bits`, `bits_into_rl_is_canonical`) — see §5.
-/
import Sds.Proofs.Glue4
import Sds.Proofs.Iter
import Sds.Proofs.RLQueries
import Sds.Proofs.RLCanon
import Sds.Proofs.GenEqCopy
import Sds.Proofs.GenEqFromExt

namespace Sds.C11
open Sds Outcome IterProofs

/-! ### §1. (A) every source type lists exactly its set positions -/

/-- plain bitvector: `one_iter()` answers any sequence of `next` / `next_back` / `nth` / `nth_back` / `len`
calls exactly like the deque of the pairs (rank, position of the set bit of that rank) — in particular
repeated `next` lists the set positions in increasing order and then `None`; no support structure needed -/
theorem plain_one_iter_lists_set_positions (v : RawVec) (hv : v.WF) (hlen : v.len < 2 ^ 64) (m : Mode)
    (calls : List ICall) :
    oneRun .ident m (BitVector.ofRaw v) (OneIterSt.full .ident (BitVector.ofRaw v)) calls =
      ok (dequeRunM (pairs (onesPos v.bits)) calls) :=
  oneRun_full_ofRaw hv hlen .ident m calls

/-- the positions listed are exactly the set bits: strictly increasing, below the length, `p` is listed iff
bit `p` is set, and their number is `count_ones` -/
theorem listed_positions_are_the_set_bits (B : List Bool) :
    (onesPos B).Pairwise (· < ·) ∧ (∀ p ∈ onesPos B, p < B.length) ∧
    (∀ p, p ∈ onesPos B ↔ B[p]? = some true) ∧ (onesPos B).length = B.count true ∧
    bitsOfSet (onesPos B) B.length = B :=
  ⟨onesPos_pairwise B, onesPos_lt B, Glue.mem_onesPos B, length_onesPos B, bitsOfSet_onesPos B⟩

/-- sparse vector: `one_iter()` delivers `(i, P[i])` for `i = 0 … |P|-1`, in order, then `None` -/
theorem sparse_one_iter_lists_set_positions (s : Sparse) (n w : Nat) (P : List Nat) (hs : s.Encodes n w P)
    (m : Mode) : drain m s (P.length + 1) (SpOneIter.full s) = ok (itemsFrom P 0) ∧ s.len = n :=
  ⟨drain_full hs m, hs.len_eq⟩

/-- run-length vector: `run_iter()` + `next()` until `None` on a vector built by any accepted call history
yields exactly the maximal runs of the described bit sequence `B` (whose set positions are the union of the
runs), with `len = |B|` and `count_ones` = number of set bits -/
theorem rl_run_iter_lists_maximal_runs (m : Mode) (calls : List RL.BCall) (hc : ∀ c ∈ calls, RL.callArgsOk c)
    (b : RLBuilder) (hb : RL.runBCalls m calls {} = ok b) (v : RL) (hv : RL.ofBuilder m b = ok v) :
    v.len = (calls.foldl RL.specCall []).length ∧ v.ones = (calls.foldl RL.specCall []).count true ∧
    ∃ it0 e endPos, v.runIter = ok it0 ∧
      RunIter.collect m v ((maximalRuns (calls.foldl RL.specCall [])).length + 1) it0 =
        ok (RunIter.withPos 0 (maximalRuns (calls.foldl RL.specCall [])), e) ∧
      e.pos = ((calls.foldl RL.specCall []).count true, endPos) ∧
      endPos ≤ (calls.foldl RL.specCall []).length :=
  RL.build_iterate_calls m calls hc b hb v hv

/-- run-length vector: `one_iter()` + `next()` until `None` on a vector built by any accepted call history
describing `B` yields the set positions of `B` in order, ranked `0, 1, …` (no side condition: the number of
blocks is at most the number of maximal runs, `RLCanon.blocks_bound`) -/
theorem rl_one_iter_lists_set_positions (m : Mode) (calls : List RL.BCall) (hc : ∀ c ∈ calls, RL.callArgsOk c)
    (b : RLBuilder) (hb : RL.runBCalls m calls {} = ok b) (v : RL) (hv : RL.ofBuilder m b = ok v) :
    v.blocks + 8 < U64 ∧
    ∃ st items, v.oneIter = ok st ∧ RLQ.drainOne m v (v.ones + 1) st = ok items ∧
      items.map (·.2) = onesPos (calls.foldl RL.specCall []) ∧
      items.map (·.1) = List.range ((calls.foldl RL.specCall []).count true) := by
  have hsz := (RLCanon.blocks_bound m calls hc b hb v hv).2
  exact ⟨hsz, RLQ.build_oneIter m calls hc b hb v hv hsz (v.ones + 1) (Nat.le_refl _)⟩

/-! ### §2. (B) target: plain bitvector -/

/-- **the representation of raw / plain bitvectors is canonical**: two well-formed raw vectors with the same
bits are the same value; hence `BitVector::from` of them, with any supports enabled, is the same value, and
all serializations are identical -/
theorem plain_representation_is_canonical (v w : RawVec) (hv : v.WF) (hw : w.WF) (h : v.bits = w.bits) :
    v = w ∧ rawVecC.ser v = rawVecC.ser w ∧ BitVector.ofRaw v = BitVector.ofRaw w ∧
    (BitVector.ofRaw v).enableAll = (BitVector.ofRaw w).enableAll ∧
    bitVectorC.ser (BitVector.ofRaw v).enableAll = bitVectorC.ser (BitVector.ofRaw w).enableAll := by
  have e := RawVec.canonical hv hw h
  subst e
  exact ⟨rfl, rfl, rfl, rfl, rfl⟩

/-- the same for integer vectors (used for the low parts of sparse vectors and the samples of run-length
vectors): same width and same items ⇒ same value ⇒ same serialization -/
theorem int_vector_representation_is_canonical (v w : IntVec) (hv : v.WF) (hw : w.WF)
    (hwd : v.width = w.width) (h : v.items = w.items) : v = w ∧ intVecC.ser v = intVecC.ser w := by
  have e := IntVec.canonical hv hw hwd h
  subst e
  exact ⟨rfl, rfl⟩

/-- **conversion into a plain bitvector** (`copy_bit_vec`) from ANY listing of positions below `n` — any
order, repetitions allowed, so from any source type: the result is well formed, its bits are the membership
bits, and it IS the value the plain builder (`FromIterator<bool>`, push per bit) produces from those bits -/
theorem positions_into_plain (n : Nat) (P : List Nat) (hP : ∀ p ∈ P, p < n) :
    (P.foldl (fun v i => v.setBit i true) (RawVec.withLen n false)).WF ∧
    (P.foldl (fun v i => v.setBit i true) (RawVec.withLen n false)).bits = bitsOfSet P n ∧
    P.foldl (fun v i => v.setBit i true) (RawVec.withLen n false) = RawVec.ofBits (bitsOfSet P n) := by
  obtain ⟨h1, h2⟩ := copyPositions_spec n P hP
  exact ⟨h1, h2, RawVec.canonical h1 (RawVec.ofBits_WF _) (h2.trans (RawVec.bits_ofBits _).symm)⟩

/-- … in terms of the bit sequence `B` of the source: copying the set positions of `B` gives exactly the
vector built from `B` bit by bit — preserved length, preserved bits, same value, same bytes -/
theorem bits_into_plain (B : List Bool) :
    (onesPos B).foldl (fun v i => v.setBit i true) (RawVec.withLen B.length false) = RawVec.ofBits B ∧
    (RawVec.ofBits B).WF ∧ (RawVec.ofBits B).bits = B ∧ (RawVec.ofBits B).len = B.length := by
  have h := Glue.copyBits_spec B
  refine ⟨RawVec.canonical h.1 (RawVec.ofBits_WF B) (h.2.trans (RawVec.bits_ofBits B).symm),
    RawVec.ofBits_WF B, RawVec.bits_ofBits B, ?_⟩
  rw [← RawVec.bits_length, RawVec.bits_ofBits]

/-! ### §3. (B) target: sparse vector -/

/-- **closed form of the built sparse vector.**  For every low width `w`, universe `n` and admissible position
list `P` (set mode: strictly increasing; multiset mode: non-decreasing), feeding `P` to the sparse builder
succeeds and the result is, field by field: `len = n`; `high` = `BitVector::from` of THE raw vector whose bits
are the unary bucket sequence `highBits w ⌈n / 2^w⌉ P`, with select and select_zero support built from it;
`low` = a well-formed integer vector of width `w` with items `p mod 2^w`.  Nothing in it depends on anything
but `(w, n, P)`. -/
theorem positions_into_sparse_closed_form (w n : Nat) (multi : Bool) (P : List Nat) (hw1 : 1 ≤ w)
    (hw : w ≤ 63) (hn : n < 2 ^ 64) (hm : P.length < 2 ^ 63)
    (hsorted : if multi then sortedLe P = true else sortedStrict P = true) (hbound : ∀ p ∈ P, p < n) :
    ∃ s, Sparse.ofValues w n multi P = ok s ∧ s.Encodes n w P ∧ s.len = n ∧
      s.high = (BitVector.ofRaw (RawVec.ofBits (highBits w (Sparse.getBuckets n w) P))).enableSelect.enableSelectZero ∧
      s.low.WF ∧ s.low.width = w ∧ s.low.items = P.map (· % 2 ^ w) :=
  Sparse.ofValues_closed_form w n multi P hw1 hw hn hm hsorted hbound

/-- **the sparse representation is canonical**: ANY sparse vector `s'`, however it was produced (another
builder history, a conversion, loading a file), whose fields have the form above for the same `(w, n, P)` is
EQUAL to the builder's result, and serializes to the same elements -/
theorem sparse_representation_is_canonical (w n : Nat) (multi : Bool) (P : List Nat) (hw1 : 1 ≤ w)
    (hw : w ≤ 63) (hn : n < 2 ^ 64) (hm : P.length < 2 ^ 63)
    (hsorted : if multi then sortedLe P = true else sortedStrict P = true) (hbound : ∀ p ∈ P, p < n)
    (s s' : Sparse) (hs : Sparse.ofValues w n multi P = ok s) (hlen : s'.len = n)
    (hhigh : s'.high =
      (BitVector.ofRaw (RawVec.ofBits (highBits w (Sparse.getBuckets n w) P))).enableSelect.enableSelectZero)
    (hlow : s'.low.WF) (hwidth : s'.low.width = w) (hitems : s'.low.items = P.map (· % 2 ^ w)) :
    s' = s ∧ sparseC.ser s' = sparseC.ser s := by
  obtain ⟨s0, h0, _, g1, g2, g3, g4, g5⟩ :=
    Sparse.ofValues_closed_form w n multi P hw1 hw hn hm hsorted hbound
  rw [hs] at h0; cases h0
  have hl : s'.low = s.low := IntVec.canonical hlow g3 (hwidth.trans g4.symm) (hitems.trans g5.symm)
  have e : s' = s := by
    cases s' with
    | mk l h lo => cases s with
      | mk l2 h2 lo2 =>
        simp only at hlen hhigh hl g1 g2
        rw [hlen, hhigh, hl, g1, g2]
  exact ⟨e, by rw [e]⟩

/-- the set-mode and the multiset-mode builder produce the SAME vector from a strictly increasing list: the
representation records the positions, not the mode that accepted them -/
theorem sparse_set_and_multiset_builders_agree (w n : Nat) (P : List Nat) (hw1 : 1 ≤ w) (hw : w ≤ 63)
    (hn : n < 2 ^ 64) (hm : P.length < 2 ^ 63) (hsorted : sortedStrict P = true)
    (hbound : ∀ p ∈ P, p < n) :
    Sparse.ofValues w n false P = Sparse.ofValues w n true P := by
  obtain ⟨s1, h1, _⟩ := Sparse.ofValues_closed_form w n false P hw1 hw hn hm (by simpa using hsorted) hbound
  obtain ⟨s2, h2, _, g1, g2, g3, g4, g5⟩ := Sparse.ofValues_closed_form w n true P hw1 hw hn hm
    (by simpa using Sparse2.sortedStrict_le P hsorted) hbound
  obtain ⟨e, _⟩ := sparse_representation_is_canonical w n false P hw1 hw hn hm (by simpa using hsorted)
    hbound s1 s2 h1 g1 g2 g3 g4 g5
  rw [h1, h2, e]

/-- **conversion plain → sparse**: feeding the set positions listed by a plain bitvector (§1) to the sparse
builder succeeds for every width, preserves `len` and `count_ones`, and `get(i)` is bit `i` of the source for
every `i`; `one_iter` of the result lists the same positions again -/
theorem plain_into_sparse_preserves_bits (w : Nat) (B : List Bool) (hw1 : 1 ≤ w) (hw : w ≤ 63)
    (hB : B.length < 2 ^ 64) (hm : B.count true < 2 ^ 63) :
    ∃ s, Sparse.ofValues w B.length false (onesPos B) = ok s ∧ s.len = B.length ∧
      s.countOnes = B.count true ∧
      (∀ (m : Mode) (i : Nat) (hi : i < B.length), s.get m i = ok B[i]) ∧
      (∀ m : Mode, drain m s ((onesPos B).length + 1) (SpOneIter.full s) = ok (itemsFrom (onesPos B) 0)) := by
  obtain ⟨s, hs, he, _⟩ := Sparse.ofValues_closed_form w B.length false (onesPos B) hw1 hw hB
    (by rw [length_onesPos]; exact hm)
    (by simpa using sortedStrict_of_pairwise _ (onesPos_pairwise B)) (onesPos_lt B)
  refine ⟨s, hs, he.len_eq, by rw [← length_onesPos]; exact he.low_len, fun m i hi => ?_,
    fun m => drain_full he m⟩
  rw [get_ok he m i hi]
  unfold getSet
  rw [contains_onesPos B i hi]

/-! ### §4. (B) target: run-length vector -/

/-- bit at a time: one `try_set(p, 1)` per set position of `B`, in order, then `set_len(|B|)` — the conversion
from any source listing its positions — is accepted call by call, and the bit sequence it describes is `B` -/
theorem rl_bit_at_a_time_describes_bits (m : Mode) (B : List Bool) (hB : B.length < U64) :
    ∃ b, RL.runBCalls m (RL.callsOf ((onesPos B).map fun i => (i, 1)) B.length) {} = ok b ∧ b.Inv ∧
      (RL.callsOf ((onesPos B).map fun i => (i, 1)) B.length).foldl RL.specCall [] = B := by
  obtain ⟨hr, hbits⟩ := RL.bitCalls_spec B hB
  obtain ⟨b, hb, hi⟩ := RL.runBCalls_accepts m B.length hB _ {} RLBuilder.inv_empty hr
  exact ⟨b, hb, hi, (RL.callsOf_spec _ _ hr).trans hbits⟩

/-- … the conversion succeeds, and the converted vector has the length, the number of ones and — adjacent
bits MERGED into runs — the maximal runs of `B` -/
theorem bits_into_rl_preserves_bits (m : Mode) (B : List Bool) (hB : B.length < U64) :
    ∃ b v, RL.runBCalls m (RL.callsOf ((onesPos B).map fun i => (i, 1)) B.length) {} = ok b ∧
      RL.ofBuilder m b = ok v ∧ v.len = B.length ∧ v.ones = B.count true ∧
      ∃ it0 e endPos, v.runIter = ok it0 ∧
        RunIter.collect m v ((maximalRuns B).length + 1) it0 = ok (RunIter.withPos 0 (maximalRuns B), e) ∧
        e.pos = (B.count true, endPos) ∧ endPos ≤ B.length := by
  obtain ⟨hr, hbits⟩ := RL.bitCalls_spec B hB
  obtain ⟨b, hb, _⟩ := RL.runBCalls_accepts m B.length hB _ {} RLBuilder.inv_empty hr
  obtain ⟨v, hv, h⟩ := RL.build_iterate_calls_total m _ (RL.callsOf_argsOk _ B.length 0 hr hB) b hb
  rw [(RL.callsOf_spec _ _ hr).trans hbits] at h
  exact ⟨b, v, hb, hv, h⟩

/-- run at a time: one `try_set(start, len)` per MAXIMAL run of `B`, then `set_len(|B|)` — the natural use of
the run-length builder, and the copy of a run-length vector through `run_iter()` — is accepted call by call and
describes `B` -/
theorem rl_run_at_a_time_describes_bits (m : Mode) (B : List Bool) (hB : B.length < U64) :
    ∃ b, RL.runBCalls m (RL.callsOf (maximalRuns B) B.length) {} = ok b ∧ b.Inv ∧
      (RL.callsOf (maximalRuns B) B.length).foldl RL.specCall [] = B := by
  obtain ⟨hr, hbits⟩ := RLCanon.runCalls_spec B hB
  obtain ⟨b, hb, hi⟩ := RL.runBCalls_accepts m B.length hB _ {} RLBuilder.inv_empty hr
  exact ⟨b, hb, hi, (RL.callsOf_spec _ _ hr).trans hbits⟩

/-- **the builder state is a function of the described bits**: two accepted call histories — any two
decompositions into `try_set` / `set_bit` / `set_len` calls, run in any arithmetic modes — describing the same
bit sequence reach the same builder: same `len`, `ones`, `tail`, pending `run`, block `samples`, encoded `data` -/
theorem rl_same_bits_same_builder (m₁ m₂ : Mode) (calls₁ calls₂ : List RL.BCall)
    (hc₁ : ∀ c ∈ calls₁, RL.callArgsOk c) (hc₂ : ∀ c ∈ calls₂, RL.callArgsOk c)
    (hsame : calls₁.foldl RL.specCall [] = calls₂.foldl RL.specCall [])
    (b₁ b₂ : RLBuilder) (hb₁ : RL.runBCalls m₁ calls₁ {} = ok b₁) (hb₂ : RL.runBCalls m₂ calls₂ {} = ok b₂) :
    b₁ = b₂ :=
  RLCanon.builder_canonical_modes m₁ m₂ calls₁ calls₂ hc₁ hc₂ hsame b₁ b₂ hb₁ hb₂

/-- **the run-length representation is canonical**: the vectors converted (`From<RLBuilder>`) from two accepted
call histories describing the same bit sequence are EQUAL as values — same `len`, `ones`, `data`, `samples` and
the three sample indexes — and serialize to identical elements -/
theorem rl_same_bits_same_value (m : Mode) (calls₁ calls₂ : List RL.BCall)
    (hc₁ : ∀ c ∈ calls₁, RL.callArgsOk c) (hc₂ : ∀ c ∈ calls₂, RL.callArgsOk c)
    (hsame : calls₁.foldl RL.specCall [] = calls₂.foldl RL.specCall [])
    (b₁ b₂ : RLBuilder) (hb₁ : RL.runBCalls m calls₁ {} = ok b₁) (hb₂ : RL.runBCalls m calls₂ {} = ok b₂)
    (v₁ v₂ : RL) (hv₁ : RL.ofBuilder m b₁ = ok v₁) (hv₂ : RL.ofBuilder m b₂ = ok v₂) :
    v₁ = v₂ ∧ (rlC m).ser v₁ = (rlC m).ser v₂ :=
  ⟨RLCanon.vector_canonical m calls₁ calls₂ hc₁ hc₂ hsame b₁ b₂ hb₁ hb₂ v₁ v₂ hv₁ hv₂,
   RLCanon.bytes_canonical m calls₁ calls₂ hc₁ hc₂ hsame b₁ b₂ hb₁ hb₂ v₁ v₂ hv₁ hv₂⟩

/-- … in total form: both conversions SUCCEED, with one and the same vector, whose `len`, `count_ones` and
`run_iter()` output are those of the described bit sequence -/
theorem rl_same_bits_same_value_total (m : Mode) (calls₁ calls₂ : List RL.BCall)
    (hc₁ : ∀ c ∈ calls₁, RL.callArgsOk c) (hc₂ : ∀ c ∈ calls₂, RL.callArgsOk c)
    (hsame : calls₁.foldl RL.specCall [] = calls₂.foldl RL.specCall [])
    (b₁ b₂ : RLBuilder) (hb₁ : RL.runBCalls m calls₁ {} = ok b₁) (hb₂ : RL.runBCalls m calls₂ {} = ok b₂) :
    ∃ v, RL.ofBuilder m b₁ = ok v ∧ RL.ofBuilder m b₂ = ok v ∧
      v.len = (calls₁.foldl RL.specCall []).length ∧ v.ones = (calls₁.foldl RL.specCall []).count true ∧
      ∃ it e, v.runIter = ok it ∧
        RunIter.collect m v ((maximalRuns (calls₁.foldl RL.specCall [])).length + 1) it =
          ok (RunIter.withPos 0 (maximalRuns (calls₁.foldl RL.specCall [])), e) := by
  obtain ⟨v, hv, l1, o1, it1, e1, _, r1, c1, _⟩ := RL.build_iterate_calls_total m calls₁ hc₁ b₁ hb₁
  have e := RLCanon.builder_canonical m calls₁ calls₂ hc₁ hc₂ hsame b₁ b₂ hb₁ hb₂
  exact ⟨v, hv, e ▸ hv, l1, o1, it1, e1, r1, c1⟩

/-- the canonical run-length representative of a bit sequence: `From<RLBuilder>` of the builder in which every
maximal run of `B` has been flushed (`RLCanon.canonFlushed B`: a structure computed from `maximalRuns B`, `|B|`
and the number of set bits by the pure flush step `RLCanon.Core.push`) -/
abbrev rlOf (m : Mode) (B : List Bool) : Outcome RL := RL.ofBuilder m (RLCanon.canonFlushed B)

/-- **closed form**: after any accepted history describing `B`, the final `flush` leaves exactly
`canonFlushed B`, and the converted vector is `rlOf m B` -/
theorem rl_value_closed_form (m : Mode) (calls : List RL.BCall) (hc : ∀ c ∈ calls, RL.callArgsOk c)
    (B : List Bool) (hB : calls.foldl RL.specCall [] = B)
    (b : RLBuilder) (hb : RL.runBCalls m calls {} = ok b) :
    b.flush m = ok (RLCanon.canonFlushed B) ∧ RL.ofBuilder m b = rlOf m B := by
  subst hB
  exact ⟨RLCanon.flush_closed_form m calls hc b hb, RLCanon.ofBuilder_closed_form m calls hc b hb⟩

/-- **conversion into a run-length vector** from any source listing `(onesPos B, |B|)` (§1): every call is
accepted, the conversion succeeds, and the result IS `rlOf m B` — the value the run-length builder produces
from the same bits by ANY accepted decomposition, in particular run at a time with adjacent runs merged -/
theorem bits_into_rl_is_canonical (m : Mode) (B : List Bool) (hB : B.length < U64) :
    ∃ b x, RL.runBCalls m (RL.callsOf ((onesPos B).map fun i => (i, 1)) B.length) {} = ok b ∧
      RL.ofBuilder m b = ok x ∧ rlOf m B = ok x ∧ x.len = B.length ∧ x.ones = B.count true ∧
      RL.runBCalls m (RL.callsOf (maximalRuns B) B.length) {} = ok b ∧
      ∀ calls, (∀ c ∈ calls, RL.callArgsOk c) → calls.foldl RL.specCall [] = B →
        ∀ b', RL.runBCalls m calls {} = ok b' → b' = b ∧ RL.ofBuilder m b' = ok x := by
  obtain ⟨hr, hbits⟩ := RL.bitCalls_spec B hB
  obtain ⟨b, hb, _, hd⟩ := rl_bit_at_a_time_describes_bits m B hB
  have hc := RL.callsOf_argsOk _ B.length 0 hr hB
  obtain ⟨x, hx, h⟩ := RL.build_iterate_calls_total m _ hc b hb
  rw [hd] at h
  have hcf := (rl_value_closed_form m _ hc B hd b hb).2
  have hall : ∀ calls, (∀ c ∈ calls, RL.callArgsOk c) → calls.foldl RL.specCall [] = B →
      ∀ b', RL.runBCalls m calls {} = ok b' → b' = b ∧ RL.ofBuilder m b' = ok x := by
    intro calls hc' hB' b' hb'
    have e := RLCanon.builder_canonical m calls _ hc' hc (hB'.trans hd.symm) b' b hb' hb
    exact ⟨e, e ▸ hx⟩
  obtain ⟨b2, hb2, _, hd2⟩ := rl_run_at_a_time_describes_bits m B hB
  have e2 := (hall _ (RL.callsOf_argsOk _ B.length 0 (RLCanon.runCalls_spec B hB).1 hB) hd2 b2 hb2).1
  exact ⟨b, x, hb, hx, hcf ▸ hx, h.1, h.2.1, e2 ▸ hb2, hall⟩

/-- the canonical representative exists for every bit sequence of `usize` length -/
theorem rlOf_total (m : Mode) (B : List Bool) (hB : B.length < U64) :
    ∃ x, rlOf m B = ok x ∧ x.len = B.length ∧ x.ones = B.count true := by
  obtain ⟨_, x, _, _, h, l, o, _⟩ := bits_into_rl_is_canonical m B hB
  exact ⟨x, h, l, o⟩

/-- histories in which some calls are REFUSED (and ignored by the caller) are histories of their accepted
calls, so the statement above covers them too; with the repaired `set_len` every history runs to completion -/
theorem rl_any_history_is_covered (m : Mode) (cs : List RL.BCall)
    (hargs : ∀ c ∈ cs, BuildersProofs.argsOk c) :
    ∃ b, BuildersProofs.rlRun m cs {} = ok b ∧ BuildersProofs.RlInv b ∧
      RL.runBCalls m (BuildersProofs.rlAccepted m cs {}) {} = ok b := by
  obtain ⟨b, hb, hi⟩ := BuildersProofs.rlRun_fixed_default m cs hargs
  exact ⟨b, hb, hi, BuildersProofs.rlRun_accepted m cs {} b hb⟩

/-! ### §5. chains

Canonical representatives of a bit sequence `B`:  plain `RawVec.ofBits B`;  sparse of width `w`
`Sparse.ofValues w |B| false (onesPos B)`;  run-length `rlOf m B`.
  * (A) each of them lists `(onesPos B, |B|)` — `canonical_representatives_list_their_bits`;
  * (B) each target fed `(onesPos B, |B|)` yields its canonical representative of `B` — `bits_into_plain` (§2),
    `plain_into_sparse_preserves_bits` (§3: the builder call IS the definition of the representative),
    `bits_into_rl_is_canonical` (§4);
  * every value of a type is the canonical representative of its own bits — `plain_representation_is_canonical`,
    `sparse_representation_is_canonical`, `rl_same_bits_same_value`.
So a chain of conversions of any length starting from a structure with bits `B` passes only through canonical
representatives of `B` and ends in the canonical representative of `B` in the last type, independent of the route.
The theorems below spell this out for the round trips between every pair of types and for a chain of length 3. -/

/-- (A) for the canonical representatives: all three list the set positions `onesPos B` (in order, ranked from
0) and report the length `|B|` -/
theorem canonical_representatives_list_their_bits (m : Mode) (w : Nat) (B : List Bool) (hw1 : 1 ≤ w)
    (hw : w ≤ 63) (hB : B.length < 2 ^ 64) (hm : B.count true < 2 ^ 63) :
    -- plain
    ((RawVec.ofBits B).len = B.length ∧ ∀ calls : List ICall,
      oneRun .ident m (BitVector.ofRaw (RawVec.ofBits B)) (OneIterSt.full .ident (BitVector.ofRaw (RawVec.ofBits B)))
        calls = ok (dequeRunM (pairs (onesPos B)) calls)) ∧
    -- sparse
    (∃ s, Sparse.ofValues w B.length false (onesPos B) = ok s ∧ s.len = B.length ∧
      drain m s ((onesPos B).length + 1) (SpOneIter.full s) = ok (itemsFrom (onesPos B) 0)) ∧
    -- run-length
    (∃ x, rlOf m B = ok x ∧ x.len = B.length ∧
      ∃ st items, x.oneIter = ok st ∧ RLQ.drainOne m x (x.ones + 1) st = ok items ∧
        items.map (·.2) = onesPos B ∧ items.map (·.1) = List.range (B.count true)) := by
  have hB' : B.length < U64 := by rw [U64_eq]; exact hB
  refine ⟨⟨(bits_into_plain B).2.2.2, fun calls => ?_⟩, ?_, ?_⟩
  · have h := plain_one_iter_lists_set_positions (RawVec.ofBits B) (RawVec.ofBits_WF B)
      (by rw [(bits_into_plain B).2.2.2]; exact hB) m calls
    rw [RawVec.bits_ofBits] at h
    exact h
  · obtain ⟨s, hs, hl, _, _, hd⟩ := plain_into_sparse_preserves_bits w B hw1 hw hB hm
    exact ⟨s, hs, hl, hd m⟩
  · obtain ⟨hr, _⟩ := RL.bitCalls_spec B hB'
    obtain ⟨b, hb, _, hd⟩ := rl_bit_at_a_time_describes_bits m B hB'
    obtain ⟨b', x, hb', hx, hcan, hl, _, _⟩ := bits_into_rl_is_canonical m B hB'
    rw [hb] at hb'; cases hb'
    obtain ⟨_, st, items, h1, h2, h3, h4⟩ := rl_one_iter_lists_set_positions m _
      (RL.callsOf_argsOk _ B.length 0 hr hB') b hb x hx
    rw [hd] at h3 h4
    exact ⟨x, hcan, hl, st, items, h1, h2, h3, h4⟩

/-- plain → sparse → plain is the identity: list the positions of `v`, build the sparse vector (any width),
list ITS positions (they are the same list), copy them into a plain vector: the very same value `v` -/
theorem plain_sparse_plain_round_trip (w : Nat) (v : RawVec) (hv : v.WF) (hw1 : 1 ≤ w) (hw : w ≤ 63)
    (hlen : v.len < 2 ^ 64) (hm : v.bits.count true < 2 ^ 63) :
    ∃ s, Sparse.ofValues w v.len false (onesPos v.bits) = ok s ∧
      (∀ m : Mode, drain m s ((onesPos v.bits).length + 1) (SpOneIter.full s) =
        ok (itemsFrom (onesPos v.bits) 0)) ∧
      (onesPos v.bits).foldl (fun u i => u.setBit i true) (RawVec.withLen s.len false) = v := by
  have hl : v.bits.length = v.len := RawVec.bits_length v
  obtain ⟨s, hs, h1, _, _, h4⟩ := plain_into_sparse_preserves_bits w v.bits hw1 hw (by rw [hl]; exact hlen) hm
  rw [hl] at hs h1
  refine ⟨s, hs, h4, ?_⟩
  rw [h1, ← hl, (bits_into_plain v.bits).1]
  exact (RawVec.canonical hv (RawVec.ofBits_WF _) (RawVec.bits_ofBits _).symm).symm

/-- sparse → plain → sparse is the identity: copy the positions `P` of a sparse vector over `n` into a plain
vector, list the positions of THAT (they are `P` again, and its length is `n`), feed them to the sparse
builder with the same width: the very same sparse vector -/
theorem sparse_plain_sparse_round_trip (w n : Nat) (P : List Nat) (hsorted : sortedStrict P = true)
    (hbound : ∀ p ∈ P, p < n) :
    (P.foldl (fun v i => v.setBit i true) (RawVec.withLen n false)).bits = bitsOfSet P n ∧
    (bitsOfSet P n).length = n ∧ onesPos (bitsOfSet P n) = P ∧
    Sparse.ofValues w (bitsOfSet P n).length false (onesPos (bitsOfSet P n)) = Sparse.ofValues w n false P := by
  have h1 := (copyPositions_spec n P hbound).2
  have h2 : (bitsOfSet P n).length = n := by simp [bitsOfSet]
  have h3 := onesPos_bitsOfSet P n (sortedStrict_pairwise P hsorted) hbound
  exact ⟨h1, h2, h3, by rw [h2, h3]⟩

/-- plain → run-length → (runs): the conversion from the positions of `v` succeeds and the vector reports `len`,
`count_ones` and the maximal runs of `v.bits` — so copying its runs back position by position (§2:
`positions_into_plain` accepts any listing) restores `v` -/
theorem plain_rl_round_trip_content (m : Mode) (v : RawVec) (hlen : v.len < U64) :
    ∃ b x, RL.runBCalls m (RL.callsOf ((onesPos v.bits).map fun i => (i, 1)) v.bits.length) {} = ok b ∧
      RL.ofBuilder m b = ok x ∧ x.len = v.len ∧ x.ones = v.bits.count true ∧
      ∃ it0 e endPos, x.runIter = ok it0 ∧
        RunIter.collect m x ((maximalRuns v.bits).length + 1) it0 =
          ok (RunIter.withPos 0 (maximalRuns v.bits), e) ∧
        e.pos = (v.bits.count true, endPos) ∧ endPos ≤ v.len := by
  have hl : v.bits.length = v.len := RawVec.bits_length v
  obtain ⟨b, x, hb, hx, h1, h2, h3⟩ := bits_into_rl_preserves_bits m v.bits (by rw [hl]; exact hlen)
  rw [hl] at h1 h3
  exact ⟨b, x, hb, hx, h1, h2, h3⟩

/-- **plain → run-length → plain is the identity**: convert `v` bit by bit into a run-length vector `x`, list
`x`'s positions with `one_iter()` (they are `onesPos v.bits`, and `x.len = v.len`), copy them into a plain
vector: the very same value `v` -/
theorem plain_rl_plain_round_trip (m : Mode) (v : RawVec) (hv : v.WF) (hlen : v.len < U64) :
    ∃ b x, RL.runBCalls m (RL.callsOf ((onesPos v.bits).map fun i => (i, 1)) v.bits.length) {} = ok b ∧
      RL.ofBuilder m b = ok x ∧ rlOf m v.bits = ok x ∧
      ∃ st items, x.oneIter = ok st ∧ RLQ.drainOne m x (x.ones + 1) st = ok items ∧
        (items.map (·.2)).foldl (fun u i => u.setBit i true) (RawVec.withLen x.len false) = v := by
  have hl : v.bits.length = v.len := RawVec.bits_length v
  have hB : v.bits.length < U64 := by rw [hl]; exact hlen
  obtain ⟨hr, _⟩ := RL.bitCalls_spec v.bits hB
  obtain ⟨b, hb, _, hd⟩ := rl_bit_at_a_time_describes_bits m v.bits hB
  obtain ⟨b', x, hb', hx, hcan, hxl, _, _⟩ := bits_into_rl_is_canonical m v.bits hB
  rw [hb] at hb'; cases hb'
  obtain ⟨_, st, items, h1, h2, h3, _⟩ := rl_one_iter_lists_set_positions m _
    (RL.callsOf_argsOk _ v.bits.length 0 hr hB) b hb x hx
  rw [hd] at h3
  refine ⟨b, x, hb, hx, hcan, st, items, h1, h2, ?_⟩
  rw [h3, hxl, (bits_into_plain v.bits).1]
  exact (RawVec.canonical hv (RawVec.ofBits_WF _) (RawVec.bits_ofBits _).symm).symm

/-- **run-length → plain → run-length is the identity**: take the vector `x` of any accepted history describing
`B`, copy the positions listed by its `one_iter()` into a plain vector (it is `RawVec.ofBits B`), convert that bit
by bit into a run-length vector: the very same value `x` (and the same builder as the original history) -/
theorem rl_plain_rl_round_trip (m : Mode) (calls : List RL.BCall) (hc : ∀ c ∈ calls, RL.callArgsOk c)
    (B : List Bool) (hB : calls.foldl RL.specCall [] = B)
    (b : RLBuilder) (hb : RL.runBCalls m calls {} = ok b) (x : RL) (hx : RL.ofBuilder m b = ok x) :
    ∃ st items, x.oneIter = ok st ∧ RLQ.drainOne m x (x.ones + 1) st = ok items ∧
      (items.map (·.2)).foldl (fun u i => u.setBit i true) (RawVec.withLen x.len false) = RawVec.ofBits B ∧
      (RawVec.ofBits B).bits = B ∧
      RL.runBCalls m (RL.callsOf ((onesPos B).map fun i => (i, 1)) B.length) {} = ok b ∧ rlOf m B = ok x := by
  subst hB
  obtain ⟨_, st, items, h1, h2, h3, _⟩ := rl_one_iter_lists_set_positions m calls hc b hb x hx
  obtain ⟨hxl, _⟩ := rl_run_iter_lists_maximal_runs m calls hc b hb x hx
  have hlt : (calls.foldl RL.specCall []).length < U64 := by
    obtain ⟨F, k⟩ := RLCanon.history_canon m calls hc b hb
    rw [k.len]; exact k.inv.len_lt
  obtain ⟨b', x', hb', hx', hcan, _, _, _, hall⟩ := bits_into_rl_is_canonical m _ hlt
  obtain ⟨e, hx''⟩ := hall calls hc rfl b hb
  rw [hx] at hx''; cases hx''
  refine ⟨st, items, h1, h2, ?_, RawVec.bits_ofBits _, e ▸ hb', hcan⟩
  rw [h3, hxl, (bits_into_plain _).1]

/-- **run-length → run-length through `run_iter()`** (the run-by-run copy): feeding the maximal runs listed by
`x` (§1) and `x.len` to a fresh builder reproduces `x` -/
theorem rl_rl_round_trip (m : Mode) (calls : List RL.BCall) (hc : ∀ c ∈ calls, RL.callArgsOk c)
    (B : List Bool) (hB : calls.foldl RL.specCall [] = B)
    (b : RLBuilder) (hb : RL.runBCalls m calls {} = ok b) (x : RL) (hx : RL.ofBuilder m b = ok x) :
    x.len = B.length ∧ RL.runBCalls m (RL.callsOf (maximalRuns B) x.len) {} = ok b := by
  subst hB
  obtain ⟨hxl, _⟩ := rl_run_iter_lists_maximal_runs m calls hc b hb x hx
  have hlt : (calls.foldl RL.specCall []).length < U64 := by
    obtain ⟨F, k⟩ := RLCanon.history_canon m calls hc b hb
    rw [k.len]; exact k.inv.len_lt
  obtain ⟨b2, hb2, _, hd2⟩ := rl_run_at_a_time_describes_bits m _ hlt
  have e := RLCanon.builder_canonical m _ calls
    (RL.callsOf_argsOk _ _ 0 (RLCanon.runCalls_spec _ hlt).1 hlt) hc hd2 b2 b hb2 hb
  exact ⟨hxl, by rw [hxl, ← e]; exact hb2⟩

/-- **sparse → run-length → sparse is the identity**: the positions `P` (over `n`) listed by a sparse vector, fed
bit by bit to the run-length builder, give `rlOf m (bitsOfSet P n)`; its `one_iter()` lists `P` again and its
length is `n`, so the sparse builder is fed the very same `(n, P)` -/
theorem sparse_rl_sparse_round_trip (m : Mode) (w n : Nat) (P : List Nat) (hn : n < U64)
    (hsorted : sortedStrict P = true) (hbound : ∀ p ∈ P, p < n) :
    ∃ b x, RL.runBCalls m (RL.callsOf (P.map fun i => (i, 1)) n) {} = ok b ∧ RL.ofBuilder m b = ok x ∧
      rlOf m (bitsOfSet P n) = ok x ∧ x.len = n ∧ x.ones = P.length ∧
      ∃ st items, x.oneIter = ok st ∧ RLQ.drainOne m x (x.ones + 1) st = ok items ∧ items.map (·.2) = P ∧
        Sparse.ofValues w x.len false (items.map (·.2)) = Sparse.ofValues w n false P := by
  have h2 : (bitsOfSet P n).length = n := by simp [bitsOfSet]
  have h3 := onesPos_bitsOfSet P n (sortedStrict_pairwise P hsorted) hbound
  have hB : (bitsOfSet P n).length < U64 := by rw [h2]; exact hn
  obtain ⟨hr, _⟩ := RL.bitCalls_spec _ hB
  obtain ⟨b, hb, _, hd⟩ := rl_bit_at_a_time_describes_bits m _ hB
  obtain ⟨b', x, hb', hx, hcan, hxl, hxo, _⟩ := bits_into_rl_is_canonical m _ hB
  rw [hb] at hb'; cases hb'
  obtain ⟨_, st, items, i1, i2, i3, _⟩ := rl_one_iter_lists_set_positions m _
    (RL.callsOf_argsOk _ _ 0 hr hB) b hb x hx
  rw [hd, h3] at i3
  rw [h2, h3] at hb
  rw [h2] at hxl
  rw [← length_onesPos, h3] at hxo
  exact ⟨b, x, hb, hx, hcan, hxl, hxo, st, items, i1, i2, i3, by rw [i3, hxl]⟩

/-- **run-length → sparse → run-length is the identity**: the positions listed by `x` (history describing `B`)
build the sparse representative of `B` (any width), which lists `(onesPos B, |B|)` again; feeding that bit by bit
to the run-length builder reproduces `x` -/
theorem rl_sparse_rl_round_trip (m : Mode) (w : Nat) (hw1 : 1 ≤ w) (hw : w ≤ 63)
    (calls : List RL.BCall) (hc : ∀ c ∈ calls, RL.callArgsOk c)
    (B : List Bool) (hB : calls.foldl RL.specCall [] = B) (hm : B.count true < 2 ^ 63)
    (b : RLBuilder) (hb : RL.runBCalls m calls {} = ok b) (x : RL) (hx : RL.ofBuilder m b = ok x) :
    ∃ st items s, x.oneIter = ok st ∧ RLQ.drainOne m x (x.ones + 1) st = ok items ∧
      Sparse.ofValues w x.len false (items.map (·.2)) = ok s ∧
      Sparse.ofValues w B.length false (onesPos B) = ok s ∧ s.len = B.length ∧
      drain m s ((onesPos B).length + 1) (SpOneIter.full s) = ok (itemsFrom (onesPos B) 0) ∧
      RL.runBCalls m (RL.callsOf ((onesPos B).map fun i => (i, 1)) s.len) {} = ok b ∧ rlOf m B = ok x := by
  obtain ⟨st, items, h1, h2, h3, _, h5, h6⟩ := rl_plain_rl_round_trip m calls hc B hB b hb x hx
  subst hB
  obtain ⟨hxl, _⟩ := rl_run_iter_lists_maximal_runs m calls hc b hb x hx
  have hlt : (calls.foldl RL.specCall []).length < 2 ^ 64 := by
    obtain ⟨F, k⟩ := RLCanon.history_canon m calls hc b hb
    rw [k.len, ← U64_eq]; exact k.inv.len_lt
  obtain ⟨s, hs, hl, _, _, hd⟩ := plain_into_sparse_preserves_bits w _ hw1 hw hlt hm
  have i3' : items.map (·.2) = onesPos (calls.foldl RL.specCall []) := by
    obtain ⟨_, st', items', j1, j2, j3, _⟩ := rl_one_iter_lists_set_positions m calls hc b hb x hx
    rw [h1] at j1; cases j1
    rw [h2] at j2; cases j2
    exact j3
  exact ⟨st, items, s, h1, h2, by rw [i3', hxl]; exact hs, hs, hl, hd m, by rw [hl]; exact h5, h6⟩

/-- **a chain of length 3: plain → sparse → run-length = plain → run-length.**  The sparse vector built from the
positions of `B` lists `(onesPos B, |B|)`, so the run-length builder receives the same calls as in the direct
conversion and the result is `rlOf m B` — the value every accepted history describing `B` converts to -/
theorem plain_sparse_rl_chain (m : Mode) (w : Nat) (B : List Bool) (hw1 : 1 ≤ w) (hw : w ≤ 63)
    (hB : B.length < 2 ^ 64) (hm : B.count true < 2 ^ 63) :
    ∃ s b x, Sparse.ofValues w B.length false (onesPos B) = ok s ∧
      drain m s ((onesPos B).length + 1) (SpOneIter.full s) = ok (itemsFrom (onesPos B) 0) ∧
      RL.runBCalls m (RL.callsOf ((onesPos B).map fun i => (i, 1)) s.len) {} = ok b ∧
      RL.ofBuilder m b = ok x ∧ rlOf m B = ok x ∧ x.len = B.length ∧ x.ones = B.count true := by
  obtain ⟨s, hs, hl, _, _, hd⟩ := plain_into_sparse_preserves_bits w B hw1 hw hB hm
  obtain ⟨b, x, hb, hx, hcan, l, o, _⟩ := bits_into_rl_is_canonical m B (by rw [U64_eq]; exact hB)
  exact ⟨s, b, x, hs, hd m, by rw [hl]; exact hb, hx, hcan, l, o⟩

/-! ### non-vacuity -/

example : onesPos [true, false, true, true] = [0, 2, 3] ∧
    bitsOfSet [0, 2, 3] 4 = [true, false, true, true] := by decide
/-- the copy route and the push route give the same words -/
example : ([0, 2, 3] : List Nat).foldl (fun v i => v.setBit i true) (RawVec.withLen 4 false) =
    RawVec.ofBits [true, false, true, true] := by decide
/-- positions in any order, with a repetition -/
example : ([3, 0, 2, 3] : List Nat).foldl (fun v i => v.setBit i true) (RawVec.withLen 4 false) =
    RawVec.ofBits [true, false, true, true] := by decide
/-- hypotheses of the sparse theorems on a small instance, two different widths -/
example : (sortedStrict [0, 2, 3] = true ∧ ∀ p ∈ [0, 2, 3], p < 4) := by decide
example : ∃ s, Sparse.ofValues 1 4 false [0, 2, 3] = ok s ∧ s.low.items = [0, 0, 1] := by
  obtain ⟨s, h, _, _, _, _, _, hi⟩ := positions_into_sparse_closed_form 1 4 false [0, 2, 3] (by decide)
    (by decide) (by decide) (by decide) (by decide) (by decide)
  exact ⟨s, h, by rw [hi]; decide⟩
/-- two decompositions of the same bits: bit at a time and run at a time -/
example : ([.bit 1, .bit 2, .bit 3, .setLen 6] : List RL.BCall).foldl RL.specCall [] =
    ([.set 1 3, .setLen 6] : List RL.BCall).foldl RL.specCall [] := by decide
example : maximalRuns [false, true, true, true, false, false] = [(1, 3)] := by decide
/-- … they reach the same builder and convert to the same vector, here computed -/
example : RL.runBCalls .checked [.bit 1, .bit 2, .bit 3, .setLen 6] {} =
    RL.runBCalls .checked [.set 1 3, .setLen 6] {} := by decide
example : ((RL.runBCalls .checked [.bit 1, .bit 2, .bit 3, .setLen 6] {} >>= RL.ofBuilder .checked) >>=
      fun v => ok (v.len, v.ones, v.data.items, v.samples.items)) = ok (6, 3, [1, 2], [0, 0]) := by decide

/-! **The three `copy_bit_vec` conversions as translated from the source on this run** (`Generated/FnsCopy.lean`; the six
`From` impls of `support.rs` are `$target::copy_bit_vec(&source)`): generic over the source, whose `len()`,
`count_ones()` and the list of the items of its `one_iter()` are parameters.  `BitVector`: `with_len(len, false)`, one
`set_bit` per item, `BitVector::from`; `RLVector`: `RLBuilder::new`, one `set_bit_unchecked` per item, `set_len`,
`RLVector::from`; `SparseVector`: `SparseBuilder::new(len, count_ones).unwrap()`, one `set_unchecked` per item,
`try_from(..).unwrap()`.  For a source whose items are the set-bit positions of a bit sequence `B`, the code as it is NOW
produces exactly the objects the conversion theorems above are stated about: the canonical plain bitvector over `B`, the
run-length vector of `C11.rlOf` (`RL.ofBuilder` of the canonical flushed builder), the sparse vector `Sparse.ofValues`
that encodes the positions. -/
theorem copy_bit_vec_as_translated_from_source (m : Mode) (B : List Bool) (ones : Nat) (items : List (Nat × Nat))
    (hitems : items.map (·.2) = onesPos B) :
    (B.length + 63 < U64 →
        Generated.gen_BitVector_copy_bit_vec m B.length ones items = ok (BitVector.ofRaw (RawVec.ofBits B))) ∧
    (B.length < U64 → 128 * items.length + 319 < U64 →
        ∃ x, Generated.gen_RLVector_copy_bit_vec m B.length ones items = ok x ∧
          RL.ofBuilder m (RLCanon.canonFlushed B) = ok x ∧ x.len = B.length ∧ x.ones = B.count true) :=
  ⟨fun hl => GenEq.bv_copy_eq_bits m B ones items hl hitems,
   fun hB hn => by
     obtain ⟨_, x, _, _, h3, h4, h5, h6⟩ := GenEq.rl_copy_eq_bits m B ones items hB hitems hn
     exact ⟨x, h3, h4, h5, h6⟩⟩

theorem sparse_copy_bit_vec_as_translated_from_source (m : Mode) (fw len ones : Nat) (items : List (Nat × Nat))
    (hfw1 : 1 ≤ fw) (hfw2 : fw ≤ 63) (hu : len < U64)
    (hh : ones + Sparse.getBuckets len (GenEq.spWidth fw len ones) + 63 < U64)
    (hl : ones * GenEq.spWidth fw len ones + 63 < U64)
    (hones : ones = items.length) (hm : items.length < 2 ^ 63)
    (hsorted : (items.map (·.2)).Pairwise (· < ·)) (hp : ∀ p ∈ items.map (·.2), p < len) :
    ∃ s, Sparse.ofValues (GenEq.spWidth fw len ones) len false (items.map (·.2)) = ok s ∧
      Generated.gen_SparseVector_copy_bit_vec m fw len ones items = ok s ∧
      s.Encodes len (GenEq.spWidth fw len ones) (items.map (·.2)) :=
  GenEq.sp_copy_eq_values m fw len ones items hfw1 hfw2 hu hh hl hones hm hsorted hp

/-! **`FromIterator<bool> for BitVector` as translated from the source on this run** (`Generated/FnsFromExt.lean`):
`with_capacity(lower_bound)`, one `push_bit` per item, `count_ones` — the bool-iterator route of "built from B by any public
route" — is the canonical plain bitvector over the bits. -/
theorem bit_vector_from_iter_as_translated_from_source (m : Mode) (bits : List Bool) (hb : bits.length + 63 < U64) :
    Generated.gen_BitVector_from_iter m bits = ok (BitVector.ofRaw (RawVec.ofBits bits)) :=
  GenEq.bv_from_iter_eq m bits hb

end Sds.C11
