/-
C02 — Elias–Fano sparse bitvector answers every query exactly (set semantics).

Property theorems only (helper lemmas live in Proofs/).  Quantifiers: every universe size `n < 2^64`
(i.e. up to `usize::MAX`; `n = 0` included), every strictly increasing list `P` of positions below `n`
with `|P| < 2^63` (empty, one bit, sparse, dense, full; first and last element of the universe alike),
every low-part width `w` in `1..63`, every query argument, both arithmetic modes `m : Mode`.

The width rule of the code (an `f64` computation in `SparseBuilder::new`) is a *parameter* of the model
(`Sparse.ofValues w …`): every theorem below holds for every `w` in `1..63`, so nothing at all is
assumed about the rule beyond its range.

Reference semantics (Sds/Spec/Bits.lean), for a sorted list `P` and universe `n`:
  `getSet P i = P.contains i`, `rankSet P i = |{p ∈ P : p < i}|`, `selectSet P r = P[r]?`,
  `selectZeroSet P n r = r`-th element of `[0, n) \ P`, `predSet P x` / `succSet P x` = `(rank, value)` of
  the nearest member at or before / at or after `x`.
All results are `ok …`: no panic, no out-of-bounds access, no overflow in either mode.
-/
import Sds.Proofs.Glue2
import Sds.Proofs.GenEqIdx
import Sds.Proofs.GenEqBuild
import Sds.Proofs.GenEqLoop
import Sds.Proofs.GenEqSpZero

namespace Sds.C02
open Sds Outcome

/-- the builder accepts every strictly increasing list below the universe size -/
theorem build_succeeds (w n : Nat) (P : List Nat) (hw1 : 1 ≤ w) (hw : w ≤ 63) (hn : n < 2 ^ 64)
    (hm : P.length < 2 ^ 63) (hsorted : sortedStrict P = true) (hbound : ∀ p ∈ P, p < n) :
    ∃ s, Sparse.ofValues w n false P = ok s :=
  let ⟨s, h, _⟩ := ofValues_set_ok w n P hw1 hw hn hm hsorted hbound
  ⟨s, h⟩

/-- … and (in set mode) nothing else: a list that is not strictly increasing, or has a value `≥ n`
(in particular more values than the universe has elements), is refused with an error -/
theorem build_rejects (w n : Nat) (P : List Nat) (hw1 : 1 ≤ w) (hw : w ≤ 63)
    (hbad : ¬ (sortedStrict P = true ∧ ∀ p ∈ P, p < n)) :
    Sparse.ofValues w n false P = fault (.err .other) :=
  ofValues_set_reject w n P hw1 hw hbad

/-- `len`, `count_ones`, `count_zeros` -/
theorem len_and_counts_exact (w n : Nat) (P : List Nat) (s : Sparse) (hw1 : 1 ≤ w) (hw : w ≤ 63)
    (hn : n < 2 ^ 64) (hm : P.length < 2 ^ 63) (hsorted : sortedStrict P = true)
    (hbound : ∀ p ∈ P, p < n) (hs : Sparse.ofValues w n false P = ok s) :
    s.len = n ∧ s.countOnes = P.length ∧ s.countZeros = n - P.length := by
  have he := ofValues_set_encodes hw1 hw hn hm hsorted hbound hs
  refine ⟨he.len_eq, he.low_len, ?_⟩
  unfold Sparse.countZeros Sparse.countOnes
  rw [he.low_len, he.len_eq]
  split <;> omega

/-- `get(i)` for every `i` below the universe size -/
theorem get_exact (w n : Nat) (P : List Nat) (s : Sparse) (hw1 : 1 ≤ w) (hw : w ≤ 63)
    (hn : n < 2 ^ 64) (hm : P.length < 2 ^ 63) (hsorted : sortedStrict P = true)
    (hbound : ∀ p ∈ P, p < n) (hs : Sparse.ofValues w n false P = ok s)
    (m : Mode) (i : Nat) (hi : i < n) : s.get m i = ok (getSet P i) :=
  get_ok (ofValues_set_encodes hw1 hw hn hm hsorted hbound hs) m i hi

/-- `rank(i)` for every `i` (also beyond the universe: then all set bits are counted) -/
theorem rank_exact (w n : Nat) (P : List Nat) (s : Sparse) (hw1 : 1 ≤ w) (hw : w ≤ 63)
    (hn : n < 2 ^ 64) (hm : P.length < 2 ^ 63) (hsorted : sortedStrict P = true)
    (hbound : ∀ p ∈ P, p < n) (hs : Sparse.ofValues w n false P = ok s)
    (m : Mode) (i : Nat) : s.rank m i = ok (rankSet P i) :=
  rank_ok (ofValues_set_encodes hw1 hw hn hm hsorted hbound hs) m i

/-- `rank_zero(i) = i - rank(i)` = the number of non-members below `i`, for every `i`
(the property asks for `i ≤ n`; the subtraction never underflows for any `i`) -/
theorem rank_zero_exact (w n : Nat) (P : List Nat) (s : Sparse) (hw1 : 1 ≤ w) (hw : w ≤ 63)
    (hn : n < 2 ^ 64) (hm : P.length < 2 ^ 63) (hsorted : sortedStrict P = true)
    (hbound : ∀ p ∈ P, p < n) (hs : Sparse.ofValues w n false P = ok s)
    (m : Mode) (i : Nat) :
    s.rankZero m i = ok (i - rankSet P i) ∧
    s.rankZero m i = ok ((List.range i).filter (fun j => !P.contains j)).length := by
  have h := rankZero_ok (ofValues_set_encodes hw1 hw hn hm hsorted hbound hs) hsorted m i
  exact ⟨h, by rw [h, Sparse2.zeros_below hsorted i]⟩

/-- `select(r)` for every rank `r` (`None` from `count_ones` on) -/
theorem select_exact (w n : Nat) (P : List Nat) (s : Sparse) (hw1 : 1 ≤ w) (hw : w ≤ 63)
    (hn : n < 2 ^ 64) (hm : P.length < 2 ^ 63) (hsorted : sortedStrict P = true)
    (hbound : ∀ p ∈ P, p < n) (hs : Sparse.ofValues w n false P = ok s)
    (m : Mode) (r : Nat) : s.select m r = ok (selectSet P r) :=
  select_ok (ofValues_set_encodes hw1 hw hn hm hsorted hbound hs) m r

/-- `select_zero(r)` for every rank `r` (`None` from `count_zeros` on) -/
theorem select_zero_exact (w n : Nat) (P : List Nat) (s : Sparse) (hw1 : 1 ≤ w) (hw : w ≤ 63)
    (hn : n < 2 ^ 64) (hm : P.length < 2 ^ 63) (hsorted : sortedStrict P = true)
    (hbound : ∀ p ∈ P, p < n) (hs : Sparse.ofValues w n false P = ok s)
    (m : Mode) (r : Nat) : s.selectZero m r = ok (selectZeroSet P n r) :=
  Sparse2.selectZero_spec (ofValues_set_encodes hw1 hw hn hm hsorted hbound hs) hsorted m r

/-- `predecessor(x)` for every `x` (also `x ≥ n`): when no member is `≤ x` the returned iterator is empty;
otherwise it is the iterator `select_iter(k)` positioned at `(k, v) = predSet P x`, its first item is
`(k, v)`, and it goes on to deliver exactly the items `(i, P[i])`, `k ≤ i < |P|`. -/
theorem predecessor_exact (w n : Nat) (P : List Nat) (s : Sparse) (hw1 : 1 ≤ w) (hw : w ≤ 63)
    (hn : n < 2 ^ 64) (hm : P.length < 2 ^ 63) (hsorted : sortedStrict P = true)
    (hbound : ∀ p ∈ P, p < n) (hs : Sparse.ofValues w n false P = ok s)
    (m : Mode) (x : Nat) :
    match predSet P x with
    | none => s.predecessor m x = ok (SpOneIter.emptyIter s) ∧
        SpOneIter.nextQ m s (SpOneIter.emptyIter s) = ok (none, SpOneIter.emptyIter s)
    | some kv => ∃ it it', s.predecessor m x = ok it ∧ s.selectIter m kv.1 = ok it ∧
        SpOneIter.nextQ m s it = ok (some kv, it') ∧
        drain m s (P.length + 1) it = ok (itemsFrom P kv.1) := by
  have he := ofValues_set_encodes hw1 hw hn hm hsorted hbound hs
  have h := pred_first he m x
  cases hp : predSet P x with
  | none => rw [hp] at h; exact h
  | some kv =>
    rw [hp] at h
    obtain ⟨it, it', h1, h2, h3, _⟩ := h
    obtain ⟨hk, _⟩ := predSet_spec he.pw x kv hp
    obtain ⟨it2, g1, g2⟩ := selectIter_drain he m kv.1 (Nat.le_of_lt hk)
    rw [h2] at g1; cases g1
    exact ⟨it, it', h1, h2, h3, g2⟩

/-- `successor(x)` for every `x` (for `x ≥ n`, and whenever no member is `≥ x`, the iterator is empty);
otherwise it is `select_iter(k)` at `(k, v) = succSet P x`, with first item `(k, v)`, followed by the rest. -/
theorem successor_exact (w n : Nat) (P : List Nat) (s : Sparse) (hw1 : 1 ≤ w) (hw : w ≤ 63)
    (hn : n < 2 ^ 64) (hm : P.length < 2 ^ 63) (hsorted : sortedStrict P = true)
    (hbound : ∀ p ∈ P, p < n) (hs : Sparse.ofValues w n false P = ok s)
    (m : Mode) (x : Nat) :
    match succSet P x with
    | none => s.successor m x = ok (SpOneIter.emptyIter s) ∧
        SpOneIter.nextQ m s (SpOneIter.emptyIter s) = ok (none, SpOneIter.emptyIter s)
    | some kv => ∃ it it', s.successor m x = ok it ∧ s.selectIter m kv.1 = ok it ∧
        SpOneIter.nextQ m s it = ok (some kv, it') ∧
        drain m s (P.length + 1) it = ok (itemsFrom P kv.1) := by
  have he := ofValues_set_encodes hw1 hw hn hm hsorted hbound hs
  have h := succ_first he m x
  cases hp : succSet P x with
  | none => rw [hp] at h; exact h
  | some kv =>
    rw [hp] at h
    obtain ⟨it, it', h1, h2, h3, _⟩ := h
    obtain ⟨hk, _⟩ := succSet_spec x kv hp
    obtain ⟨it2, g1, g2⟩ := selectIter_drain he m kv.1 (Nat.le_of_lt hk)
    rw [h2] at g1; cases g1
    exact ⟨it, it', h1, h2, h3, g2⟩

/-- what the `(rank, value)` pairs of the reference semantics are (documentation of the specification,
independent of the structure): the pair returned by `predSet` is a rank below `|P|` with its member … -/
theorem predSet_meaning (P : List Nat) (hsorted : sortedStrict P = true) (x : Nat) (kv : Nat × Nat)
    (h : predSet P x = some kv) : ∃ (hk : kv.1 < P.length), kv.2 = P[kv.1] :=
  predSet_spec (sortedLe_pairwise P (Sparse2.sortedStrict_le P hsorted)) x kv h

/-- … and so is the pair of `succSet`, whose rank is the number of members below `x` -/
theorem succSet_meaning (P : List Nat) (x : Nat) (kv : Nat × Nat) (h : succSet P x = some kv) :
    ∃ (hk : kv.1 < P.length), kv.1 = rankSet P x ∧ kv.2 = P[kv.1] :=
  succSet_spec x kv h

/-- **Headline.**  For every admissible width, every universe size and every strictly increasing list of
positions, the vector is built and answers every query, for every argument, in both modes, by the set-level
specification. -/
theorem all_queries_exact (w n : Nat) (P : List Nat) (hw1 : 1 ≤ w) (hw : w ≤ 63) (hn : n < 2 ^ 64)
    (hm : P.length < 2 ^ 63) (hsorted : sortedStrict P = true) (hbound : ∀ p ∈ P, p < n) :
    ∃ s, Sparse.ofValues w n false P = ok s ∧
      s.len = n ∧ s.countOnes = P.length ∧ s.countZeros = n - P.length ∧
      (∀ (m : Mode) (i : Nat), i < n → s.get m i = ok (getSet P i)) ∧
      (∀ (m : Mode) (i : Nat), s.rank m i = ok (rankSet P i)) ∧
      (∀ (m : Mode) (i : Nat), s.rankZero m i = ok (i - rankSet P i)) ∧
      (∀ (m : Mode) (r : Nat), s.select m r = ok (selectSet P r)) ∧
      (∀ (m : Mode) (r : Nat), s.selectZero m r = ok (selectZeroSet P n r)) ∧
      (∀ (m : Mode) (x : Nat), s.predecessor m x = ok (match predSet P x with
          | none => SpOneIter.emptyIter s
          | some kv => s.iterAt w P kv.1)) ∧
      (∀ (m : Mode) (x : Nat), s.successor m x = ok (match succSet P x with
          | none => SpOneIter.emptyIter s
          | some kv => s.iterAt w P kv.1)) ∧
      (∀ (m : Mode) (r : Nat), s.selectIter m r = ok (s.iterAt w P r)) := by
  obtain ⟨s, hs, he⟩ := ofValues_set_ok w n P hw1 hw hn hm hsorted hbound
  obtain ⟨l1, l2, l3⟩ := len_and_counts_exact w n P s hw1 hw hn hm hsorted hbound hs
  exact ⟨s, hs, l1, l2, l3, fun m i hi => get_ok he m i hi, fun m i => rank_ok he m i,
    fun m i => rankZero_ok he hsorted m i, fun m r => select_ok he m r,
    fun m r => Sparse2.selectZero_spec he hsorted m r, fun m x => pred_ok he m x,
    fun m x => succ_ok he m x, fun m r => selectIter_ok he m r⟩

/-! ### iterators -/

/-- `one_iter()` delivers `(i, P[i])` for `i = 0 … |P|-1`, in order, and then `None` -/
theorem one_iter_lists_positions (w n : Nat) (P : List Nat) (s : Sparse) (hw1 : 1 ≤ w) (hw : w ≤ 63)
    (hn : n < 2 ^ 64) (hm : P.length < 2 ^ 63) (hsorted : sortedStrict P = true)
    (hbound : ∀ p ∈ P, p < n) (hs : Sparse.ofValues w n false P = ok s) (m : Mode) :
    drain m s (P.length + 1) (SpOneIter.full s) = ok (itemsFrom P 0) :=
  drain_full (ofValues_set_encodes hw1 hw hn hm hsorted hbound hs) m

/-- two-ended use: any interleaving of `next` / `next_back` calls on `one_iter()` answers exactly like
the same calls on the deque `[(0, P[0]), …, (|P|-1, P[|P|-1])]`; what is left is a contiguous range -/
theorem one_iter_two_ended (w n : Nat) (P : List Nat) (s : Sparse) (hw1 : 1 ≤ w) (hw : w ≤ 63)
    (hn : n < 2 ^ 64) (hm : P.length < 2 ^ 63) (hsorted : sortedStrict P = true)
    (hbound : ∀ p ∈ P, p < n) (hs : Sparse.ofValues w n false P = ok s) (m : Mode)
    (calls : List Sparse2.End) :
    ∃ it' r' R', Sparse2.runCalls m s calls (SpOneIter.full s) =
        ok ((Sparse2.runDeque calls (itemsFrom P 0)).1, it') ∧
      (Sparse2.runDeque calls (itemsFrom P 0)).2 = Sparse2.itemsBetween P r' R' ∧
      it'.remaining = R' - r' := by
  obtain ⟨it', r', R', h1, h2, h3⟩ :=
    Sparse2.runCalls_full (ofValues_set_encodes hw1 hw hn hm hsorted hbound hs) m calls
  exact ⟨it', r', R', h1, h2, Sparse2.remaining_between r' R' it' h3⟩

/-- `zero_iter()` delivers `(r, select_zero(r))` for `r = 0 … n-|P|-1`, in order, and then `None` -/
theorem zero_iter_lists_zeros (w n : Nat) (P : List Nat) (s : Sparse) (hw1 : 1 ≤ w) (hw : w ≤ 63)
    (hn : n < 2 ^ 64) (hm : P.length < 2 ^ 63) (hsorted : sortedStrict P = true)
    (hbound : ∀ p ∈ P, p < n) (hs : Sparse.ofValues w n false P = ok s) (m : Mode) :
    ∃ z, s.zeroIter m = ok z ∧
      Sparse2.drainZ m s (n - P.length + 1) z =
        ok ((List.range (n - P.length)).map fun r => (r, (selectZeroSet P n r).getD 0)) := by
  obtain ⟨z, h1, h2⟩ :=
    Sparse2.zeroIter_drain (ofValues_set_encodes hw1 hw hn hm hsorted hbound hs) hsorted m
  refine ⟨z, h1, ?_⟩
  rw [h2]
  simp [Sparse2.zerosFrom]

/-- `iter()` (all bits, two-ended): any interleaving of `next` / `next_back` answers like the deque of the
`n` membership bits -/
theorem bit_iter_two_ended (w n : Nat) (P : List Nat) (s : Sparse) (hw1 : 1 ≤ w) (hw : w ≤ 63)
    (hn : n < 2 ^ 64) (hm : P.length < 2 ^ 63) (hsorted : sortedStrict P = true)
    (hbound : ∀ p ∈ P, p < n) (hs : Sparse.ofValues w n false P = ok s) (m : Mode)
    (calls : List Sparse2.End) :
    ∃ it it', s.iter m = ok it ∧
      Sparse2.runSpCalls m s calls it = ok ((Sparse2.runDeque calls (bitsOfSet P n)).1, it') :=
  Sparse2.iter_runSpCalls (ofValues_set_encodes hw1 hw hn hm hsorted hbound hs) m calls

/-! ### non-vacuity: concrete inputs meeting the hypotheses (empty universe, empty set, full set, a set
containing the first and the last position, a huge universe with few ones) -/

example : (1 ≤ 2 ∧ 2 ≤ 63 ∧ 10 < 2 ^ 64 ∧ [0, 5, 9].length < 2 ^ 63 ∧ sortedStrict [0, 5, 9] = true ∧
    ∀ p ∈ [0, 5, 9], p < 10) := by decide
example : (1 ≤ 1 ∧ 1 ≤ 63 ∧ 0 < 2 ^ 64 ∧ ([] : List Nat).length < 2 ^ 63 ∧ sortedStrict [] = true ∧
    ∀ p ∈ ([] : List Nat), p < 0) := by decide
example : (1 ≤ 63 ∧ 63 ≤ 63 ∧ 2 ^ 64 - 1 < 2 ^ 64 ∧ [0, 2 ^ 64 - 2].length < 2 ^ 63 ∧
    sortedStrict [0, 2 ^ 64 - 2] = true ∧ ∀ p ∈ [0, 2 ^ 64 - 2], p < 2 ^ 64 - 1) := by decide
example : (sortedStrict [0, 1, 2, 3] = true ∧ ∀ p ∈ [0, 1, 2, 3], p < 4) := by decide
example : ∃ s, Sparse.ofValues 2 10 false [0, 5, 9] = ok s :=
  build_succeeds 2 10 [0, 5, 9] (by decide) (by decide) (by decide) (by decide) (by decide) (by decide)
/-- the reference answers on that instance -/
example : (rankSet [0, 5, 9] 6 = 2 ∧ selectSet [0, 5, 9] 2 = some 9 ∧ selectZeroSet [0, 5, 9] 10 4 = some 6 ∧
    predSet [0, 5, 9] 8 = some (1, 5) ∧ succSet [0, 5, 9] 6 = some (2, 9) ∧ succSet [0, 5, 9] 10 = none ∧
    itemsFrom [0, 5, 9] 0 = [(0, 0), (1, 5), (2, 9)]) := by decide

/-! **The position arithmetic of `sparse_vector.rs` as translated from the source on this run** (`Generated/FnsIdx.lean`):
`split`, `combine`, `pos`, `lower_bound`, `upper_bound` and `SparseBuilder::get_buckets`, statement by statement (the two
guarded shifts repaired after F13 included).  For every low width 1..64 the code as it is NOW is the model function the
query theorems above are about.  `combine` is stated for every `Pos`, unconditionally. -/
theorem sparse_position_arithmetic_as_translated_from_source (m : Mode) (s : Sparse) (i r hp univ w : Nat) (p : Pos)
    (hw : s.width ≤ 64) (hi : i < U64) :
    Generated.gen_SparseVector_split m s i = ok (s.split i) ∧
    Generated.gen_SparseVector_combine m s p = s.combine m p ∧
    Generated.gen_SparseVector_pos m s r = s.pos m r ∧
    Generated.gen_SparseVector_lower_bound m s hp = s.lowerBound m hp ∧
    Generated.gen_SparseVector_upper_bound m s hp = s.upperBound m hp ∧
    (w ≤ 64 → univ < U64 → Generated.gen_SparseBuilder_get_buckets m univ w = ok (Sparse.getBuckets univ w)) :=
  ⟨GenEq.split_eq m s i hw (fun _ => hi), GenEq.combine_eq m s p,
   GenEq.pos_eq m s r, GenEq.lower_bound_eq m s hp, GenEq.upper_bound_eq m s hp,
   fun hw' hu => GenEq.get_buckets_eq m univ w hw' hu⟩

/-- the translated `get_buckets` at the two regimes of the guard (width 64 and below) -/
example : Generated.gen_SparseBuilder_get_buckets .checked (2 ^ 64 - 1) 64 = ok 1 ∧
    Generated.gen_SparseBuilder_get_buckets .checked 1000 3 = ok 125 ∧
    Generated.gen_SparseBuilder_get_buckets .checked 1001 3 = ok 126 := by decide

/-- `SparseVector::select` as translated from the source on this run (`Generated/FnsBuild.lean`): the range test, `pos`,
`combine` — unconditionally the model function, and on every encoded set the specified answer -/
theorem sparse_select_as_translated_from_source (m : Mode) (s : Sparse) (r : Nat) :
    Generated.gen_SparseVector_select m s r = s.select m r :=
  GenEq.sparse_select_eq m s r

/-! **The queries of `SparseVector` as translated from the source on this run — bucket scans included**
(`Generated/FnsLoop.lean`): `get` (forward scan of one bucket with its early `return`), `rank` (backward scan),
`predecessor` (backward scan, then the skip over unset bits), `successor` (two forward scans), `count_zeros`.  Each
`while` becomes `loopM` over the position the body updates, with a `return` inside the loop carried out as `Ctl.ret`.  On
every vector that encodes a set or multiset (`Encodes`, the predicate the builder's output provably satisfies), for every
argument and both build modes, the code as it is NOW is the model function the theorems above are about.  Outside
`Encodes` the equations need `low ≤ high` after `upper_bound` (automatic in the checked build) and lengths below 2^64:
`GenEq.sparse_rank_ne`, … are the witnesses on a hand-made select support that no builder or loader produces. -/
theorem sparse_queries_as_translated_from_source {s : Sparse} {n w : Nat} {P : List Nat} (hs : s.Encodes n w P)
    (m : Mode) (i : Nat) :
    Generated.gen_SparseVector_get m s i = s.get m i ∧
    Generated.gen_SparseVector_rank m s i = s.rank m i ∧
    Generated.gen_SparseVector_predecessor m s i = s.predecessor m i ∧
    Generated.gen_SparseVector_successor m s i = s.successor m i ∧
    Generated.gen_SparseVector_count_zeros m s = ok s.countZeros :=
  ⟨GenEq.sparse_get_eq_of_encodes hs m i, GenEq.sparse_rank_eq_of_encodes hs m i,
   GenEq.sparse_predecessor_eq_of_encodes hs m i, GenEq.sparse_successor_eq_of_encodes hs m i,
   GenEq.sparse_count_zeros_eq m s⟩

/-! **`select_zero` as translated from the source on this run** (`Generated/FnsSpZero.lean`): `find_zero_run` (the binary
search over ranks with `mid_pos - mid` zeros before the one of rank `mid`, then the forward scan past duplicates) and
`select_zero` on top of it equal the model functions the theorems above are about, on every representable vector. -/
theorem sparse_select_zero_as_translated_from_source (m : Mode) (s : Sparse) (rank : Nat)
    (hH : s.high.data.data.size * 64 < U64) (hL : s.low.len < U64) :
    Generated.gen_SparseVector_find_zero_run m s rank = s.findZeroRun m rank ∧
    Generated.gen_SparseVector_select_zero m s rank = s.selectZero m rank :=
  ⟨GenEq.sp_find_zero_run_eq m s rank hH hL, GenEq.sp_select_zero_eq m s rank hH hL⟩

end Sds.C02
