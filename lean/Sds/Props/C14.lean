/-
C14 — Truncated input and failed writes are always reported, never accepted.

Property theorems only (helper lemmas live in Proofs/).  Quantifiers: every value of every serializable
type with a proven codec (integers, pairs, vectors of them, byte vectors, strings, optional values, raw /
integer vectors, support structures, plain bitvectors with any subset of supports) × **every truncation
point** `k` in `0 .. 8*size-1` at **byte** granularity for `load` and `skip_option`, and `0 .. size-1` at
element granularity for the memory-mapped views (a map is element-addressed) × every prefix `pre` of the
file before the structure; both arithmetic modes for the views (the loaders have no arithmetic);
for the writers: every buffer size, every valid sequence of pushes, every write budget (`some b` = the sink
accepts `b` more body elements and then fails; `none` = unlimited).

"Reported" is an exact statement here: the outcome is `fault (.err .eof)` — an `io::Error`, not a panic, not
`oob`, and not `ok` of some structure.  For the writers the outcome of a run that could not write all its
data is the documented `unwrap` panic of a push or the `io::Error` of `close`, never `ok`.

**Partial / by correspondence only** (see the end of the file):
 * the composite codecs `sparseC`, `rlC`, `wmCoreC`, `wmC` have no proven prefix law;
 * `Serialize::serialize` into a failing `Write` sink: the model's `ser` is a pure function (the element list),
   so "the error of the sink is returned" is not expressible for it; it is checked by the driver.  What is
   proven is the consequence that matters for data integrity: whatever strict prefix of the bytes reached the
   file, loading it is refused (the theorems below), and the buffered *writers*, whose sink is modelled,
   never report success for an incomplete file.
-/
import Sds.Proofs.Codec
import Sds.Proofs.Supports
import Sds.Proofs.Mapper
import Sds.Proofs.Writer
import Sds.Generated.SerConsts

namespace Sds.C14
open Sds Outcome

/-- ties the skip law below to the current source: `gen_lean.py` regenerates this constant from
`serialize.rs` on every run; it is `true` iff `skip_option` verifies that as many bytes were skipped as the
length prefix announced -/
theorem skip_option_is_checked : Generated.SKIP_OPTION_CHECKED = true := by decide

/-! ### `load` of a truncated serialization: always `Err(UnexpectedEof)` -/

/-- the general form, for any codec whose element-level prefixes fail with `eof`: **every strict byte
prefix** of a serialization is refused with `eof` -/
theorem truncated_load_reports_eof {α} (c : Codec α) (W : α → Prop) (hc : LawfulP IsEof c W) (x : α)
    (hx : W x) (k : Nat) (hk : k < 8 * c.size x) :
    c.load (ofBytes ((toBytes (c.ser x)).take k)) = fault (.err .eof) :=
  pfx_bytes_eof hc x hx k hk

/-- … which every proven codec is -/
theorem all_codecs_report_eof (valid : List UInt8 → Bool) :
    LawfulP IsEof u64C (fun _ => True) ∧ LawfulP IsEof usizeC (fun n => n < 2 ^ 64) ∧
    LawfulP IsEof pairC (fun _ => True) ∧
    LawfulP IsEof vecU64C (fun a => a.size < 2 ^ 64) ∧ LawfulP IsEof vecPairC (fun a => a.size < 2 ^ 64) ∧
    LawfulP IsEof bytesC (fun bs => bs.length < 2 ^ 64) ∧
    LawfulP IsEof (stringC valid) (fun bs => bs.length < 2 ^ 64 ∧ valid bs = true) ∧
    LawfulP IsEof rawVecC rawVecWF ∧ LawfulP IsEof intVecC intVecWF ∧
    LawfulP IsEof rankSupC rankSupWF ∧ LawfulP IsEof selSupC selSupWF ∧
    LawfulP IsEof bitVectorC bitVectorWF :=
  ⟨u64C_lawfulEof, usizeC_lawfulEof, pairC_lawfulEof, vecU64C_lawfulEof, vecPairC_lawfulEof,
    bytesC_lawfulEof, stringC_lawfulEof valid, rawVecC_lawfulEof, intVecC_lawfulEof, rankSupC_lawfulEof,
    selSupC_lawfulEof, bitVectorC_lawfulEof⟩

/-! the instances, spelled out -/

theorem truncated_u64 (x : Word) (k : Nat) (hk : k < 8) :
    u64C.load (ofBytes ((toBytes (u64C.ser x)).take k)) = fault (.err .eof) :=
  pfx_bytes_eof u64C_lawfulEof x trivial k hk

theorem truncated_pair (p : Word × Word) (k : Nat) (hk : k < 16) :
    pairC.load (ofBytes ((toBytes (pairC.ser p)).take k)) = fault (.err .eof) :=
  pfx_bytes_eof pairC_lawfulEof p trivial k hk

theorem truncated_vec_u64 (a : Array Word) (ha : a.size < 2 ^ 64) (k : Nat) (hk : k < 8 * vecU64C.size a) :
    vecU64C.load (ofBytes ((toBytes (vecU64C.ser a)).take k)) = fault (.err .eof) :=
  pfx_bytes_eof vecU64C_lawfulEof a ha k hk

theorem truncated_vec_pair (a : Array (Word × Word)) (ha : a.size < 2 ^ 64) (k : Nat)
    (hk : k < 8 * vecPairC.size a) :
    vecPairC.load (ofBytes ((toBytes (vecPairC.ser a)).take k)) = fault (.err .eof) :=
  pfx_bytes_eof vecPairC_lawfulEof a ha k hk

theorem truncated_bytes (bs : List UInt8) (hb : bs.length < 2 ^ 64) (k : Nat) (hk : k < 8 * bytesC.size bs) :
    bytesC.load (ofBytes ((toBytes (bytesC.ser bs)).take k)) = fault (.err .eof) :=
  pfx_bytes_eof bytesC_lawfulEof bs hb k hk

theorem truncated_string (valid : List UInt8 → Bool) (bs : List UInt8) (hb : bs.length < 2 ^ 64)
    (hv : valid bs = true) (k : Nat) (hk : k < 8 * (stringC valid).size bs) :
    (stringC valid).load (ofBytes ((toBytes ((stringC valid).ser bs)).take k)) = fault (.err .eof) :=
  pfx_bytes_eof (stringC_lawfulEof valid) bs ⟨hb, hv⟩ k hk

/-- `Option<T>` for any `T` whose codec reports `eof` on prefixes: the cut may fall in the length prefix or
anywhere inside the payload -/
theorem truncated_option {α} (c : Codec α) (W : α → Prop) (hc : LawfulP IsEof c W) (o : Option α)
    (ho : match o with
      | none => True
      | some x => W x ∧ 0 < (c.ser x).length ∧ (c.ser x).length < 2 ^ 64)
    (k : Nat) (hk : k < 8 * (optionC c).size o) :
    (optionC c).load (ofBytes ((toBytes ((optionC c).ser o)).take k)) = fault (.err .eof) := by
  refine pfx_bytes_eof (optionC_lawfulP isEof_eof hc) o ?_ k hk
  cases o <;> exact ho

theorem truncated_raw_vector (v : RawVec) (hv : v.WF) (hlen : v.len < 2 ^ 64) (k : Nat)
    (hk : k < 8 * rawVecC.size v) :
    rawVecC.load (ofBytes ((toBytes (rawVecC.ser v)).take k)) = fault (.err .eof) :=
  pfx_bytes_eof rawVecC_lawfulEof v ⟨hv, hlen⟩ k hk

theorem truncated_int_vector (v : IntVec) (hv : v.WF) (hlen : v.len < 2 ^ 64) (hw : v.width < 2 ^ 64)
    (hbits : v.data.len < 2 ^ 64) (k : Nat) (hk : k < 8 * intVecC.size v) :
    intVecC.load (ofBytes ((toBytes (intVecC.ser v)).take k)) = fault (.err .eof) :=
  pfx_bytes_eof intVecC_lawfulEof v ⟨hv, hlen, hw, hbits⟩ k hk

theorem truncated_rank_support (s : RankSup) (hs : s.samples.size < 2 ^ 64) (k : Nat)
    (hk : k < 8 * rankSupC.size s) :
    rankSupC.load (ofBytes ((toBytes (rankSupC.ser s)).take k)) = fault (.err .eof) :=
  pfx_bytes_eof rankSupC_lawfulEof s hs k hk

theorem truncated_select_support (s : SelSup) (hs : selSupWF s) (k : Nat) (hk : k < 8 * selSupC.size s) :
    selSupC.load (ofBytes ((toBytes (selSupC.ser s)).take k)) = fault (.err .eof) :=
  pfx_bytes_eof selSupC_lawfulEof s hs k hk

/-- `BitVector` with any subset of supports present (`bitVectorWF` covers all 8) -/
theorem truncated_bit_vector (b : BitVector) (hb : bitVectorWF b) (k : Nat) (hk : k < 8 * bitVectorC.size b) :
    bitVectorC.load (ofBytes ((toBytes (bitVectorC.ser b)).take k)) = fault (.err .eof) :=
  pfx_bytes_eof bitVectorC_lawfulEof b hb k hk

/-- … in particular the bitvectors the API builds, for all 8 subsets of `enable_*` calls -/
theorem truncated_built_bit_vector (v : RawVec) (hv : v.WF) (hlen : v.len < 2 ^ 62) (r s z : Bool) (k : Nat)
    (hk : k < 8 * bitVectorC.size (SupportProofs.enableSome r s z (BitVector.ofRaw v))) :
    bitVectorC.load (ofBytes ((toBytes (bitVectorC.ser
      (SupportProofs.enableSome r s z (BitVector.ofRaw v)))).take k)) = fault (.err .eof) :=
  pfx_bytes_eof bitVectorC_lawfulEof _ (SupportProofs.ofRaw_enableSome_wf hv hlen r s z) k hk

/-- the weaker reading "never a structure", for codecs only known to be `Lawful` -/
theorem truncated_load_never_ok {α} (c : Codec α) (W : α → Prop) (hc : Lawful c W) (x : α) (hx : W x)
    (k : Nat) (hk : k < 8 * c.size x) (y : α) (rest : Elems) :
    c.load (ofBytes ((toBytes (c.ser x)).take k)) ≠ ok (y, rest) :=
  pfx_bytes hc x hx k hk y rest

/-! ### skipping an optional structure that the prefix cuts short -/

/-- `skip_option` (as specified, and — by `skip_option_is_checked` — as currently coded) on every strict
byte prefix of a serialized `Option<T>`, present or absent, whatever `T` contains: `Err(UnexpectedEof)` -/
theorem truncated_skip_option {α} (c : Codec α) (W : α → Prop) (o : Option α) (ho : optWF c W o) (k : Nat)
    (hk : k < 8 * (optionC c).size o) :
    skipOptionSpec (ofBytes ((toBytes ((optionC c).ser o)).take k)) = fault (.err .eof) := by
  rw [ofBytes_take]
  exact skipOptionSpec_pfx c W o ho (k / 8) (by unfold Codec.size at hk; omega)

/-- the defect this guards against (code as first written: `io::copy(take(n*8))` stops silently): a stream
that announces 3 elements but holds 1 was skipped "successfully"; the checked version refuses it -/
theorem skip_option_old_accepted_truncated :
    skipOptionImpl [3, 7] = ok [] ∧ skipOptionSpec [3, 7] = fault (.err .eof) :=
  ⟨skipOptionImpl_truncated, skipOptionSpec_truncated⟩

/-! ### memory-mapped views over a file cut inside the structure (element granularity, both modes) -/

theorem truncated_map_vec_u64 (m : Mode) (pre : List Word) (a : Array Word) (j : Nat)
    (hj : j < vecU64C.size a) (hsz : (pre ++ vecU64C.ser a).length < U64) :
    View.slice m 1 (pre ++ (vecU64C.ser a).take j).toArray pre.length = fault (.err .eof) :=
  slice_vecU64_truncated m pre a j hj hsz

theorem truncated_map_vec_pair (m : Mode) (pre : List Word) (a : Array (Word × Word)) (j : Nat)
    (hj : j < vecPairC.size a) (hsz : (pre ++ vecPairC.ser a).length < U64) :
    View.slice m 2 (pre ++ (vecPairC.ser a).take j).toArray pre.length = fault (.err .eof) :=
  slice_vecPair_truncated m pre a j hj hsz

theorem truncated_map_bytes (m : Mode) (pre : List Word) (bs : List UInt8) (j : Nat)
    (hj : j < bytesC.size bs) (hn : bs.length + 7 < U64) (hsz : (pre ++ bytesC.ser bs).length < U64) :
    View.bytes m (pre ++ (bytesC.ser bs).take j).toArray pre.length = fault (.err .eof) :=
  bytes_bytesC_truncated m pre bs j hj hn hsz

theorem truncated_map_string (m : Mode) (valid : List UInt8 → Bool) (pre : List Word) (bs : List UInt8)
    (j : Nat) (hj : j < bytesC.size bs) (hn : bs.length + 7 < U64)
    (hsz : (pre ++ bytesC.ser bs).length < U64) :
    View.str m valid (pre ++ (bytesC.ser bs).take j).toArray pre.length = fault (.err .eof) :=
  str_bytesC_truncated m valid pre bs j hj hn hsz

theorem truncated_map_raw_vector (m : Mode) (pre : List Word) (v : RawVec) (j : Nat)
    (hj : j < rawVecC.size v) (hlen : v.len < U64) (hsz : (pre ++ rawVecC.ser v).length < U64) :
    View.raw m (pre ++ (rawVecC.ser v).take j).toArray pre.length = fault (.err .eof) :=
  raw_rawVec_truncated m pre v j hj hlen hsz

/-- `IntVectorMapper` (the repaired constructor; the as-coded one panicked at `offset = usize::MAX`, F11) -/
theorem truncated_map_int_vector (m : Mode) (pre : List Word) (v : IntVec) (j : Nat)
    (hj : j < intVecC.size v) (hlen : v.len < U64) (hw : v.width < U64) (hrlen : v.data.len < U64)
    (hsz : (pre ++ intVecC.ser v).length < U64) :
    View.int m (pre ++ (intVecC.ser v).take j).toArray pre.length = fault (.err .eof) :=
  int_intVec_truncated m pre v j hj hlen hw hrlen hsz

/-- a view requested at or past the end of the file (the structure is cut away entirely) — every offset up
to `usize::MAX`, both modes (for `IntVectorMapper` this is the repaired constructor, cf. F11) -/
theorem map_past_end_refused (m : Mode) (valid : List UInt8 → Bool) (k : Nat)
    (inner : Array Word → Nat → Outcome View) (file : Array Word)
    (offset : Nat) (h : offset ≥ file.size) :
    View.slice m k file offset = fault (.err .eof) ∧ View.bytes m file offset = fault (.err .eof) ∧
    View.str m valid file offset = fault (.err .eof) ∧ View.raw m file offset = fault (.err .eof) ∧
    View.int m file offset = fault (.err .eof) ∧ View.option m inner file offset = fault (.err .eof) :=
  ⟨slice_refuses m k file offset h, bytes_refuses m file offset h, str_refuses m valid file offset h,
    raw_refuses m file offset h, int_refuses_past_end m file offset h, option_refuses m inner file offset h⟩

/-! ### failed writes: the buffered file writers -/

/-- **`RawVectorWriter`, whole life, every write budget**: either everything succeeds — and then the file is
complete: the user header followed by the serialization of the vector of all pushed bits — or the run stops
with the documented `unwrap` panic of a push or with the `io::Error` of `close`.  A truncated file is never
reported as a success. -/
theorem raw_writer_never_reports_incomplete_file (uh : List Word) (bufLen : Nat)
    (ps : List RawWriter.Push) (hps : ∀ p ∈ ps, p.valid) (budget : Option Nat) :
    (∃ w, RawWriter.writeAll uh bufLen ps budget = ok w ∧
      w.file = uh ++ rawVecC.ser (RawVec.ofBits (RawWriter.allBits ps)) ∧
      w.body = (RawVec.ofBits (RawWriter.allBits ps)).data.toList ∧
      w.len = (RawWriter.allBits ps).length ∧ w.isOpen = false) ∨
    RawWriter.writeAll uh bufLen ps budget = fault (.panic .unwrap) ∨
    RawWriter.writeAll uh bufLen ps budget = fault (.err .other) :=
  RawWriter.history_budget uh bufLen ps hps budget

/-- **`IntVectorWriter`**, every width 1..64, every budget: the same trichotomy; a failure is only possible
with a limited sink -/
theorem int_writer_never_reports_incomplete_file (width bufLen : Nat) (xs : List Word) (h1 : 1 ≤ width)
    (h2 : width ≤ 64) (budget : Option Nat) :
    (∃ w, IntWriter.writeAll width bufLen xs budget = ok w ∧
      w.file = intVecC.ser (IntVec.ofList width (xs.map BitVec.toNat)) ∧
      w.file = [BitVec.ofNat 64 xs.length, BitVec.ofNat 64 width] ++
        rawVecC.ser (IntWriter.rawOf width xs) ∧
      w.len = xs.length ∧ w.width = width ∧ w.writer.len = xs.length * width ∧
      w.writer.isOpen = false ∧ IntWriter.close w = ok w) ∨
    (IntWriter.writeAll width bufLen xs budget = fault (.panic .unwrap) ∧ budget ≠ none) ∨
    (IntWriter.writeAll width bufLen xs budget = fault (.err .other) ∧ budget ≠ none) :=
  IntWriter.history_budget width bufLen xs h1 h2 budget

/-- a push can fail in one way only — the documented `unwrap` panic — whatever the state of the writer … -/
theorem push_fails_only_by_documented_panic (w : RawWriter) (b : Bool) (x : Word) (k : Nat) (f : Fault) :
    (w.pushBit b = fault f → f = .panic .unwrap) ∧ (w.pushInt x k = fault f → f = .panic .unwrap) :=
  ⟨RawWriter.pushBit_fault w b f, RawWriter.pushInt_fault w x k f⟩

/-- … and `close` only with an `io::Error` -/
theorem close_fails_only_with_io_error (w : RawWriter) (uh : List Word) (f : Fault)
    (h : w.closeWith uh = fault f) : f = .err .other :=
  RawWriter.closeWith_fault w uh f h

/-- exactly when: a push panics iff it fills the buffer and the sink cannot take the words of the flush;
`close` errs iff the sink cannot take the words left in the buffer (`Good` = the invariant of an open
writer, `SinkFails` = the budget is below the `bufLen / 64` words of a flush) -/
theorem write_failure_is_reported_exactly (w : RawWriter) (ho : w.isOpen = true) (hg : RawWriter.Good w)
    (b : Bool) (x : Word) (k : Nat) (hk : k ≤ 64) (uh : List Word) :
    (w.pushBit b = fault (.panic .unwrap) ↔ (w.bufLen ≤ w.buf.len + 1 ∧ RawWriter.SinkFails w)) ∧
    (w.pushInt x k = fault (.panic .unwrap) ↔
      (k ≠ 0 ∧ w.bufLen ≤ w.buf.len + k ∧ RawWriter.SinkFails w)) ∧
    (w.closeWith uh = fault (.err .other) ↔ ∃ bud, w.budget = some bud ∧ bud < w.buf.data.size) :=
  ⟨RawWriter.pushBit_fails_iff w ho hg b, RawWriter.pushInt_fails_iff w ho hg x k hk,
    RawWriter.closeWith_fails_iff w ho hg uh⟩

/-- if `close` says `Ok`, the file is complete, for any budget: the body is the canonical packing of
everything pushed and the file is the header followed by the serialization of the equivalent vector -/
theorem close_ok_means_file_complete (w : RawWriter) (ho : w.isOpen = true) (hI : RawWriter.Inv w)
    (uh : List Word) (w' : RawWriter) (h : w.closeWith uh = ok w') :
    w'.isOpen = false ∧ w'.len = w.len ∧
    w'.body = (RawVec.ofBits (RawWriter.pushed w)).data.toList ∧
    w'.header = uh ++ [BitVec.ofNat 64 w.len, BitVec.ofNat 64 ((w.len + 63) / 64)] ∧
    w'.file = uh ++ rawVecC.ser (RawVec.ofBits (RawWriter.pushed w)) :=
  have c := RawWriter.closeWith_ok w ho hI uh w' h
  ⟨c.isOpen, c.len_eq, c.body_eq, c.header_eq, c.file_eq⟩

/-! ### partial: what is covered by correspondence testing only

Full intended statement, composite structures: for `c ∈ {sparseC, rlC, wmCoreC, wmC}`, every value `x` the
library can build and every `k < 8 * c.size x`:
  `∃ e, c.load (ofBytes ((toBytes (c.ser x)).take k)) = fault (.err e)`  (an error, never a panic or a value).
Missing: these four codecs are not proven `Lawful` / `LawfulP IsEof` (only the round-trip half is proven, for
`sparseC`, `wmCoreC`, `wmC`, in C06).  Their loaders are compositions of the proven ones (`usizeC`,
`bitVectorC`, `intVecC`) followed by consistency checks that can only turn a result into
`Err(InvalidData)`, so the statement is expected to follow from the sequencing lemmas of Proofs/Codec; it is
not proven.  No `_partial` theorem is stated for them since no part of the truncation law is proven.

Full intended statement, failing sink: for every value `x`, every `Write` sink that accepts `b < 8 * size`
bytes and then returns the error `e`: `x.serialize(sink) = Err(e)`.
Missing: the model has no sink for `serialize` (`Codec.ser` is the pure element list); only the writers'
sink is modelled (budget), and for them the law is `raw_writer_never_reports_incomplete_file` /
`int_writer_never_reports_incomplete_file`. -/

/-! ### non-vacuity -/

example : (RawVec.ofBits [true, false, true]).WF ∧ (RawVec.ofBits [true, false, true]).len < 2 ^ 64 ∧
    (11 : Nat) < 8 * rawVecC.size (RawVec.ofBits [true, false, true]) := by decide
/-- one fully concrete truncation: the 24-byte file of a three-bit vector cut after 11 bytes -/
example : rawVecC.load (ofBytes ((toBytes (rawVecC.ser (RawVec.ofBits [true, false, true]))).take 11)) =
    fault (.err .eof) :=
  truncated_raw_vector _ (by decide) (by decide) 11 (by decide)
example : ∀ p ∈ [RawWriter.Push.bit true, RawWriter.Push.int 5 7], p.valid := by
  intro p hp; simp at hp; rcases hp with rfl | rfl <;> simp [RawWriter.Push.valid]

end Sds.C14
