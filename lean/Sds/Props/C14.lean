/-
C14 — Truncated input and failed writes are always reported, never accepted.

Property theorems only (helper lemmas live in Proofs/).  Quantifiers: every value of every serializable
type (integers, pairs, vectors of them, byte vectors, strings, optional values, raw / integer vectors, support
structures, plain bitvectors with any subset of supports, sparse vectors, run-length vectors, the wavelet matrix
and its core) that satisfies the type's serialization invariant × **every truncation point** `k` in
`0 .. 8*size-1` at **byte** granularity for `load` and `skip_option`, and `0 .. size-1` at element granularity for the memory-mapped views (a map is element-addressed) × every prefix `pre` of the
file before the structure; both arithmetic modes for the views and for the run-length loader `rlC m` (the
other loaders have no arithmetic);
for the writers: every buffer size, every valid sequence of pushes, every write budget (`some b` = the sink
accepts `b` more body elements and then fails; `none` = unlimited).

"Reported" is an exact statement here: the outcome is `fault (.err .eof)` — an `io::Error`, not a panic, not
`oob`, and not `ok` of some structure.  For the writers the outcome of a run that could not write all its
data is the documented `unwrap` panic of a push or the `io::Error` of `close`, never `ok`.

The composite structures (lemmas in Proofs/Codec2) are covered for every value satisfying `Codec2.sparseWF` /
`wmCoreWF` / `wmWF` / `rlWF m` (or the weaker `rlWFg m`) — the invariants are spelled out in the header of
Props/C06; every value the builders build satisfies them (`Codec2.ofValues_sparseWF`, `ofValues_wmCoreWF`,
`ofValues_wmWF`, `build_rlWF`), under file-size side conditions only.  As in C06, nothing is claimed about values
that violate the invariant (e.g. a record whose unstored parts do not match its stored parts): they are not
serializations of anything the library can hold.

**`serialize` into a failing `Write` sink** (section "failed writes: `serialize` into a sink that fails").  The sink is
modelled (Model/Sink): it accepts `b` more bytes and then fails every `write` with its error `e`; `write` may be
short, `write_all` is the loop of the standard library over `write`; `serializeTo sink chunks` is a sequence of
`write_all` calls, one per chunk, joined by `?`.  Proven, for **every codec, every value, every budget and every
way of cutting the output bytes into consecutive chunks**: `b ≥ 8*size` → `Ok(())` and the sink holds exactly the
bytes; `b < 8*size` → the result is the sink's error `e` (never `Ok`), and the sink holds exactly the first `b`
bytes — a strict prefix, which every loader refuses with `eof` (`failed_serialization_leaves_unloadable_file`).
**Assumed, not proven** (this is a model of the sink protocol, not of the call sequence of the Rust code): that each
`Serialize::serialize` implementation *is* such a sequence — `write_all` calls (never a bare `write`) on
consecutive pieces whose concatenation is the serialization, every call followed by `?`.  That is what the source
does (header, body, padding, nested structures, each through `write_all` / a nested `serialize` and `?`), and it is
observed by the correspondence check: the `ser sink <k> <name>` requests of the C14 generator
(harness/src/gen_ser.rs) run `serialize` of raw / integer / bit / sparse / run-length vectors and wavelet matrices
against the same budgeted sink (harness/src/exec_ser.rs `Sink`, transcribed as `Sink.write`) for every budget `k`
(dense up to 80 bytes, then stepped, up to the size) and compare with the closed form `k < 8*size → err, else ok
written=8*size` — which `serialize_into_failing_sink` proves to be the outcome of `serializeTo` for every
chunking.  A seeded change replacing `write_all` by `write` in `Vec<V>::serialize_body` (m_C14) is reported there;
in the model the two are told apart by `write_instead_of_write_all_is_told_apart`.
**By correspondence only**: the behaviour of real files under `RLIMIT_FSIZE` / a full disk (kernel write failures).
(Scope note: memory-mapped views exist, in the crate and in the model, only for the vector-like types of the
"memory-mapped views" section below; there is none for the composite structures, so that clause has no composite
instance.)
-/
import Sds.Proofs.Codec
import Sds.Proofs.Supports
import Sds.Proofs.Mapper
import Sds.Proofs.Writer
import Sds.Proofs.Codec2
import Sds.Proofs.LoadWF
import Sds.Generated.SerConsts
import Sds.Proofs.SerShapes
import Sds.Proofs.GenEqSkip

namespace Sds.C14
open Sds Outcome

/-- ties the skip law below to the current source: `gen_lean.py` regenerates this constant from
`serialize.rs` on every run; it is `true` iff `skip_option` verifies that as many bytes were skipped as the
length prefix announced -/
theorem skip_option_is_checked : Generated.SKIP_OPTION_CHECKED = true := by decide

/-! ### `load` of a truncated serialization: always `Err(UnexpectedEof)` -/

/-- the general form, for any codec whose element-level prefixes fail with `eof`: **every strict byte
prefix** of a serialization is refused with `eof` -/
theorem truncated_load_reports_eof {α} (c : Codec α) (W : α → Prop) (hc : LawfulP IsEof c W) (x : α)
    (hx : W x) (k : Nat) (hk : k < 8 * c.size x) :
    c.load (ofBytes ((toBytes (c.ser x)).take k)) = fault (.err .eof) :=
  pfx_bytes_eof hc x hx k hk

/-- … which every proven codec is -/
theorem all_codecs_report_eof (valid : List UInt8 → Bool) :
    LawfulP IsEof u64C (fun _ => True) ∧ LawfulP IsEof usizeC (fun n => n < 2 ^ 64) ∧
    LawfulP IsEof pairC (fun _ => True) ∧
    LawfulP IsEof vecU64C (fun a => a.size < 2 ^ 64) ∧ LawfulP IsEof vecPairC (fun a => a.size < 2 ^ 64) ∧
    LawfulP IsEof bytesC (fun bs => bs.length < 2 ^ 64) ∧
    LawfulP IsEof (stringC valid) (fun bs => bs.length < 2 ^ 64 ∧ valid bs = true) ∧
    LawfulP IsEof rawVecC rawVecWF ∧ LawfulP IsEof intVecC intVecWF ∧
    LawfulP IsEof rankSupC rankSupWF ∧ LawfulP IsEof selSupC selSupWF ∧
    LawfulP IsEof bitVectorC bitVectorWF :=
  ⟨u64C_lawfulEof, usizeC_lawfulEof, pairC_lawfulEof, vecU64C_lawfulEof, vecPairC_lawfulEof,
    bytesC_lawfulEof, stringC_lawfulEof valid, rawVecC_lawfulEof, intVecC_lawfulEof, rankSupC_lawfulEof,
    selSupC_lawfulEof, bitVectorC_lawfulEof⟩

/-! the instances, spelled out -/

theorem truncated_u64 (x : Word) (k : Nat) (hk : k < 8) :
    u64C.load (ofBytes ((toBytes (u64C.ser x)).take k)) = fault (.err .eof) :=
  pfx_bytes_eof u64C_lawfulEof x trivial k hk

theorem truncated_pair (p : Word × Word) (k : Nat) (hk : k < 16) :
    pairC.load (ofBytes ((toBytes (pairC.ser p)).take k)) = fault (.err .eof) :=
  pfx_bytes_eof pairC_lawfulEof p trivial k hk

theorem truncated_vec_u64 (a : Array Word) (ha : a.size < 2 ^ 64) (k : Nat) (hk : k < 8 * vecU64C.size a) :
    vecU64C.load (ofBytes ((toBytes (vecU64C.ser a)).take k)) = fault (.err .eof) :=
  pfx_bytes_eof vecU64C_lawfulEof a ha k hk

theorem truncated_vec_pair (a : Array (Word × Word)) (ha : a.size < 2 ^ 64) (k : Nat)
    (hk : k < 8 * vecPairC.size a) :
    vecPairC.load (ofBytes ((toBytes (vecPairC.ser a)).take k)) = fault (.err .eof) :=
  pfx_bytes_eof vecPairC_lawfulEof a ha k hk

theorem truncated_bytes (bs : List UInt8) (hb : bs.length < 2 ^ 64) (k : Nat) (hk : k < 8 * bytesC.size bs) :
    bytesC.load (ofBytes ((toBytes (bytesC.ser bs)).take k)) = fault (.err .eof) :=
  pfx_bytes_eof bytesC_lawfulEof bs hb k hk

theorem truncated_string (valid : List UInt8 → Bool) (bs : List UInt8) (hb : bs.length < 2 ^ 64)
    (hv : valid bs = true) (k : Nat) (hk : k < 8 * (stringC valid).size bs) :
    (stringC valid).load (ofBytes ((toBytes ((stringC valid).ser bs)).take k)) = fault (.err .eof) :=
  pfx_bytes_eof (stringC_lawfulEof valid) bs ⟨hb, hv⟩ k hk

/-- `Option<T>` for any `T` whose codec reports `eof` on prefixes: the cut may fall in the length prefix or
anywhere inside the payload -/
theorem truncated_option {α} (c : Codec α) (W : α → Prop) (hc : LawfulP IsEof c W) (o : Option α)
    (ho : match o with
      | none => True
      | some x => W x ∧ 0 < (c.ser x).length ∧ (c.ser x).length < 2 ^ 64)
    (k : Nat) (hk : k < 8 * (optionC c).size o) :
    (optionC c).load (ofBytes ((toBytes ((optionC c).ser o)).take k)) = fault (.err .eof) := by
  refine pfx_bytes_eof (optionC_lawfulP isEof_eof hc) o ?_ k hk
  cases o <;> exact ho

theorem truncated_raw_vector (v : RawVec) (hv : v.WF) (hlen : v.len < 2 ^ 64) (k : Nat)
    (hk : k < 8 * rawVecC.size v) :
    rawVecC.load (ofBytes ((toBytes (rawVecC.ser v)).take k)) = fault (.err .eof) :=
  pfx_bytes_eof rawVecC_lawfulEof v ⟨hv, hlen⟩ k hk

theorem truncated_int_vector (v : IntVec) (hv : v.WF) (hlen : v.len < 2 ^ 64) (hw : v.width < 2 ^ 64)
    (hbits : v.data.len < 2 ^ 64) (k : Nat) (hk : k < 8 * intVecC.size v) :
    intVecC.load (ofBytes ((toBytes (intVecC.ser v)).take k)) = fault (.err .eof) :=
  pfx_bytes_eof intVecC_lawfulEof v ⟨hv, hlen, hw, hbits⟩ k hk

theorem truncated_rank_support (s : RankSup) (hs : s.samples.size < 2 ^ 64) (k : Nat)
    (hk : k < 8 * rankSupC.size s) :
    rankSupC.load (ofBytes ((toBytes (rankSupC.ser s)).take k)) = fault (.err .eof) :=
  pfx_bytes_eof rankSupC_lawfulEof s hs k hk

theorem truncated_select_support (s : SelSup) (hs : selSupWF s) (k : Nat) (hk : k < 8 * selSupC.size s) :
    selSupC.load (ofBytes ((toBytes (selSupC.ser s)).take k)) = fault (.err .eof) :=
  pfx_bytes_eof selSupC_lawfulEof s hs k hk

/-- `BitVector` with any subset of supports present (`bitVectorWF` covers all 8) -/
theorem truncated_bit_vector (b : BitVector) (hb : bitVectorWF b) (k : Nat) (hk : k < 8 * bitVectorC.size b) :
    bitVectorC.load (ofBytes ((toBytes (bitVectorC.ser b)).take k)) = fault (.err .eof) :=
  pfx_bytes_eof bitVectorC_lawfulEof b hb k hk

/-- … in particular the bitvectors the API builds, for all 8 subsets of `enable_*` calls -/
theorem truncated_built_bit_vector (v : RawVec) (hv : v.WF) (hlen : v.len < 2 ^ 62) (r s z : Bool) (k : Nat)
    (hk : k < 8 * bitVectorC.size (SupportProofs.enableSome r s z (BitVector.ofRaw v))) :
    bitVectorC.load (ofBytes ((toBytes (bitVectorC.ser
      (SupportProofs.enableSome r s z (BitVector.ofRaw v)))).take k)) = fault (.err .eof) :=
  pfx_bytes_eof bitVectorC_lawfulEof _ (SupportProofs.ofRaw_enableSome_wf hv hlen r s z) k hk

/-- the weaker reading "never a structure", for codecs only known to be `Lawful` -/
theorem truncated_load_never_ok {α} (c : Codec α) (W : α → Prop) (hc : Lawful c W) (x : α) (hx : W x)
    (k : Nat) (hk : k < 8 * c.size x) (y : α) (rest : Elems) :
    c.load (ofBytes ((toBytes (c.ser x)).take k)) ≠ ok (y, rest) :=
  pfx_bytes hc x hx k hk y rest

/-! ### composite structures: sparse vector, run-length vector, wavelet-matrix core, wavelet matrix

For **every value satisfying the serialization invariant** of its type (`Codec2.sparseWF`, `Codec2.wmCoreWF`,
`Codec2.wmWF`, `Codec2.rlWF m` / `Codec2.rlWFg m` — spelled out in the header of Props/C06), then for everything
the builders build.  Element level: every `j < size`; byte level: every `k < 8 * size`.  The loaders of these
types run consistency checks (`Err(InvalidData)`) and, for the run-length vector, rebuild the sample indexes with
checked arithmetic; on a truncated file none of that is reached: the outcome is `Err(UnexpectedEof)`. -/

/-- the four composite codecs obey the strong prefix law, so the generic statements (`truncated_load_reports_eof`,
`truncated_option`, `truncated_skip_option`) apply to them and to `Option`s of them -/
theorem composite_codecs_report_eof (m : Mode) :
    LawfulP IsEof sparseC Codec2.sparseWF ∧ LawfulP IsEof wmCoreC Codec2.wmCoreWF ∧
    LawfulP IsEof wmC Codec2.wmWF ∧ LawfulP IsEof (rlC m) (Codec2.rlWF m) ∧
    LawfulP IsEof (rlC m) (Codec2.rlWFg m) ∧ (∀ v, Codec2.rlWF m v → Codec2.rlWFg m v) :=
  ⟨Codec2.sparseC_lawfulEof, Codec2.wmCoreC_lawfulEof, Codec2.wmC_lawfulEof, Codec2.rlC_lawfulEof m,
    Codec2.rlC_lawfulEof_g m, fun _ h => h.general⟩

theorem truncated_sparse_vector (s : Sparse) (hs : Codec2.sparseWF s) :
    (∀ j, j < sparseC.size s → sparseC.load ((sparseC.ser s).take j) = fault (.err .eof)) ∧
    (∀ k, k < 8 * sparseC.size s →
      sparseC.load (ofBytes ((toBytes (sparseC.ser s)).take k)) = fault (.err .eof)) :=
  ⟨fun j hj => Codec2.sparseC_lawfulEof.pfx_eof s j hs hj, fun k hk => Codec2.sparse_pfx_bytes_eof s hs k hk⟩

theorem truncated_wavelet_matrix_core (c : WMCore) (hc : Codec2.wmCoreWF c) :
    (∀ j, j < wmCoreC.size c → wmCoreC.load ((wmCoreC.ser c).take j) = fault (.err .eof)) ∧
    (∀ k, k < 8 * wmCoreC.size c →
      wmCoreC.load (ofBytes ((toBytes (wmCoreC.ser c)).take k)) = fault (.err .eof)) :=
  ⟨fun j hj => Codec2.wmCoreC_lawfulEof.pfx_eof c j hc hj, fun k hk => Codec2.wmCore_pfx_bytes_eof c hc k hk⟩

theorem truncated_wavelet_matrix (w : WM) (hw : Codec2.wmWF w) :
    (∀ j, j < wmC.size w → wmC.load ((wmC.ser w).take j) = fault (.err .eof)) ∧
    (∀ k, k < 8 * wmC.size w → wmC.load (ofBytes ((toBytes (wmC.ser w)).take k)) = fault (.err .eof)) :=
  ⟨fun j hj => Codec2.wmC_lawfulEof.pfx_eof w j hw hj, fun k hk => Codec2.wm_pfx_bytes_eof w hw k hk⟩

/-- `RLVector`, both modes, under the weaker invariant `rlWFg m` (hence under `rlWF m`) -/
theorem truncated_run_length_vector (m : Mode) (v : RL) (hv : Codec2.rlWFg m v) :
    (∀ j, j < (rlC m).size v → (rlC m).load (((rlC m).ser v).take j) = fault (.err .eof)) ∧
    (∀ k, k < 8 * (rlC m).size v →
      (rlC m).load (ofBytes ((toBytes ((rlC m).ser v)).take k)) = fault (.err .eof)) :=
  ⟨fun j hj => (Codec2.rlC_lawfulEof_g m).pfx_eof v j hv hj,
    fun k hk => pfx_bytes_eof (Codec2.rlC_lawfulEof_g m) v hv k hk⟩

/-- the four together, byte level (this is the statement formerly listed as missing) -/
theorem truncated_composite_structures (m : Mode) (s : Sparse) (c : WMCore) (w : WM) (v : RL)
    (hs : Codec2.sparseWF s) (hc : Codec2.wmCoreWF c) (hw : Codec2.wmWF w) (hv : Codec2.rlWF m v) :
    (∀ k, k < 8 * sparseC.size s →
      sparseC.load (ofBytes ((toBytes (sparseC.ser s)).take k)) = fault (.err .eof)) ∧
    (∀ k, k < 8 * wmCoreC.size c →
      wmCoreC.load (ofBytes ((toBytes (wmCoreC.ser c)).take k)) = fault (.err .eof)) ∧
    (∀ k, k < 8 * wmC.size w → wmC.load (ofBytes ((toBytes (wmC.ser w)).take k)) = fault (.err .eof)) ∧
    (∀ k, k < 8 * (rlC m).size v →
      (rlC m).load (ofBytes ((toBytes ((rlC m).ser v)).take k)) = fault (.err .eof)) :=
  ⟨(truncated_sparse_vector s hs).2, (truncated_wavelet_matrix_core c hc).2, (truncated_wavelet_matrix w hw).2,
    (truncated_run_length_vector m v hv.general).2⟩

/-- a sparse vector, a run-length vector and a wavelet matrix written back to back and loaded in sequence: every
strict byte prefix of the whole stream — wherever the cut falls, in whichever structure — is refused with `eof` -/
theorem truncated_composite_stream (m : Mode) (s : Sparse) (v : RL) (w : WM)
    (hs : Codec2.sparseWF s) (hv : Codec2.rlWF m v) (hw : Codec2.wmWF w) (k : Nat)
    (hk : k < 8 * (sparseC.size s + ((rlC m).size v + wmC.size w))) :
    (seqC sparseC (seqC (rlC m) wmC)).load
      (ofBytes ((toBytes (sparseC.ser s ++ ((rlC m).ser v ++ wmC.ser w))).take k)) = fault (.err .eof) :=
  Codec2.composite_pfx_bytes_eof m s v w hs hv hw k (by
    simp only [Codec.size] at hk; simpa only [List.length_append] using hk)

/-! #### everything the builders build (hypotheses as in the builder-level theorems of Props/C06) -/

/-- `SparseVector` built from sorted positions (set or multiset mode, every admissible low width) -/
theorem truncated_built_sparse_vector (w n : Nat) (multi : Bool) (P : List Nat) (hw1 : 1 ≤ w)
    (hw : w ≤ 63) (hn : n < 2 ^ 64) (hm : P.length < 2 ^ 63)
    (hsorted : if multi then sortedLe P = true else sortedStrict P = true) (hbound : ∀ p ∈ P, p < n)
    (hhigh : P.length + Sparse.getBuckets n w < 2 ^ 63) (hlow : P.length * w < 2 ^ 64) :
    ∃ s, Sparse.ofValues w n multi P = ok s ∧
      (∀ j, j < sparseC.size s → sparseC.load ((sparseC.ser s).take j) = fault (.err .eof)) ∧
      (∀ k, k < 8 * sparseC.size s →
        sparseC.load (ofBytes ((toBytes (sparseC.ser s)).take k)) = fault (.err .eof)) := by
  obtain ⟨s, h1, _, hwf⟩ := Codec2.ofValues_sparseWF w n multi P hw1 hw hn hm hsorted hbound hhigh hlow
  exact ⟨s, h1, truncated_sparse_vector s hwf⟩

/-- the core built by `WaveletMatrix::from` -/
theorem truncated_built_wavelet_matrix_core (V : List Nat) (hlen : V.length < 2 ^ 63) :
    (∀ j, j < wmCoreC.size (WMCore.ofValues V) →
      wmCoreC.load ((wmCoreC.ser (WMCore.ofValues V)).take j) = fault (.err .eof)) ∧
    (∀ k, k < 8 * wmCoreC.size (WMCore.ofValues V) →
      wmCoreC.load (ofBytes ((toBytes (wmCoreC.ser (WMCore.ofValues V))).take k)) = fault (.err .eof)) :=
  truncated_wavelet_matrix_core _ (Codec2.ofValues_wmCoreWF V hlen)

/-- the wavelet matrix built by `WaveletMatrix::from` -/
theorem truncated_built_wavelet_matrix (V : List Nat) (hV : ∀ v, v ∈ V → v < 2 ^ 64)
    (hlen : V.length < 2 ^ 63) (hfirst : (V.foldl max 0 + 1) * 64 < 2 ^ 64) :
    (∀ j, j < wmC.size (WM.ofValues V) →
      wmC.load ((wmC.ser (WM.ofValues V)).take j) = fault (.err .eof)) ∧
    (∀ k, k < 8 * wmC.size (WM.ofValues V) →
      wmC.load (ofBytes ((toBytes (wmC.ser (WM.ofValues V))).take k)) = fault (.err .eof)) :=
  truncated_wavelet_matrix _ (Codec2.ofValues_wmWF V hV hlen hfirst)

/-- the run-length vector converted from the builder reached by **any accepted history** of `try_set` /
`set_len` / `set_bit` calls, both modes -/
theorem truncated_built_run_length_vector (m : Mode) (calls : List RL.BCall)
    (hc : ∀ c ∈ calls, RL.callArgsOk c) (b : RLBuilder) (hb : RL.runBCalls m calls {} = ok b) (v : RL)
    (hv : RL.ofBuilder m b = ok v) (hsize : 128 * v.samples.len < 2 ^ 64) :
    (∀ j, j < (rlC m).size v → (rlC m).load (((rlC m).ser v).take j) = fault (.err .eof)) ∧
    (∀ k, k < 8 * (rlC m).size v →
      (rlC m).load (ofBytes ((toBytes ((rlC m).ser v)).take k)) = fault (.err .eof)) :=
  truncated_run_length_vector m v (Codec2.build_rlWF m calls hc b hb v hv hsize).general

/-! ### skipping an optional structure that the prefix cuts short -/

/-- `skip_option` (as specified, and — by `skip_option_is_checked` — as currently coded) on every strict
byte prefix of a serialized `Option<T>`, present or absent, whatever `T` contains: `Err(UnexpectedEof)` -/
theorem truncated_skip_option {α} (c : Codec α) (W : α → Prop) (o : Option α) (ho : optWF c W o) (k : Nat)
    (hk : k < 8 * (optionC c).size o) :
    skipOptionSpec (ofBytes ((toBytes ((optionC c).ser o)).take k)) = fault (.err .eof) := by
  rw [ofBytes_take]
  exact skipOptionSpec_pfx c W o ho (k / 8) (by unfold Codec.size at hk; omega)

/-- the defect this guards against (code as first written: `io::copy(take(n*8))` stops silently): a stream
that announces 3 elements but holds 1 was skipped "successfully"; the checked version refuses it -/
theorem skip_option_old_accepted_truncated :
    skipOptionImpl [3, 7] = ok [] ∧ skipOptionSpec [3, 7] = fault (.err .eof) :=
  ⟨skipOptionImpl_truncated, skipOptionSpec_truncated⟩

/-! ### memory-mapped views over a file cut inside the structure (element granularity, both modes) -/

theorem truncated_map_vec_u64 (m : Mode) (pre : List Word) (a : Array Word) (j : Nat)
    (hj : j < vecU64C.size a) (hsz : (pre ++ vecU64C.ser a).length < U64) :
    View.slice m 1 (pre ++ (vecU64C.ser a).take j).toArray pre.length = fault (.err .eof) :=
  slice_vecU64_truncated m pre a j hj hsz

theorem truncated_map_vec_pair (m : Mode) (pre : List Word) (a : Array (Word × Word)) (j : Nat)
    (hj : j < vecPairC.size a) (hsz : (pre ++ vecPairC.ser a).length < U64) :
    View.slice m 2 (pre ++ (vecPairC.ser a).take j).toArray pre.length = fault (.err .eof) :=
  slice_vecPair_truncated m pre a j hj hsz

theorem truncated_map_bytes (m : Mode) (pre : List Word) (bs : List UInt8) (j : Nat)
    (hj : j < bytesC.size bs) (hn : bs.length + 7 < U64) (hsz : (pre ++ bytesC.ser bs).length < U64) :
    View.bytes m (pre ++ (bytesC.ser bs).take j).toArray pre.length = fault (.err .eof) :=
  bytes_bytesC_truncated m pre bs j hj hn hsz

theorem truncated_map_string (m : Mode) (valid : List UInt8 → Bool) (pre : List Word) (bs : List UInt8)
    (j : Nat) (hj : j < bytesC.size bs) (hn : bs.length + 7 < U64)
    (hsz : (pre ++ bytesC.ser bs).length < U64) :
    View.str m valid (pre ++ (bytesC.ser bs).take j).toArray pre.length = fault (.err .eof) :=
  str_bytesC_truncated m valid pre bs j hj hn hsz

theorem truncated_map_raw_vector (m : Mode) (pre : List Word) (v : RawVec) (j : Nat)
    (hj : j < rawVecC.size v) (hlen : v.len < U64) (hsz : (pre ++ rawVecC.ser v).length < U64) :
    View.raw m (pre ++ (rawVecC.ser v).take j).toArray pre.length = fault (.err .eof) :=
  raw_rawVec_truncated m pre v j hj hlen hsz

/-- `IntVectorMapper` (the repaired constructor; the as-coded one panicked at `offset = usize::MAX`, F11) -/
theorem truncated_map_int_vector (m : Mode) (pre : List Word) (v : IntVec) (j : Nat)
    (hj : j < intVecC.size v) (hlen : v.len < U64) (hw : v.width < U64) (hrlen : v.data.len < U64)
    (hsz : (pre ++ intVecC.ser v).length < U64) :
    View.int m (pre ++ (intVecC.ser v).take j).toArray pre.length = fault (.err .eof) :=
  int_intVec_truncated m pre v j hj hlen hw hrlen hsz

/-- a view requested at or past the end of the file (the structure is cut away entirely) — every offset up
to `usize::MAX`, both modes (for `IntVectorMapper` this is the repaired constructor, cf. F11) -/
theorem map_past_end_refused (m : Mode) (valid : List UInt8 → Bool) (k : Nat)
    (inner : Array Word → Nat → Outcome View) (file : Array Word)
    (offset : Nat) (h : offset ≥ file.size) :
    View.slice m k file offset = fault (.err .eof) ∧ View.bytes m file offset = fault (.err .eof) ∧
    View.str m valid file offset = fault (.err .eof) ∧ View.raw m file offset = fault (.err .eof) ∧
    View.int m file offset = fault (.err .eof) ∧ View.option m inner file offset = fault (.err .eof) :=
  ⟨slice_refuses m k file offset h, bytes_refuses m file offset h, str_refuses m valid file offset h,
    raw_refuses m file offset h, int_refuses_past_end m file offset h, option_refuses m inner file offset h⟩

/-! ### failed writes: the buffered file writers -/

/-- **`RawVectorWriter`, whole life, every write budget**: either everything succeeds — and then the file is
complete: the user header followed by the serialization of the vector of all pushed bits — or the run stops
with the documented `unwrap` panic of a push or with the `io::Error` of `close`.  A truncated file is never
reported as a success. -/
theorem raw_writer_never_reports_incomplete_file (uh : List Word) (bufLen : Nat)
    (ps : List RawWriter.Push) (hps : ∀ p ∈ ps, p.valid) (budget : Option Nat) :
    (∃ w, RawWriter.writeAll uh bufLen ps budget = ok w ∧
      w.file = uh ++ rawVecC.ser (RawVec.ofBits (RawWriter.allBits ps)) ∧
      w.body = (RawVec.ofBits (RawWriter.allBits ps)).data.toList ∧
      w.len = (RawWriter.allBits ps).length ∧ w.isOpen = false) ∨
    RawWriter.writeAll uh bufLen ps budget = fault (.panic .unwrap) ∨
    RawWriter.writeAll uh bufLen ps budget = fault (.err .other) :=
  RawWriter.history_budget uh bufLen ps hps budget

/-- **`IntVectorWriter`**, every width 1..64, every budget: the same trichotomy; a failure is only possible
with a limited sink -/
theorem int_writer_never_reports_incomplete_file (width bufLen : Nat) (xs : List Word) (h1 : 1 ≤ width)
    (h2 : width ≤ 64) (budget : Option Nat) :
    (∃ w, IntWriter.writeAll width bufLen xs budget = ok w ∧
      w.file = intVecC.ser (IntVec.ofList width (xs.map BitVec.toNat)) ∧
      w.file = [BitVec.ofNat 64 xs.length, BitVec.ofNat 64 width] ++
        rawVecC.ser (IntWriter.rawOf width xs) ∧
      w.len = xs.length ∧ w.width = width ∧ w.writer.len = xs.length * width ∧
      w.writer.isOpen = false ∧ IntWriter.close w = ok w) ∨
    (IntWriter.writeAll width bufLen xs budget = fault (.panic .unwrap) ∧ budget ≠ none) ∨
    (IntWriter.writeAll width bufLen xs budget = fault (.err .other) ∧ budget ≠ none) :=
  IntWriter.history_budget width bufLen xs h1 h2 budget

/-- a push can fail in one way only — the documented `unwrap` panic — whatever the state of the writer … -/
theorem push_fails_only_by_documented_panic (w : RawWriter) (b : Bool) (x : Word) (k : Nat) (f : Fault) :
    (w.pushBit b = fault f → f = .panic .unwrap) ∧ (w.pushInt x k = fault f → f = .panic .unwrap) :=
  ⟨RawWriter.pushBit_fault w b f, RawWriter.pushInt_fault w x k f⟩

/-- … and `close` only with an `io::Error` -/
theorem close_fails_only_with_io_error (w : RawWriter) (uh : List Word) (f : Fault)
    (h : w.closeWith uh = fault f) : f = .err .other :=
  RawWriter.closeWith_fault w uh f h

/-- exactly when: a push panics iff it fills the buffer and the sink cannot take the words of the flush;
`close` errs iff the sink cannot take the words left in the buffer (`Good` = the invariant of an open
writer, `SinkFails` = the budget is below the `bufLen / 64` words of a flush) -/
theorem write_failure_is_reported_exactly (w : RawWriter) (ho : w.isOpen = true) (hg : RawWriter.Good w)
    (b : Bool) (x : Word) (k : Nat) (hk : k ≤ 64) (uh : List Word) :
    (w.pushBit b = fault (.panic .unwrap) ↔ (w.bufLen ≤ w.buf.len + 1 ∧ RawWriter.SinkFails w)) ∧
    (w.pushInt x k = fault (.panic .unwrap) ↔
      (k ≠ 0 ∧ w.bufLen ≤ w.buf.len + k ∧ RawWriter.SinkFails w)) ∧
    (w.closeWith uh = fault (.err .other) ↔ ∃ bud, w.budget = some bud ∧ bud < w.buf.data.size) :=
  ⟨RawWriter.pushBit_fails_iff w ho hg b, RawWriter.pushInt_fails_iff w ho hg x k hk,
    RawWriter.closeWith_fails_iff w ho hg uh⟩

/-- if `close` says `Ok`, the file is complete, for any budget: the body is the canonical packing of
everything pushed and the file is the header followed by the serialization of the equivalent vector -/
theorem close_ok_means_file_complete (w : RawWriter) (ho : w.isOpen = true) (hI : RawWriter.Inv w)
    (uh : List Word) (w' : RawWriter) (h : w.closeWith uh = ok w') :
    w'.isOpen = false ∧ w'.len = w.len ∧
    w'.body = (RawVec.ofBits (RawWriter.pushed w)).data.toList ∧
    w'.header = uh ++ [BitVec.ofNat 64 w.len, BitVec.ofNat 64 ((w.len + 63) / 64)] ∧
    w'.file = uh ++ rawVecC.ser (RawVec.ofBits (RawWriter.pushed w)) :=
  have c := RawWriter.closeWith_ok w ho hI uh w' h
  ⟨c.isOpen, c.len_eq, c.body_eq, c.header_eq, c.file_eq⟩

/-! ### failed writes: `serialize` into a sink that fails after any number of bytes

The sink model is Model/Sink (`Sink.write`, `Sink.writeAll`, `Sink.serializeTo`); see the header for what is
assumed about the Rust code (that `serialize` is a `?`-joined sequence of `write_all` calls on consecutive pieces).
The statements are generic in the codec, hence hold for every serializable type of the model — integers, pairs,
vectors, byte vectors, strings, options, raw / integer vectors, supports, bitvectors, sparse / run-length vectors,
wavelet matrix and core — and need **no** invariant of the value. -/

/-- `write_all` on the budgeted sink: all of the buffer or the sink's error, and in the second case exactly the
first `budget` bytes have been written (the partial write) -/
theorem write_all_all_or_error (s : Sink) (buf : List UInt8) :
    (buf.length ≤ s.budget →
      s.writeAll buf = (⟨s.content ++ buf, s.budget - buf.length, s.e⟩, ok ())) ∧
    (s.budget < buf.length →
      s.writeAll buf = (⟨s.content ++ buf.take s.budget, 0, s.e⟩, fault (.err s.e))) := by
  rw [LoadWF.writeAll_eq]
  exact ⟨fun h => by rw [if_pos h], fun h => by rw [if_neg (by omega)]⟩

/-- **when the output sink fails after any number of bytes, serialization returns that error**: for every codec
`c`, value `x`, partition `chunks` of the bytes of `c.ser x`, byte budget `b` and sink error `e` —
`b ≥ 8*size` → `Ok(())`, the sink holds exactly the bytes (and `b - 8*size` budget is left);
`b < 8*size` → the result is `Err(e)`, never `Ok`, and the sink holds exactly the first `b` bytes: a strict prefix -/
theorem serialize_into_failing_sink {α} (c : Codec α) (x : α) (chunks : List (List UInt8))
    (hchunks : chunks.flatten = toBytes (c.ser x)) (b : Nat) (e : ErrKind) :
    (8 * c.size x ≤ b →
      Sink.serializeTo (Sink.new b e) chunks = (⟨toBytes (c.ser x), b - 8 * c.size x, e⟩, ok ())) ∧
    (b < 8 * c.size x →
      (Sink.serializeTo (Sink.new b e) chunks).2 = fault (.err e) ∧
      (Sink.serializeTo (Sink.new b e) chunks).1.content = (toBytes (c.ser x)).take b ∧
      (Sink.serializeTo (Sink.new b e) chunks).1.content.length = b ∧
      (Sink.serializeTo (Sink.new b e) chunks).1.content.length < (toBytes (c.ser x)).length) :=
  LoadWF.serialize_to_budget_sink c x chunks hchunks b e

/-- … in particular the outcome does not depend on how the implementation cuts its output into `write_all` calls -/
theorem sink_outcome_independent_of_chunking {α} (c : Codec α) (x : α) (chunks chunks' : List (List UInt8))
    (h : chunks.flatten = toBytes (c.ser x)) (h' : chunks'.flatten = toBytes (c.ser x)) (b : Nat) (e : ErrKind) :
    Sink.serializeTo (Sink.new b e) chunks = Sink.serializeTo (Sink.new b e) chunks' := by
  rw [LoadWF.serializeTo_eq, LoadWF.serializeTo_eq, h, h']

/-- … and what a failed serialization left in the sink is refused by the loader with `eof` (for every codec with the
strong prefix law: all of `all_codecs_report_eof`, `composite_codecs_report_eof`) -/
theorem failed_serialization_leaves_unloadable_file {α} (c : Codec α) (W : α → Prop) (hc : LawfulP IsEof c W)
    (x : α) (hx : W x) (chunks : List (List UInt8)) (hchunks : chunks.flatten = toBytes (c.ser x))
    (b : Nat) (e : ErrKind) (hb : b < 8 * c.size x) :
    (Sink.serializeTo (Sink.new b e) chunks).2 = fault (.err e) ∧
    c.load (ofBytes (Sink.serializeTo (Sink.new b e) chunks).1.content) = fault (.err .eof) := by
  obtain ⟨h1, h2, _, _⟩ := (LoadWF.serialize_to_budget_sink c x chunks hchunks b e).2 hb
  exact ⟨h1, by rw [h2]; exact pfx_bytes_eof hc x hx b hb⟩

/-- two partitions every serialization has: one `write_all` for the whole output, and one per 8-byte element -/
theorem whole_and_elementwise_chunkings {α} (c : Codec α) (x : α) :
    [toBytes (c.ser x)].flatten = toBytes (c.ser x) ∧
    ((c.ser x).map wordToBytes).flatten = toBytes (c.ser x) :=
  ⟨by simp, by simp [toBytes, List.flatMap_def]⟩

/-- the coding error the sink model must tell apart: with `write` in place of `write_all` (returned count ignored)
a short write goes unreported — `Ok(())` with a byte missing — whereas the `write_all` sequence on the same sink
returns the error -/
theorem write_instead_of_write_all_is_told_apart :
    Sink.serializeToWrite (Sink.new 3 .other) [[1, 2], [3, 4]] = (⟨[1, 2, 3], 0, .other⟩, ok ()) ∧
    Sink.serializeTo (Sink.new 3 .other) [[1, 2], [3, 4]] = (⟨[1, 2, 3], 0, .other⟩, fault (.err .other)) := by
  decide

/-! ### what is covered by correspondence testing only

The truncation law of the composite structures and the failing-sink law of `serialize`, formerly listed here, are
proven above.  For the sink law the proof is about the sink protocol (`serializeTo` over any chunking); that the Rust
`serialize` implementations follow it — `write_all`, consecutive pieces, `?` after every call — is an assumption
about the code that no theorem covers: it is observed by the `ser sink` requests of the correspondence check on
every budget for the generated structures (see the header).  Real kernel write failures (`RLIMIT_FSIZE`, full
disk) are exercised by the check in a child process only. -/

/-! ### non-vacuity -/

example : (RawVec.ofBits [true, false, true]).WF ∧ (RawVec.ofBits [true, false, true]).len < 2 ^ 64 ∧
    (11 : Nat) < 8 * rawVecC.size (RawVec.ofBits [true, false, true]) := by decide
/-- one fully concrete truncation: the 24-byte file of a three-bit vector cut after 11 bytes -/
example : rawVecC.load (ofBytes ((toBytes (rawVecC.ser (RawVec.ofBits [true, false, true]))).take 11)) =
    fault (.err .eof) :=
  truncated_raw_vector _ (by decide) (by decide) 11 (by decide)
/-- a three-bit raw vector (24 bytes) written element by element into sinks of budget 24 and 11 -/
example : Sink.serializeTo (Sink.new 24 .other) ((rawVecC.ser (RawVec.ofBits [true, false, true])).map wordToBytes) =
      (⟨toBytes (rawVecC.ser (RawVec.ofBits [true, false, true])), 0, .other⟩, ok ()) ∧
    (Sink.serializeTo (Sink.new 11 .other)
      ((rawVecC.ser (RawVec.ofBits [true, false, true])).map wordToBytes)).2 = fault (.err .other) := by
  decide
example : ∀ p ∈ [RawWriter.Push.bit true, RawWriter.Push.int 5 7], p.valid := by
  intro p hp; simp at hp; rcases hp with rfl | rfl <;> simp [RawWriter.Push.valid]

/-- a sparse vector meeting `sparseWF` (3 of 10 positions, low width 2), and **all** 328 strict byte prefixes of
its 41-element file refused with `eof`, by evaluation -/
example : ∃ s, Sparse.ofValues 2 10 false [0, 5, 9] = ok s ∧ Codec2.sparseWF s :=
  have ⟨s, h, _, hwf⟩ := Codec2.ofValues_sparseWF 2 10 false [0, 5, 9] (by decide) (by decide) (by decide)
    (by decide) (by decide) (by decide) (by decide) (by decide)
  ⟨s, h, hwf⟩
example : (do let s ← Sparse.ofValues 2 10 false [0, 5, 9]
              return (8 * sparseC.size s, (List.range (8 * sparseC.size s)).all fun k =>
                decide (sparseC.load (ofBytes ((toBytes (sparseC.ser s)).take k)) = fault (.err .eof)))) =
    ok (328, true) := by decide +kernel
/-- a wavelet matrix and its core meeting `wmWF` / `wmCoreWF`; the 77-element file of the core cut after 100
bytes, by evaluation -/
example : Codec2.wmWF (WM.ofValues [3, 1, 0, 2]) ∧ Codec2.wmCoreWF (WMCore.ofValues [3, 1, 0, 2]) :=
  ⟨Codec2.ofValues_wmWF _ (by decide) (by decide) (by decide), Codec2.ofValues_wmCoreWF _ (by decide)⟩
example : (100 : Nat) < 8 * wmCoreC.size (WMCore.ofValues [3, 1, 0, 2]) ∧
    wmCoreC.load (ofBytes ((toBytes (wmCoreC.ser (WMCore.ofValues [3, 1, 0, 2]))).take 100)) =
      fault (.err .eof) := by decide +kernel
/-- a run-length vector meeting `rlWF`, both modes: the accepted history `set_len(10); try_set(10, 5)` satisfies
all hypotheses of `truncated_built_run_length_vector` -/
example (m : Mode) : ∃ b v, (∀ c ∈ [RL.BCall.setLen 10, .set 10 5], RL.callArgsOk c) ∧
    RL.runBCalls m [.setLen 10, .set 10 5] {} = ok b ∧ RL.ofBuilder m b = ok v ∧
    128 * v.samples.len < 2 ^ 64 ∧ Codec2.rlWF m v := by
  have hc : ∀ c ∈ [RL.BCall.setLen 10, .set 10 5], RL.callArgsOk c := by
    intro c hc; simp at hc; rcases hc with rfl | rfl <;> simp [RL.callArgsOk, U64]
  have h : (do let b ← RL.runBCalls m [.setLen 10, .set 10 5] {}
               let v ← RL.ofBuilder m b
               return decide (128 * v.samples.len < 2 ^ 64)) = ok true := by cases m <;> decide +kernel
  obtain ⟨b, hb, h⟩ := bind_eq_ok h
  obtain ⟨v, hv, h⟩ := bind_eq_ok h
  have hs : 128 * v.samples.len < 2 ^ 64 := by
    injection h with h; exact of_decide_eq_true h
  exact ⟨b, v, hc, hb, hv, hs, Codec2.build_rlWF m _ hc b hb v hv hs⟩
/-- … and all 96 strict byte prefixes of its 12-element file are refused with `eof`, by evaluation in both modes -/
example : ∀ m : Mode, (do let b ← RL.runBCalls m [.setLen 10, .set 10 5] {}
                          let v ← RL.ofBuilder m b
                          return (8 * (rlC m).size v, (List.range (8 * (rlC m).size v)).all fun k =>
                            decide ((rlC m).load (ofBytes ((toBytes ((rlC m).ser v)).take k)) =
                              fault (.err .eof)))) = ok (96, true) := by
  intro m; cases m <;> decide +kernel

/-! **`serialize` is a `?`-joined sequence of `write_all` calls — checked on the source of this run.**  The sink theorem
`serialize_into_failing_sink` assumes that the implementation emits its bytes through `write_all` calls whose errors are
all propagated.  `Generated/SerShape.lean` lists every statement of every `serialize_header` / `serialize_body` of the
library (tools/ser_shape.py); a statement that is anything but `x.serialize(writer)?`, `writer.write_all(..)?`, a pure
`let`, or one of the three recognised wrappers (`if let Some`, `for … in self.f.iter()`, a guarded padding write) is
extracted as `SerStep.other`, and this obligation then fails: a `write` in place of `write_all`, a result dropped with
`let _ =` or `.ok()`, a `?` removed, an early `return Ok(())`. -/
theorem every_serializer_is_a_q_joined_write_sequence :
    Generated.allSerShapes.all SerShape.qJoined = true ∧ Generated.allSerShapes.length = 14 :=
  ⟨SerShapes.all_q_joined, rfl⟩

/-- the obligation is not vacuous: a shape with a discarded result is rejected -/
example : SerShape.qJoined ⟨"X", [], [.field "len", .other "let _ = self.data.serialize(writer)"], [], []⟩ = false := rfl

/-- **`skip_option` as translated from the source on this run** (`Generated/FnsSkip.lean`: the length prefix,
`elements * WORD_BYTES`, the copy of at most that many bytes into a sink — the one expression outside the translated subset,
named `copyTakeSink` — and the comparison `skipped != bytes`) is the specified skip on every stream whose prefix announces
fewer than 2^61 elements: it moves past the optional structure, and a stream that ends inside it — every strict prefix
of a serialization — is `Err(UnexpectedEof)`.  (A prefix of 2^61 or more is not a prefix of any serialization; there the
multiplication overflows: `GenEq.skip_huge_prefix_checked`, `skip_huge_prefix_wrapping`, observation O19.) -/
theorem skip_option_as_translated_from_source (m : Mode) (es : Elems) (h : ∀ n r, es = n :: r → n.toNat < 2 ^ 61) :
    Generated.gen_skip_option m es = GenEq.skipSpecR es :=
  GenEq.skip_option_eq m es h

/-- … so the translated function refuses every stream cut short inside the optional structure -/
theorem skip_option_translated_refuses_truncation (m : Mode) (n : Word) (r : Elems) (hn : n.toNat < 2 ^ 61)
    (hcut : r.length < n.toNat) : Generated.gen_skip_option m (n :: r) = fault (.err .eof) := by
  rw [GenEq.skip_option_eq m (n :: r) (by intro n' r' h; cases h; exact hn)]
  simp [GenEq.skipSpecR, skipOptionSpec, readElem, Nat.not_le.mpr hcut]

end Sds.C14
