/-
C13 — Memory-mapped views expose exactly the serialized content at any offset.

  "For every file made of any concatenation of serialized structures, a mapped view (slice, bytes, string,
   optional, raw vector, integer vector) created at a structure's offset exposes exactly the content that
   loading would give.  Each view's offset plus length equals the offset of the next structure, so views
   tile the file, and a view requested at an offset outside the file, or on a file cut short so that the
   structure's declared length runs past its end, is refused with an error."

Property theorems only (helper lemmas live in Proofs/Mapper.lean, Proofs/Codec.lean, Proofs/Glue4.lean).

Model (Model/Mapper.lean).  A mapped file is an array of 64-bit elements (`MemoryMap` is element-addressed);
`View.slice m k`, `View.bytes`, `View.str`, `View.raw`, `View.int`, `View.option` transcribe the `new` of
`MappedSlice<T>` (`k = T::elements()`), `MappedBytes`, `MappedStr`, `RawVectorMapper`, `IntVectorMapper`,
`MappedOption<T>` with each bounds test and each addition / multiplication performed in the arithmetic mode
`m` (checked build = panic on overflow, release build = wrap).  A `View` records `offset` (`map_offset`),
`mapLen` (`map_len`), the declared length and the payload elements it exposes.

Quantifiers.  Every file `pre ++ ser x ++ post` shorter than 2^64 elements, where `pre` and `post` are
ARBITRARY element lists — in particular any concatenation of serialized structures before and after `x`, so
"every structure start offset in every concatenation" is the instance `offset = |pre|`; every value `x` of
each mapped type (the declared lengths below 2^64, which every in-memory value satisfies); both modes `m`.
Refusal: EVERY offset `≥ file.size` — a natural number with no upper bound, so 2^64 − 1 and every other
`usize` value is included — in both modes, with no hypothesis on the file at all.  Truncation: every cut
`j < |ser x|` (element granularity: a map is element-addressed; the byte-granular statement for `load` is
C14), i.e. the file `pre ++ (ser x).take j`.

"The content that loading would give" is stated against the loaders of Model/Ser.lean (proven to invert the
serializers in Proofs/Codec.lean): each acceptance theorem exhibits both the view and the result `(x', post)`
of `load (ser x ++ post)` and equates the view's declared length and payload with the fields of `x'`.

Every refusal is the exact outcome `fault (.err .eof)` — `Err(UnexpectedEof)`, not a panic, not `oob`.

`IntVectorMapper::new` is modelled twice: `View.int` is the repaired code (`offset >= len || offset + 1 >= len`,
short-circuit), `View.intOld` the code as first written (finding F11: `offset + 1` evaluated first, which
overflows at `offset = 2^64 − 1`).  The property theorems are about `View.int`; the `F11_*` theorems at the
end document what the old code did and are about `View.intOld` only.

**Partial.**  `MappedOption<T>` is generic in the inner mapped type.  Acceptance (`option_present`) is proven
for every inner constructor (the inner view is created at `offset + 1`, whatever it is); the fully
instantiated acceptance / truncation statements are given for `Option<Vec<u64>>`
(`option_vec_exposes_loaded`, `option_vec_truncated_refused`); for other inner types they follow by the same
two-line composition with the inner type's theorem (`option_cut` in Glue4 is the generic step) but are not
spelled out.  Tiling is proven as "offset + map_len is where `post` starts" for every view type
(`*_exposes_loaded`, last conjunct) and as explicit two-structure chains (`consecutive_slices_tile`,
`raw_then_int_tile`); a walk over an arbitrary-length list of structures of mixed types is the iteration of
the former and is exercised by correspondence.
-/
import Sds.Proofs.Glue4
import Sds.Proofs.GenEqView
import Sds.Proofs.GenEqMapNew

namespace Sds.C13
open Sds Outcome

/-! ### (a) the view at a structure's offset exposes what `load` returns; offset + map_len = next offset -/

/-- `MappedSlice<u64>` over a serialized `Vec<u64>`: the view's items are the elements of the vector that
`load` returns, `len()` is its length, and the view ends where the next structure starts -/
theorem slice_u64_exposes_loaded (m : Mode) (pre post : List Word) (a : Array Word)
    (hsz : (pre ++ vecU64C.ser a ++ post).length < U64) :
    ∃ v x, View.slice m 1 (pre ++ vecU64C.ser a ++ post).toArray pre.length = ok v ∧
      vecU64C.load (vecU64C.ser a ++ post) = ok (x, post) ∧
      v.len = x.size ∧ v.payload = x.toList ∧
      v.offset = pre.length ∧ (pre ++ vecU64C.ser a ++ post).drop (v.offset + v.mapLen) = post := by
  have ha : a.size < 2 ^ 64 := by
    rw [U64_eq] at hsz; simp only [List.length_append, vecU64C_ser_length] at hsz; omega
  exact ⟨_, a, slice_vecU64 m pre post a hsz, (vecU64C_loads isEof_eof ha).1 post, rfl, rfl, rfl,
    View.next_offset _ pre _ post rfl rfl⟩

/-- `MappedSlice<(u64, u64)>` over a serialized `Vec<(u64, u64)>` (two elements per item) -/
theorem slice_pair_exposes_loaded (m : Mode) (pre post : List Word) (a : Array (Word × Word))
    (hsz : (pre ++ vecPairC.ser a ++ post).length < U64) :
    ∃ v x, View.slice m 2 (pre ++ vecPairC.ser a ++ post).toArray pre.length = ok v ∧
      vecPairC.load (vecPairC.ser a ++ post) = ok (x, post) ∧
      v.len = x.size ∧ v.payload = x.toList.flatMap (fun p => [p.1, p.2]) ∧
      v.offset = pre.length ∧ (pre ++ vecPairC.ser a ++ post).drop (v.offset + v.mapLen) = post := by
  have ha : a.size < 2 ^ 64 := by
    rw [U64_eq] at hsz; simp only [List.length_append, vecPairC_ser_length] at hsz; omega
  exact ⟨_, a, slice_vecPair m pre post a hsz, (vecPairC_loads isEof_eof ha).1 post, rfl, rfl, rfl,
    View.next_offset _ pre _ post rfl rfl⟩

/-- `MappedBytes` over a serialized `Vec<u8>`: the first `len()` bytes of the exposed elements (little-endian)
are the bytes that `load` returns; the padding bytes of the last element are not part of the content -/
theorem bytes_exposes_loaded (m : Mode) (pre post : List Word) (bs : List UInt8) (hn : bs.length + 7 < U64)
    (hsz : (pre ++ bytesC.ser bs ++ post).length < U64) :
    ∃ v x, View.bytes m (pre ++ bytesC.ser bs ++ post).toArray pre.length = ok v ∧
      bytesC.load (bytesC.ser bs ++ post) = ok (x, post) ∧
      v.len = x.length ∧ (toBytes v.payload).take v.len = x ∧
      v.offset = pre.length ∧ (pre ++ bytesC.ser bs ++ post).drop (v.offset + v.mapLen) = post := by
  have hb : bs.length < 2 ^ 64 := by rw [U64_eq] at hn; omega
  exact ⟨_, bs, bytes_bytesC m pre post bs hn hsz, (bytesC_loads isEof_eof hb).1 post, rfl,
    toBytes_packBytes bs, rfl, View.next_offset _ pre _ post rfl rfl⟩

/-- `MappedStr` over a serialized `String` (`valid` = the UTF-8 test, a parameter): a valid string is
accepted and exposes the bytes that `load` returns -/
theorem str_exposes_loaded (m : Mode) (valid : List UInt8 → Bool) (pre post : List Word) (bs : List UInt8)
    (hv : valid bs = true) (hn : bs.length + 7 < U64)
    (hsz : (pre ++ (stringC valid).ser bs ++ post).length < U64) :
    ∃ v x, View.str m valid (pre ++ (stringC valid).ser bs ++ post).toArray pre.length = ok v ∧
      (stringC valid).load ((stringC valid).ser bs ++ post) = ok (x, post) ∧
      v.len = x.length ∧ (toBytes v.payload).take v.len = x ∧
      v.offset = pre.length ∧
      (pre ++ (stringC valid).ser bs ++ post).drop (v.offset + v.mapLen) = post := by
  have hb : bs.length < 2 ^ 64 := by rw [U64_eq] at hn; omega
  have h := str_bytesC m valid pre post bs hn hsz
  rw [if_pos hv] at h
  exact ⟨_, bs, h, (stringC_loads isEof_eof valid hb hv).1 post, rfl, toBytes_packBytes bs, rfl,
    View.next_offset _ pre ((stringC valid).ser bs) post rfl rfl⟩

/-- … and bytes that fail the validity test are refused by the view exactly as `load` refuses them:
`Err(InvalidData)` (the structure itself is intact, so this is not `eof`) -/
theorem str_invalid_refused (m : Mode) (valid : List UInt8 → Bool) (pre post : List Word) (bs : List UInt8)
    (hv : valid bs = false) (hn : bs.length + 7 < U64)
    (hsz : (pre ++ (stringC valid).ser bs ++ post).length < U64) :
    View.str m valid (pre ++ (stringC valid).ser bs ++ post).toArray pre.length = fault (.err .invalid) := by
  have h := str_bytesC m valid pre post bs hn hsz
  rw [hv] at h
  exact h

/-- `RawVectorMapper` over a serialized `RawVector`: `len()` (in bits) and the exposed words are those of
the vector that `load` returns — together they ARE that vector -/
theorem raw_exposes_loaded (m : Mode) (pre post : List Word) (v : RawVec) (hv : v.WF) (hlen : v.len < U64)
    (hsz : (pre ++ rawVecC.ser v ++ post).length < U64) :
    ∃ vw x, View.raw m (pre ++ rawVecC.ser v ++ post).toArray pre.length = ok vw ∧
      rawVecC.load (rawVecC.ser v ++ post) = ok (x, post) ∧
      x = ⟨vw.len, vw.payload.toArray⟩ ∧
      vw.offset = pre.length ∧ (pre ++ rawVecC.ser v ++ post).drop (vw.offset + vw.mapLen) = post := by
  have hl : v.len < 2 ^ 64 := by rw [U64_eq] at hlen; exact hlen
  exact ⟨_, v, raw_rawVec m pre post v hlen hsz, (rawVecC_loads isEof_eof ⟨hv, hl⟩).1 post, rfl, rfl,
    View.next_offset _ pre _ post rfl rfl⟩

/-- `IntVectorMapper` over a serialized `IntVector`: `len()`, `width()` and the exposed words are those of
the vector that `load` returns (its bit length is `len * width`, part of well-formedness) -/
theorem int_exposes_loaded (m : Mode) (pre post : List Word) (v : IntVec) (hv : v.WF)
    (hlen : v.len < U64) (hw : v.width < U64) (hrlen : v.data.len < U64)
    (hsz : (pre ++ intVecC.ser v ++ post).length < U64) :
    ∃ vw w x, View.int m (pre ++ intVecC.ser v ++ post).toArray pre.length = ok (vw, w) ∧
      intVecC.load (intVecC.ser v ++ post) = ok (x, post) ∧
      x = ⟨vw.len, w, ⟨vw.len * w, vw.payload.toArray⟩⟩ ∧
      vw.offset = pre.length ∧ (pre ++ intVecC.ser v ++ post).drop (vw.offset + vw.mapLen) = post := by
  rw [U64_eq] at hlen hw hrlen
  have hwf : intVecWF v := ⟨hv, hlen, hw, hrlen⟩
  refine ⟨_, _, v, int_intVec m pre post v (by rw [U64_eq]; exact hlen) (by rw [U64_eq]; exact hw)
    (by rw [U64_eq]; exact hrlen) hsz, (intVecC_loads isEof_eof hwf).1 post, ?_, rfl,
    View.next_offset _ pre _ post rfl rfl⟩
  obtain ⟨_, _, h3, _⟩ := hv
  cases v with
  | mk len width data => cases data with
    | mk dl dd => simp only at h3 ⊢; subst h3; simp

/-- `MappedOption<T>`, value absent: one element, nothing exposed, flag `false` — as `load` returns `None` -/
theorem option_absent_exposes_loaded (m : Mode) {α} (c : Codec α)
    (inner : Array Word → Nat → Outcome View) (pre post : List Word) :
    ∃ v, View.option m inner (pre ++ (optionC c).ser none ++ post).toArray pre.length = ok (v, false) ∧
      (optionC c).ser (none : Option α) = [0] ∧ v.payload = [] ∧ v.mapLen = 1 ∧ v.offset = pre.length ∧
      (pre ++ (optionC c).ser (none : Option α) ++ post).drop (v.offset + v.mapLen) = post :=
  ⟨_, option_none m c inner pre post, rfl, rfl, rfl, rfl,
    View.next_offset _ pre ((optionC c).ser (none : Option α)) post rfl rfl⟩

/-- `MappedOption<T>`, value present, ANY inner mapped type: the inner constructor is run at `offset + 1`
(the offset of the inner serialization) and the option view exposes the inner view's payload, spans the
length word plus the declared number of elements, and ends where the next structure starts -/
theorem option_present (m : Mode) {α} (c : Codec α) (inner : Array Word → Nat → Outcome View)
    (pre post : List Word) (x : α) (hpos : 0 < (c.ser x).length)
    (hsz : (pre ++ (optionC c).ser (some x) ++ post).length < U64) :
    View.option m inner (pre ++ (optionC c).ser (some x) ++ post).toArray pre.length =
      (inner (pre ++ (optionC c).ser (some x) ++ post).toArray (pre.length + 1)).bind fun v =>
        ok (⟨pre.length, ((optionC c).ser (some x)).length, (c.ser x).length, v.payload⟩, true) :=
  option_some m c inner pre post x hpos hsz

/-- instance `Option<Vec<u64>>`: the view exposes the elements of the vector `load` returns -/
theorem option_vec_exposes_loaded (m : Mode) (pre post : List Word) (a : Array Word)
    (hsz : (pre ++ (optionC vecU64C).ser (some a) ++ post).length < U64) :
    ∃ v o, View.option m (View.slice m 1) (pre ++ (optionC vecU64C).ser (some a) ++ post).toArray
        pre.length = ok (v, true) ∧
      (optionC vecU64C).load ((optionC vecU64C).ser (some a) ++ post) = ok (o, post) ∧
      o.map Array.toList = some v.payload ∧
      v.offset = pre.length ∧
      (pre ++ (optionC vecU64C).ser (some a) ++ post).drop (v.offset + v.mapLen) = post := by
  have hlen := hsz
  rw [U64_eq] at hlen
  simp only [List.length_append, optionC_ser_some, List.length_cons, vecU64C_ser_length] at hlen
  have hl : LawfulP IsEof (optionC vecU64C) (optWF vecU64C (fun a => a.size < 2 ^ 64)) :=
    optionC_lawfulP isEof_eof vecU64C_lawfulEof
  have hwf : optWF vecU64C (fun a => a.size < 2 ^ 64) (some a) := by
    refine ⟨by omega, ?_, ?_⟩ <;> rw [vecU64C_ser_length] <;> omega
  exact ⟨_, some a, option_some_vecU64 m pre post a hsz, (hl.loads _ hwf).1 post, rfl, rfl,
    View.next_offset _ pre ((optionC vecU64C).ser (some a)) post rfl rfl⟩

/-! ### tiling -/

/-- the general tiling law: a view that starts at `|pre|` and spans `|ser|` elements ends exactly where the
rest of the file starts (each `*_exposes_loaded` theorem instantiates it) -/
theorem view_end_is_next_offset (v : View) (pre ser post : List Word)
    (ho : v.offset = pre.length) (hl : v.mapLen = ser.length) :
    (pre ++ ser ++ post).drop (v.offset + v.mapLen) = post :=
  View.next_offset v pre ser post ho hl

/-- two serialized vectors in a row: a view created at `offset + map_len` of the first is the view of the
second -/
theorem consecutive_slices_tile (m : Mode) (pre post : List Word) (a b : Array Word)
    (hsz : (pre ++ vecU64C.ser a ++ vecU64C.ser b ++ post).length < U64) :
    ∃ v1 v2, View.slice m 1 (pre ++ vecU64C.ser a ++ vecU64C.ser b ++ post).toArray pre.length = ok v1 ∧
      View.slice m 1 (pre ++ vecU64C.ser a ++ vecU64C.ser b ++ post).toArray (v1.offset + v1.mapLen) = ok v2 ∧
      v1.payload = a.toList ∧ v2.payload = b.toList ∧ v2.offset = v1.offset + v1.mapLen :=
  slice_then_slice m pre post a b hsz

/-- a raw vector followed by an integer vector (the layout inside the serialized bitvector structures):
the second view is created at the end of the first and ends at the end of both -/
theorem raw_then_int_tile (m : Mode) (pre post : List Word) (r : RawVec) (v : IntVec)
    (hr : r.len < U64) (hlen : v.len < U64) (hw : v.width < U64) (hrlen : v.data.len < U64)
    (hsz : (pre ++ rawVecC.ser r ++ intVecC.ser v ++ post).length < U64) :
    ∃ v1 v2, View.raw m (pre ++ rawVecC.ser r ++ intVecC.ser v ++ post).toArray pre.length = ok v1 ∧
      View.int m (pre ++ rawVecC.ser r ++ intVecC.ser v ++ post).toArray (v1.offset + v1.mapLen) =
        ok (v2, v.width) ∧
      v1.payload = r.data.toList ∧ v2.payload = v.data.data.toList ∧
      v2.offset + v2.mapLen = pre.length + (rawVecC.ser r).length + (intVecC.ser v).length :=
  raw_then_int m pre post r v hr hlen hw hrlen hsz

/-! ### (b) every offset at or past the end of the file is refused — any file, any offset, both modes -/

/-- **all six view types**, every file (empty included), every offset `≥` the file length (no upper bound:
`2^64 − 1` is an instance), both modes: `Err(UnexpectedEof)`; no arithmetic is performed before the test,
so no overflow can precede it -/
theorem offset_outside_file_refused (m : Mode) (file : Array Word) (offset : Nat) (h : offset ≥ file.size) :
    (∀ k, View.slice m k file offset = fault (.err .eof)) ∧
    View.bytes m file offset = fault (.err .eof) ∧
    (∀ valid, View.str m valid file offset = fault (.err .eof)) ∧
    View.raw m file offset = fault (.err .eof) ∧
    View.int m file offset = fault (.err .eof) ∧
    (∀ inner, View.option m inner file offset = fault (.err .eof)) :=
  ⟨fun k => slice_refuses m k file offset h, bytes_refuses m file offset h,
    fun valid => str_refuses m valid file offset h, raw_refuses m file offset h,
    int_refuses_past_end m file offset h, fun inner => option_refuses m inner file offset h⟩

/-- the largest `usize`, spelled out, for every file a machine can map -/
theorem last_offset_refused (m : Mode) (file : Array Word) (hsz : file.size < U64) :
    (∀ k, View.slice m k file (2 ^ 64 - 1) = fault (.err .eof)) ∧
    View.bytes m file (2 ^ 64 - 1) = fault (.err .eof) ∧
    View.raw m file (2 ^ 64 - 1) = fault (.err .eof) ∧
    View.int m file (2 ^ 64 - 1) = fault (.err .eof) ∧
    (∀ inner, View.option m inner file (2 ^ 64 - 1) = fault (.err .eof)) := by
  have h : 2 ^ 64 - 1 ≥ file.size := by rw [U64_eq] at hsz; omega
  obtain ⟨h1, h2, _, h4, h5, h6⟩ := offset_outside_file_refused m file _ h
  exact ⟨h1, h2, h4, h5, h6⟩

/-- the integer-vector view needs two header elements: the last element of the file is refused as well -/
theorem int_header_outside_file_refused (m : Mode) (file : Array Word) (offset : Nat)
    (hsz : file.size < U64) (h : offset ≥ file.size ∨ offset + 1 ≥ file.size) :
    View.int m file offset = fault (.err .eof) :=
  int_refuses m file offset hsz h

/-! ### (c) every truncation of the file inside the structure is refused -/

theorem slice_u64_truncated_refused (m : Mode) (pre : List Word) (a : Array Word) (j : Nat)
    (hj : j < (vecU64C.ser a).length) (hsz : (pre ++ vecU64C.ser a).length < U64) :
    View.slice m 1 (pre ++ (vecU64C.ser a).take j).toArray pre.length = fault (.err .eof) :=
  slice_vecU64_truncated m pre a j hj hsz

theorem slice_pair_truncated_refused (m : Mode) (pre : List Word) (a : Array (Word × Word)) (j : Nat)
    (hj : j < (vecPairC.ser a).length) (hsz : (pre ++ vecPairC.ser a).length < U64) :
    View.slice m 2 (pre ++ (vecPairC.ser a).take j).toArray pre.length = fault (.err .eof) :=
  slice_vecPair_truncated m pre a j hj hsz

theorem bytes_truncated_refused (m : Mode) (pre : List Word) (bs : List UInt8) (j : Nat)
    (hj : j < (bytesC.ser bs).length) (hn : bs.length + 7 < U64)
    (hsz : (pre ++ bytesC.ser bs).length < U64) :
    View.bytes m (pre ++ (bytesC.ser bs).take j).toArray pre.length = fault (.err .eof) :=
  bytes_bytesC_truncated m pre bs j hj hn hsz

/-- the truncation is reported before the validity test is reached, whatever the test -/
theorem str_truncated_refused (m : Mode) (valid : List UInt8 → Bool) (pre : List Word) (bs : List UInt8)
    (j : Nat) (hj : j < ((stringC valid).ser bs).length) (hn : bs.length + 7 < U64)
    (hsz : (pre ++ (stringC valid).ser bs).length < U64) :
    View.str m valid (pre ++ ((stringC valid).ser bs).take j).toArray pre.length = fault (.err .eof) :=
  str_bytesC_truncated m valid pre bs j hj hn hsz

theorem raw_truncated_refused (m : Mode) (pre : List Word) (v : RawVec) (j : Nat)
    (hj : j < (rawVecC.ser v).length) (hlen : v.len < U64)
    (hsz : (pre ++ rawVecC.ser v).length < U64) :
    View.raw m (pre ++ (rawVecC.ser v).take j).toArray pre.length = fault (.err .eof) :=
  raw_rawVec_truncated m pre v j hj hlen hsz

theorem int_truncated_refused (m : Mode) (pre : List Word) (v : IntVec) (j : Nat)
    (hj : j < (intVecC.ser v).length) (hlen : v.len < U64) (hw : v.width < U64)
    (hrlen : v.data.len < U64) (hsz : (pre ++ intVecC.ser v).length < U64) :
    View.int m (pre ++ (intVecC.ser v).take j).toArray pre.length = fault (.err .eof) :=
  int_intVec_truncated m pre v j hj hlen hw hrlen hsz

/-- an absent optional value is one element; cutting it off is refused -/
theorem option_absent_truncated_refused (m : Mode) {α} (c : Codec α)
    (inner : Array Word → Nat → Outcome View) (pre : List Word) (j : Nat)
    (hj : j < ((optionC c).ser (none : Option α)).length) :
    View.option m inner (pre ++ ((optionC c).ser (none : Option α)).take j).toArray pre.length =
      fault (.err .eof) :=
  option_none_truncated m c inner pre j hj

/-- `Option<Vec<u64>>` with a value: a cut before the length word, right after it, or anywhere inside the
inner vector is refused (the inner constructor's error is passed on) -/
theorem option_vec_truncated_refused (m : Mode) (pre : List Word) (a : Array Word) (j : Nat)
    (hj : j < ((optionC vecU64C).ser (some a)).length)
    (hsz : (pre ++ (optionC vecU64C).ser (some a)).length < U64) :
    View.option m (View.slice m 1) (pre ++ ((optionC vecU64C).ser (some a)).take j).toArray pre.length =
      fault (.err .eof) :=
  option_vecU64_truncated m pre a j hj hsz

/-- the generic step for any inner type: once the length word of a present value is in the file, whatever
fault the inner constructor reports at `offset + 1` is the option view's outcome -/
theorem option_passes_inner_refusal (m : Mode) (inner : Array Word → Nat → Outcome View)
    (file : Array Word) (pre rest : List Word) (dl : Nat) (e : Fault)
    (hf : file.toList = pre ++ BitVec.ofNat 64 dl :: rest) (hpos : 0 < dl) (hdl : dl < U64)
    (hsz : pre.length + 1 < U64) (hin : inner file (pre.length + 1) = fault e) :
    View.option m inner file pre.length = fault e :=
  option_cut m inner file pre rest dl e hf hpos hdl hsz hin

/-! ### F11 (documentation; about the as-first-coded `View.intOld`, not the shipped `View.int`) -/

/-- inside the file the old and the repaired constructor are the same function -/
theorem F11_old_agrees_inside_file (m : Mode) (file : Array Word) (offset : Nat) (h : offset < file.size) :
    View.intOld m file offset = View.int m file offset :=
  intOld_eq_int m file offset h

/-- F11, checked build: at the last offset the old constructor panicked (arithmetic overflow) on every file
instead of returning the error … -/
theorem F11_old_checked_panics (file : Array Word) :
    View.intOld .checked file (2 ^ 64 - 1) = fault (.panic .overflow) :=
  int_F11_checked file

/-- … and in a release build, on every non-empty file, `offset + 1` wrapped to 0, the range test passed, and
the file was indexed at `2^64 − 1`: an index panic -/
theorem F11_old_wrapping_panics (file : Array Word) (h0 : 0 < file.size) (h : file.size < U64) :
    View.intOld .wrapping file (2 ^ 64 - 1) = fault (.panic .index) :=
  int_F11_wrapping_nonempty file h0 h

/-- the repaired constructor returns the error there, in both modes -/
theorem F11_fixed (m : Mode) (file : Array Word) (h : file.size < U64) :
    View.int m file (2 ^ 64 - 1) = fault (.err .eof) :=
  int_last_offset m file h

/-! ### non-vacuity -/

/-- a file of three structures — `Vec<u64>` [5, 6], raw vector of 3 bits, `Vec<u64>` [] — and the view of the
middle one at its offset 3, in both modes -/
example : ∀ m : Mode, View.raw m
    ((vecU64C.ser #[5, 6]) ++ rawVecC.ser ⟨3, #[5]⟩ ++ vecU64C.ser #[]).toArray 3 =
      ok ⟨3, 3, 3, [5]⟩ := by intro m; cases m <;> decide
example : (⟨3, #[5]⟩ : RawVec).WF ∧ ((vecU64C.ser #[5, 6]) ++ rawVecC.ser ⟨3, #[5]⟩ ++ vecU64C.ser #[]).length = 7 ∧
    (vecU64C.ser #[5, 6]).length = 3 := by decide
/-- the view after it starts at 3 + 3 = 6 and is the empty vector; offset 7 = file length is refused;
the file cut to 5 elements refuses the raw view at 3 -/
example : ∀ m : Mode,
    View.slice m 1 ((vecU64C.ser #[5, 6]) ++ rawVecC.ser ⟨3, #[5]⟩ ++ vecU64C.ser #[]).toArray 6 =
      ok ⟨6, 1, 0, []⟩ ∧
    View.slice m 1 ((vecU64C.ser #[5, 6]) ++ rawVecC.ser ⟨3, #[5]⟩ ++ vecU64C.ser #[]).toArray 7 =
      fault (.err .eof) ∧
    View.raw m (((vecU64C.ser #[5, 6]) ++ rawVecC.ser ⟨3, #[5]⟩ ++ vecU64C.ser #[]).take 5).toArray 3 =
      fault (.err .eof) := by intro m; cases m <;> decide
/-- an integer vector of two 3-bit items and its view (len 2, width 3) -/
example : (⟨2, 3, ⟨6, #[0x2B]⟩⟩ : IntVec).WF ∧ ∀ m : Mode,
    View.int m ([7] ++ intVecC.ser ⟨2, 3, ⟨6, #[0x2B]⟩⟩ ++ [9]).toArray 1 = ok (⟨1, 5, 2, [0x2B]⟩, 3) := by
  refine ⟨by decide, ?_⟩; intro m; cases m <;> decide
/-- bytes: 9 bytes occupy two elements; the view exposes exactly the 9 bytes -/
example : ∀ m : Mode,
    View.bytes m (bytesC.ser [1, 2, 3, 4, 5, 6, 7, 8, 9]).toArray 0 =
      ok ⟨0, 3, 9, packBytes [1, 2, 3, 4, 5, 6, 7, 8, 9]⟩ ∧
    (toBytes (packBytes [1, 2, 3, 4, 5, 6, 7, 8, 9])).take 9 = [1, 2, 3, 4, 5, 6, 7, 8, 9] := by
  intro m; cases m <;> decide

/-! **The read accessors of the mapped views as translated from the source on this run** (`Generated/FnsView.lean`):
`RawVectorMapper::{bit, int, word, word_unchecked, count_ones}` and `IntVectorMapper::get` (the mapped words are the word
array of the view).  They are, word for word, the same functions as the in-memory ones — the generated definitions are
*definitionally* equal (`GenEq.mapper_bit_def`, … by `rfl`) — and so they read from a view exactly what the in-memory
vector with the same words returns: "each view exposes the content that loading gives".  (The view constructors
themselves — offset tests, length arithmetic — are hand-modelled in Model/Mapper and tied by correspondence.) -/
theorem mapped_accessors_as_translated_from_source (m : Mode) (v : RawVec) (iv : IntVec) (i off w : Nat) :
    Generated.gen_RawVectorMapper_bit = Generated.gen_RawVector_bit ∧
    Generated.gen_RawVectorMapper_int = Generated.gen_RawVector_int ∧
    Generated.gen_IntVectorMapper_get = Generated.gen_IntVector_get ∧
    Generated.gen_RawVectorMapper_bit m v i = v.bitM i ∧
    Generated.gen_RawVectorMapper_word m v i = v.wordM i ∧
    (w ≤ 64 → off < U64 → off + w ≤ 64 * v.data.size → Generated.gen_RawVectorMapper_int m v off w = ok (v.int off w)) ∧
    (iv.WF → iv.len * iv.width < U64 → Generated.gen_IntVectorMapper_get m iv i = iv.get i) ∧
    (64 * v.data.size < U64 → Generated.gen_RawVectorMapper_count_ones m v = ok v.countOnes) :=
  ⟨GenEq.mapper_bit_def, GenEq.mapper_int_def, GenEq.mapper_get_def, GenEq.mapper_bit_eq m v i, GenEq.mapper_word_eq m v i,
   fun hw ho hin => GenEq.mapper_int_eq m v off w hw ho hin, fun hwf hb => GenEq.mapper_get_eq m iv i hwf hb,
   fun h => GenEq.mapper_count_ones_eq m v h⟩

/-! **The view constructors as translated from the source on this run** (`Generated/FnsMapNew.lean`): `MappedSlice<T>::new`
(with `T::elements() = k`; the `from_raw_parts` cast is the named payload `file[offset+1 ..][.. len·k]`), `MappedBytes::new`,
`RawVectorMapper::new`, `IntVectorMapper::new` — the range tests `offset >= map.len()` (and `offset + 1 >= map.len()` of
finding F11's repair), the header reads, `offset + 1 + len * elements > map.len()`, the delegation to the inner view — and
`map_offset` / `map_len`.  The model views (`View.slice / bytes / raw / int`) that the theorems above are about are
EXACTLY the images of what the translated constructors return, faults included, for every file and every offset (for the
integer view in the release build: every file shorter than 2^64 elements). -/
theorem view_constructors_as_translated_from_source (m : Mode) (k : Nat) (file : Array Word) (offset : Nat) :
    View.slice m k file offset = (Generated.gen_MappedSlice_new m k file offset).bind (fun r => ok (GenEq.mn_sliceView k r)) ∧
    View.bytes m file offset = (Generated.gen_MappedBytes_new m file offset).bind (fun r => ok (GenEq.mn_bytesView r)) ∧
    View.raw m file offset = (Generated.gen_RawVectorMapper_new m file offset).bind (GenEq.mn_rawView m) ∧
    (file.size < U64 → View.int m file offset = (Generated.gen_IntVectorMapper_new m file offset).bind (GenEq.mn_intView m)) ∧
    (∀ r, Generated.gen_RawVectorMapper_map_offset m r = (GenEq.mn_rawView m r).bind (fun v => ok v.offset)) ∧
    (∀ r, Generated.gen_IntVectorMapper_map_offset m r = (GenEq.mn_intView m r).bind (fun vw => ok vw.1.offset)) :=
  ⟨GenEq.mapped_slice_view_eq m k file offset, GenEq.mapped_bytes_view_eq m file offset, GenEq.raw_mapper_view_eq m file offset,
   fun h => GenEq.int_mapper_view_eq_of_size m file offset h, GenEq.raw_mapper_map_offset_eq m, GenEq.int_mapper_map_offset_eq m⟩

/-- **`MappedStr::new` as translated from the source on this run** (`Generated/FnsMapNew.lean`): the range tests and the header
read of `MappedBytes::new`, then `str::from_utf8(bytes).map_err(..)?` with the standard library's validity test as the
named parameter `valid` (as in the model's string codec).  It is the translated `MappedBytes::new` followed by that test,
and the model's string view is exactly the image of what it returns, faults included. -/
theorem mapped_str_new_as_translated_from_source (m : Mode) (valid : List UInt8 → Bool) (file : Array Word) (offset : Nat) :
    Generated.gen_MappedStr_new m valid file offset
      = (Generated.gen_MappedBytes_new m file offset).bind
          (fun r => if valid (payloadBytes r.data) then ok r else fault (.err .invalid)) ∧
    View.str m valid file offset
      = (Generated.gen_MappedStr_new m valid file offset).bind (fun r => ok (GenEq.mn_bytesView r)) :=
  ⟨GenEq.mapped_str_new_eq_bytes m valid file offset, GenEq.mapped_str_view_eq m valid file offset⟩

/-- **`MappedOption<T>::new` as translated from the source on this run**, for ANY inner view constructor `T::new` (a parameter of
the translation) and any reading `toV` of what it returns: the range test, the `data_len` header, `T::new(map, offset + 1)?` only
when the length is non-zero, `result.data = Some(value)`.  The model's optional view is exactly the image of what the code
returns, faults included (the zero-sized `_marker` field is dropped). -/
theorem mapped_option_new_as_translated_from_source (m : Mode) (inner : Array Word → Nat → Outcome MappedSliceR)
    (toV : MappedSliceR → View) (file : Array Word) (offset : Nat) :
    View.option m (fun f o => (inner f o).bind (fun r => ok (toV r))) file offset
      = (Generated.gen_MappedOption_new m inner file offset).bind (fun r => ok (GenEq.mn_optionView toV r)) :=
  GenEq.mapped_option_view_eq m inner toV file offset

end Sds.C13
