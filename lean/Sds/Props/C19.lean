/-
C19 — Support structures are optional, rebuildable and never change answers.

Property theorems only (helper lemmas live in Proofs/).  Quantifiers: every plain bitvector
`BitVector::from(raw)` (`raw` any well-formed raw vector, i.e. exactly ⌈len/64⌉ words with a zero tail, of
fewer than 2^62 bits) × all 8 subsets `(r, s, z)` of its rank / select / select-zero supports present at
write time × every sequence of `enable_*` calls (`steps : List (Bool × Bool × Bool)`, each step enabling any
subset, the empty subset included) interleaved with serialize / load × every query argument × both
arithmetic modes.  `SupportProofs.enableSome r s z b` is `b` after `enable_rank` (if `r`), `enable_select`
(if `s`), `enable_select_zero` (if `z`).

Embedded bitvectors: the sparse vector and the wavelet matrix (and its core) are proven to load from files
in which the embedded bitvectors carry **any** subset of their supports — none in particular — and the loaded
value is *equal* to the built one, so every query theorem of C02 / C15 / C04 applies to it verbatim.  The
run-length vector embeds no plain bitvector.  Side conditions: the parts fit a `usize`-addressed file.

`skip_option` is the checked version (`skip_option_is_checked` ties this to the current source).
-/
import Sds.Proofs.Codec
import Sds.Proofs.Supports
import Sds.Proofs.Glue2
import Sds.Generated.SerConsts
import Sds.Proofs.GenEqEnable
import Sds.Proofs.GenEqLoad
import Sds.Proofs.GenEqIdx
import Sds.Proofs.GenEqSkip

namespace Sds.C19
open Sds Outcome SupportProofs

/-- regenerated from `serialize.rs` on every run: `skip_option` verifies the number of bytes skipped -/
theorem skip_option_is_checked : Generated.SKIP_OPTION_CHECKED = true := by decide

/-! ### optional: any subset can be written; loading reports exactly that subset -/

/-- for each of the 8 subsets: the vector is serializable, loading succeeds, consumes exactly the
serialization, and the loaded vector reports exactly the subset that was enabled, with the original bits and
count; enabling everything on it gives the same value as enabling everything on the original -/
theorem load_reports_exactly_the_written_subset (v : RawVec) (hv : v.WF) (hlen : v.len < 2 ^ 62)
    (r s z : Bool) (rest : Elems) :
    ∃ b', bitVectorC.load (bitVectorC.ser (enableSome r s z (BitVector.ofRaw v)) ++ rest) = ok (b', rest) ∧
      b'.rank.isSome = r ∧ b'.select.isSome = s ∧ b'.selectZero.isSome = z ∧
      b'.data = v ∧ b'.ones = v.countOnes ∧
      b'.enableAll = (BitVector.ofRaw v).enableAll ∧
      b'.enableAll = (enableSome r s z (BitVector.ofRaw v)).enableAll :=
  ofRaw_enableSome_load hv hlen r s z rest

/-- without its support a query is the documented `unwrap` panic (outside the ranges answered from the
counters alone) — never a wrong answer; `get` needs no support -/
theorem query_without_support (b : BitVector) (m : Mode) (i : Nat) :
    (b.rank = none → b.rankQ i = if i ≥ b.len then ok b.ones else fault (.panic .unwrap)) ∧
    (b.select = none → b.selectQ m i = if i ≥ b.ones then ok none else fault (.panic .unwrap)) ∧
    (b.selectZero = none →
      b.selectZeroQ m i = if i ≥ b.len - b.ones then ok none else fault (.panic .unwrap)) ∧
    (∀ r s z, (enableSome r s z b).get i = b.get i) :=
  ⟨fun h => rankQ_absent h i, fun h => selectQ_absent h m i, fun h => selectZeroQ_absent h m i,
    fun r s z => enableSome_get r s z b i⟩

/-! ### rebuildable: enabling the rest gives the fully enabled original; idempotence; order -/

/-- whatever subset was enabled first (or loaded), enabling everything gives the fully enabled original -/
theorem enabling_the_rest_gives_full (r s z : Bool) (b : BitVector) :
    (enableSome r s z b).enableAll = b.enableAll ∧ enableSome true true true b = b.enableAll :=
  ⟨enableSome_enableAll r s z b, rfl⟩

/-- enabling is idempotent — each call, all three together, and any call after `enable_all` -/
theorem enabling_is_idempotent (b : BitVector) :
    b.enableRank.enableRank = b.enableRank ∧ b.enableSelect.enableSelect = b.enableSelect ∧
    b.enableSelectZero.enableSelectZero = b.enableSelectZero ∧ b.enableAll.enableAll = b.enableAll ∧
    b.enableAll.enableRank = b.enableAll ∧ b.enableAll.enableSelect = b.enableAll ∧
    b.enableAll.enableSelectZero = b.enableAll ∧
    (b.rank.isSome → b.enableRank = b) ∧ (b.select.isSome → b.enableSelect = b) ∧
    (b.selectZero.isSome → b.enableSelectZero = b) :=
  ⟨enableRank_idem b, enableSelect_idem b, enableSelectZero_idem b, enableAll_idem b,
    enableAll_enableRank b, enableAll_enableSelect b, enableAll_enableSelectZero b,
    fun h => enableRank_of_some h, fun h => enableSelect_of_some h, fun h => enableSelectZero_of_some h⟩

/-- all six orders of the three calls give the same value (and the calls commute pairwise) -/
theorem all_orders_agree (b : BitVector) :
    b.enableRank.enableSelect.enableSelectZero = b.enableAll ∧
    b.enableRank.enableSelectZero.enableSelect = b.enableAll ∧
    b.enableSelect.enableRank.enableSelectZero = b.enableAll ∧
    b.enableSelect.enableSelectZero.enableRank = b.enableAll ∧
    b.enableSelectZero.enableRank.enableSelect = b.enableAll ∧
    b.enableSelectZero.enableSelect.enableRank = b.enableAll ∧
    b.enableRank.enableSelect = b.enableSelect.enableRank ∧
    b.enableRank.enableSelectZero = b.enableSelectZero.enableRank ∧
    b.enableSelect.enableSelectZero = b.enableSelectZero.enableSelect :=
  ⟨order_rsz b, order_rzs b, order_srz b, order_szr b, order_zrs b, order_zsr b,
    enableRank_enableSelect b, enableRank_enableSelectZero b, enableSelect_enableSelectZero b⟩

/-- no call changes the bits, the count or the length -/
theorem enabling_never_touches_the_bits (r s z : Bool) (b : BitVector) :
    (enableSome r s z b).data = b.data ∧ (enableSome r s z b).ones = b.ones ∧
    b.enableAll.data = b.data ∧ b.enableAll.ones = b.ones ∧ b.enableAll.len = b.len :=
  ⟨enableSome_data r s z b, enableSome_ones r s z b, enableAll_data b, enableAll_ones b, enableAll_len b⟩

/-! ### never change answers -/

/-- a query looks only at its own support: enabling the others changes no answer -/
theorem enabling_other_supports_changes_no_answer (b : BitVector) (m : Mode) (i : Nat) :
    b.enableSelect.rankQ i = b.rankQ i ∧ b.enableSelectZero.rankQ i = b.rankQ i ∧
    b.enableRank.selectQ m i = b.selectQ m i ∧ b.enableSelectZero.selectQ m i = b.selectQ m i ∧
    b.enableRank.selectZeroQ m i = b.selectZeroQ m i ∧ b.enableSelect.selectZeroQ m i = b.selectZeroQ m i :=
  ⟨enableSelect_rankQ b i, enableSelectZero_rankQ b i, enableRank_selectQ m b i,
    enableSelectZero_selectQ m b i, enableRank_selectZeroQ m b i, enableSelect_selectZeroQ m b i⟩

/-- for **every** subset of supports containing the one a query needs, the answer is the list-level
specification of the bits — so it cannot depend on which other supports are present, nor on the mode -/
theorem answers_are_the_specification (v : RawVec) (hv : v.WF) (hlen : v.len < 2 ^ 63)
    (r s z : Bool) (m : Mode) (i : Nat) :
    (enableSome true s z (BitVector.ofRaw v)).rankQ i = ok (rankSpec v.bits i) ∧
    (enableSome r true z (BitVector.ofRaw v)).selectQ m i = ok (selectSpec v.bits i) ∧
    (enableSome r s true (BitVector.ofRaw v)).selectZeroQ m i = ok (selectZeroSpec v.bits i) :=
  ⟨ofRaw_rankQ hv hlen s z i, ofRaw_selectQ hv hlen r z m i, ofRaw_selectZeroQ hv hlen r s m i⟩

/-- general form: two bitvectors over the same data — whatever other supports each carries and however its
supports were obtained (built before or after a load, in any order), as long as they are valid — give the
same answers to every query, in any pair of modes (`Sound` = well-formed data and correct count,
`SupValid` = every support present describes the data; both are established by `BitVector::from` and kept by
every `enable_*`, see `any_history_keeps_answers`) -/
theorem supports_never_change_answers (b1 b2 : BitVector) (hd : b1.data = b2.data)
    (s1 : Sound b1) (s2 : Sound b2) (v1 : SupValid b1) (v2 : SupValid b2) (m1 m2 : Mode) (i : Nat) :
    (b1.rank.isSome → b2.rank.isSome → b1.rankQ i = b2.rankQ i ∧ b1.rankZeroQ m1 i = b2.rankZeroQ m2 i) ∧
    (b1.select.isSome → b2.select.isSome → b1.selectQ m1 i = b2.selectQ m2 i) ∧
    (b1.selectZero.isSome → b2.selectZero.isSome → b1.selectZeroQ m1 i = b2.selectZeroQ m2 i) :=
  ⟨fun p1 p2 => ⟨rankQ_coincide hd s1 s2 v1 v2 p1 p2 i, rankZeroQ_coincide hd s1 s2 v1 v2 p1 p2 m1 m2 i⟩,
    fun p1 p2 => selectQ_coincide hd s1 s2 v1 v2 p1 p2 m1 m2 i,
    fun p1 p2 => selectZeroQ_coincide hd s1 s2 v1 v2 p1 p2 m1 m2 i⟩

/-! ### all orders of `enable_*` calls interleaved with serialize / load -/

/-- **Histories.**  Start from `BitVector::from(raw)` and perform any sequence of steps, each enabling any
subset of the supports and then writing the vector and loading it back.  No load fails; every load returns
the value that was written, so the history equals the history of the `enable_*` calls alone. -/
theorem save_load_never_disturbs_a_history (v : RawVec) (hv : v.WF) (hlen : v.len < 2 ^ 62)
    (steps : List (Bool × Bool × Bool)) :
    steps.foldlM (fun b t => do
        let p ← bitVectorC.load (bitVectorC.ser (enableSome t.1 t.2.1 t.2.2 b))
        pure p.1) (BitVector.ofRaw v) =
      ok (steps.foldl (fun b t => enableSome t.1 t.2.1 t.2.2 b) (BitVector.ofRaw v)) :=
  enable_reload_history steps _ (ofRaw_sound hv (by omega)) (ofRaw_wf hv (by omega)) (ofRaw_supValid v)

/-- … and after any such history: the bits and the count are the original ones, a support is present iff
some step enabled it, the vector can be written and loaded back, enabling the rest gives the fully enabled
original, and every query whose support is present answers by the specification of the bits -/
theorem any_history_keeps_answers (v : RawVec) (hv : v.WF) (hlen : v.len < 2 ^ 62)
    (steps : List (Bool × Bool × Bool)) (rest : Elems) (m : Mode) (i : Nat) :
    (steps.foldl (fun b t => enableSome t.1 t.2.1 t.2.2 b) (BitVector.ofRaw v)).data = v ∧
    (steps.foldl (fun b t => enableSome t.1 t.2.1 t.2.2 b) (BitVector.ofRaw v)).ones = v.countOnes ∧
    (steps.foldl (fun b t => enableSome t.1 t.2.1 t.2.2 b) (BitVector.ofRaw v)).rank.isSome =
      steps.any (fun t => t.1) ∧
    (steps.foldl (fun b t => enableSome t.1 t.2.1 t.2.2 b) (BitVector.ofRaw v)).select.isSome =
      steps.any (fun t => t.2.1) ∧
    (steps.foldl (fun b t => enableSome t.1 t.2.1 t.2.2 b) (BitVector.ofRaw v)).selectZero.isSome =
      steps.any (fun t => t.2.2) ∧
    bitVectorC.load (bitVectorC.ser
        (steps.foldl (fun b t => enableSome t.1 t.2.1 t.2.2 b) (BitVector.ofRaw v)) ++ rest) =
      ok (steps.foldl (fun b t => enableSome t.1 t.2.1 t.2.2 b) (BitVector.ofRaw v), rest) ∧
    (steps.foldl (fun b t => enableSome t.1 t.2.1 t.2.2 b) (BitVector.ofRaw v)).enableAll =
      (BitVector.ofRaw v).enableAll ∧
    (∀ t, t ∈ steps → t.1 = true →
      (steps.foldl (fun b t => enableSome t.1 t.2.1 t.2.2 b) (BitVector.ofRaw v)).rankQ i =
        ok (rankSpec v.bits i) ∧
      (steps.foldl (fun b t => enableSome t.1 t.2.1 t.2.2 b) (BitVector.ofRaw v)).rankZeroQ m i =
        ok (i - rankSpec v.bits i)) ∧
    (∀ t, t ∈ steps → t.2.1 = true →
      (steps.foldl (fun b t => enableSome t.1 t.2.1 t.2.2 b) (BitVector.ofRaw v)).selectQ m i =
        ok (selectSpec v.bits i)) ∧
    (∀ t, t ∈ steps → t.2.2 = true →
      (steps.foldl (fun b t => enableSome t.1 t.2.1 t.2.2 b) (BitVector.ofRaw v)).selectZeroQ m i =
        ok (selectZeroSpec v.bits i)) := by
  obtain ⟨a1, a2, a3, a4, a5, a6, a7, a8, a9⟩ := enable_history_inv steps (BitVector.ofRaw v)
    (ofRaw_sound hv (by omega)) (ofRaw_wf hv (by omega)) (ofRaw_supValid v)
  have hd : (BitVector.ofRaw v).data = v := rfl
  have r0 : (BitVector.ofRaw v).rank.isSome = false := rfl
  have s0 : (BitVector.ofRaw v).select.isSome = false := rfl
  have z0 : (BitVector.ofRaw v).selectZero.isSome = false := rfl
  rw [hd] at a4
  rw [r0, Bool.false_or] at a7
  rw [s0, Bool.false_or] at a8
  rw [z0, Bool.false_or] at a9
  refine ⟨a4, a5, a7, a8, a9,
    bitVectorC_lawful.roundtrip _ rest a2, a6, ?_, ?_, ?_⟩
  · intro t ht h1
    have hp : (steps.foldl (fun b t => enableSome t.1 t.2.1 t.2.2 b) (BitVector.ofRaw v)).rank.isSome := by
      rw [a7]; exact List.any_eq_true.mpr ⟨t, ht, h1⟩
    have h1 := rankQ_spec a1 a3 hp i
    have h2 := rankZeroQ_spec a1 a3 hp m i
    rw [a4] at h1 h2
    exact ⟨h1, h2⟩
  · intro t ht h1
    have hp : (steps.foldl (fun b t => enableSome t.1 t.2.1 t.2.2 b) (BitVector.ofRaw v)).select.isSome := by
      rw [a8]; exact List.any_eq_true.mpr ⟨t, ht, h1⟩
    have h1 := selectQ_spec a1 a3 hp m i
    rw [a4] at h1
    exact h1
  · intro t ht h1
    have hp :
        (steps.foldl (fun b t => enableSome t.1 t.2.1 t.2.2 b) (BitVector.ofRaw v)).selectZero.isSome := by
      rw [a9]; exact List.any_eq_true.mpr ⟨t, ht, h1⟩
    have h1 := selectZeroQ_spec a1 a3 hp m i
    rw [a4] at h1
    exact h1

/-- one save / load cycle, spelled out: the loaded vector answers as the original does, for each support
that was present when it was written -/
theorem loaded_vector_answers_as_original (v : RawVec) (hv : v.WF) (hlen : v.len < 2 ^ 62) (r s z : Bool)
    (rest : Elems) :
    ∃ b', bitVectorC.load (bitVectorC.ser (enableSome r s z (BitVector.ofRaw v)) ++ rest) = ok (b', rest) ∧
      (r = true → ∀ i, b'.rankQ i = ok (rankSpec v.bits i)) ∧
      (s = true → ∀ (m : Mode) k, b'.selectQ m k = ok (selectSpec v.bits k)) ∧
      (z = true → ∀ (m : Mode) k, b'.selectZeroQ m k = ok (selectZeroSpec v.bits k)) := by
  obtain ⟨b', h1, _, _, h2, h3, h4⟩ := loaded_answers hv hlen r s z rest
  exact ⟨b', h1, h2, h3, h4⟩

/-! ### structures that embed plain bitvectors load from files without support structures -/

/-- **Sparse vector** (set or multiset mode, every admissible low width): whichever subset of the select /
select-zero supports the embedded `high` bitvector carries in the file — none in particular — loading succeeds
and returns exactly the vector the builder produced; hence it answers every query as proven in C02 / C15 -/
theorem sparse_vector_loads_without_supports (w n : Nat) (multi : Bool) (P : List Nat) (hw1 : 1 ≤ w)
    (hw : w ≤ 63) (hn : n < 2 ^ 64) (hm : P.length < 2 ^ 63)
    (hsorted : if multi then sortedLe P = true else sortedStrict P = true) (hbound : ∀ p ∈ P, p < n)
    (hhigh : P.length + Sparse.getBuckets n w < 2 ^ 63) (hlow : P.length * w < 2 ^ 64) :
    ∃ s, Sparse.ofValues w n multi P = ok s ∧
      (∀ (sel selz : Bool) (rest : Elems),
        sparseC.load (BitVec.ofNat 64 n ::
          (bitVectorC.ser (enableSome false sel selz (BitVector.ofRaw s.high.data)) ++
            intVecC.ser s.low) ++ rest) = ok (s, rest)) ∧
      (∀ (m : Mode) (r : Nat), s.select m r = ok (selectSet P r)) ∧
      (∀ (m : Mode) (i : Nat), s.rank m i = ok (rankSet P i)) := by
  obtain ⟨s, h1, he, h2⟩ := sparse_load_any_supports w n multi P hw1 hw hn hm hsorted hbound hhigh hlow
  exact ⟨s, h1, h2, fun m r => select_ok he m r, fun m i => rank_ok he m i⟩

/-- **Wavelet-matrix core**: `f l` selects the subset of supports level `l` carries in the file (any subset,
none in particular, independently per level); loading returns exactly the built core -/
theorem wavelet_matrix_core_loads_without_supports (V : List Nat) (hlen : V.length < 2 ^ 63)
    (f : Nat → Bool × Bool × Bool) (rest : Elems) :
    wmCoreC.load (BitVec.ofNat 64 (widthOf V) :: ((List.range (widthOf V)).map fun l =>
          enableSome (f l).1 (f l).2.1 (f l).2.2
            (BitVector.ofRaw (RawVec.ofBits (col (widthOf V) V l)))).flatMap bitVectorC.ser ++ rest) =
      ok (WMCore.ofValues V, rest) :=
  wmCore_load_any_supports V hlen f rest

/-- **Wavelet matrix**: the same for the whole structure; the loaded value is the built one, so it answers
every query as proven in C04 (two of them restated) -/
theorem wavelet_matrix_loads_without_supports (V : List Nat) (hV : ∀ v, v ∈ V → v < 2 ^ 64)
    (hlen : V.length < 2 ^ 63) (hfirst : (V.foldl max 0 + 1) * 64 < 2 ^ 64)
    (f : Nat → Bool × Bool × Bool) (rest : Elems) :
    ∃ w, wmC.load (BitVec.ofNat 64 V.length ::
        (BitVec.ofNat 64 (widthOf V) :: ((List.range (widthOf V)).map fun l =>
            enableSome (f l).1 (f l).2.1 (f l).2.2
              (BitVector.ofRaw (RawVec.ofBits (col (widthOf V) V l)))).flatMap bitVectorC.ser) ++
          intVecC.ser (WM.ofValues V).first ++ rest) = ok (w, rest) ∧
      w = WM.ofValues V ∧
      (∀ (m : Mode) (i : Nat) (hi : i < V.length), w.get m i = ok V[i]) ∧
      (∀ (m : Mode) (i v : Nat), w.rank m i v = ok ((V.take i).count v)) := by
  have hw := WM.ofValues_ok_full V hV hlen
  exact ⟨_, wm_load_any_supports V hV hlen hfirst f rest, rfl, fun m i hi => get_ok_wm hw m i hi,
    fun m i v => rank_ok_wm hw m i v⟩

/-- the levels written in the theorems above are the levels of the built matrix with their supports
stripped and the chosen subset re-enabled: with all three flags set at every level the file is the
serialization of the built core itself -/
theorem full_flags_give_the_serialization (V : List Nat) :
    wmCoreC.ser (WMCore.ofValues V) = BitVec.ofNat 64 (widthOf V) :: ((List.range (widthOf V)).map fun l =>
      enableSome true true true (BitVector.ofRaw (RawVec.ofBits (col (widthOf V) V l)))).flatMap
        bitVectorC.ser :=
  wmCoreC_ser_ofValues V

/-! ### skipping an optional structure moves the reader exactly past it, whatever it contains -/

/-- element level and byte level: after `skip_option` on a serialized `Option<T>` (absent or present, any `T`,
any content) followed by anything, exactly what followed is left -/
theorem skip_option_moves_exactly_past {α} (c : Codec α) (W : α → Prop) (o : Option α)
    (ho : match o with
      | none => True
      | some x => W x ∧ 0 < (c.ser x).length ∧ (c.ser x).length < 2 ^ 64) (rest : Elems) :
    skipOptionSpec ((optionC c).ser o ++ rest) = ok rest ∧
    skipOptionSpec (ofBytes (toBytes ((optionC c).ser o) ++ toBytes rest)) = ok rest ∧
    (toBytes ((optionC c).ser o)).length = 8 * (optionC c).size o := by
  have ho' : optWF c W o := by cases o <;> exact ho
  have e : toBytes ((optionC c).ser o) ++ toBytes rest = toBytes ((optionC c).ser o ++ rest) := by
    simp [toBytes, List.flatMap_append]
  refine ⟨skipOptionSpec_ser c W o rest ho', ?_, length_toBytes _⟩
  rw [e, ofBytes_toBytes]
  exact skipOptionSpec_ser c W o rest ho'

/-- in particular the three optional supports of a serialized bitvector can each be skipped -/
theorem skip_each_support (b : BitVector) (hb : bitVectorWF b) (rest : Elems) :
    skipOptionSpec ((optionC rankSupC).ser b.rank ++ rest) = ok rest ∧
    skipOptionSpec ((optionC selSupC).ser b.select ++ rest) = ok rest ∧
    skipOptionSpec ((optionC selSupC).ser b.selectZero ++ rest) = ok rest := by
  obtain ⟨_, _, _, h4, h5, h6⟩ := hb
  refine ⟨skipOptionSpec_ser rankSupC rankSupWF b.rank rest ?_,
    skipOptionSpec_ser selSupC selSupWF b.select rest ?_,
    skipOptionSpec_ser selSupC selSupWF b.selectZero rest ?_⟩
  · cases hr : b.rank with
    | none => trivial
    | some s => exact ⟨(h4 s hr).1, rankSupC_ser_pos s, (h4 s hr).2.2⟩
  · cases hr : b.select with
    | none => trivial
    | some s => exact ⟨(h5 s hr).1, selSupC_ser_pos s, (h5 s hr).2.2⟩
  · cases hr : b.selectZero with
    | none => trivial
    | some s => exact ⟨(h6 s hr).1, selSupC_ser_pos s, (h6 s hr).2.2⟩

/-! ### non-vacuity -/

example : (RawVec.ofBits [true, false, true, true]).WF ∧ (RawVec.ofBits [true, false, true, true]).len < 2 ^ 62 := by
  decide
/-- a history: enable select, reload, enable rank and select-zero, reload, reload -/
example : ([(false, true, false), (false, false, false), (true, false, true), (false, false, false)] :
    List (Bool × Bool × Bool)).any (fun t => t.1) = true := by decide
example : (1 ≤ 2 ∧ 2 ≤ 63 ∧ 10 < 2 ^ 64 ∧ sortedStrict [0, 5, 9] = true ∧ (∀ p ∈ [0, 5, 9], p < 10) ∧
    [0, 5, 9].length + Sparse.getBuckets 10 2 < 2 ^ 63 ∧ [0, 5, 9].length * 2 < 2 ^ 64) := by decide
example : (([5, 0, 5, 9, 0] : List Nat).foldl max 0 + 1) * 64 < 2 ^ 64 := by decide

/-! **`supports_*` / `enable_*` as translated from the source on this run** (`Generated/FnsEnable.lean`): the four tests and
the four enabling methods of `BitVector` — the guard `!self.supports_x()`, which field is assigned, and that
`enable_pred_succ` is `enable_rank` then `enable_select`.  Unconditionally the model functions whose idempotence and
commutation the theorems above state (the support constructors themselves are loops over the whole vector and are named
by their model functions). -/
theorem enable_methods_as_translated_from_source (m : Mode) (b : BitVector) :
    Generated.gen_BitVector_supports_rank m b = ok b.rank.isSome ∧
    Generated.gen_BitVector_supports_select m b = ok b.select.isSome ∧
    Generated.gen_BitVector_supports_select_zero m b = ok b.selectZero.isSome ∧
    Generated.gen_BitVector_supports_pred_succ m b = ok (b.rank.isSome && b.select.isSome) ∧
    Generated.gen_BitVector_enable_rank m b = ok b.enableRank ∧
    Generated.gen_BitVector_enable_select m b = ok b.enableSelect ∧
    Generated.gen_BitVector_enable_select_zero m b = ok b.enableSelectZero ∧
    Generated.gen_BitVector_enable_pred_succ m b = ok b.enableRank.enableSelect :=
  ⟨GenEq.supports_rank_eq m b, GenEq.supports_select_eq m b, GenEq.supports_select_zero_eq m b,
   GenEq.supports_pred_succ_eq m b, GenEq.enable_rank_eq m b, GenEq.enable_select_eq m b,
   GenEq.enable_select_zero_eq m b, GenEq.enable_pred_succ_eq m b⟩

/-! **Loading composite structures whose embedded bitvectors carry no supports, as translated from the source on this
run**: `SparseVector::load` and `WaveletMatrix::load` (`Generated/FnsLoad.lean`, with the `enable_select` /
`enable_select_zero` after a sparse load and the sanity check `high.len() != low.len() + get_buckets(len, low.width())`)
are the `load` of the model codecs, and `SparseBuilder::get_buckets` — the bucket count that check relies on — is the
model's on EVERY low width the file format admits (`1..=64`, not only the widths the crate's own builder chooses: at
width 64 the guarded shift contributes 0), so a file written by anyone following the format loads whatever supports
its `high` carries. -/
theorem composite_loaders_as_translated_from_source (m : Mode) (es : Elems) (univ w : Nat) :
    (GenEq.SparseOk es → Generated.gen_SparseVector_load m es = sparseC.load es) ∧
    (GenEq.WmOk es → Generated.gen_WaveletMatrix_load m es = wmC.load es) ∧
    (GenEq.BvOk es → Generated.gen_BitVector_load m es = bitVectorC.load es) ∧
    (w ≤ 64 → univ < U64 → Generated.gen_SparseBuilder_get_buckets m univ w = ok (Sparse.getBuckets univ w)) :=
  ⟨GenEq.sparse_load_eq m es, GenEq.wm_load_eq m es, GenEq.bv_load_eq m es, fun hw hu => GenEq.get_buckets_eq m univ w hw hu⟩

/-- the translated `get_buckets` at low width 64 (a width the format admits and the crate's builder never chooses) -/
example : Generated.gen_SparseBuilder_get_buckets .checked 1000 64 = ok 1 ∧
    Generated.gen_SparseBuilder_get_buckets .wrapping 1000 64 = ok 1 ∧
    Generated.gen_SparseBuilder_get_buckets .checked 0 64 = ok 0 := by decide

/-- **`skip_option` as translated from the source on this run**: after a successful skip the reader stands exactly behind
the optional structure (`n` elements after the prefix), whatever the structure contains -/
theorem skip_option_as_translated_moves_exactly_past (m : Mode) (n : Word) (body rest : Elems) (hn : n.toNat < 2 ^ 61)
    (hb : body.length = n.toNat) : Generated.gen_skip_option m (n :: (body ++ rest)) = ok ((), rest) := by
  rw [GenEq.skip_option_eq m _ (by intro n' r' h; cases h; exact hn)]
  simp [GenEq.skipSpecR, skipOptionSpec, readElem, ← hb]

end Sds.C19
