/-
C16 — Builders reject invalid steps without side effects and build what was accepted.

  "For every sequence of builder calls (set, try_set, extend, set_len; sparse and run-length builders), a
   call that is out of order, out of range, beyond capacity or would overflow is refused (an error from the
   try_ variants, the documented panic from the others) and leaves every observable property of the builder
   unchanged, while each accepted call is reflected exactly in len/next_index/count_ones/is_full.
   Converting the builder succeeds exactly when the type allows it (a sparse builder must be full) and
   yields the vector whose set bits are precisely the accepted positions."

Property theorems only (helper lemmas live in Proofs/Builders.lean, Proofs/Sparse2.lean, Proofs/RL.lean,
Proofs/Glue4.lean).  Quantifiers: every finite history of calls, valid and invalid ones in any order, for
every (universe, capacity) pair and every low width `w` (a parameter: the `f64` width rule of
`SparseBuilder::new` is outside the model, every theorem holds for every `w` in the stated range), set and
multiset mode, both arithmetic modes `m` for the run-length builder (the sparse builder performs no
arithmetic that could overflow under its invariant).

**How "leaves every observable unchanged" is expressed.**  The model is functional: `try_set` takes the
builder by value and returns `Outcome Builder`.  A refused call returns `fault (.err .other)` and NO new
builder; the caller still holds the old value, which is unchanged because nothing can change a value.  So
"a refused call has no side effect" holds by construction of the model (Rust: the `try_` functions test all
conditions before the first write — that is what is transcribed, the tests come first and the error
branches contain no assignment).  What the theorems add is (a) the EXACT refusal condition, as an iff,
(b) that nothing else can happen (never a panic / out-of-bounds under the invariant), (c) the effect of an
accepted call on all observables, and (d) whole histories, in which the caller ignores `Err` results and
goes on with the builder it holds (`BuildersProofs.step`, `BuildersProofs.rlRun`).
`refused_call_keeps_builder` states the protocol explicitly.

**Panicking variants.**  `set`, `set_run`, `extend` are the same functions with the error turned into a
panic: in the source `fn set(..) { self.try_set(..).unwrap() }` and `extend` is a loop over `set`.  The model
has one function per pair; the driver maps `fault (.err _)` of the model to "panics" for the unwrapping
variant (harness level).  Every theorem below about `trySet` is therefore a theorem about `set` with "returns
`Err`" read as "panics with the documented message" — and since the panic happens before any write, the
builder observed after `catch_unwind` is the unchanged one.  `Sparse.ofValues` is the `extend` / `FromIterator`
pipeline (`new`, `try_set` for each value, `build`), stopping at the first refusal.

**Scope of "the vector whose set bits are precisely the accepted positions".**  Sparse builder: `len`,
`count_ones`, `get`, `rank`, `select` and `one_iter` of the built vector.  Run-length builder: `len`, `count_ones`
and `run_iter` (the maximal runs of set bits — which determine every bit) of the converted vector; that the
conversion itself never faults is proven (`rl_history_builds_accepted_runs`); the point queries `get` / `rank` /
`select` of a run-length vector are the subject of C03 and are partial there.
-/
import Sds.Proofs.Glue4
import Sds.Proofs.Sparse2
import Sds.Proofs.GenEqBuild
import Sds.Proofs.GenEqConstr4
import Sds.Proofs.GenEqConstr3
import Sds.Proofs.GenEqSpMisc

namespace Sds.C16
open Sds Outcome BuildersProofs

/-! ## 1. Sparse builder -/

/-- `SparseBuilder::new(universe, ones)`: refused (an `Err`) exactly when there are more ones than
positions; otherwise an empty builder with the requested capacity -/
theorem sparse_new_refused_iff (w univ ones : Nat) (h1 : 1 ≤ w) (h2 : w ≤ 64) :
    SparseBuilder.new w univ ones = fault (.err .other) ↔ ones > univ :=
  new_reject_iff w univ ones h1 h2

theorem sparse_new_accepted (w univ ones : Nat) (h1 : 1 ≤ w) (h2 : w ≤ 64) (ho : ones ≤ univ)
    (hu : w < 64 ∨ univ < U64) :
    ∃ b, SparseBuilder.new w univ ones = ok b ∧ SbInv b ∧ b.capacity = ones ∧ b.univ = univ ∧
      b.low.width = w ∧ b.len = 0 ∧ b.next = 0 ∧ b.increment = 1 :=
  new_ok w univ ones h1 h2 ho hu

/-- `SparseBuilder::multiset(universe, ones)`: any number of ones; `next_index` does not advance past an
accepted value (`increment = 0`), so duplicates are accepted -/
theorem sparse_multiset_accepted (w univ ones : Nat) (h1 : 1 ≤ w) (h2 : w ≤ 64)
    (hu : w < 64 ∨ univ < U64) :
    ∃ b, SparseBuilder.multiset w univ ones = ok b ∧ SbInv b ∧ b.capacity = ones ∧ b.univ = univ ∧
      b.low.width = w ∧ b.len = 0 ∧ b.next = 0 ∧ b.increment = 0 :=
  multiset_ok w univ ones h1 h2 hu

/-- **exact refusal condition of `try_set`**: the builder is full (beyond capacity), the index is below
`next_index` (out of order), or the index is outside the universe (out of range) — and nothing else -/
theorem sparse_try_set_refused_iff {b : SparseBuilder} (h : SbInv b) (i : Nat) :
    b.trySet i = fault (.err .other) ↔ (b.isFull = true ∨ i < b.next ∨ i ≥ b.univ) :=
  trySet_reject_iff h i

/-- **one call, both cases**: refused with `Err` (exactly under the condition above; no builder is
returned, the caller's builder is untouched), or accepted, and then `len` grows by one, `next_index` is
`i + 1` (set) / `i` (multiset), capacity / universe / mode / width are unchanged and the invariant holds
again.  No third case: never a panic, never an out-of-bounds access. -/
theorem sparse_try_set_step {b : SparseBuilder} (h : SbInv b) (i : Nat) :
    (b.trySet i = fault (.err .other) ∧ (b.isFull = true ∨ i < b.next ∨ i ≥ b.univ)) ∨
    (∃ b', b.trySet i = ok b' ∧ ¬ (b.isFull = true ∨ i < b.next ∨ i ≥ b.univ) ∧
      b'.len = b.len + 1 ∧ b'.next = i + b.increment ∧ b'.capacity = b.capacity ∧
      b'.univ = b.univ ∧ b'.increment = b.increment ∧ b'.low.width = b.low.width ∧ SbInv b') :=
  trySet_cases h i

theorem sparse_try_set_never_panics {b : SparseBuilder} (h : SbInv b) (i : Nat) :
    b.trySet i = fault (.err .other) ∨ ∃ b', b.trySet i = ok b' :=
  trySet_total h i

/-- `is_full` is `len == capacity`, before and after every call -/
theorem sparse_is_full_iff (b : SparseBuilder) : b.isFull = true ↔ b.len = b.capacity :=
  isFull_iff b

/-- the caller protocol, explicitly: after a refused call the caller goes on with the very same builder
(every observable trivially unchanged), after an accepted one with the returned builder -/
theorem refused_call_keeps_builder {b : SparseBuilder} {i : Nat} :
    (b.trySet i = fault (.err .other) → step b i = b) ∧
    (∀ b', b.trySet i = ok b' → step b i = b') :=
  ⟨step_of_reject, fun _ h => step_of_accept h⟩

/-- **histories, set mode.**  `new(univ, ones)` followed by ANY finite list of `try_set` calls, valid or
not, refused ones ignored: the observables `len`, `next_index`, `is_full` are exactly those predicted by the
list-level reference `accepted ones univ 1 calls` (a call is accepted iff fewer than `ones` were accepted so
far, `i ≥ next` and `i < univ`; then `next := i + 1`), and the invariant holds at the end. -/
theorem sparse_history_set (w univ ones : Nat) (h1 : 1 ≤ w) (h2 : w ≤ 64) (ho : ones ≤ univ)
    (hu : w < 64 ∨ univ < U64) (calls : List Nat) :
    ∃ b, SparseBuilder.new w univ ones = ok b ∧
      (run b calls).len = (accepted ones univ 1 calls).acc.length ∧
      (run b calls).next = (accepted ones univ 1 calls).next ∧
      (run b calls).isFull = ((accepted ones univ 1 calls).acc.length == ones) ∧ SbInv (run b calls) :=
  run_new w univ ones h1 h2 ho hu calls

/-- **histories, multiset mode** (`next := i`, so equal values are accepted) -/
theorem sparse_history_multiset (w univ ones : Nat) (h1 : 1 ≤ w) (h2 : w ≤ 64)
    (hu : w < 64 ∨ univ < U64) (calls : List Nat) :
    ∃ b, SparseBuilder.multiset w univ ones = ok b ∧
      (run b calls).len = (accepted ones univ 0 calls).acc.length ∧
      (run b calls).next = (accepted ones univ 0 calls).next ∧
      (run b calls).isFull = ((accepted ones univ 0 calls).acc.length == ones) ∧ SbInv (run b calls) :=
  run_multiset w univ ones h1 h2 hu calls

/-- **histories from any builder state** (not only a fresh one): the reference is started at the builder's
`(len, next)` -/
theorem sparse_history_from_any_state {b : SparseBuilder} (h : SbInv b) (acc0 : List Nat)
    (h0 : acc0.length = b.len) (calls : List Nat) :
    (run b calls).len = (acceptedFrom b.capacity b.univ b.increment ⟨acc0, b.next⟩ calls).acc.length ∧
    (run b calls).next = (acceptedFrom b.capacity b.univ b.increment ⟨acc0, b.next⟩ calls).next ∧
    (run b calls).isFull =
      ((acceptedFrom b.capacity b.univ b.increment ⟨acc0, b.next⟩ calls).acc.length == b.capacity) ∧
    (run b calls).capacity = b.capacity ∧ (run b calls).univ = b.univ ∧
    (run b calls).increment = b.increment ∧ SbInv (run b calls) :=
  run_agrees h acc0 h0 calls

/-- what the reference accepts, whatever the history: at most `cap` indices, all below `univ`, each at least
`inc` above its predecessor (strictly increasing in set mode, non-decreasing in multiset mode), and `next`
is beyond all of them -/
theorem reference_accepts_only_valid (cap univ : Nat) (calls : List Nat) :
    (accepted cap univ 1 calls).acc.length ≤ cap ∧ (∀ x ∈ (accepted cap univ 1 calls).acc, x < univ) ∧
    (accepted cap univ 1 calls).acc.Pairwise (· < ·) ∧
    (accepted cap univ 0 calls).acc.length ≤ cap ∧ (∀ x ∈ (accepted cap univ 0 calls).acc, x < univ) ∧
    (accepted cap univ 0 calls).acc.Pairwise (· ≤ ·) :=
  ⟨(accepted_ok cap univ 1 calls).len_le, (accepted_ok cap univ 1 calls).bound, accepted_strict cap univ calls,
    (accepted_ok cap univ 0 calls).len_le, (accepted_ok cap univ 0 calls).bound, accepted_mono cap univ calls⟩

/-- … and a history consisting of valid calls only is accepted entirely -/
theorem reference_accepts_all_valid (cap univ inc : Nat) (calls : List Nat)
    (hlen : calls.length ≤ cap) (hb : ∀ x ∈ calls, x < univ)
    (hp : calls.Pairwise (fun a c => a + inc ≤ c)) :
    (accepted cap univ inc calls).acc = calls := by
  have := acceptedFrom_valid cap univ inc calls ⟨[], 0⟩ (by simpa using hlen) hb hp
    (fun _ _ => Nat.zero_le _)
  simpa [accepted] using this

/-- **conversion succeeds exactly when the type allows it**: `TryFrom<SparseBuilder>` is an `Err` iff the
builder is not full -/
theorem sparse_build_refused_iff_not_full (b : SparseBuilder) :
    b.build = fault (.err .other) ↔ b.isFull = false :=
  build_reject_iff b

/-- **build what was accepted, for every history** (set mode: `multi = false`, multiset: `multi = true`).
With `P` the indices accepted during the history: if `|P| = ones` the conversion succeeds and the vector
has universe `univ`, `count_ones = |P|`, `get(i) = (i ∈ P)` for every `i`, `select(r) = P[r]`, `rank(i)` =
number of members below `i`, and `one_iter` lists exactly `(0, P[0]), (1, P[1]), …`; if `|P| ≠ ones` the
conversion is an `Err`. -/
theorem sparse_history_builds_accepted (multi : Bool) (w univ ones : Nat) (h1 : 1 ≤ w) (h2 : w ≤ 63)
    (hu : univ < 2 ^ 64) (ho : ones < 2 ^ 63) (hou : multi = false → ones ≤ univ) (calls : List Nat) :
    ∃ b, (if multi then SparseBuilder.multiset w univ ones else SparseBuilder.new w univ ones) = ok b ∧
      ((accepted ones univ (if multi then 0 else 1) calls).acc.length = ones →
        ∃ s, (run b calls).build = ok s ∧ s.len = univ ∧
          s.countOnes = (accepted ones univ (if multi then 0 else 1) calls).acc.length ∧
          (∀ (m : Mode) (i : Nat), i < univ →
            s.get m i = ok (getSet (accepted ones univ (if multi then 0 else 1) calls).acc i)) ∧
          (∀ (m : Mode) (i : Nat),
            s.rank m i = ok (rankSet (accepted ones univ (if multi then 0 else 1) calls).acc i)) ∧
          (∀ (m : Mode) (r : Nat),
            s.select m r = ok (selectSet (accepted ones univ (if multi then 0 else 1) calls).acc r)) ∧
          (∀ m : Mode, drain m s ((accepted ones univ (if multi then 0 else 1) calls).acc.length + 1)
              (SpOneIter.full s) =
            ok (itemsFrom (accepted ones univ (if multi then 0 else 1) calls).acc 0))) ∧
      ((accepted ones univ (if multi then 0 else 1) calls).acc.length ≠ ones →
        (run b calls).build = fault (.err .other)) := by
  obtain ⟨b, hb, hyes, hno⟩ := history_build multi w univ ones h1 h2 hu ho hou calls
  refine ⟨b, hb, fun hlen => ?_, hno⟩
  obtain ⟨s, hs, he⟩ := hyes hlen
  exact ⟨s, hs, he.len_eq, he.low_len, fun m i hi => get_ok he m i hi, fun m i => rank_ok he m i,
    fun m r => select_ok he m r, fun m => drain_full he m⟩

/-- the representation-level form (from which every query theorem of C02 / C15 follows) -/
theorem sparse_history_builds_encoding (multi : Bool) (w univ ones : Nat) (h1 : 1 ≤ w) (h2 : w ≤ 63)
    (hu : univ < 2 ^ 64) (ho : ones < 2 ^ 63) (hou : multi = false → ones ≤ univ) (calls : List Nat) :
    ∃ b, (if multi then SparseBuilder.multiset w univ ones else SparseBuilder.new w univ ones) = ok b ∧
      ((accepted ones univ (if multi then 0 else 1) calls).acc.length = ones →
        ∃ s, (run b calls).build = ok s ∧
          s.Encodes univ w (accepted ones univ (if multi then 0 else 1) calls).acc) ∧
      ((accepted ones univ (if multi then 0 else 1) calls).acc.length ≠ ones →
        (run b calls).build = fault (.err .other)) :=
  history_build multi w univ ones h1 h2 hu ho hou calls

/-- **`extend` / collecting an iterator** (`Sparse.ofValues`: `new`, `try_set` per value, `build`; the first
refusal ends it).  Set mode: accepted iff the values are strictly increasing and below the universe … -/
theorem sparse_extend_set_accepted_iff (w n : Nat) (P : List Nat) (hw1 : 1 ≤ w) (hw : w ≤ 63)
    (hn : n < 2 ^ 64) (hm : P.length < 2 ^ 63) :
    ((∃ s, Sparse.ofValues w n false P = ok s) ↔ (sortedStrict P = true ∧ ∀ p ∈ P, p < n)) ∧
    (¬ (sortedStrict P = true ∧ ∀ p ∈ P, p < n) → Sparse.ofValues w n false P = fault (.err .other)) := by
  refine ⟨⟨fun ⟨s, hs⟩ => ?_, fun ⟨h1, h2⟩ => ?_⟩, ofValues_set_reject w n P hw1 hw⟩
  · apply Classical.byContradiction
    intro hbad
    rw [ofValues_set_reject w n P hw1 hw hbad] at hs
    cases hs
  · obtain ⟨s, hs, _⟩ := ofValues_set_ok w n P hw1 hw hn hm h1 h2
    exact ⟨s, hs⟩

/-- … multiset mode: iff non-decreasing and below the universe -/
theorem sparse_extend_multiset_accepted_iff (w n : Nat) (P : List Nat) (hw1 : 1 ≤ w) (hw : w ≤ 63)
    (hn : n < 2 ^ 64) (hm : P.length < 2 ^ 63) :
    ((∃ s, Sparse.ofValues w n true P = ok s) ↔ (sortedLe P = true ∧ ∀ p ∈ P, p < n)) ∧
    (¬ (sortedLe P = true ∧ ∀ p ∈ P, p < n) → Sparse.ofValues w n true P = fault (.err .other)) := by
  refine ⟨⟨fun ⟨s, hs⟩ => ?_, fun ⟨h1, h2⟩ => ?_⟩, ofValues_multi_reject w n P hw1 hw⟩
  · apply Classical.byContradiction
    intro hbad
    rw [ofValues_multi_reject w n P hw1 hw hbad] at hs
    cases hs
  · obtain ⟨s, hs, _⟩ := ofValues_multi_ok w n P hw1 hw hn hm h1 h2
    exact ⟨s, hs⟩

/-- more values than the universe has positions (set mode) is refused already by `new` -/
theorem sparse_extend_beyond_capacity_refused (w n : Nat) (P : List Nat) (hw1 : 1 ≤ w) (hw : w ≤ 63)
    (hbad : n < P.length) : Sparse.ofValues w n false P = fault (.err .other) :=
  ofValues_set_reject_len w n P hw1 hw hbad

/-- what the accepted pipeline builds: the encoding of exactly the given values -/
theorem sparse_extend_builds_values (w univ : Nat) (multi : Bool) (vals : List Nat) (h1 : 1 ≤ w)
    (h2 : w ≤ 63) (hu : univ < 2 ^ 64) (hm : vals.length < 2 ^ 63) (hb : ∀ x ∈ vals, x < univ)
    (hs : vals.Pairwise (fun a c => a + (if multi then 0 else 1) ≤ c)) :
    ∃ s, Sparse.ofValues w univ multi vals = ok s ∧ s.Encodes univ w vals :=
  BuildersProofs.ofValues_encodes w univ multi vals h1 h2 hu hm hb hs

/-! ## 2. Run-length builder

Observables: `len`, `count_ones` (`ones`), and the pending run `run = (start, length)` which `try_set`
extends when the new run is adjacent (`start == len`).  `RlInv` is the counter-level invariant of
Proofs/Builders (`len < 2^64`, `ones ≤ len`, the pending run ends at `len` and is counted in `ones`). -/

/-- **exact refusal condition of `try_set(start, len)`**, for EVERY builder state (no invariant needed) and
both modes: the run starts before the current length (out of order / overlapping), or its end does not fit
a `usize` (would overflow) -/
theorem rl_try_set_refused_iff (m : Mode) (b : RLBuilder) (start len : Nat) :
    b.trySet m start len = fault (.err .other) ↔ (start < b.len ∨ U64 - 1 - len < start) :=
  rl_trySet_reject_iff m b start len

/-- **an accepted `try_set`**, both modes: never faults; `count_ones` grows by `len`; for a non-empty run
`len()` becomes `start + len` and the pending run ends there and contains the new run; an empty run changes
nothing at all -/
theorem rl_try_set_accepted (m : Mode) {b : RLBuilder} (h : RlInv b) (start len : Nat) (hu : len < U64)
    (h1 : b.len ≤ start) (h2 : start ≤ U64 - 1 - len) :
    ∃ b', b.trySet m start len = ok b' ∧ RlInv b' ∧ b'.ones = b.ones + len ∧
      (0 < len → b'.len = start + len ∧ b'.run.1 + b'.run.2 = start + len ∧ len ≤ b'.run.2) ∧
      (len = 0 → b' = b) :=
  rl_trySet_spec m h start len hu h1 h2

/-- **one call, both cases**, both modes: `Err` exactly in the two documented cases, otherwise a new builder
satisfying the invariant — never a panic (checked build) and never a silently wrapped counter (release) -/
theorem rl_try_set_step (m : Mode) {b : RLBuilder} (h : RlInv b) (start len : Nat) (hu : len < U64) :
    (b.trySet m start len = fault (.err .other) ∧ (start < b.len ∨ U64 - 1 - len < start)) ∨
    (∃ b', b.trySet m start len = ok b' ∧ RlInv b' ∧ b.len ≤ start ∧ start + len < U64) :=
  rl_trySet_total m h start len hu

/-- **`set_len(n)`** (repaired, see F9 below), both modes: never refused and never faults; `len` becomes
`max len n` (a smaller `n` is ignored: nothing changes), `count_ones` is unchanged, and when the vector is
extended the (empty) pending run is parked at the new length -/
theorem rl_set_len_step (m : Mode) {b : RLBuilder} (h : RlInv b) (n : Nat) (hn : n < U64) :
    ∃ b', b.setLen m n = ok b' ∧ RlInv b' ∧ b'.len = max b.len n ∧ b'.ones = b.ones ∧
      (b.len < n → b'.run = (n, 0)) :=
  setLenFixed_spec m h n hn

/-- **histories.**  From any builder satisfying the invariant, ANY finite list of `try_set` / `set_len` /
`set_bit` calls with `usize` arguments, valid or not, refused ones ignored, runs to completion in both modes
(no call ever panics), the invariant holds at the end, and no call shortens the vector or loses ones -/
theorem rl_history (m : Mode) (cs : List RL.BCall) {b : RLBuilder} (h : RlInv b)
    (hargs : ∀ c ∈ cs, argsOk c) :
    ∃ b', rlRun m cs b = ok b' ∧ RlInv b' ∧ b.len ≤ b'.len ∧ b.ones ≤ b'.ones :=
  rlRun_fixed m cs h hargs

/-- the calls of a history that were accepted are a sub-history (in order), and the history is the
all-accepted history of those calls: refused calls contributed nothing -/
theorem rl_history_is_history_of_accepted (m : Mode) (cs : List RL.BCall) (b b' : RLBuilder)
    (h : rlRun m cs b = ok b') :
    (rlAccepted m cs b).Sublist cs ∧ RL.runBCalls m (rlAccepted m cs b) b = ok b' :=
  ⟨rlAccepted_sublist m cs b, rlRun_accepted m cs b b' h⟩

/-- **build what was accepted, run-length builder.**  For every mode and every history `cs` of calls with
`usize` arguments on a fresh builder — valid and invalid calls in any order, refused ones ignored — the history
runs to completion, `From<RLBuilder>` SUCCEEDS (it has no refusal of its own, and none of its internal
assertions fires), and `len`, `count_ones` and the items of `run_iter()` of the vector are the length, the
number of ones and the maximal runs of the bit sequence `B` described by the ACCEPTED calls
(`B = (rlAccepted m cs {}).foldl RL.specCall []`: `try_set(s, l)` appends zeros up to `s` and `l` ones,
`set_len(n)` appends zeros up to `n`, `set_bit(i)` is `try_set(i, 1)`); each run comes with the running
`(rank, offset)` after it. -/
theorem rl_history_builds_accepted_runs (m : Mode) (cs : List RL.BCall)
    (hargs : ∀ c ∈ cs, argsOk c) :
    ∃ b v, rlRun m cs {} = ok b ∧ RlInv b ∧ RL.ofBuilder m b = ok v ∧
      v.len = ((rlAccepted m cs {}).foldl RL.specCall []).length ∧
      v.ones = ((rlAccepted m cs {}).foldl RL.specCall []).count true ∧
      ∃ it0 e endPos, v.runIter = ok it0 ∧
        RunIter.collect m v ((maximalRuns ((rlAccepted m cs {}).foldl RL.specCall [])).length + 1) it0 =
          ok (RunIter.withPos 0 (maximalRuns ((rlAccepted m cs {}).foldl RL.specCall [])), e) ∧
        e.pos = (((rlAccepted m cs {}).foldl RL.specCall []).count true, endPos) ∧
        endPos ≤ ((rlAccepted m cs {}).foldl RL.specCall []).length :=
  rl_history_roundtrip_total m cs hargs

/-! ### F9 (documentation; about `set_len` as first written, `RLBuilder.setLenOld`, not the shipped code) -/

/-- the old `set_len` kept the counters right but, whenever it really extended the vector, left the empty
pending run at the OLD length — an accepted call that was not "reflected exactly" -/
theorem F9_old_set_len_breaks_invariant (m : Mode) {b b' : RLBuilder} (h : RlInv b) (n : Nat)
    (hn : n < U64) (hlt : b.len < n) (hb : b.setLenOld m n = ok b') : ¬ RlInv b' :=
  setLen_breaks_inv m h n hn hlt hb

/-- consequence, concrete: after the old `set_len(10)` on a fresh builder, `try_set(10, 5)` was recorded
as the run `[0, 5)` … -/
theorem F9_old_witness :
    ∃ b1 b2, ({} : RLBuilder).setLenOld .checked 10 = ok b1 ∧ b1.trySet .checked 10 5 = ok b2 ∧
      b2.run = (0, 5) ∧ b2.len = 15 ∧ b2.ones = 5 ∧ ¬ RlInv b2 :=
  f9_witness

/-- … with the repaired `set_len` it is the run `[10, 15)`, in both modes -/
theorem F9_fixed_witness :
    (∃ b1 b2, ({} : RLBuilder).setLen .checked 10 = ok b1 ∧ b1.trySet .checked 10 5 = ok b2 ∧
      b2.run = (10, 5) ∧ b2.len = 15 ∧ b2.ones = 5 ∧ RlInv b2) ∧
    (∃ b1 b2, ({} : RLBuilder).setLen .wrapping 10 = ok b1 ∧ b1.trySet .wrapping 10 5 = ok b2 ∧
      b2.run = (10, 5) ∧ b2.len = 15 ∧ b2.ones = 5) :=
  ⟨f9_fixed_witness, f9_fixed_witness_wrapping⟩

/-- the repaired function differs from the old one in the pending run only -/
theorem F9_fix_is_minimal (m : Mode) (b : RLBuilder) (n : Nat) :
    b.setLen m n = (b.setLenOld m n).bind fun b' =>
      ok (if n > b.len then { b' with run := (n, 0) } else b') :=
  setLen_eq_setLenOld m b n

/-! ### non-vacuity -/

/-- a sparse history with every kind of refusal: universe 10, capacity 3; calls 4, 4 (out of order), 2 (out
of order), 12 (out of range), 7, 9, 9 (full): accepted 4, 7, 9 -/
example : (accepted 3 10 1 [4, 4, 2, 12, 7, 9, 9]).acc = [4, 7, 9] := by decide
example : ∃ b, SparseBuilder.new 2 10 3 = ok b ∧ (run b [4, 4, 2, 12, 7, 9, 9]).len = 3 ∧
    (run b [4, 4, 2, 12, 7, 9, 9]).isFull = true ∧ (run b [4, 4, 2, 12, 7, 9]).next = 10 := by
  obtain ⟨b, hb, h1, h2, h3, _⟩ := sparse_history_set 2 10 3 (by decide) (by decide) (by decide)
    (Or.inl (by decide)) [4, 4, 2, 12, 7, 9, 9]
  obtain ⟨b', hb', _, g2, _⟩ := sparse_history_set 2 10 3 (by decide) (by decide) (by decide)
    (Or.inl (by decide)) [4, 4, 2, 12, 7, 9]
  rw [hb] at hb'; cases hb'
  refine ⟨b, hb, ?_, ?_, ?_⟩
  · rw [h1]; decide
  · rw [h3]; decide
  · rw [g2]; decide
/-- a history that does not fill the builder cannot be converted -/
example : (accepted 3 10 1 [4, 12]).acc.length ≠ 3 := by decide
/-- multiset mode accepts the duplicate -/
example : (accepted 3 10 0 [4, 4, 2, 12, 7]).acc = [4, 4, 7] := by decide
/-- a run-length history with refusals: `try_set(3, 2)`, `try_set(4, 1)` (overlaps: refused),
`set_len(10)`, `set_bit(10)`, `try_set(2^64 - 1, 1)` (end does not fit: refused) -/
example : rlRun .checked [.set 3 2, .set 4 1, .setLen 10, .bit 10, .set (2 ^ 64 - 1) 1] {} =
    ok { len := 11, ones := 3, tail := 5, run := (10, 1), samples := #[(0, 0)],
         data := (RLBuilder.encode (RLBuilder.encode ⟨0, 4, RawVec.empty⟩ 3) 1) } ∧
    rlAccepted .checked [.set 3 2, .set 4 1, .setLen 10, .bit 10, .set (2 ^ 64 - 1) 1] {} =
      [.set 3 2, .setLen 10, .bit 10] := by
  constructor <;> decide
example : ([.set 3 2, .setLen 10, .bit 10] : List RL.BCall).foldl RL.specCall [] =
    [false, false, false, true, true, false, false, false, false, false, true] := by decide

/-! **The builder methods as translated from the source on this run** (`Generated/FnsBuild.lean`, tools/rs2lean.py).
`RLBuilder::{count_zeros, code_len, flush, set_run_unchecked, set_bit_unchecked, try_set, set_len}` — the two rejection
tests of `try_set`, the merge test `start == len`, the order `flush; len = …; run = …` of `set_len` (finding F9), the
block-closing test and sample of `flush` (the `while` loop of `encode` is the one callee named by its model function) —
and `SparseBuilder::{is_full, capacity, universe, next_index, is_multiset, is_empty, set_unchecked, try_set}` with the
three rejection tests in source order.  For every builder state reachable by accepted calls (`Inv`, `DInv` — proven
invariants of the model builder — resp. `SbInv`) whose buffers have a length representable in `usize`, the code as it is
NOW is the model function the acceptance and refinement theorems above are about.  `GenEq.rlb_flush_ne_*` and
`GenEq.spb_set_unchecked_ne*` are `decide` witnesses that the hypotheses are needed (states outside the invariants). -/
theorem run_length_builder_as_translated_from_source (m : Mode) (b : RLBuilder) (start len i : Nat) (hlen : len < U64)
    {done : List (List (Nat × Nat))} {cur : List (Nat × Nat)}
    (h : b.Inv) (hd : RLBuilder.DInv b done cur) (hraw : b.data.data.len < U64) :
    Generated.gen_RLBuilder_count_zeros m b = b.countZeros m ∧
    Generated.gen_RLBuilder_code_len m i = ok (RLBuilder.codeLen i) ∧
    Generated.gen_RLBuilder_flush m b = b.flush m ∧
    Generated.gen_RLBuilder_set_run_unchecked m b start len = b.setRunUnchecked m start len ∧
    Generated.gen_RLBuilder_set_bit_unchecked m b i = b.setRunUnchecked m i 1 ∧
    Generated.gen_RLBuilder_try_set m b start len = b.trySet m start len ∧
    Generated.gen_RLBuilder_set_len m b len = b.setLen m len :=
  ⟨GenEq.rlb_count_zeros_eq m b, GenEq.rlb_code_len_eq m i, GenEq.rlb_flush_eq_of_dinv m b h hd hraw,
   GenEq.rlb_set_run_unchecked_eq_of_dinv m b start len h hd hraw, GenEq.rlb_set_bit_unchecked_eq_of_dinv m b i h hd hraw,
   GenEq.rlb_try_set_eq_of_dinv m b start len hlen h hd hraw, GenEq.rlb_set_len_eq_of_dinv m b len h hd hraw⟩

theorem sparse_builder_as_translated_from_source (m : Mode) (b : SparseBuilder) (i : Nat) (h : BuildersProofs.SbInv b)
    (hu : b.univ + b.increment ≤ U64) (hb : b.low.len * b.low.width < U64) (hhl : b.high.len < U64) :
    Generated.gen_SparseBuilder_is_full m b = ok b.isFull ∧
    Generated.gen_SparseBuilder_try_set m b i = b.trySet i ∧
    (b.len < b.low.len → i < b.univ → Generated.gen_SparseBuilder_set_unchecked m b i = b.setUnchecked i) :=
  ⟨GenEq.spb_is_full_eq m b, GenEq.spb_try_set_eq_of_inv m b i h hu hb hhl,
   fun hl hi => GenEq.spb_set_unchecked_eq_of_inv m b i h hl hi hu hb hhl⟩

/-- the translated `set_len(n); try_set(n, k)` records the run at `n` (finding F9: the code as first written recorded
it at the previous run start) -/
example : (Generated.gen_RLBuilder_set_len .checked {} 8 >>= fun b => Generated.gen_RLBuilder_try_set .checked b 8 1)
    = ok { len := 9, ones := 1, tail := 0, run := (8, 1) } := by decide

/-! **`RLBuilder::{default, new, encode}` as translated from the source on this run** (`Generated/FnsConstr4.lean`): the
default builder (all counters 0, no samples, 4-bit code units) and `encode` — the `while value > CODE_MASK` loop pushing
`(value & CODE_MASK) | CODE_FLAG` and shifting by `CODE_SHIFT`, then the final unit — equal to the model's `{}` and
`RLBuilder.encode` (`encodeUnits 23`), for every `usize` value, on every well-formed 4-bit data vector with room for 22
more units. -/
theorem rl_builder_constructors_as_translated_from_source (m : Mode) :
    Generated.gen_RLBuilder_default m = ok ({} : RLBuilder) ∧
    Generated.gen_RLBuilder_new m = ok ({} : RLBuilder) ∧
    (∀ (b : RLBuilder) (value : Nat), value < U64 → b.data.WF → b.data.width = 4 → (b.data.len + 22) * 4 + 63 < U64 →
        Generated.gen_RLBuilder_encode m b value = ok { b with data := RLBuilder.encode b.data value }) :=
  ⟨GenEq.rlb_default_eq m, GenEq.rlb_new_eq m, fun b value hv hwf hw hb => GenEq.rlb_encode_eq m b value hv hwf hw hb⟩

/-! **The sparse builder's constructors and `SparseVector::try_from(builder)` as translated from the source on this run**
(`Generated/FnsConstr3.lean`): `get_params` (the floating-point rule `round(max(1, log2(universe · ln 2 / ones)))` is the
NAMED parameter `fw`; width 1 when `ones = 0` or `ones > universe`; `ones + get_buckets(universe, width)` high bits),
`new` (the `ones > universe` error, `with_len(ones, width, 0).unwrap()`, the empty `high` inside `data`, the raw `high` of
`high_len` zeros) and `multiset`, in the Rust layout `SparseBuilderR`, and `try_from` (the "not full" error,
`BitVector::from(builder.high)`, `enable_select`, `enable_select_zero`).  For every width `1 ≤ fw ≤ 64` the code as it is
NOW is the model builder the theorems above start from (`spbR` embeds the model builder in the Rust layout:
`(spbR b).toModel = b` by `rfl`). -/
theorem sparse_builder_constructors_as_translated_from_source (m : Mode) (fw univ ones : Nat) (hfw1 : 1 ≤ fw) (hfw2 : fw ≤ 64)
    (hu : univ < U64) (hh : ones + Sparse.getBuckets univ (GenEq.spWidth fw univ ones) + 63 < U64)
    (hl : ones * GenEq.spWidth fw univ ones + 63 < U64) :
    Generated.gen_SparseBuilder_get_params m fw univ ones =
        ok (GenEq.spWidth fw univ ones, ones + Sparse.getBuckets univ (GenEq.spWidth fw univ ones)) ∧
    Generated.gen_SparseBuilder_new m fw univ ones =
        (SparseBuilder.new (GenEq.spWidth fw univ ones) univ ones).bind (fun b => ok (GenEq.spbR b)) ∧
    Generated.gen_SparseBuilder_multiset m fw univ ones =
        (SparseBuilder.multiset (GenEq.spWidth fw univ ones) univ ones).bind (fun b => ok (GenEq.spbR b)) ∧
    (∀ b : SparseBuilderR, 64 * b.high.data.size < U64 → Generated.gen_SparseVector_try_from m b = b.toModel.build) :=
  ⟨GenEq.spb_get_params_eq m fw univ ones hfw2 hu (by omega), GenEq.spb_new_eq m fw univ ones hfw1 hfw2 hu hh hl,
   GenEq.spb_multiset_eq m fw univ ones hfw1 hfw2 hu hh hl, fun b h => GenEq.sparse_try_from_eq m b h⟩

/-! **`SparseBuilder::set` and `Extend::extend` as translated from the source on this run** (`Generated/FnsSpMisc.lean`):
`set` is `try_set(index).unwrap()` — the model's `trySet` with its `Err` turned into the unwrap panic — and `extend` is
`set` on every item in order, on every builder reachable through the public API within the representation bounds
(`SbBounds`, preserved by every accepted call). -/
theorem sparse_builder_set_extend_as_translated_from_source (m : Mode) (b : SparseBuilder) (h : GenEq.SbBounds b) :
    (∀ index, Generated.gen_SparseBuilder_set m b index = Generated.unwrapRes (b.trySet index)) ∧
    (∀ iter : List Nat, Generated.gen_SparseBuilder_extend m b iter =
        iter.foldlM (fun b i => Generated.unwrapRes (b.trySet i)) b) :=
  ⟨fun index => GenEq.spb_set_eq_of_inv m b index h.inv h.univ_ok h.low_ok h.high_ok,
   fun iter => GenEq.spb_extend_eq m b iter h⟩

end Sds.C16
