/-
C03 — Run-length bitvector answers every query exactly and reports maximal runs.

  "For every list of non-overlapping runs of set bits and every total length up to the documented maximum
   (about the maximum usize), the run-length bitvector built from them can be constructed and returns exactly
   the defined answers for get, rank, rank_zero, select, select_zero, predecessor, successor, len, count_ones
   and count_zeros for every argument the operation is defined for (get below len, rank_zero up to len, all
   others for any value).  Its run iterator yields exactly the maximal runs (adjacent input runs merged), in
   order, with correct running offset/rank."

Property theorems only (helper lemmas live in Proofs/RL.lean, Proofs/RLQueries.lean, Proofs/Glue4.lean and
Proofs/Glue5.lean).

Model (Model/RL.lean).  `RLBuilder` / `RL` / `RunIter` / `SampleIndex` transcribe `rl_vector.rs` and
`rl_vector/index.rs`: runs are written as pairs (gap, length − 1) of variable-length integers in 4-bit code
units (3 data bits + continuation flag, 1..22 units for a `usize`), in 64-unit blocks of entire runs, one
sample `(ones, bits)` per block; three `SampleIndex`es narrow a query to a range of blocks, `block_for` is a
binary search over the block samples, and every query then walks `RunIter::next` inside one block.  All
arithmetic is performed in the mode `m` (checked build / release build).

Input space.  `RL.RunsFrom 0 runs`: `runs` is a list of `(start, length)` in increasing order, every length
≥ 1, no run starting before the end of its predecessor (ADJACENT runs are allowed: they must be merged),
every run ending below 2^64; `n < 2^64` is the total length (`set_len(n)` after the last run; trailing zeros
or none).  `RL.runBits runs n` is the bit sequence: zeros up to each start, then the run, then zeros up to
`n`.  `maximalRuns B` (Spec/Bits.lean) is the reference: the maximal runs of set bits of a bit list.
The `…_any_history` theorems / C16 cover EVERY sequence of accepted builder calls (`try_set`, `set_len`,
`set_bit` in any interleaving, `usize` arguments), with `B` = the bit sequence those calls describe
(`RL.specCall`), not only this canonical one.

**Proven in full** — `queries_exact` (the headline) and `queries_exact_any_history`.  For
`B = RL.runBits runs n` (resp. the bit sequence of the call history), for both modes `m`, with NO further
hypothesis:

      ∃ v, (build) = ok v ∧
      v.len = B.length ∧ v.ones = B.count true ∧ v.countZeros = B.count false ∧
      (∀ i < B.length, v.get m i = ok B[i]) ∧
      (∀ i, v.rank m i = ok (rankSpec B i)) ∧ (∀ i ≤ B.length, v.rankZero m i = ok (rankZeroSpec B i)) ∧
      (∀ r, v.select m r = ok (selectSpec B r)) ∧ (∀ r, v.selectZero m r = ok (selectZeroSpec B r)) ∧
      (∀ x, first item of v.predecessor m x = predSpec B x) ∧ (∀ x, first item of v.successor m x = succSpec B x) ∧
      items of v.run_iter() = maximalRuns B with running (rank, offset)

  plus what the code does outside the domain the property defines: `get(i)` with `i ≥ len` returns `false`
  (no panic), and `rank_zero(i)` is `i − rank(i)` for EVERY `i` (the trait's default `index - rank(index)`; for
  `i > len` this is `i − count_ones`, which is not a count of zeros of the vector — the property defines
  `rank_zero` up to `len` only; both forms are stated).

  The block-count side condition of the query theorems of Proofs/RLQueries (`v.blocks + 8 < 2^64`, needed by
  `SampleIndex::new`) is DISCHARGED from the builder invariant (`block_count_bound`): the flushed runs are
  the maximal runs of `B`, each block holds at least one run and every run but the first is preceded by an
  unset bit, so `2 · blocks ≤ len + 1 ≤ 2^64`, i.e. at most 2^63 blocks.  Nothing is excluded.

  Also in full: the code-unit codec (round trip, 1..22 units, prefix-free, decoding inside the vector); the
  `SampleIndex` parameters (no bound on the universe: F8) and the `range` contract established by
  `SampleIndex::new` for non-decreasing values (duplicates allowed: F10); the `block_for` binary search; the
  builder invariant for `try_set` and the repaired `set_len` (F9); construction (`construction_succeeds`,
  `conversion_never_faults`); the iterators `one_iter()`, `iter()`, `zero_iter()` and `select_iter(r)` (every
  `r`) drained to the end (`one_iter_exact`, `bit_iter_exact`, `zero_iter_exact`, `select_iter_exact`).

**Partial** (not part of the property's list of operations, stated for completeness):
`select_zero_iter(r)` — proven: it succeeds for every `r`, is the documented empty iterator for
`r ≥ count_zeros`, and otherwise starts at `(r, select_zero(r))` (`select_zero_iter_starts`); NOT proven: that
the following `next()` calls enumerate the remaining unset bits.  The iterators are drained by `next()` only
(the Rust types implement no `next_back`; `nth` is the default repeated `next`).
-/
import Sds.Proofs.Glue4
import Sds.Proofs.Glue5
import Sds.Proofs.Glue
import Sds.Proofs.GenEqIdx
import Sds.Proofs.GenEqLoop3
import Sds.Proofs.GenEqRL1
import Sds.Proofs.GenEqConstr
import Sds.Proofs.GenEqRL2
import Sds.Proofs.GenEqConstr4
import Sds.Proofs.GenEqRLPred

namespace Sds.C03
open Sds Outcome

/-! ### 1. the variable-length code -/

/-- every `usize` value is written in 1..22 code units, each a 4-bit value, all but the last carrying the
continuation flag -/
theorem code_length_and_shape (v : Nat) (hv : v < 2 ^ 64) :
    (RLBuilder.encodeUnits 23 v).length = RLBuilder.codeLen v ∧
    1 ≤ RLBuilder.codeLen v ∧ RLBuilder.codeLen v ≤ 22 ∧
    (∀ u ∈ RLBuilder.encodeUnits 23 v, u < 16) ∧
    ∃ init last, RLBuilder.encodeUnits 23 v = init ++ [last] ∧ last < 8 ∧ ∀ u ∈ init, 8 ≤ u ∧ u < 16 :=
  ⟨RLBuilder.encodeUnits_length v hv, (RLBuilder.codeLen_bounds v).1, (RLBuilder.codeLen_bounds v).2,
    RLBuilder.encodeUnits_lt_16 v hv, RLBuilder.encodeUnits_shape v hv⟩

/-- decoding the units of `v` followed by anything returns `v` and exactly the rest -/
theorem code_round_trip (v : Nat) (hv : v < 2 ^ 64) (rest : List Nat) :
    RLBuilder.decodeUnits (RLBuilder.encodeUnits 23 v ++ rest) = some (v, rest) :=
  RLBuilder.decodeUnits_encode v hv rest

/-- the code is prefix-free: a unit stream has at most one reading -/
theorem code_prefix_free (v v' : Nat) (hv : v < 2 ^ 64) (hv' : v' < 2 ^ 64) (r r' : List Nat)
    (h : RLBuilder.encodeUnits 23 v ++ r = RLBuilder.encodeUnits 23 v' ++ r') : v = v' ∧ r = r' :=
  RLBuilder.encodeUnits_prefix_free v v' hv hv' r r' h

/-- `RLVector::decode` at a position of the data where a code starts returns the value and the position
after the code, in both modes (no overflow for any `usize` value, including those needing 22 units) -/
theorem decode_in_vector (m : Mode) (v : RL) (o x : Nat) (rest : List Nat) (hx : x < 2 ^ 64)
    (h : v.data.items.drop o = RLBuilder.encodeUnits 23 x ++ rest) :
    v.decode m o = ok (x, o + RLBuilder.codeLen x) :=
  RL.decode_encode m v o x rest hx h

/-! ### 2. the sample index -/

/-- `SampleIndex::parameters` (repaired, F8): for EVERY universe size — no relation to 2^63 — and every
number of values with `values + 8 < 2^64`, in both modes: `ns` samples with divisor `d` cover `0..univ`
exactly -/
theorem index_parameters (m : Mode) (values univ : Nat) (hv : 1 ≤ values) (hu : 1 ≤ univ)
    (h : values + 8 < U64) :
    ∃ ns d, SampleIndex.parameters m values univ = ok (ns, d) ∧ 1 ≤ d ∧ (ns - 1) * d < univ ∧
      univ ≤ ns * d ∧ (univ - 1) / d = ns - 1 ∧ 1 ≤ ns :=
  SampleIndex.parameters_contract m hv hu h

/-- `SampleIndex::new` (repaired, F10) on any NON-DECREASING list that starts with 0 and stays below the
universe — duplicates allowed, as the zero counts at block starts require — succeeds in both modes, and
`range(x)` then satisfies its documented contract for every `x` below the universe: a non-empty index range
`lo..hi` with `values[lo] ≤ x` and (`hi` = number of values or `x < values[hi]`) -/
theorem index_range_contract (m : Mode) (rest : List Nat) (univ : Nat)
    (hs : SampleIndex.NonDec (0 :: rest)) (hall : ∀ v ∈ (0 :: rest), v < univ)
    (hno : (0 :: rest).length + 8 < U64) (hu64 : univ < U64) :
    ∃ s, SampleIndex.new m (0 :: rest) univ = ok s ∧ ∀ x, x < univ →
      ∃ lo hi, s.range x = ok (lo, hi) ∧ lo < hi ∧ hi ≤ (0 :: rest).length ∧
        (∃ h : lo < (0 :: rest).length, (0 :: rest)[lo] ≤ x) ∧
        (hi = (0 :: rest).length ∨ ∃ h : hi < (0 :: rest).length, x < (0 :: rest)[hi]) :=
  SampleIndex.new_range m rest univ hs hall hno hu64

/-- `block_for`: binary search with the fuel the model gives it (70 ≥ 64 halvings), over any non-empty range
of at most 2^64 blocks whose samples are readable and non-decreasing and whose first sample is `≤ value`:
returns THE last block of the range with sample `≤ value` -/
theorem block_search_exact (f : Nat → Outcome Nat) (g : Nat → Nat) (value lo hi : Nat) (hlt : lo < hi)
    (hsz : hi - lo ≤ 2 ^ 64) (hf : ∀ i, lo ≤ i → i < hi → f i = ok (g i))
    (hmono : ∀ i j, lo ≤ i → i ≤ j → j < hi → g i ≤ g j) (hlo : g lo ≤ value) :
    ∃ b, RL.blockFor f value 70 lo hi = ok b ∧ lo ≤ b ∧ b < hi ∧ g b ≤ value ∧
      ∀ j, b < j → j < hi → value < g j :=
  RL.blockFor_70 f g value lo hi hlt hsz hf hmono hlo

/-! ### 3. the builder -/

/-- `try_set(start, len)` on a builder satisfying the invariant (the empty builder does), both modes:
refused with `Err` exactly when the run starts before `len()` or would end past `usize::MAX`; otherwise
accepted, the invariant is kept, `len()` = end of the run, `count_ones` grows by `len`, and a run ADJACENT to
the pending one (`start == len()`) is merged into it -/
theorem builder_try_set (m : Mode) (b : RLBuilder) (h : b.Inv) (start len : Nat) (hlen : len < U64) :
    (start < b.len ∨ U64 - 1 - len < start → b.trySet m start len = fault (.err .other)) ∧
    (¬ (start < b.len ∨ U64 - 1 - len < start) →
      ∃ b', b.trySet m start len = ok b' ∧ b'.Inv ∧
        (len = 0 → b' = b) ∧
        (len ≠ 0 → b'.len = start + len ∧ b'.ones = b.ones + len ∧
          b'.run = (if start = b.len then (b.run.1, b.run.2 + len) else (start, len)))) :=
  RLBuilder.trySet_spec m h start len hlen

/-- `set_len(n)` (repaired, F9), both modes: never fails, keeps the invariant, `len() = max len n`,
`count_ones` unchanged, and the empty pending run is parked at the new length -/
theorem builder_set_len (m : Mode) (b : RLBuilder) (h : b.Inv) (n : Nat) (hn : n < U64) :
    ∃ b', b.setLen m n = ok b' ∧ b'.Inv ∧ b'.len = max b.len n ∧ b'.ones = b.ones ∧
      (n ≤ b.len → b' = b) ∧ (b.len < n → b'.run = (n, 0)) :=
  RLBuilder.setLen_spec m h n hn

theorem builder_empty_invariant : ({} : RLBuilder).Inv := RLBuilder.inv_empty

/-- **the builder accepts every run list**: for every increasing list of non-overlapping (possibly adjacent)
runs ending below 2^64 and every total length `n < 2^64`, in both modes, every `try_set` and the final
`set_len` succeed (no refusal, no panic), and the bit sequence these calls describe is `runBits runs n`, of
length `max n (end of the last run)` -/
theorem builder_accepts_every_run_list (m : Mode) (runs : List (Nat × Nat)) (n : Nat)
    (hruns : RL.RunsFrom 0 runs) (hn : n < U64) :
    ∃ b, RL.runBCalls m (RL.callsOf runs n) {} = ok b ∧ b.Inv ∧
      (RL.callsOf runs n).foldl RL.specCall [] = RL.runBits runs n ∧
      (RL.runBits runs n).length = max n (RL.endOf 0 runs) := by
  obtain ⟨b, hb, hi⟩ := RL.runBCalls_accepts m n hn runs {} RLBuilder.inv_empty hruns
  exact ⟨b, hb, hi, RL.callsOf_spec runs n hruns, RL.runBits_length runs n hruns⟩

/-! ### 4. the converted vector: len, counts, run iterator -/

/-- **run iterator, canonical construction.**  Build from the runs and the total length, convert, iterate:
`len()`, `count_ones()`, `count_zeros()` are those of `B = runBits runs n`, and `run_iter()` followed by
`next()` until `None` yields exactly the MAXIMAL runs of `B` — adjacent input runs merged — in order, each
paired with the iterator position `(ones up to and including the run, end of the run)` right after it
(`RunIter.withPos 0`), ending at `(count_ones, end of the last run)`; both modes. -/
theorem run_iterator_yields_maximal_runs (m : Mode) (runs : List (Nat × Nat)) (n : Nat)
    (hruns : RL.RunsFrom 0 runs) (hn : n < U64)
    (b : RLBuilder) (hb : RL.runBCalls m (RL.callsOf runs n) {} = ok b)
    (v : RL) (hv : RL.ofBuilder m b = ok v) :
    v.len = (RL.runBits runs n).length ∧ v.ones = (RL.runBits runs n).count true ∧
    v.countZeros = (RL.runBits runs n).count false ∧
    ∃ it0 e endPos, v.runIter = ok it0 ∧
      RunIter.collect m v ((maximalRuns (RL.runBits runs n)).length + 1) it0 =
        ok (RunIter.withPos 0 (maximalRuns (RL.runBits runs n)), e) ∧
      e.pos = ((RL.runBits runs n).count true, endPos) ∧ endPos ≤ (RL.runBits runs n).length := by
  have h := RL.build_iterate_calls m (RL.callsOf runs n) (RL.callsOf_argsOk runs n 0 hruns hn) b hb v hv
  rw [RL.callsOf_spec runs n hruns] at h
  obtain ⟨h1, h2, h3⟩ := h
  refine ⟨h1, h2, ?_, h3⟩
  unfold RL.countZeros
  rw [h1, h2]
  rw [Glue.count_false_eq]

/-- **run iterator, any call history.**  The same for ANY sequence of accepted `try_set` / `set_len` /
`set_bit` calls with `usize` arguments — every decomposition of the same bit sequence into calls (bit at a
time, run at a time, split runs, interleaved `set_len`) — with `B` the bit sequence the calls describe
(`RL.specCall`: `try_set(s, l)` appends zeros up to `s` and `l` ones; `set_len(k)` appends zeros up to `k`;
`set_bit(i)` is `try_set(i, 1)`) -/
theorem runs_of_any_call_history (m : Mode) (calls : List RL.BCall) (hc : ∀ c ∈ calls, RL.callArgsOk c)
    (b : RLBuilder) (hb : RL.runBCalls m calls {} = ok b) (v : RL) (hv : RL.ofBuilder m b = ok v) :
    v.len = (calls.foldl RL.specCall []).length ∧ v.ones = (calls.foldl RL.specCall []).count true ∧
    ∃ it0 e endPos, v.runIter = ok it0 ∧
      RunIter.collect m v ((maximalRuns (calls.foldl RL.specCall [])).length + 1) it0 =
        ok (RunIter.withPos 0 (maximalRuns (calls.foldl RL.specCall [])), e) ∧
      e.pos = ((calls.foldl RL.specCall []).count true, endPos) ∧
      endPos ≤ (calls.foldl RL.specCall []).length :=
  RL.build_iterate_calls m calls hc b hb v hv

/-- the iteration theorem underneath, for any vector with a block layout `bl` (runs as (gap, length) relative
to their predecessor): the iterator yields the absolute runs of the layout, crossing every block boundary,
whatever the number of blocks -/
theorem run_iterator_over_layout (m : Mode) (v : RL) (bl : List (List (Nat × Nat)))
    (hL : RunIter.Layout v 0 0 bl) (hrk : RunIter.lens bl.flatten < U64)
    (hsp : RunIter.span bl.flatten < U64) :
    ∃ it0 e, v.runIter = ok it0 ∧
      RunIter.collect m v (bl.flatten.length + 1) it0 =
        ok (RunIter.withPos 0 (RunIter.absRuns 0 bl.flatten), e) ∧
      e.pos = (RunIter.lens bl.flatten, RunIter.span bl.flatten) :=
  RunIter.runIter_collect m v bl hL hrk hsp

/-- **`From<RLBuilder>` never faults**: after ANY accepted call history (`try_set` / `set_len` / `set_bit`,
`usize` arguments) the conversion returns a vector, in both modes — none of its three `SampleIndex::new` calls
asserts, no arithmetic overflows (with the code as first written it could panic: F10) -/
theorem conversion_never_faults (m : Mode) (calls : List RL.BCall) (hc : ∀ c ∈ calls, RL.callArgsOk c)
    (b : RLBuilder) (hb : RL.runBCalls m calls {} = ok b) : ∃ v, RL.ofBuilder m b = ok v :=
  RL.ofBuilder_total m calls hc b hb

/-- **the vector can be constructed**, for every run list and every total length, in both modes -/
theorem construction_succeeds (m : Mode) (runs : List (Nat × Nat)) (n : Nat)
    (hruns : RL.RunsFrom 0 runs) (hn : n < U64) :
    ∃ b v, RL.runBCalls m (RL.callsOf runs n) {} = ok b ∧ b.Inv ∧ RL.ofBuilder m b = ok v := by
  obtain ⟨b, hb, hi, _⟩ := builder_accepts_every_run_list m runs n hruns hn
  obtain ⟨v, hv⟩ := RL.ofBuilder_total m _ (RL.callsOf_argsOk runs n 0 hruns hn) b hb
  exact ⟨b, v, hb, hi, hv⟩

/-! ### 5. the queries -/

/-- **the block-count condition always holds**: after ANY accepted call history the converted vector has
`2 · blocks ≤ len + 1`, hence at most 2^63 blocks and `blocks + 8 < 2^64` — the side condition of
`SampleIndex::new` and of the query theorems of Proofs/RLQueries, discharged from the builder invariant -/
theorem block_count_bound (m : Mode) (calls : List RL.BCall) (hc : ∀ c ∈ calls, RL.callArgsOk c)
    (b : RLBuilder) (hb : RL.runBCalls m calls {} = ok b) (v : RL) (hv : RL.ofBuilder m b = ok v) :
    2 * v.blocks ≤ v.len + 1 ∧ v.blocks + 8 < U64 :=
  Glue5.blocks_bound_calls m calls hc b hb v hv

/-- **every query, every accepted call history.**  For ANY sequence of accepted `try_set` / `set_len` /
`set_bit` calls with `usize` arguments, with `B` the bit sequence the calls describe, in both modes: the
conversion succeeds and the vector answers `len`, `count_ones`, `count_zeros`, `get`, `rank`, `rank_zero`,
`select`, `select_zero`, `predecessor`, `successor` by the list-level definitions on `B`, for EVERY argument
(every `usize` value and beyond), and `run_iter()` yields the maximal runs of `B` with the running
`(rank, offset)`.  `get` is also stated outside its domain (`false`), `rank_zero` both as defined (up to `len`)
and as computed (`i − rank(i)`, every `i`).  No hypothesis on the number of blocks, runs or lengths. -/
theorem queries_exact_any_history (m : Mode) (calls : List RL.BCall) (hc : ∀ c ∈ calls, RL.callArgsOk c)
    (b : RLBuilder) (hb : RL.runBCalls m calls {} = ok b) :
    ∃ v, RL.ofBuilder m b = ok v ∧
      v.len = (calls.foldl RL.specCall []).length ∧
      v.ones = (calls.foldl RL.specCall []).count true ∧
      v.countZeros = (calls.foldl RL.specCall []).count false ∧
      (∀ i (hi : i < (calls.foldl RL.specCall []).length), v.get m i = ok (calls.foldl RL.specCall [])[i]) ∧
      (∀ i, (calls.foldl RL.specCall []).length ≤ i → v.get m i = ok false) ∧
      (∀ i, v.rank m i = ok (rankSpec (calls.foldl RL.specCall []) i)) ∧
      (∀ i, i ≤ (calls.foldl RL.specCall []).length →
        v.rankZero m i = ok (rankZeroSpec (calls.foldl RL.specCall []) i)) ∧
      (∀ i, v.rankZero m i = ok (i - rankSpec (calls.foldl RL.specCall []) i)) ∧
      (∀ r, v.select m r = ok (selectSpec (calls.foldl RL.specCall []) r)) ∧
      (∀ r, v.selectZero m r = ok (selectZeroSpec (calls.foldl RL.specCall []) r)) ∧
      (∀ x, ∃ oi oi', v.predecessor m x = ok oi ∧
        oi.nextQ m v = ok (predSpec (calls.foldl RL.specCall []) x, oi')) ∧
      (∀ x, ∃ oi oi', v.successor m x = ok oi ∧
        oi.nextQ m v = ok (succSpec (calls.foldl RL.specCall []) x, oi')) ∧
      ∃ it0 e endPos, v.runIter = ok it0 ∧
        RunIter.collect m v ((maximalRuns (calls.foldl RL.specCall [])).length + 1) it0 =
          ok (RunIter.withPos 0 (maximalRuns (calls.foldl RL.specCall [])), e) ∧
        e.pos = ((calls.foldl RL.specCall []).count true, endPos) ∧
        endPos ≤ (calls.foldl RL.specCall []).length := by
  obtain ⟨v, hv⟩ := RL.ofBuilder_total m calls hc b hb
  obtain ⟨q1, q2, q3, q4, q5, q6, q7, q8, q9, q10, q11⟩ :=
    RLQ.build_queries m calls hc b hb v hv (block_count_bound m calls hc b hb v hv).2
  obtain ⟨_, _, hit⟩ := RL.build_iterate_calls m calls hc b hb v hv
  exact ⟨v, hv, q1, q2, q3, fun i hi => by rw [q4 i, Glue5.getSpec_lt _ i hi],
    fun i hi => by rw [q4 i, Glue5.getSpec_ge _ i hi], q5, q7, q6, q8, q9, q11, q10, hit⟩

/-- **Headline: C03 in full.**  For every run list (`RL.RunsFrom 0 runs`: increasing, non-overlapping,
possibly adjacent runs of positive length ending below 2^64) and every total length `n < 2^64`, in both
modes: the builder accepts every call, the conversion succeeds, and the vector answers EVERY query for EVERY
argument by the list-level definitions on `B = RL.runBits runs n` — `len` (`= max n (end of the last run)`),
`count_ones`, `count_zeros`, `get` (below `len`; `false` beyond), `rank` (any `i`), `rank_zero` (up to `len`
as defined; `i − rank(i)` for any `i`), `select`, `select_zero` (any rank; `None` from the count on),
`predecessor`, `successor` (any `x`: the first item of the returned iterator is the specified
`(rank, position)`, or the iterator is empty) — and `run_iter()` yields exactly the maximal runs of `B`
(adjacent input runs merged), in order, each with the running `(rank, offset)` after it. -/
theorem queries_exact (m : Mode) (runs : List (Nat × Nat)) (n : Nat)
    (hruns : RL.RunsFrom 0 runs) (hn : n < U64) :
    ∃ b v, RL.runBCalls m (RL.callsOf runs n) {} = ok b ∧ RL.ofBuilder m b = ok v ∧
      v.len = (RL.runBits runs n).length ∧ v.len = max n (RL.endOf 0 runs) ∧
      v.ones = (RL.runBits runs n).count true ∧ v.countZeros = (RL.runBits runs n).count false ∧
      (∀ i (hi : i < (RL.runBits runs n).length), v.get m i = ok (RL.runBits runs n)[i]) ∧
      (∀ i, (RL.runBits runs n).length ≤ i → v.get m i = ok false) ∧
      (∀ i, v.rank m i = ok (rankSpec (RL.runBits runs n) i)) ∧
      (∀ i, i ≤ (RL.runBits runs n).length → v.rankZero m i = ok (rankZeroSpec (RL.runBits runs n) i)) ∧
      (∀ i, v.rankZero m i = ok (i - rankSpec (RL.runBits runs n) i)) ∧
      (∀ r, v.select m r = ok (selectSpec (RL.runBits runs n) r)) ∧
      (∀ r, v.selectZero m r = ok (selectZeroSpec (RL.runBits runs n) r)) ∧
      (∀ x, ∃ oi oi', v.predecessor m x = ok oi ∧ oi.nextQ m v = ok (predSpec (RL.runBits runs n) x, oi')) ∧
      (∀ x, ∃ oi oi', v.successor m x = ok oi ∧ oi.nextQ m v = ok (succSpec (RL.runBits runs n) x, oi')) ∧
      ∃ it0 e endPos, v.runIter = ok it0 ∧
        RunIter.collect m v ((maximalRuns (RL.runBits runs n)).length + 1) it0 =
          ok (RunIter.withPos 0 (maximalRuns (RL.runBits runs n)), e) ∧
        e.pos = ((RL.runBits runs n).count true, endPos) ∧ endPos ≤ (RL.runBits runs n).length := by
  obtain ⟨b, hb, _, _, hlen⟩ := builder_accepts_every_run_list m runs n hruns hn
  have h := queries_exact_any_history m (RL.callsOf runs n) (RL.callsOf_argsOk runs n 0 hruns hn) b hb
  rw [RL.callsOf_spec runs n hruns] at h
  obtain ⟨v, hv, h1, h⟩ := h
  exact ⟨b, v, hb, hv, h1, h1.trans hlen, h⟩

/-! ### 6. the other iterators (any accepted call history; `B` = the bit sequence described) -/

/-- `one_iter()`: `next()` until `None` yields the set positions of `B` in order, ranked `0, 1, …` -/
theorem one_iter_exact (m : Mode) (calls : List RL.BCall) (hc : ∀ c ∈ calls, RL.callArgsOk c)
    (b : RLBuilder) (hb : RL.runBCalls m calls {} = ok b) (v : RL) (hv : RL.ofBuilder m b = ok v)
    (F : Nat) (hF : v.ones + 1 ≤ F) :
    ∃ st items, v.oneIter = ok st ∧ RLQ.drainOne m v F st = ok items ∧
      items.map (·.2) = onesPos (calls.foldl RL.specCall []) ∧
      items.map (·.1) = List.range ((calls.foldl RL.specCall []).count true) :=
  RLQ.build_oneIter m calls hc b hb v hv (block_count_bound m calls hc b hb v hv).2 F hF

/-- `iter()`: `next()` until `None` yields exactly the bit sequence `B` -/
theorem bit_iter_exact (m : Mode) (calls : List RL.BCall) (hc : ∀ c ∈ calls, RL.callArgsOk c)
    (b : RLBuilder) (hb : RL.runBCalls m calls {} = ok b) (v : RL) (hv : RL.ofBuilder m b = ok v)
    (F : Nat) (hF : v.len + 1 ≤ F) :
    ∃ st, v.iter = ok st ∧ RLQ.drainBits m v F st = ok (calls.foldl RL.specCall []) :=
  RLQ.build_iter m calls hc b hb v hv (block_count_bound m calls hc b hb v hv).2 F hF

/-- `zero_iter()`: `next()` until `None` yields the unset positions of `B` in order, ranked `0, 1, …` -/
theorem zero_iter_exact (m : Mode) (calls : List RL.BCall) (hc : ∀ c ∈ calls, RL.callArgsOk c)
    (b : RLBuilder) (hb : RL.runBCalls m calls {} = ok b) (v : RL) (hv : RL.ofBuilder m b = ok v)
    (F : Nat) (hF : v.countZeros + 1 ≤ F) :
    ∃ st items, v.zeroIter m = ok st ∧ RLQ.drainZero m v F st = ok items ∧
      items.map (·.2) = zerosPos (calls.foldl RL.specCall []) ∧
      items.map (·.1) = List.range ((calls.foldl RL.specCall []).count false) :=
  RLQ.build_zeroIter m calls hc b hb v hv (block_count_bound m calls hc b hb v hv).2 F hF

/-- `select_iter(r)` for EVERY `r`: the set positions of rank `r, r + 1, …` in order, each with its rank, then
`None`; nothing for `r ≥ count_ones` -/
theorem select_iter_exact (m : Mode) (calls : List RL.BCall) (hc : ∀ c ∈ calls, RL.callArgsOk c)
    (b : RLBuilder) (hb : RL.runBCalls m calls {} = ok b) (v : RL) (hv : RL.ofBuilder m b = ok v)
    (r F : Nat) (hF : (calls.foldl RL.specCall []).count true - r + 1 ≤ F) :
    ∃ st items, v.selectIter m r = ok st ∧ RLQ.drainOne m v F st = ok items ∧
      items.map (·.2) = (onesPos (calls.foldl RL.specCall [])).drop r ∧
      items.map (·.1) = List.range' r ((calls.foldl RL.specCall []).count true - r) := by
  obtain ⟨g, _, e2, _⟩ := Glue5.rl_good m calls hc b hb v hv
  exact Glue5.rl_selectIter_drain m _ g e2 r F hF

/-- `select_zero_iter(r)` for EVERY `r` (PARTIAL: the start only): the call succeeds; for `r ≥ count_zeros` it
is the documented empty iterator, whose `next()` is `None`; otherwise it stands at `(r, select_zero(r))`.
Not proven: the enumeration by the following `next()` calls. -/
theorem select_zero_iter_starts (m : Mode) (calls : List RL.BCall) (hc : ∀ c ∈ calls, RL.callArgsOk c)
    (b : RLBuilder) (hb : RL.runBCalls m calls {} = ok b) (v : RL) (hv : RL.ofBuilder m b = ok v) (r : Nat) :
    (∃ z, v.selectZeroIter m r = ok z ∧
      (r < (calls.foldl RL.specCall []).count false →
        z.pos.1 = r ∧ selectZeroSpec (calls.foldl RL.specCall []) r = some z.pos.2)) ∧
    ((calls.foldl RL.specCall []).count false ≤ r →
      v.selectZeroIter m r = ok (Glue5.rlZeroEnd v) ∧
      (Glue5.rlZeroEnd v).nextQ m v = ok (none, Glue5.rlZeroEnd v)) := by
  obtain ⟨g, e1, e2, e3⟩ := Glue5.rl_good m calls hc b hb v hv
  constructor
  · obtain ⟨z, hz, hpos⟩ := Glue5.rl_selectZeroIter_ok m g r
    refine ⟨z, hz, fun hr => ?_⟩
    obtain ⟨p1, p2⟩ := hpos (by rw [e3]; exact hr)
    rw [g.selectZero m r, e1, RLQ.selectZeroR_maximalRuns] at p2
    exact ⟨p1, Outcome.ok.inj p2⟩
  · intro hr
    refine ⟨(Glue5.rl_selectZero_past m v r (by rw [e3]; exact hr)).2, Glue5.rl_zeroEnd_next m v ?_⟩
    rw [e1, e2]; exact List.count_le_length

/-! ### 7. findings F8, F9, F10 (documentation: the `…Old` functions are the code as first written) -/

/-- F8: `parameters` as first written added the universe size to a divisor before dividing — an arithmetic
overflow panic (checked build) for a universe of 2^63 already, although every quantity involved fits … -/
theorem F8_old_parameters_overflow :
    SampleIndex.parametersOld .checked 1 (2 ^ 63) = fault (.panic .overflow) ∧
    SampleIndex.nsam 1 (2 ^ 63) = 1 ∧ SampleIndex.div0 1 (2 ^ 63) = 2 ^ 63 ∧ 2 ^ 63 < U64 :=
  SampleIndex.F8_parameters_overflow

/-- … exactly when one of its three roundings overflows (the repaired function keeps only the first
condition, which does not involve the universe) -/
theorem F8_old_parameters_ok_iff (values univ : Nat) (hv : 1 ≤ values) (hu : 1 ≤ univ) :
    (∃ r, SampleIndex.parametersOld .checked values univ = ok r) ↔
      (values + 8 < U64 ∧ univ + SampleIndex.ns0 values < U64 ∧
        univ + SampleIndex.div0 values univ < U64) :=
  SampleIndex.parameters_checked_iff hv hu

/-- F8 repaired: the same inputs, and the largest universe, in both modes -/
theorem F8_fixed :
    SampleIndex.parameters .checked 1 (2 ^ 63) = ok (1, 2 ^ 63) ∧
    SampleIndex.parameters .wrapping 1 (2 ^ 63) = ok (1, 2 ^ 63) ∧
    SampleIndex.parameters .checked 1 (2 ^ 64 - 1) = ok (1, 2 ^ 64 - 1) ∧
    SampleIndex.parameters .wrapping 1 (2 ^ 64 - 1) = ok (1, 2 ^ 64 - 1) ∧
    SampleIndex.parameters .checked 9 (2 ^ 64 - 1) = ok (2, 2 ^ 63) ∧
    SampleIndex.parametersOld .checked 1 (2 ^ 64 - 1) = fault (.panic .overflow) :=
  SampleIndex.F8_parameters_fixed

/-- F9: `set_len` as first written left the empty pending run at the OLD length whenever it extended the
vector, breaking the invariant … -/
theorem F9_old_set_len_breaks_invariant (m : Mode) (b : RLBuilder) (h : b.Inv) (n : Nat) (hn : b.len < n) :
    ∃ b', b.setLenOld m n = ok b' ∧ b'.len = n ∧ b'.run = (b.len, 0) ∧ b'.run.1 + b'.run.2 ≠ b'.len ∧
      ¬ b'.Inv :=
  RLBuilder.setLen_breaks_inv m h n hn

/-- … so `set_len(10); try_set(10, 5)` encoded the run at position 0 (units `[0, 4]` = gap 0, length 5):
the vector had bits 0..4 set instead of 10..14 -/
theorem F9_old_wrong_vector :
    (do let b ← ({} : RLBuilder).setLenOld .checked 10
        let b ← b.trySet .checked 10 5
        let b ← b.flush .checked
        return (b.data.items, b.samples.toList, b.len, b.ones)) = ok ([0, 4], [(0, 0)], 15, 5) :=
  RLBuilder.F9_encoded

/-- F9 repaired, end to end: the same calls, converted and iterated, give length 15 and the single run
`(10, 5)` -/
theorem F9_fixed :
    (do let b ← RL.runBCalls .checked [.setLen 10, .set 10 5] {}
        let v ← RL.ofBuilder .checked b
        let it ← v.runIter
        let (rs, _) ← RunIter.collect .checked v 2 it
        return (v.len, v.ones, rs.map (·.1))) = ok (15, 5, [(10, 5)]) :=
  RL.F9_fixed_roundtrip

/-- F10: the inner loop of `SampleIndex::new` as first written asserted STRICTLY increasing values and
panicked on a duplicate; the repaired loop consumes it -/
theorem F10_old_loop_panics_on_duplicate :
    SampleIndex.consumeOld 5 3 0 0 [0, 7] = fault (.panic .assert) ∧
    SampleIndex.consume 5 3 0 0 [0, 7] = ok (1, 0, [7]) :=
  SampleIndex.F10_consume_duplicate

/-- on strictly increasing values (all the old code accepted) the two loops are the same function -/
theorem F10_fix_is_conservative (values : List Nat) (hs : SampleIndex.StrictInc values) (T : Nat)
    (fuel offset : Nat) (ho : offset < values.length) :
    SampleIndex.consumeOld T fuel offset values[offset] (values.drop (offset + 1)) =
      SampleIndex.consume T fuel offset values[offset] (values.drop (offset + 1)) :=
  SampleIndex.consumeOld_eq_consume_of_strict hs T fuel offset ho

/-- F10 end to end: the valid builder on which `From<RLBuilder>` used to panic (205 accepted runs, 9 blocks,
blocks 0 and 1 both preceded by 0 zeros) now converts, in both modes -/
theorem F10_conversion_now_succeeds :
    (do let b ← RL.runCalls .checked RL.zeroIdxCalls {}
        let v ← RL.ofBuilder .checked b
        return (v.len, v.ones, v.blocks, v.selectZeroIndex.divisor, v.selectZeroIndex.samples.items)) =
      ok (2 ^ 63 + 2 ^ 61 + 408, 2 ^ 61 + 205, 9, 2 ^ 62 + 102, [0, 1]) ∧
    (do let b ← RL.runCalls .wrapping RL.zeroIdxCalls {}
        let v ← RL.ofBuilder .wrapping b
        return (v.len, v.ones, v.blocks, v.selectZeroIndex.divisor, v.selectZeroIndex.samples.items)) =
      ok (2 ^ 63 + 2 ^ 61 + 408, 2 ^ 61 + 205, 9, 2 ^ 62 + 102, [0, 1]) :=
  RL.zeroIdx_ofBuilder_ok

/-! ### non-vacuity -/

/-- a run list with a run at position 0, two ADJACENT runs (merged by `maximalRuns`) and trailing zeros -/
example : RL.RunsFrom 0 [(0, 2), (4, 1), (5, 3)] ∧ (12 : Nat) < U64 := by
  refine ⟨⟨by decide, by decide, by decide, by decide, by decide, by decide, by decide, by decide, by decide,
    trivial⟩, by decide⟩
example : RL.runBits [(0, 2), (4, 1), (5, 3)] 12 =
    [true, true, false, false, true, true, true, true, false, false, false, false] := by decide
example : maximalRuns (RL.runBits [(0, 2), (4, 1), (5, 3)] 12) = [(0, 2), (4, 4)] := by decide
example : RunIter.withPos 0 [(0, 2), (4, 4)] = [((0, 2), (2, 2)), ((4, 4), (6, 8))] := by decide
/-- … and the conversion hypothesis is satisfiable: the whole pipeline on that instance (runs, then the
iterator positions after each run) -/
example :
    (do let b ← RL.runBCalls .checked (RL.callsOf [(0, 2), (4, 1), (5, 3)] 12) {}
        let v ← RL.ofBuilder .checked b
        let it ← v.runIter
        let (rs, e) ← RunIter.collect .checked v 3 it
        return (v.len, v.ones, rs.map (·.1), e.pos)) = ok (12, 6, [(0, 2), (4, 4)], (6, 8)) := by
  decide +kernel
example :
    (do let b ← RL.runBCalls .wrapping (RL.callsOf [(0, 2), (4, 1), (5, 3)] 12) {}
        let v ← RL.ofBuilder .wrapping b
        let it ← v.runIter
        let (rs, _) ← RunIter.collect .wrapping v 3 it
        return rs.map (·.2)) = ok [(2, 2), (6, 8)] := by
  decide +kernel
/-- … and the queries on that instance, in- and out-of-range arguments (1 block; `rank_zero(20)` is the
computed `20 − 6`, beyond the defined domain), both modes -/
example :
    (do let b ← RL.runBCalls .checked (RL.callsOf [(0, 2), (4, 1), (5, 3)] 12) {}
        let v ← RL.ofBuilder .checked b
        let g ← v.get .checked 4
        let g2 ← v.get .checked (2 ^ 64 - 1)
        return (v.blocks, g, g2)) = ok (1, true, false) := by
  decide +kernel
example :
    (do let b ← RL.runBCalls .checked (RL.callsOf [(0, 2), (4, 1), (5, 3)] 12) {}
        let v ← RL.ofBuilder .checked b
        let r ← v.rank .checked 6
        let r2 ← v.rank .checked (2 ^ 64 - 1)
        let rz ← v.rankZero .checked 12
        let rz2 ← v.rankZero .checked 20
        return (r, r2, rz, rz2)) = ok (4, 6, 6, 14) := by
  decide +kernel
example :
    (do let b ← RL.runBCalls .checked (RL.callsOf [(0, 2), (4, 1), (5, 3)] 12) {}
        let v ← RL.ofBuilder .checked b
        let s ← v.select .checked 2
        let s2 ← v.select .checked 6
        let sz ← v.selectZero .checked 2
        let sz2 ← v.selectZero .checked (2 ^ 64 - 1)
        return (s, s2, sz, sz2)) = ok (some 4, none, some 8, none) := by
  decide +kernel
example :
    (do let b ← RL.runBCalls .checked (RL.callsOf [(0, 2), (4, 1), (5, 3)] 12) {}
        let v ← RL.ofBuilder .checked b
        let p ← v.predecessor .checked 3
        let (pi, _) ← p.nextQ .checked v
        let p2 ← v.predecessor .checked (2 ^ 64 - 1)
        let (pi2, _) ← p2.nextQ .checked v
        let q ← v.successor .checked 2
        let (qi, _) ← q.nextQ .checked v
        let q2 ← v.successor .checked 12
        let (qi2, _) ← q2.nextQ .checked v
        return (pi, pi2, qi, qi2)) = ok (some (1, 1), some (5, 7), some (2, 4), none) := by
  decide +kernel
example :
    (do let b ← RL.runBCalls .wrapping (RL.callsOf [(0, 2), (4, 1), (5, 3)] 12) {}
        let v ← RL.ofBuilder .wrapping b
        let r ← v.rank .wrapping 6
        let s ← v.select .wrapping 2
        let sz ← v.selectZero .wrapping 2
        return (v.blocks + 8 < U64, r, s, sz)) = ok (true, 4, some 4, some 8) := by
  decide +kernel
/-- the reference answers on that instance -/
example : (rankSpec (RL.runBits [(0, 2), (4, 1), (5, 3)] 12) 6 = 4 ∧
    rankZeroSpec (RL.runBits [(0, 2), (4, 1), (5, 3)] 12) 12 = 6 ∧
    selectSpec (RL.runBits [(0, 2), (4, 1), (5, 3)] 12) 2 = some 4 ∧
    selectSpec (RL.runBits [(0, 2), (4, 1), (5, 3)] 12) 6 = none ∧
    selectZeroSpec (RL.runBits [(0, 2), (4, 1), (5, 3)] 12) 2 = some 8 ∧
    predSpec (RL.runBits [(0, 2), (4, 1), (5, 3)] 12) 3 = some (1, 1) ∧
    predSpec (RL.runBits [(0, 2), (4, 1), (5, 3)] 12) (2 ^ 64 - 1) = some (5, 7) ∧
    succSpec (RL.runBits [(0, 2), (4, 1), (5, 3)] 12) 2 = some (2, 4) ∧
    succSpec (RL.runBits [(0, 2), (4, 1), (5, 3)] 12) 12 = none) := by decide
/-- a vector with more than 8 blocks (the F10 instance: 9 blocks) also meets the block-count bound -/
example : (do let b ← RL.runCalls .checked RL.zeroIdxCalls {}
              let v ← RL.ofBuilder .checked b
              return (v.blocks, decide (2 * v.blocks ≤ v.len + 1))) = ok (9, true) := by
  decide +kernel
/-- no runs at all; runs of length 1; the largest positions -/
example : RL.RunsFrom 0 [] ∧ RL.RunsFrom 0 [(2 ^ 64 - 2, 1)] ∧ RL.runBits [] 3 = [false, false, false] := by
  refine ⟨trivial, ⟨by decide, by decide, by decide, trivial⟩, by decide⟩
example : (RLBuilder.encodeUnits 23 (2 ^ 64 - 1)).length = 22 ∧ (RLBuilder.encodeUnits 23 0).length = 1 := by
  decide

/-! **`SampleIndex::{div_round_up, parameters, range}` as translated from the source on this run**
(`Generated/FnsIdx.lean`): the overflow-free rounding introduced by the repair of F8, the two-step parameter choice, and
the sample lookup with its `+ 1` on the upper end.  For every universe and value below 2^64 the code as it is NOW is the
model function the block-lookup theorems above are about. -/
theorem sample_index_as_translated_from_source (m : Mode) (s : SampleIndex) (values univ value n : Nat)
    (hu : univ < U64) (hv : value < U64) :
    Generated.gen_SampleIndex_div_round_up m value n = SampleIndex.divRoundUpSafe value n ∧
    Generated.gen_SampleIndex_parameters m values univ = SampleIndex.parameters m values univ ∧
    (value / s.divisor + 1 < U64 → s.numValues < U64 → Generated.gen_SampleIndex_range m s value = s.range value) :=
  ⟨GenEq.sample_div_round_up_eq m value n hv, GenEq.sample_parameters_eq m values univ hu,
   fun h1 h2 => GenEq.sample_range_eq m s value h1 h2⟩

/-- the translated `parameters` at a universe of 2^63 with 9 values (the input of finding F8) does not overflow -/
example : Generated.gen_SampleIndex_parameters .checked 9 (2 ^ 63) = ok (2, 2 ^ 62) := by decide

/-! **The internals of `RLVector` as translated from the source on this run — loops included** (`Generated/FnsLoop.lean`):
`blocks`, `ones_after`, `decode` (the `loop` over code units with its `return`), `block_for` (the binary search, with the
sample accessor as a function parameter), `iter_for_block`, `run_iter`.  With block numbers below the block count, data and
sample lengths representable in `usize`, and `low ≤ high < 2^64` for the search, the code as it is NOW is the model function
the theorems above are about.  `decode` agrees in the checked build for every stream, and in the wrapping build for every
stream without 23 consecutive continuation units at the offset — which no integer below 2^64 encodes to
(`GenEq.rl_decode_encode`: on what the builder writes, both modes decode the value and advance by its code length).  On a
crafted 23-unit code the release build shifts by `66 % 64` and reads on where the model stops with a panic
(`GenEq.rl_decode_ne_23`): observation O9 in DESIGN.md, outside the property (files the library or a document-following
writer produced). -/
theorem rl_internals_as_translated_from_source (m : Mode) (v : RL) (block offset low high value : Nat) (f : Nat → Outcome Nat)
    (hs : v.samples.len ≤ U64) (hd : v.data.len < U64) :
    Generated.gen_RLVector_blocks m v = ok v.blocks ∧
    Generated.gen_RLVector_run_iter m v = v.runIter ∧
    (block < v.blocks → Generated.gen_RLVector_ones_after m v block = v.onesAfter block) ∧
    (v.blocks = (v.data.len + 63) / 64 → block < v.blocks →
      Generated.gen_RLVector_iter_for_block m v block = v.iterForBlock block) ∧
    ((m = .wrapping → ¬ GenEq.units23 v offset) → Generated.gen_RLVector_decode m v offset = v.decode m offset) ∧
    (low ≤ high → high < U64 →
      Generated.gen_RLVector_block_for m low high value f = RL.blockFor f value (high + 1) low high) :=
  ⟨GenEq.rl_blocks_eq m v, GenEq.rl_run_iter_eq m v, fun hb => GenEq.rl_ones_after_eq_of_lt m v block hs hb,
   fun hbl hb => GenEq.rl_iter_for_block_eq_of_lt m v block (Nat.le_of_lt hd) hbl hb,
   fun h => GenEq.rl_decode_eq m v offset hd h, fun hl hh => GenEq.rl_block_for_eq m low high value f hl hh⟩

/-! **The run-length vector's query paths as translated from the source on this run** (`Generated/FnsRL.lean`):
`RunIter::advance_if` (decode the next run only when needed, consult the closure, advance), `RunIter::next`,
`rank_zero` / `offset_for` / `rank_at`, `iter_for_bit` / `iter_for_one` / `iter_for_zero` (sample-index range, then the
binary search `block_for` over the block samples with the closures of the source), and `get` / `rank` with their `while let`
loops.  On every vector within the representation bounds (`RLBounds`: data addressable, and — release builds only — no
23-unit code, observation O9; `RangeOK`: the sample index returns an ordered range, which `rangeOK_of_valid` derives for
every index built by `SampleIndex::new`) the code as it is NOW equals the model the theorems above are about.
`advance_if` is stated for an ARBITRARY closure against `advanceIfLazy`, which consults the closure before the two final
additions exactly like the source (observation O13: the model's `peek` adds first). -/
theorem rl_queries_as_translated_from_source {m : Mode} {v : RL} (hb : GenEq.RLBounds m v) :
    (∀ it adv, Generated.gen_RunIter_advance_if m v it adv = GenEq.advanceIfLazy m v it adv) ∧
    (∀ it, Generated.gen_RunIter_next m v it = it.nextQ m v) ∧
    (∀ it, Generated.gen_RunIter_rank_zero m v it = it.rankZero m) ∧
    (∀ it r, Generated.gen_RunIter_offset_for m v it r = it.offsetFor m r) ∧
    (∀ it i, Generated.gen_RunIter_rank_at m v it i = it.rankAt m i) ∧
    Generated.gen_RLVector_count_zeros m v = subM m v.len v.ones ∧
    Generated.gen_RLVector_iter m v = v.iter ∧
    Generated.gen_RLVector_one_iter m v = v.oneIter ∧
    (v.len < U64 → ∀ index, (index < v.len → GenEq.RangeOK v.rankIndex index) →
        Generated.gen_RLVector_iter_for_bit m v index = v.iterForBit index ∧
        Generated.gen_RLVector_get m v index = v.get m index ∧
        Generated.gen_RLVector_rank m v index = v.rank m index) ∧
    (v.ones < U64 → ∀ rank, (rank < v.ones → GenEq.RangeOK v.selectIndex rank) →
        Generated.gen_RLVector_iter_for_one m v rank = v.iterForOne rank) ∧
    (v.len < U64 → v.ones ≤ v.len → ∀ rank, (rank < v.countZeros → GenEq.RangeOK v.selectZeroIndex rank) →
        Generated.gen_RLVector_iter_for_zero m v rank = v.iterForZero m rank) :=
  ⟨fun it adv => GenEq.run_advance_if_lazy hb it adv, fun it => GenEq.run_next_eq hb it,
   GenEq.run_rank_zero_eq m v, GenEq.run_offset_for_eq m v, GenEq.run_rank_at_eq m v, GenEq.rl_count_zeros_eq m v,
   GenEq.rl_iter_eq m v, GenEq.rl_one_iter_eq m v,
   fun hlen index hr => ⟨GenEq.rl_iter_for_bit_eq m v index hlen hr, GenEq.rl_get_eq hb index hlen hr,
     GenEq.rl_rank_eq hb index hlen hr⟩,
   fun ho rank hr => GenEq.rl_iter_for_one_eq m v rank ho hr,
   fun hlen hol rank hr => GenEq.rl_iter_for_zero_eq m v rank hlen hol hr⟩

/-- … in particular on every vector the builder produces (`RLQ.GoodB`) whose data is addressable -/
theorem rl_get_rank_as_translated_on_built_vectors {m : Mode} {v : RL} {bl : RLQ.Blocks} (g : RLQ.GoodB v bl)
    (hd : v.data.len + 63 < U64) (hdec : m = .wrapping → ∀ o, ¬ GenEq.units23 v o) (index : Nat) :
    Generated.gen_RLVector_get m v index = v.get m index ∧ Generated.gen_RLVector_rank m v index = v.rank m index :=
  ⟨GenEq.rl_get_eq_good g hd hdec index, GenEq.rl_rank_eq_good g hd hdec index⟩

/-! **`SampleIndex::new` as translated from the source on this run** (`Generated/FnsConstr.lean`): `parameters`, the
`with_len` allocation, the two `next()` calls and `assert_eq!(prev, 0)`, the `for sample in 1..` loop with its inner
`while` (`break` above the threshold, `assert!(prev <= value)`, `offset += 1`, `next()`), `set`, the final assertion —
equal to the model's `SampleIndex.new` on every iterator (the list of its items) of fewer than 2^60 items. -/
theorem sample_index_new_as_translated_from_source (m : Mode) (values : List Nat) (univ : Nat)
    (hu : univ < U64) (hlen : values.length < 2 ^ 60) :
    Generated.gen_SampleIndex_new m values univ = SampleIndex.new m values univ :=
  GenEq.sample_index_new_eq m values univ hu hlen

/-! **`select`, `select_zero`, `successor` and the positioned iterators of the run-length vector as translated from the
source on this run** (`Generated/FnsRL.lean`): `select` / `select_iter` (`iter_for_one`, then the `while` that advances run
by run until the run holding the rank), `zero_iter`, `select_zero` / `select_zero_iter` (`iter_for_zero`, the loop over
gaps), `successor` (`iter_for_bit`, the loop to the first run ending after the value) — each equal to the model function
of the theorems above under the same representation bounds as `rl_queries_as_translated_from_source`. -/
theorem rl_select_family_as_translated_from_source {m : Mode} {v : RL} (hb : GenEq.RLBounds m v) :
    (v.ones < U64 → ∀ rank, (rank < v.ones → GenEq.RangeOK v.selectIndex rank) →
        Generated.gen_RLVector_select m v rank = v.select m rank ∧
        Generated.gen_RLVector_select_iter m v rank = v.selectIter m rank) ∧
    Generated.gen_RLVector_zero_iter m v = v.zeroIter m ∧
    (v.len < U64 → v.ones ≤ v.len → ∀ rank, (rank < v.countZeros → GenEq.RangeOK v.selectZeroIndex rank) →
        Generated.gen_RLVector_select_zero m v rank = v.selectZero m rank ∧
        Generated.gen_RLVector_select_zero_iter m v rank = v.selectZeroIter m rank) ∧
    (v.len < U64 → ∀ value, (value < v.len → GenEq.RangeOK v.rankIndex value) →
        Generated.gen_RLVector_successor m v value = v.successor m value) :=
  ⟨fun ho rank hr => ⟨GenEq.rl_select_eq hb rank ho hr, GenEq.rl_select_iter_eq hb rank ho hr⟩,
   GenEq.rl_zero_iter_eq hb,
   fun hlen hol rank hr => ⟨GenEq.rl_select_zero_eq hb rank hlen hol hr, GenEq.rl_select_zero_iter_eq hb rank hlen hol hr⟩,
   fun hlen value hr => GenEq.rl_successor_eq hb value hlen hr⟩

/-! **`impl From<RLBuilder> for RLVector` as translated from the source on this run** (`Generated/FnsConstr4.lean`): `flush`,
the three `SampleIndex::new` calls over `builder.samples.iter().map(..)` (bits, ones, `bits - ones`; each iterator the
list of its items), `count_zeros`, `max_value = samples.last().unwrap_or(&(0, 0)).1`, the compressed samples
(`with_capacity(2 * blocks, bit_len(max_value))` and the `for (ones, bits)` loop pushing both) and the final struct —
equal to the model's `RL.ofBuilder`, which the theorems above are about, on every builder state reachable through the
public API (`RLBuilder.Inv`) whose sample count fits the representation bound. -/
theorem rl_from_builder_as_translated_from_source (m : Mode) (b : RLBuilder) (h : b.Inv)
    (hs : 128 * b.samples.size + 191 < U64) :
    Generated.gen_RLVector_from_builder m b = RL.ofBuilder m b :=
  GenEq.rl_from_builder_eq_of_inv m b h hs

/-- … and without the invariant, under the explicit bounds the arithmetic needs -/
theorem rl_from_builder_as_translated_explicit_bounds (m : Mode) (b : RLBuilder) (hlen : b.len < U64) (hones : b.ones < U64)
    (hs : 128 * b.samples.size + 191 < U64)
    (hrun : b.run.2 ≠ 0 → b.data.len + 44 < U64 ∧ b.run.2 ≤ b.ones ∧ b.run.1 + b.run.2 < U64) :
    Generated.gen_RLVector_from_builder m b = RL.ofBuilder m b :=
  GenEq.rl_from_builder_eq m b hlen hones hs hrun

/-! **`RLVector::predecessor` as translated from the source on this run** (`Generated/FnsRLPred.lean`).  Its `FnMut` closure
assigns the captured local `iterate`; the closure is lambda-lifted from the source text (captured variables become
parameters, the assigned one is threaded as state: `gen_RLVector_predecessor_closure`), `advance_if` is translated once
more with a STATE-PASSING closure parameter (`gen_RunIter_advance_if_st`, related to the earlier pure-closure translation
by `GenEq.run_advance_if_st_eq`: the closure is called exactly once, with the value `advance_if` returns), and the
`while iterate { … }` loop threads `(iter, iterate)`.  Equal to the model's `RL.predecessor` — which the theorems above are
about — in the wrapping build, whenever the model succeeds, and on every vector the builder can produce; in the checked
build the two differ exactly where the model's `peek` adds the end of a run before the closure refuses it (observation O13
again: `GenEq.rl_predecessor_ne`, a crafted vector with one run of 2^64 − 1 bits). -/
theorem rl_predecessor_as_translated_from_source {m : Mode} {v : RL} (hb : GenEq.RLBounds m v) (value : Nat) (hlen : v.len < U64)
    (hr : min value (v.len - 1) < v.len → GenEq.RangeOK v.rankIndex (min value (v.len - 1))) :
    ((m = .checked → RL.predecessor m v value ≠ fault (.panic .overflow)) →
        Generated.gen_RLVector_predecessor m v value = RL.predecessor m v value) ∧
    (∀ r, RL.predecessor m v value = ok r → Generated.gen_RLVector_predecessor m v value = ok r) :=
  ⟨fun hov => GenEq.rl_predecessor_eq hb value hlen hr hov,
   fun r h => GenEq.rl_predecessor_eq_of_ok hb value hlen hr r h⟩

/-- … and on every vector that the builder can produce, with no side condition on the outcome -/
theorem rl_predecessor_as_translated_on_built_vectors {m : Mode} {v : RL} {bl : RLQ.Blocks} (g : RLQ.GoodB v bl)
    (hd : v.data.len + 63 < U64) (hdec : m = .wrapping → ∀ o, ¬ GenEq.units23 v o) (value : Nat) :
    Generated.gen_RLVector_predecessor m v value = RL.predecessor m v value :=
  GenEq.rl_predecessor_eq_good g hd hdec value

end Sds.C03
