/-
C07 — Files follow the published serialization format in both directions.

  "The bytes written for every structure can be decoded using only the rules of the published format document
   into the same logical content, and satisfy the document's requirements (little-endian 8-byte elements,
   zero padding, zero unused bits, mandated minimal widths, exactly one bucket per universe slice, whole runs
   per 64-unit block with no padding in a non-full final block, samples per block).  Conversely a file
   produced from the document's rules alone - support structures absent, any admissible parameter choice -
   loads and answers all queries correctly."

Property theorems only (helper lemmas live in Proofs/Format.lean, Proofs/Format2.lean, Proofs/Codec.lean,
Proofs/Codec2.lean, Proofs/Supports.lean, Proofs/RLQueries.lean).

**The document side.**  `Sds/Spec/Format.lean` (namespace `Sds.Doc`) is a decoder written from
SERIALIZATION.md alone: it imports the word type, the bit accessor `getBit` and the list-level reference
semantics, and nothing of the codecs or structure models.  Every decoder (`Doc.rawBits`, `Doc.intVector`,
`Doc.bitVector`, `Doc.optionalSkip`, `Doc.optional`, `Doc.sparse`, `Doc.rl`, `Doc.wmCore`, `Doc.wm`) takes
the unread elements and returns the decoded CONTENT (bits, numbers, runs — never an implementation
structure) and the elements that follow, or `none` when the input is not a valid serialization of that type
according to the document.  The decoders CHECK the document's requirements, so a theorem
`Doc.x (ser s ++ rest) = some (content, rest)` says both "decodes to the same logical content using only the
rules of the document" and "satisfies the requirements":
  * `Doc.rawBits`: exactly `⌊(n + 63) / 64⌋` elements, every unused bit of the last element 0;
  * `Doc.intVector`: width in 1..=64, raw bitvector of exactly `n * w` bits;
  * `Doc.bitVector`: the stored number of set bits is the actual count; three length-prefixed optionals;
  * `Doc.sparse`: one low part per set bit of `high`, exactly `⌈n / 2^w⌉` buckets each closed by one 0 and none
    after them (`high` does not end with a 1), values sorted and below `n`;
  * `Doc.rl`: data width 4, two sample items per 64-unit block, samples bit-packed with the minimal width,
    each block's sample = (set bits, bits) encoded before it, blocks consist of entire runs, padding is 0 and
    only where the next run does not fit, the final block is not padded, runs are maximal;
  * `Doc.wm`: width in 1..=64, all levels of length `len`, `first` = first occurrences (absent values: `len`)
    over the alphabet `0..=max`, bit-packed with the minimal width.
Elements are 64-bit little-endian: `file_bytes_are_little_endian_elements`.

**Reading choices** (marked CHOICE in Spec/Format.lean, where the document is silent):
  1. run-length vector, final block: there is no next run, so the final block is never padded, full or not
     (the decoder requires the last run to end the block's data);
  2. wavelet matrix core: the items are elements and the width "can be from 1 to 64 bits" (as for integer
     vectors);
  3. wavelet matrix `first`: the alphabet of the empty vector is `0..=0`.
Two more places where the document is silent surfaced in direction (←) (not marked CHOICE in Spec/Format.lean; the
decoder takes the permissive reading in both):
  4. run-length vector: the document does not say that an integer uses the MINIMAL number of code units
     (`Doc.rlInt` accepts superfluous most significant zero groups);
  5. sparse vector: the document gives no upper bound for the low width `w` other than that of integer vectors
     (`Doc.sparse` accepts `w = 64`).

Quantifiers.  (→): every well-formed structure of each type (`RawVec.WF`, `IntVec.WF`, `bitVectorWF` — the
invariants established by every constructor, see C05 / C08 / C09), lengths that fit a `usize`; plain
bitvectors with ANY subset of the three support structures present (all 8, `bit_vector_any_supports_…`);
sparse vectors for every universe, every sorted position list and EVERY low width `w` in 1..=63 (the writer's
admissible parameter choice), set and multiset; wavelet matrices for every item list; run-length vectors for
every accepted history of builder calls (`try_set` / `set_len` / `set_bit`), in both modes.  Every `rest`: the
structure may be followed by anything, so the statements apply to a structure anywhere in a file.
(←): every element list the document's decoder accepts, support structures absent (for sparse vectors also: any
subset of the supports the library itself writes), in both modes.

**Status.**
  * (→) is proven for all six types.  Run-length vectors: `rl_file_follows_format` (every built vector; the block
    layout conforms to the document, `rl_built_layout_conforms`), under the same size condition as the round trip
    of C06 (`128 * samples.len < 2^64`: the two integer vectors fit a `usize`-addressed file).
  * (←) is proven for all six types, with these explicit hypotheses:
      - plain bitvector, sparse `high`, wavelet levels: optional structures absent (the document lets a reader skip
        them by length, the library parses and TRUSTS them: `bit_vector_document_acceptance`,
        `wavelet_optional_garbage_refused`, `wavelet_optional_wrong_rank_answers_wrongly`,
        `sparse_wrong_select_support_answers_wrongly`); for sparse also with the supports the library writes;
      - sparse: `w ≤ 63` for the THEOREM (the invariant `Sparse.Encodes` is stated for widths 1..63).  At `w = 64`
        (reading 5) the code AS FIRST WRITTEN was wrong: a document-valid file with `w = 64` loaded and then
        `get` / `rank` / `select` shifted a `usize` by 64 in `split` / `combine` (debug: panic; release: wrong
        bucket, `unwrap` on `None`) — defect F13, found through `sparse_width_64_file`, reproduced on the real
        library and REPAIRED (`fix:` commit 26c56a9: both shifts guarded like `get_buckets` already was).  The
        first-written code is kept in the model (`Sparse.splitOld` / `combineOld`): it equals the model's
        `split` / `combine` below width 64 and fails at width 64 — `sparse_width_64_old_code_fails`.  The model's
        `Sparse.split` uses the unbounded `Nat` shift (`index >>> 64 = 0` for every `usize`) and `Sparse.combine`
        carries the guard of the code (no subtraction, high part 0 at width ≥ 64), i.e. they describe the repaired
        code: `sparse_width_64_repaired_code_agrees_with_model`; width 64 is now
        exercised by the correspondence check (document-level encoder with every width 1..=64) and the minimised
        file is in `corpus/C07`;
      - run-length: every integer minimally encoded (`Format2.RLCanon`) — FALSE without it, see
        `rl_nonminimal_encoding_file` (reading 4): a document-valid file on which the library loads and then
        panics in `get` (shift by 66 bits in `decode`, debug build);
      - sizes that no real file violates: fewer than `2^63` values / items (`P.length < 2^63`, `V.length < 2^63`).
    Adjacent runs (gap 0 after the first run), on which the library's zero iterator would misbehave, are NOT
    document-valid ("a sequence of maximal runs"): `rl_adjacent_runs_refused_by_document`.
-/
import Sds.Proofs.Format
import Sds.Proofs.Format2
import Sds.Proofs.SafeApi

namespace Sds.C07
open Sds Outcome SupportProofs

/-! ### elements -/

/-- "A file is an array of elements, which are unsigned 64-bit little-endian integers": the byte view of an
element list has 8 bytes per element, byte `k` of an element is `(w >> 8k) & 0xFF`, the element is
`Σ byte[k] · 256^k`, and the element list is recovered from the bytes -/
theorem file_bytes_are_little_endian_elements (es : Elems) (w : Word) :
    (toBytes es).length = 8 * es.length ∧ ofBytes (toBytes es) = es ∧
    wordToBytes w = (List.range 8).map (fun i => UInt8.ofNat ((w.toNat >>> (8 * i)) % 256)) ∧
    bytesToNat (wordToBytes w) = w.toNat :=
  ⟨length_toBytes es, ofBytes_toBytes es, rfl, bytesToNat_wordToBytes w⟩

/-! ### direction (→): what the library writes is a valid file of the document with the same content -/

/-- raw bitvector: the document reads the bits of the vector (and accepts: exact element count, zero unused
bits) -/
theorem raw_vector_file_follows_format (v : RawVec) (hwf : v.WF) (hlen : v.len < 2 ^ 64) (rest : Doc.File) :
    Doc.rawBits (rawVecC.ser v ++ rest) = some (v.bits, rest) :=
  Doc.rawBits_ser hwf hlen rest

/-- … for every bit sequence, through the builder -/
theorem raw_vector_of_bits_file_follows_format (B : List Bool) (hB : B.length < 2 ^ 64) (rest : Doc.File) :
    Doc.rawBits (rawVecC.ser (RawVec.ofBits B) ++ rest) = some (B, rest) := by
  have h := Doc.rawBits_ser (RawVec.ofBits_WF B)
    (by rw [← RawVec.bits_length, RawVec.bits_ofBits]; exact hB) rest
  rw [RawVec.bits_ofBits] at h
  exact h

/-- the requirements themselves, spelled out for the written vector: `⌊(n + 63) / 64⌋` elements, and every
bit at or beyond `n` in them is 0 -/
theorem raw_vector_padding_is_zero (v : RawVec) (hwf : v.WF) :
    v.data.size = (v.len + 63) / 64 ∧ Doc.unusedZero v.data v.len = true ∧
    ∀ j, v.len ≤ j → getBit v.data j = false :=
  ⟨hwf.size_eq, (Doc.unusedZero_iff _ _).mpr hwf.tail_zero, hwf.tail_zero⟩

/-- integer vector: the document reads the width and the items -/
theorem int_vector_file_follows_format (v : IntVec) (hwf : v.WF) (hlen : v.len < 2 ^ 64)
    (hdl : v.data.len < 2 ^ 64) (rest : Doc.File) :
    Doc.intVector (intVecC.ser v ++ rest) = some ((v.width, v.items), rest) :=
  Doc.intVector_ser hwf hlen hdl rest

/-- optional structures: whatever the library writes for `Option<T>`, present or absent, is skipped by a
reader of the document using the length element only -/
theorem optional_is_skipped_by_length {α} (c : Codec α) (o : Option α)
    (ho : ∀ x, o = some x → (c.ser x).length < 2 ^ 64) (r : Doc.File) :
    Doc.optionalSkip ((optionC c).ser o ++ r) = some r :=
  Doc.optionalSkip_ser c o ho r

/-- … and a reader that understands the structure gets its content: the length element is exactly the number
of elements of the structure (0 iff absent) -/
theorem optional_is_read_by_length {α β} (c : Codec α) (dec : Doc.File → Option (β × Doc.File)) (f : α → β)
    (o : Option α)
    (ho : ∀ x, o = some x → 0 < (c.ser x).length ∧ (c.ser x).length < 2 ^ 64 ∧ dec (c.ser x) = some (f x, []))
    (r : Doc.File) : Doc.optional dec ((optionC c).ser o ++ r) = some (o.map f, r) :=
  Doc.optional_ser c dec f o ho r

/-- bitvector, general form: any serializable `BitVector` whose counter is the number of set bits — with
whatever subset of its three support structures — is read by the document as its bits; the supports are
skipped by their lengths -/
theorem bit_vector_file_follows_format (b : BitVector) (hwf : bitVectorWF b)
    (hones : b.ones = b.data.bits.count true) (rest : Doc.File) :
    Doc.bitVector (bitVectorC.ser b ++ rest) = some (b.data.bits, rest) :=
  Doc.bitVector_ser hwf hones rest

/-- bitvector, all 8 subsets of supports (`r`, `s`, `z` = rank / select / select_zero enabled), every bit
sequence of fewer than 2^62 bits -/
theorem bit_vector_any_supports_file_follows_format (B : List Bool) (hB : B.length < 2 ^ 62) (r s z : Bool)
    (rest : Doc.File) :
    Doc.bitVector (bitVectorC.ser (enableSome r s z (BitVector.ofRaw (RawVec.ofBits B))) ++ rest) =
      some (B, rest) := by
  have hv := RawVec.ofBits_WF B
  have hl : (RawVec.ofBits B).len < 2 ^ 62 := by rw [← RawVec.bits_length, RawVec.bits_ofBits]; exact hB
  have h := Doc.bitVector_ser (ofRaw_enableSome_wf hv hl r s z)
    (by rw [enableSome_ones, enableSome_data]; exact countOnes_eq _ hv) rest
  rw [enableSome_data] at h
  simpa [BitVector.ofRaw, RawVec.bits_ofBits] using h

/-- sparse vector, set semantics: for EVERY low width `w` in 1..=63, every universe `n` and every strictly
increasing list `P` below `n`, the built vector is written as a sparse bitvector of the document, which reads
back `(n, P)` — in particular exactly one bucket per universe slice, none after them, sorted values.
(`hhl`: the bucket sequence has fewer than 2^63 bits, so that the select supports of `high`, which the
library writes as optionals, are serializable; `hlw`: the low parts fit a raw bitvector.) -/
theorem sparse_set_file_follows_format (w n : Nat) (P : List Nat) (hw1 : 1 ≤ w) (hw : w ≤ 63)
    (hn : n < 2 ^ 64) (hhl : P.length + Sparse.getBuckets n w < 2 ^ 63) (hlw : P.length * w < 2 ^ 64)
    (hsorted : sortedStrict P = true) (hbound : ∀ p ∈ P, p < n) :
    ∃ s, Sparse.ofValues w n false P = ok s ∧
      ∀ rest, Doc.sparse (sparseC.ser s ++ rest) = some ((n, P), rest) := by
  obtain ⟨s, hs, _, h⟩ := sparse_ser_set w n P hw1 hw hn hhl hlw hsorted hbound
  exact ⟨s, hs, h⟩

/-- sparse vector, multiset semantics (non-decreasing `P`, duplicates allowed) -/
theorem sparse_multiset_file_follows_format (w n : Nat) (P : List Nat) (hw1 : 1 ≤ w) (hw : w ≤ 63)
    (hn : n < 2 ^ 64) (hhl : P.length + Sparse.getBuckets n w < 2 ^ 63) (hlw : P.length * w < 2 ^ 64)
    (hsorted : sortedLe P = true) (hbound : ∀ p ∈ P, p < n) :
    ∃ s, Sparse.ofValues w n true P = ok s ∧
      ∀ rest, Doc.sparse (sparseC.ser s ++ rest) = some ((n, P), rest) := by
  obtain ⟨s, hs, _, h⟩ := sparse_ser_multi w n P hw1 hw hn hhl hlw hsorted hbound
  exact ⟨s, hs, h⟩

/-- the number of buckets the library allocates is the document's `⌈n / 2^w⌉` -/
theorem sparse_bucket_count_is_documented (n w : Nat) (hw : w ≤ 63) :
    Sparse.getBuckets n w = (n + 2 ^ w - 1) / 2 ^ w :=
  Doc.getBuckets_eq_ceil n w hw

/-- wavelet matrix core: the document reads the level bitvectors -/
theorem wavelet_core_file_follows_format (c : WMCore) (hw1 : 1 ≤ c.width) (hw : c.width ≤ 64)
    (hwf : ∀ b ∈ c.levels.toList, bitVectorWF b ∧ b.ones = b.data.bits.count true)
    (n : Nat) (hlen : ∀ b ∈ c.levels.toList, b.data.bits.length = n) (rest : Doc.File) :
    Doc.wmCore (wmCoreC.ser c ++ rest) = some (c.levels.toList.map (·.data.bits), rest) :=
  Doc.wmCore_ser hw1 hw hwf n hlen rest

/-- wavelet matrix: for every item list `V`, the matrix built by the library is written as a plain wavelet
matrix of the document, and the document's walk (level 0 offset `i`, down the matrix, summing the values of
the set bits) reads back exactly `V`; the decoder also checked that `first` is the table of first occurrences
over the alphabet and is bit-packed with the MINIMAL width -/
theorem wavelet_matrix_file_follows_format (V : List Nat) (hV : ∀ v ∈ V, v < 2 ^ 64) (hlen : V.length < 2 ^ 63)
    (hfirst : (V.foldl max 0 + 1) * 64 < 2 ^ 64) (rest : Doc.File) :
    Doc.wm (wmC.ser (WM.ofValues V) ++ rest) = some (V, rest) :=
  Doc.wm_ser_ofValues V hV hlen hfirst rest

/-- run-length vector, document side: the document's decoder, run on the serialization of any vector whose data
and samples are laid out in blocks `bl` conforming to the document (`Doc.RLConf`: block `b` starts at unit `64 b`,
its sample is `(set bits, bits)` before it, its runs are maximal and entire, padding is 0 and present only when
the next run does not fit, the final block ends with its last run), returns the length and exactly the runs of
`bl` -/
theorem rl_conforming_layout_follows_format (m : Mode) (v : RL) (hlen : v.len < 2 ^ 64) (hones : v.ones < 2 ^ 64)
    (hs : intVecWF v.samples) (hd : intVecWF v.data) (hw : v.data.width = 4)
    (hsl : v.samples.len = 2 * ((v.data.len + 63) / 64))
    (hmin : Doc.minimalWidth v.samples.width v.samples.items = true)
    (bl : List (List (Nat × Nat)))
    (hconf : Doc.RLConf v.data.items.toArray v.samples.items.toArray v.ones ((v.data.len + 63) / 64) 0 0 0 bl)
    (hl : Doc.lens bl.flatten = v.ones) (hn : Doc.span bl.flatten ≤ v.len) (rest : Doc.File) :
    Doc.rl ((rlC m).ser v ++ rest) = some ((v.len, Doc.absRuns 0 bl.flatten), rest) :=
  Doc.rl_ser_of_conf m v hlen hones hs hd hw hsl hmin bl hconf hl hn rest

/-- run-length vector, model side: the vector produced by `From<RLBuilder>` after ANY accepted history of
`try_set` / `set_len` / `set_bit` calls has a block layout conforming to the document, whose runs are the maximal
runs of the described bit sequence (both modes) -/
theorem rl_built_layout_conforms (m : Mode) (calls : List RL.BCall) (hc : ∀ c ∈ calls, RL.callArgsOk c)
    (b : RLBuilder) (hb : RL.runBCalls m calls {} = ok b) (v : RL) (hv : RL.ofBuilder m b = ok v)
    (hsize : 128 * v.samples.len < 2 ^ 64) :
    ∃ bl : List (List (Nat × Nat)),
      Doc.RLConf v.data.items.toArray v.samples.items.toArray v.ones ((v.data.len + 63) / 64) 0 0 0 bl ∧
      RunIter.absRuns 0 bl.flatten = maximalRuns (calls.foldl RL.specCall []) :=
  (Format2.rl_build_file_follows_format m calls hc b hb v hv hsize []).2

/-- run-length vector: for every mode and every vector produced by `From<RLBuilder>` from a builder reached by
accepted calls describing the bit sequence `B`, the written file is a run-length encoded bitvector of the
document, and the document reads `(|B|, maximal runs of B)` from it.
(`hsize`: the two integer vectors fit a `usize`-addressed file, as in the round trip of C06.) -/
theorem rl_file_follows_format (m : Mode) (calls : List RL.BCall) (hc : ∀ c ∈ calls, RL.callArgsOk c)
    (b : RLBuilder) (hb : RL.runBCalls m calls {} = ok b) (v : RL) (hv : RL.ofBuilder m b = ok v)
    (hsize : 128 * v.samples.len < 2 ^ 64) (rest : Doc.File) :
    Doc.rl ((rlC m).ser v ++ rest) =
      some (((calls.foldl RL.specCall []).length, maximalRuns (calls.foldl RL.specCall [])), rest) :=
  (Format2.rl_build_file_follows_format m calls hc b hb v hv hsize rest).1

/-- … and the conversion itself never fails after an accepted history -/
theorem rl_every_history_file_follows_format (m : Mode) (calls : List RL.BCall)
    (hc : ∀ c ∈ calls, RL.callArgsOk c) (b : RLBuilder) (hb : RL.runBCalls m calls {} = ok b) :
    ∃ v, RL.ofBuilder m b = ok v ∧ (128 * v.samples.len < 2 ^ 64 → ∀ rest : Doc.File,
      Doc.rl ((rlC m).ser v ++ rest) =
        some (((calls.foldl RL.specCall []).length, maximalRuns (calls.foldl RL.specCall [])), rest)) := by
  obtain ⟨v, hv⟩ := RL.ofBuilder_total m calls hc b hb
  exact ⟨v, hv, fun hsize rest => rl_file_follows_format m calls hc b hb v hv hsize rest⟩

/-! ### direction (←): what the document accepts, the library loads, with that content -/

/-- raw bitvector: every element list the document accepts as a raw bitvector with bits `B` is loaded, leaving
the same rest, into THE vector with content `B` (the representation is canonical: it is the value the
builder produces from `B`), so every query on it answers by `B` (C01, C05) -/
theorem raw_vector_document_file_loads (es : Doc.File) (B : List Bool) (rest : Doc.File)
    (h : Doc.rawBits es = some (B, rest)) :
    rawVecC.load es = ok (RawVec.ofBits B, rest) ∧ (RawVec.ofBits B).WF ∧ (RawVec.ofBits B).bits = B ∧
      B.length < 2 ^ 64 := by
  obtain ⟨v, hv, hwf, hlen, hb⟩ := Doc.rawBits_load h
  have e : v = RawVec.ofBits B :=
    RawVec.canonical hwf (RawVec.ofBits_WF B) (hb.trans (RawVec.bits_ofBits B).symm)
  subst e
  refine ⟨hv, hwf, hb, ?_⟩
  rw [← hb, RawVec.bits_length]; exact hlen

/-- integer vector: every element list the document accepts as an integer vector of width `w` with the given
items is loaded into a well-formed vector of that width with those items (and that vector is unique:
`IntVec.canonical`), so `get(i)` returns `items[i]` (C08) -/
theorem int_vector_document_file_loads (es : Doc.File) (w : Nat) (items : List Nat) (rest : Doc.File)
    (h : Doc.intVector es = some ((w, items), rest)) :
    ∃ v, intVecC.load es = ok (v, rest) ∧ v.WF ∧ v.width = w ∧ v.items = items ∧
      (∀ v', v'.WF → v'.width = w → v'.items = items → v' = v) := by
  obtain ⟨v, hv, hwf, _, _, hw, hi⟩ := Doc.intVector_load h
  exact ⟨v, hv, hwf, hw, hi, fun v' hwf' hw' hi' =>
    IntVec.canonical hwf' hwf (hw'.trans hw.symm) (hi'.trans hi.symm)⟩

/-- plain bitvector, support structures absent (three 0 length elements): the file is a bitvector of the
document with bits `B`, and the library loads it into exactly `BitVector::from` of the raw vector with
content `B`, without supports — the value on which C01 states every query -/
theorem bit_vector_document_file_loads (w : Word) (r : Doc.File) (B : List Bool) (rest : Doc.File)
    (hraw : Doc.rawBits r = some (B, 0 :: 0 :: 0 :: rest)) (hones : B.count true = w.toNat) :
    Doc.bitVector (w :: r) = some (B, rest) ∧
    bitVectorC.load (w :: r) = ok (BitVector.ofRaw (RawVec.ofBits B), rest) := by
  obtain ⟨h1, b, hb, hwf, hbits, ho, hr, hs, hz, _⟩ := Doc.bitVector_load_plain hraw hones
  refine ⟨h1, ?_⟩
  have e : b.data = RawVec.ofBits B :=
    RawVec.canonical hwf (RawVec.ofBits_WF B) (hbits.trans (RawVec.bits_ofBits B).symm)
  have hb' : b = BitVector.ofRaw (RawVec.ofBits B) := by
    cases b with
    | mk ones data rank select selectZero =>
      simp only at e hr hs hz ho hbits
      subst e hr hs hz
      simp only [BitVector.ofRaw, BitVector.mk.injEq, and_true]
      rw [ho, countOnes_eq (RawVec.ofBits B) hwf, RawVec.bits_ofBits]
  rw [← hb']; exact hb

/-- … and, after enabling the supports (which the loader leaves to the user), it answers `len`, `get`, `rank`,
`select`, `select_zero` by `B`, for every argument, in both modes -/
theorem bit_vector_document_file_answers_queries (w : Word) (r : Doc.File) (B : List Bool) (rest : Doc.File)
    (hraw : Doc.rawBits r = some (B, 0 :: 0 :: 0 :: rest)) (hones : B.count true = w.toNat) :
    ∃ b, bitVectorC.load (w :: r) = ok (b, rest) ∧
      b.enableAll.len = B.length ∧ b.enableAll.countOnes = B.count true ∧
      (∀ i, b.enableAll.rankQ i = ok (rankSpec B i)) ∧
      (∀ (m : Mode) r, b.enableAll.selectQ m r = ok (selectSpec B r)) ∧
      (∀ (m : Mode) r, b.enableAll.selectZeroQ m r = ok (selectZeroSpec B r)) := by
  obtain ⟨_, hb⟩ := bit_vector_document_file_loads w r B rest hraw hones
  obtain ⟨_, hwf, hbits, hlen⟩ := raw_vector_document_file_loads r B _ hraw
  have hl : (RawVec.ofBits B).len < 2 ^ 64 := by rw [← RawVec.bits_length, hbits]; exact hlen
  refine ⟨_, hb, ?_, ?_, ?_, ?_, ?_⟩
  · rw [enableAll_len]; show (RawVec.ofBits B).len = _; rw [← RawVec.bits_length, hbits]
  · show (BitVector.ofRaw (RawVec.ofBits B)).enableAll.ones = _
    rw [enableAll_ones]; show (RawVec.ofBits B).countOnes = _
    rw [countOnes_eq _ hwf, hbits]
  · intro i
    have := rankQ_build (b := (BitVector.ofRaw (RawVec.ofBits B)).enableAll) hwf hl rfl rfl
      (countOnes_eq _ hwf) i
    rw [hbits] at this; exact this
  · intro m r
    have := selectQ_enableAll hwf hl m r
    rw [hbits] at this; exact this
  · intro m r
    have := selectZeroQ_enableAll hwf hl m r
    rw [hbits] at this; exact this

/-- what the document-side acceptance of a bitvector WITH optional structures gives (and why (←) cannot hold
for them as stated: the document lets a reader skip the optionals by length, the library parses them, so a
file with garbage of the announced length is valid for the document and refused by the loader) -/
theorem bit_vector_document_acceptance (es : Doc.File) (B : List Bool) (rest : Doc.File)
    (h : Doc.bitVector es = some (B, rest)) :
    ∃ w r r0 r1 r2, es = w :: r ∧ Doc.rawBits r = some (B, r0) ∧ B.count true = w.toNat ∧
      Doc.optionalSkip r0 = some r1 ∧ Doc.optionalSkip r1 = some r2 ∧ Doc.optionalSkip r2 = some rest :=
  Doc.bitVector_eq_some h

/-! #### sparse bitvector -/

/-- sparse bitvector, the optional structures of `high` absent: every element list the document accepts as a sparse
bitvector `(n, P)` — whatever admissible low width `w ≤ 63` the writer chose — is loaded, leaving the same rest,
into a vector that `Encodes n w P`, the hypothesis of every query theorem of C02 / C15; its `high` holds exactly
the unary bucket sequence of `P` -/
theorem sparse_document_file_loads (lenE onesE : Word) (r r' rest : Doc.File) (H : List Bool) (w : Nat)
    (low : List Nat) (n : Nat) (P : List Nat)
    (h : Doc.sparse (lenE :: onesE :: r) = some ((n, P), rest))
    (hraw : Doc.rawBits r = some (H, 0 :: 0 :: 0 :: r'))
    (hlow : Doc.intVector r' = some ((w, low), rest)) (hw : w ≤ 63) (hm : P.length < 2 ^ 63) :
    ∃ s, sparseC.load (lenE :: onesE :: r) = ok (s, rest) ∧ s.Encodes n w P ∧
      s.high.data.bits = H ∧ s.low.items = low ∧ H = highBits w (Sparse.getBuckets n w) P :=
  Format2.sparse_doc_load lenE onesE r r' rest H w low n P h hraw hlow hw hm

/-- … so it answers `get`, `rank`, `select` by the position list `P`, for every argument, in both modes (the other
queries: C02 / C15, all stated for `Encodes`) -/
theorem sparse_document_file_answers_queries (lenE onesE : Word) (r r' rest : Doc.File) (H : List Bool) (w : Nat)
    (low : List Nat) (n : Nat) (P : List Nat)
    (h : Doc.sparse (lenE :: onesE :: r) = some ((n, P), rest))
    (hraw : Doc.rawBits r = some (H, 0 :: 0 :: 0 :: r'))
    (hlow : Doc.intVector r' = some ((w, low), rest)) (hw : w ≤ 63) (hm : P.length < 2 ^ 63) :
    ∃ s, sparseC.load (lenE :: onesE :: r) = ok (s, rest) ∧
      (∀ (m : Mode) i, i < n → s.get m i = ok (getSet P i)) ∧
      (∀ (m : Mode) i, s.rank m i = ok (rankSet P i)) ∧
      (∀ (m : Mode) k, s.select m k = ok (selectSet P k)) := by
  obtain ⟨s, hl, he, _⟩ := sparse_document_file_loads lenE onesE r r' rest H w low n P h hraw hlow hw hm
  exact ⟨s, hl, fun m i hi => get_ok he m i hi, fun m i => rank_ok he m i, fun m k => select_ok he m k⟩

/-- the width is read off the file; the only condition on it is `w ≤ 63` -/
theorem sparse_document_file_loads_any_width (es rest : Doc.File) (n : Nat) (P : List Nat)
    (h : Doc.sparse es = some ((n, P), rest))
    (lenE onesE : Word) (r r' : Doc.File) (H : List Bool) (hes : es = lenE :: onesE :: r)
    (hraw : Doc.rawBits r = some (H, 0 :: 0 :: 0 :: r')) :
    ∃ w low, Doc.intVector r' = some ((w, low), rest) ∧ 1 ≤ w ∧ w ≤ 64 ∧
      (w ≤ 63 → P.length < 2 ^ 63 → ∃ s, sparseC.load es = ok (s, rest) ∧ s.Encodes n w P) :=
  Format2.sparse_doc_load_es es rest n P h lenE onesE r r' H hes hraw

/-- sparse bitvector whose `high` is written by the library with ANY subset of its three support structures
(`rk`, `sl`, `sz` = rank / select / select_zero enabled) -/
theorem sparse_document_file_with_library_supports_loads (lenE : Word) (H : List Bool) (rk sl sz : Bool)
    (r' rest : Doc.File) (w : Nat) (low : List Nat) (n : Nat) (P : List Nat) (hH : H.length < 2 ^ 63)
    (h : Doc.sparse (lenE :: (bitVectorC.ser (Format2.sp_withSupports (RawVec.ofBits H) rk sl sz) ++ r')) =
      some ((n, P), rest))
    (hlow : Doc.intVector r' = some ((w, low), rest)) (hw : w ≤ 63) :
    ∃ s, sparseC.load (lenE :: (bitVectorC.ser (Format2.sp_withSupports (RawVec.ofBits H) rk sl sz) ++ r')) =
        ok (s, rest) ∧ s.Encodes n w P ∧ H = highBits w (Sparse.getBuckets n w) P :=
  Format2.sparse_doc_load_any_supports lenE H rk sl sz r' rest w low n P hH h hlow hw

/-- **`w ≤ 63` is needed for the invariant (reading 5).**  The 13-element file
`[5, 1, 2, 1, 1, 0, 0, 0, 1, 64, 64, 1, 3]` (`n = 5`, `high` = bits `10`, one low part of width 64 with value 3) is a
sparse bitvector of the document with content `(5, [3])` and is loaded by the library; no vector `Encodes` anything at
width 64.  This file found defect F13 (REPAIRED, `fix:` commit 26c56a9): `split` / `combine` as first written shifted
a `usize` by 64 on it.  The first-written code is kept in the model as `Sparse.splitOld` / `Sparse.combineOld` and is
the counterexample (`sparse_width_64_old_code_fails`); the model's `Sparse.split` (unbounded shift) / `Sparse.combine`
(guarded like the code) are what the repaired, guarded code computes (`sparse_width_64_repaired_code_agrees_with_model`), and the model
answers correctly on this file (`Format2.sp_w64_model_answers`); the correspondence check runs it. -/
theorem sparse_width_64_file :
    Doc.sparse Format2.sp_w64_file = some ((5, [3]), []) ∧
    sparseC.load Format2.sp_w64_file = ok (Format2.sp_w64_vec, []) ∧
    ∀ (s : Sparse) (n : Nat) (P : List Nat), ¬ s.Encodes n 64 P :=
  ⟨Format2.sp_w64_doc_valid, Format2.sp_w64_model_loads, Format2.sp_w64_not_encodes⟩

/-- **F13: the code as first written.**  `split` / `combine` with the width itself as shift amount
(`index >> self.low.width()`, `(high - low) << self.low.width()`; Rust: a shift of a `usize` by 64 panics with overflow
checks on and uses the amount modulo 64 without them).  Below width 64 they ARE the model's definitions, in both
modes.  At width 64 they are not: with overflow checks `split` panics on every index and `combine` never returns;
without them `split` returns the index itself as high part (`index >> 0`), which differs from the model's (and the
repaired code's) `(0, index)` for every index but 0.  Concretely on the loaded file of `sparse_width_64_file`, index 3
(its one set bit): panic, resp. bucket 3 instead of bucket 0. -/
theorem sparse_width_64_old_code_fails :
    (∀ (m : Mode) (s : Sparse), s.width < 64 →
      (∀ i, Sparse.splitOld m s i = ok (s.split i)) ∧ (∀ p, Sparse.combineOld m s p = s.combine m p)) ∧
    (∀ (s : Sparse), s.width = 64 →
      (∀ i, Sparse.splitOld .checked s i = fault (.panic .overflow)) ∧
      (∀ p r, Sparse.combineOld .checked s p ≠ ok r) ∧
      (∀ i, Sparse.splitOld .wrapping s i = ok (i, i % 2 ^ 64)) ∧
      (∀ i, 0 < i → i < 2 ^ 64 → Sparse.splitOld .wrapping s i ≠ ok (s.split i))) ∧
    Format2.sp_w64_vec.width = 64 ∧
    Sparse.splitOld .checked Format2.sp_w64_vec 3 = fault (.panic .overflow) ∧
    Sparse.splitOld .wrapping Format2.sp_w64_vec 3 = ok (3, 3) ∧
    Format2.sp_w64_vec.split 3 = (0, 3) :=
  ⟨fun m s h => ⟨fun i => SafeApi.splitOld_eq m s i h, fun p => SafeApi.combineOld_eq m s p h⟩,
   fun s h => ⟨fun i => SafeApi.splitOld_checked_w64 s i (by omega),
     fun p r => SafeApi.combineOld_checked_w64 s p (by omega) r,
     fun i => SafeApi.splitOld_wrapping_w64 s i h,
     fun i h0 hi => SafeApi.splitOld_wrapping_ne_split s i h h0 hi⟩,
   SafeApi.sp_w64_width, SafeApi.sp_w64_old_split.1, SafeApi.sp_w64_old_split.2.1, SafeApi.sp_w64_old_split.2.2⟩

/-- **F13 repaired: the guarded code is the model.**  At width 64 the model's `split` gives `(0, i)` for every
`usize` index, and every `usize` shifted left by 64 is 0; hence the transcription of the repaired Rust code
(`SafeApi.splitGuarded`: `high = if width < 64 { index >> width } else { 0 }`, `low = index & low_set(width)`;
`SafeApi.combineGuarded`: `high = if width < 64 { (pos.high - pos.low) << width } else { 0 }`) equals
`Sparse.split` / `Sparse.combine` for EVERY width up to 64, every `usize` index, every position pair, both modes -/
theorem sparse_width_64_repaired_code_agrees_with_model :
    (∀ (s : Sparse) (i : Nat), s.width = 64 → i < 2 ^ 64 → s.split i = (0, i)) ∧
    (∀ d : Nat, (d <<< 64) % U64 = 0) ∧
    (∀ (s : Sparse) (i : Nat), s.width ≤ 64 → i < 2 ^ 64 → SafeApi.splitGuarded s i = s.split i) ∧
    (∀ (m : Mode) (s : Sparse) (p : Pos), s.width ≤ 64 → SafeApi.combineGuarded m s p = s.combine m p) :=
  ⟨fun s i h hi => SafeApi.split_w64 s i h hi, SafeApi.shl64_mod,
   fun s i h hi => SafeApi.splitGuarded_eq s i h hi, fun m s p h => SafeApi.combineGuarded_eq m s p h⟩

/-- a PRESENT select structure is trusted: `high` = bits `100` carrying the select structure built for `010`; the
document reads `(8, [1])`, the loader accepts (it checks the superblock count only), and `select(0)` answers 5 while
`get(1)` is true, in both modes.  Outside the scope of (←): the document calls support structures
implementation-dependent. -/
theorem sparse_wrong_select_support_answers_wrongly :
    Doc.sparse Format2.sp_bad_file = some ((8, [1]), []) ∧
    ∃ s, sparseC.load Format2.sp_bad_file = ok (s, []) ∧
      ∀ m ∈ [Mode.checked, Mode.wrapping], s.select m 0 = ok (some 5) ∧ s.get m 1 = ok true :=
  Format2.sp_bad_select_support

/-! #### run-length encoded bitvector -/

/-- run-length encoded bitvector: every element list the document accepts with content `(len, runs)`, in which
every integer is minimally encoded (`Format2.RLCanon` on the code units of the file: no continuation unit is
followed by a unit `0`), is loaded in both modes, leaving the same rest, into a vector that is `RLQ.Good` for
`runs` — the hypothesis of every query theorem of C03 -/
theorem rl_document_file_loads (m : Mode) (es rest : Doc.File) (len : Nat) (runs : List (Nat × Nat))
    (h : Doc.rl es = some ((len, runs), rest))
    (hcan : ∀ U, Format2.rlDataUnits es = some U → Format2.RLCanon U.toArray) :
    ∃ v, (rlC m).load es = ok (v, rest) ∧ RLQ.Good v runs ∧ v.len = len :=
  Format2.rl_doc_load m es rest len runs h hcan

/-- … so it answers every query by `runs` (`RLQ.getR`, `rankR`, … are the answers defined on a run list; for the
maximal runs of a bit sequence `B` they are the answers defined by `B`: `RLQ.getR_maximalRuns` etc.) -/
theorem rl_document_file_answers_queries (m : Mode) (es rest : Doc.File) (len : Nat) (runs : List (Nat × Nat))
    (h : Doc.rl es = some ((len, runs), rest))
    (hcan : ∀ U, Format2.rlDataUnits es = some U → Format2.RLCanon U.toArray) :
    ∃ v, (rlC m).load es = ok (v, rest) ∧ v.len = len ∧
      (∀ i, v.get m i = ok (RLQ.getR runs i)) ∧
      (∀ i, v.rank m i = ok (RLQ.rankR runs i)) ∧
      (∀ i, v.rankZero m i = ok (i - RLQ.rankR runs i)) ∧
      (∀ k, v.select m k = ok (RLQ.selectR runs k)) ∧
      (∀ k, v.selectZero m k = ok (RLQ.selectZeroR len runs k)) ∧
      (∀ x, ∃ oi oi', v.successor m x = ok oi ∧ oi.nextQ m v = ok (RLQ.succR runs x, oi')) ∧
      (∀ x, ∃ oi oi', v.predecessor m x = ok oi ∧ oi.nextQ m v = ok (RLQ.predR runs x, oi')) := by
  obtain ⟨v, hl, g, e⟩ := rl_document_file_loads m es rest len runs h hcan
  refine ⟨v, hl, e, g.get m, g.rank m, g.rankZero m, g.select m, ?_, g.successor m, g.predecessor m⟩
  intro k; rw [← e]; exact g.selectZero m k

/-- **minimal encoding is needed (reading 4).**  The 13-element file
`[1, 1, 2, 1, 2, 1, 0, 24, 4, 96, 2, 0x8888888888888888, 0x888888]` (the vector `1`: run `(n0, n1) = (0, 1)`, the
integer `n0 = 0` written as 22 continuation units with data `000` and a final unit `0`) is a run-length encoded
bitvector of the document with content `(1, [(0, 1)])`; the library loads it, and `get(0)` panics: `decode` shifts
the 23rd unit by 66 bits (debug build: "attempt to shift left with overflow"; the model reports the same point in
wrapping mode as outside its domain).  The document does not say that integers use the minimal number of units. -/
theorem rl_nonminimal_encoding_file :
    Doc.rl Format2.rlFileNonCanonical = some ((1, [(0, 1)]), []) ∧
    ((rlC .checked).load Format2.rlFileNonCanonical).isOk = true ∧
    ((rlC .checked).load Format2.rlFileNonCanonical >>= fun p => p.1.get .checked 0) = fault (.panic .overflow) ∧
    ((rlC .wrapping).load Format2.rlFileNonCanonical >>= fun p => p.1.get .wrapping 0) = fault (.panic .other) ∧
    ∃ U, Format2.rlDataUnits Format2.rlFileNonCanonical = some U ∧ ¬ Format2.RLCanon U.toArray :=
  ⟨Format2.rl_noncanonical_doc_valid, Format2.rl_noncanonical_loads_then_panics.1,
    Format2.rl_noncanonical_loads_then_panics.2.1, Format2.rl_noncanonical_loads_then_panics.2.2,
    Format2.rl_noncanonical_not_canon⟩

/-- adjacent runs (the bits `11` as two runs with gap 0) are not a file of the document — "a sequence of maximal
runs" — although the loader, which does not decode the blocks, accepts them -/
theorem rl_adjacent_runs_refused_by_document :
    Doc.rl Format2.rlFileAdjacent = none ∧ ((rlC .checked).load Format2.rlFileAdjacent).isOk = true :=
  Format2.rl_adjacent_runs_not_document_valid

/-! #### plain wavelet matrix -/

/-- the document side: a level list the document walks (`w` levels of one length `len`) IS the column
decomposition of the items the document reads from it (converse of `Doc.wmItems_cols`) -/
theorem wavelet_levels_are_columns (levels : List (List Bool)) (len w : Nat) (hw : levels.length = w)
    (hlen : ∀ B ∈ levels, B.length = len) :
    (Doc.wmItems levels len).length = len ∧ (∀ v ∈ Doc.wmItems levels len, v < 2 ^ w) ∧
    levels = (List.range w).map (col w (Doc.wmItems levels len)) :=
  Format2.wm_levels_eq_cols levels len w hw hlen

/-- plain wavelet matrix, the optional structures of every level absent (`Format2.wmFilePlain`, a condition on the
file): every element list the document accepts with items `V` is loaded, leaving the same rest, into a matrix `x`
with `x.Ok V width` — the hypothesis of every query theorem of C04 -/
theorem wavelet_matrix_document_file_loads (es rest : Doc.File) (V : List Nat)
    (h : Doc.wm es = some (V, rest)) (hplain : Format2.wmFilePlain es) (hlen : V.length < 2 ^ 63) :
    ∃ x width, wmC.load es = ok (x, rest) ∧ x.Ok V width :=
  Format2.wm_doc_load es rest V h hplain hlen

/-- … so it answers `get`, `rank`, `select` by `V`, for every argument, in both modes -/
theorem wavelet_matrix_document_file_answers_queries (es rest : Doc.File) (V : List Nat)
    (h : Doc.wm es = some (V, rest)) (hplain : Format2.wmFilePlain es) (hlen : V.length < 2 ^ 63) :
    ∃ x, wmC.load es = ok (x, rest) ∧
      (∀ (m : Mode) i (hi : i < V.length), x.get m i = ok V[i]) ∧
      (∀ (m : Mode) i v, x.rank m i v = ok ((V.take i).count v)) ∧
      (∀ (m : Mode) k v, x.select m k v = ok (selectVal V v k)) := by
  obtain ⟨x, width, hl, hok⟩ := wavelet_matrix_document_file_loads es rest V h hplain hlen
  exact ⟨x, hl, fun m i hi => get_ok_wm hok m i hi, fun m i v => rank_ok_wm hok m i v,
    fun m k v => select_ok_wm hok m k v⟩

/-- a PRESENT optional structure with garbage of the announced length: valid for the document (which skips it),
refused by the loader -/
theorem wavelet_optional_garbage_refused :
    Doc.wm Format2.wmFileGarbage = some ([1, 0], []) ∧ wmC.load Format2.wmFileGarbage = fault (.err .eof) :=
  ⟨Format2.wm_optional_garbage_accepted, Format2.wm_optional_garbage_refused⟩

/-- a PRESENT rank structure of the right shape and wrong content (`[2, 1, 1, 2, 1, 1, 3, 1, 5, 0, 0, 0, 2, 1, 2, 1, 2]`:
sample `(5, 0)` instead of `(0, 1)`): valid for the document with items `[1, 0]`, loaded by the library, and then
`rank(1, 1) = 6` (correct: 1) in both modes — `RankSupport::load` only reads the samples and `enable_rank` keeps a
present structure.  Outside the scope of (←): support structures are implementation-dependent. -/
theorem wavelet_optional_wrong_rank_answers_wrongly (m : Mode) :
    Doc.wm Format2.wmFileWrongRank = some ([1, 0], []) ∧
    (wmC.load Format2.wmFileWrongRank >>= fun p => p.1.rank m 1 1) = ok 6 :=
  ⟨Format2.wm_optional_wrong_rank_accepted, Format2.wm_optional_wrong_rank_rank m⟩

/-! ### non-vacuity -/

/-- a raw vector of 3 bits: one element, unused bits zero; the document reads the bits back -/
example : Doc.rawBits (rawVecC.ser (RawVec.ofBits [true, false, true]) ++ [7]) =
    some ([true, false, true], [7]) := by decide
/-- … and a file violating "unused bits must be 0" (bit 3 set in a 3-bit vector) is not a file of the document -/
example : Doc.rawBits [3, 1, 13] = none := by decide
/-- an integer vector of two 3-bit items 3, 5 -/
example : Doc.intVector (intVecC.ser (IntVec.ofList 3 [3, 5])) = some ((3, [3, 5]), []) := by decide
/-- a document-level plain bitvector file (2 set bits, 3 bits, one element 0b101, three absent optionals) -/
example : Doc.bitVector [2, 3, 1, 5, 0, 0, 0] = some ([true, false, true], []) := by decide
example : bitVectorC.load [2, 3, 1, 5, 0, 0, 0] = ok (BitVector.ofRaw (RawVec.ofBits [true, false, true]), []) := by
  decide
/-- hypotheses of the sparse theorem on a small instance -/
example : (1 ≤ 2 ∧ 2 ≤ 63 ∧ 10 < 2 ^ 64 ∧ [0, 5, 9].length + Sparse.getBuckets 10 2 < 2 ^ 63 ∧
    [0, 5, 9].length * 2 < 2 ^ 64 ∧ sortedStrict [0, 5, 9] = true ∧ ∀ p ∈ [0, 5, 9], p < 10) := by decide

/-- (→) run-length: `try_set(1, 2); set_len(4)` (the vector `0110`), converted and written, is read by the document
as `(4, [(1, 2)])`; the hypotheses of `rl_file_follows_format` hold on it -/
example : ((RL.runBCalls .checked [.set 1 2, .setLen 4] {} >>= fun b => RL.ofBuilder .checked b >>= fun v =>
      (ok (Doc.rl ((rlC .checked).ser v ++ [7])) : Outcome (Option ((Nat × List (Nat × Nat)) × List Word))))) =
    ok (some ((4, [(1, 2)]), [7])) := by decide +kernel
example : ((RL.runBCalls .checked [.set 1 2, .setLen 4] {} >>= fun b => RL.ofBuilder .checked b >>= fun v =>
      (ok (decide (128 * v.samples.len < 2 ^ 64)) : Outcome Bool))) = ok true := by decide +kernel
/-- (←) run-length: a document-level file of the same vector is accepted, minimally encoded, loaded, `Good` -/
example : Doc.rl Format2.rlFileSmall = some ((4, [(1, 2)]), []) := Format2.rl_small_doc_valid
example (m : Mode) : ∃ v, (rlC m).load Format2.rlFileSmall = ok (v, []) ∧ RLQ.Good v [(1, 2)] ∧ v.len = 4 :=
  Format2.rl_small_loads m
/-- (←) sparse: `n = 10`, `w = 2`, values `0, 5, 9`, supports absent -/
example : Doc.sparse Format2.sp_small_file = some ((10, [0, 5, 9]), []) := Format2.sp_small_doc_valid
example : ∃ s, sparseC.load Format2.sp_small_file = ok (s, []) ∧ s.Encodes 10 2 [0, 5, 9] := Format2.sp_small_loads
/-- (←) wavelet matrix: items `[1, 0]`, width 1, supports absent -/
example : Doc.wm Format2.wmFileOk = some ([1, 0], []) := Format2.wm_example_accepted
example : Format2.wmFilePlain Format2.wmFileOk := Format2.wm_example_plain
example : ∃ x width, wmC.load Format2.wmFileOk = ok (x, []) ∧ x.Ok [1, 0] width := Format2.wm_example_loads

end Sds.C07
