/-
C07 — Files follow the published serialization format in both directions.

  "The bytes written for every structure can be decoded using only the rules of the published format document
   into the same logical content, and satisfy the document's requirements (little-endian 8-byte elements,
   zero padding, zero unused bits, mandated minimal widths, exactly one bucket per universe slice, whole runs
   per 64-unit block with no padding in a non-full final block, samples per block).  Conversely a file
   produced from the document's rules alone - support structures absent, any admissible parameter choice -
   loads and answers all queries correctly."

Property theorems only (helper lemmas live in Proofs/Format.lean, Proofs/Codec.lean, Proofs/Supports.lean).

**The document side.**  `Sds/Spec/Format.lean` (namespace `Sds.Doc`) is a decoder written from
SERIALIZATION.md alone: it imports the word type, the bit accessor `getBit` and the list-level reference
semantics, and nothing of the codecs or structure models.  Every decoder (`Doc.rawBits`, `Doc.intVector`,
`Doc.bitVector`, `Doc.optionalSkip`, `Doc.optional`, `Doc.sparse`, `Doc.rl`, `Doc.wmCore`, `Doc.wm`) takes
the unread elements and returns the decoded CONTENT (bits, numbers, runs — never an implementation
structure) and the elements that follow, or `none` when the input is not a valid serialization of that type
according to the document.  The decoders CHECK the document's requirements, so a theorem
`Doc.x (ser s ++ rest) = some (content, rest)` says both "decodes to the same logical content using only the
rules of the document" and "satisfies the requirements":
  * `Doc.rawBits`: exactly `⌊(n + 63) / 64⌋` elements, every unused bit of the last element 0;
  * `Doc.intVector`: width in 1..=64, raw bitvector of exactly `n * w` bits;
  * `Doc.bitVector`: the stored number of set bits is the actual count; three length-prefixed optionals;
  * `Doc.sparse`: one low part per set bit of `high`, exactly `⌈n / 2^w⌉` buckets each closed by one 0 and none
    after them (`high` does not end with a 1), values sorted and below `n`;
  * `Doc.rl`: data width 4, two sample items per 64-unit block, samples bit-packed with the minimal width,
    each block's sample = (set bits, bits) encoded before it, blocks consist of entire runs, padding is 0 and
    only where the next run does not fit, the final block is not padded, runs are maximal;
  * `Doc.wm`: width in 1..=64, all levels of length `len`, `first` = first occurrences (absent values: `len`)
    over the alphabet `0..=max`, bit-packed with the minimal width.
Elements are 64-bit little-endian: `file_bytes_are_little_endian_elements`.

**Reading choices** (marked CHOICE in Spec/Format.lean, where the document is silent):
  1. run-length vector, final block: there is no next run, so the final block is never padded, full or not
     (the decoder requires the last run to end the block's data);
  2. wavelet matrix core: the items are elements and the width "can be from 1 to 64 bits" (as for integer
     vectors);
  3. wavelet matrix `first`: the alphabet of the empty vector is `0..=0`.

Quantifiers.  (→): every well-formed structure of each type (`RawVec.WF`, `IntVec.WF`, `bitVectorWF` — the
invariants established by every constructor, see C05 / C08 / C09), lengths that fit a `usize`; plain
bitvectors with ANY subset of the three support structures present (all 8, `bit_vector_any_supports_…`);
sparse vectors for every universe, every sorted position list and EVERY low width `w` in 1..=63 (the writer's
admissible parameter choice), set and multiset; wavelet matrices for every item list.  Every `rest`: the
structure may be followed by anything, so the statements apply to a structure anywhere in a file.
(←): every element list the document's decoder accepts.

**Partial** (details at the theorems / in the final comment):
  * (→) run-length vector: `rl_file_follows_format_partial` is relative to a block layout conforming to the
    document (`Doc.RLConf`); that every vector produced by `From<RLBuilder>` has such a layout is not proven.
  * (←) is proven for raw vectors, integer vectors and plain bitvectors (supports absent).  For sparse,
    run-length and wavelet-matrix files written by a document-level encoder it is covered by correspondence
    only (an independent encoder written from the document produces files, the library loads them and
    answers every query).
-/
import Sds.Proofs.Format

namespace Sds.C07
open Sds Outcome SupportProofs

/-! ### elements -/

/-- "A file is an array of elements, which are unsigned 64-bit little-endian integers": the byte view of an
element list has 8 bytes per element, byte `k` of an element is `(w >> 8k) & 0xFF`, the element is
`Σ byte[k] · 256^k`, and the element list is recovered from the bytes -/
theorem file_bytes_are_little_endian_elements (es : Elems) (w : Word) :
    (toBytes es).length = 8 * es.length ∧ ofBytes (toBytes es) = es ∧
    wordToBytes w = (List.range 8).map (fun i => UInt8.ofNat ((w.toNat >>> (8 * i)) % 256)) ∧
    bytesToNat (wordToBytes w) = w.toNat :=
  ⟨length_toBytes es, ofBytes_toBytes es, rfl, bytesToNat_wordToBytes w⟩

/-! ### direction (→): what the library writes is a valid file of the document with the same content -/

/-- raw bitvector: the document reads the bits of the vector (and accepts: exact element count, zero unused
bits) -/
theorem raw_vector_file_follows_format (v : RawVec) (hwf : v.WF) (hlen : v.len < 2 ^ 64) (rest : Doc.File) :
    Doc.rawBits (rawVecC.ser v ++ rest) = some (v.bits, rest) :=
  Doc.rawBits_ser hwf hlen rest

/-- … for every bit sequence, through the builder -/
theorem raw_vector_of_bits_file_follows_format (B : List Bool) (hB : B.length < 2 ^ 64) (rest : Doc.File) :
    Doc.rawBits (rawVecC.ser (RawVec.ofBits B) ++ rest) = some (B, rest) := by
  have h := Doc.rawBits_ser (RawVec.ofBits_WF B)
    (by rw [← RawVec.bits_length, RawVec.bits_ofBits]; exact hB) rest
  rw [RawVec.bits_ofBits] at h
  exact h

/-- the requirements themselves, spelled out for the written vector: `⌊(n + 63) / 64⌋` elements, and every
bit at or beyond `n` in them is 0 -/
theorem raw_vector_padding_is_zero (v : RawVec) (hwf : v.WF) :
    v.data.size = (v.len + 63) / 64 ∧ Doc.unusedZero v.data v.len = true ∧
    ∀ j, v.len ≤ j → getBit v.data j = false :=
  ⟨hwf.size_eq, (Doc.unusedZero_iff _ _).mpr hwf.tail_zero, hwf.tail_zero⟩

/-- integer vector: the document reads the width and the items -/
theorem int_vector_file_follows_format (v : IntVec) (hwf : v.WF) (hlen : v.len < 2 ^ 64)
    (hdl : v.data.len < 2 ^ 64) (rest : Doc.File) :
    Doc.intVector (intVecC.ser v ++ rest) = some ((v.width, v.items), rest) :=
  Doc.intVector_ser hwf hlen hdl rest

/-- optional structures: whatever the library writes for `Option<T>`, present or absent, is skipped by a
reader of the document using the length element only -/
theorem optional_is_skipped_by_length {α} (c : Codec α) (o : Option α)
    (ho : ∀ x, o = some x → (c.ser x).length < 2 ^ 64) (r : Doc.File) :
    Doc.optionalSkip ((optionC c).ser o ++ r) = some r :=
  Doc.optionalSkip_ser c o ho r

/-- … and a reader that understands the structure gets its content: the length element is exactly the number
of elements of the structure (0 iff absent) -/
theorem optional_is_read_by_length {α β} (c : Codec α) (dec : Doc.File → Option (β × Doc.File)) (f : α → β)
    (o : Option α)
    (ho : ∀ x, o = some x → 0 < (c.ser x).length ∧ (c.ser x).length < 2 ^ 64 ∧ dec (c.ser x) = some (f x, []))
    (r : Doc.File) : Doc.optional dec ((optionC c).ser o ++ r) = some (o.map f, r) :=
  Doc.optional_ser c dec f o ho r

/-- bitvector, general form: any serializable `BitVector` whose counter is the number of set bits — with
whatever subset of its three support structures — is read by the document as its bits; the supports are
skipped by their lengths -/
theorem bit_vector_file_follows_format (b : BitVector) (hwf : bitVectorWF b)
    (hones : b.ones = b.data.bits.count true) (rest : Doc.File) :
    Doc.bitVector (bitVectorC.ser b ++ rest) = some (b.data.bits, rest) :=
  Doc.bitVector_ser hwf hones rest

/-- bitvector, all 8 subsets of supports (`r`, `s`, `z` = rank / select / select_zero enabled), every bit
sequence of fewer than 2^62 bits -/
theorem bit_vector_any_supports_file_follows_format (B : List Bool) (hB : B.length < 2 ^ 62) (r s z : Bool)
    (rest : Doc.File) :
    Doc.bitVector (bitVectorC.ser (enableSome r s z (BitVector.ofRaw (RawVec.ofBits B))) ++ rest) =
      some (B, rest) := by
  have hv := RawVec.ofBits_WF B
  have hl : (RawVec.ofBits B).len < 2 ^ 62 := by rw [← RawVec.bits_length, RawVec.bits_ofBits]; exact hB
  have h := Doc.bitVector_ser (ofRaw_enableSome_wf hv hl r s z)
    (by rw [enableSome_ones, enableSome_data]; exact countOnes_eq _ hv) rest
  rw [enableSome_data] at h
  simpa [BitVector.ofRaw, RawVec.bits_ofBits] using h

/-- sparse vector, set semantics: for EVERY low width `w` in 1..=63, every universe `n` and every strictly
increasing list `P` below `n`, the built vector is written as a sparse bitvector of the document, which reads
back `(n, P)` — in particular exactly one bucket per universe slice, none after them, sorted values.
(`hhl`: the bucket sequence has fewer than 2^63 bits, so that the select supports of `high`, which the
library writes as optionals, are serializable; `hlw`: the low parts fit a raw bitvector.) -/
theorem sparse_set_file_follows_format (w n : Nat) (P : List Nat) (hw1 : 1 ≤ w) (hw : w ≤ 63)
    (hn : n < 2 ^ 64) (hhl : P.length + Sparse.getBuckets n w < 2 ^ 63) (hlw : P.length * w < 2 ^ 64)
    (hsorted : sortedStrict P = true) (hbound : ∀ p ∈ P, p < n) :
    ∃ s, Sparse.ofValues w n false P = ok s ∧
      ∀ rest, Doc.sparse (sparseC.ser s ++ rest) = some ((n, P), rest) := by
  obtain ⟨s, hs, _, h⟩ := sparse_ser_set w n P hw1 hw hn hhl hlw hsorted hbound
  exact ⟨s, hs, h⟩

/-- sparse vector, multiset semantics (non-decreasing `P`, duplicates allowed) -/
theorem sparse_multiset_file_follows_format (w n : Nat) (P : List Nat) (hw1 : 1 ≤ w) (hw : w ≤ 63)
    (hn : n < 2 ^ 64) (hhl : P.length + Sparse.getBuckets n w < 2 ^ 63) (hlw : P.length * w < 2 ^ 64)
    (hsorted : sortedLe P = true) (hbound : ∀ p ∈ P, p < n) :
    ∃ s, Sparse.ofValues w n true P = ok s ∧
      ∀ rest, Doc.sparse (sparseC.ser s ++ rest) = some ((n, P), rest) := by
  obtain ⟨s, hs, _, h⟩ := sparse_ser_multi w n P hw1 hw hn hhl hlw hsorted hbound
  exact ⟨s, hs, h⟩

/-- the number of buckets the library allocates is the document's `⌈n / 2^w⌉` -/
theorem sparse_bucket_count_is_documented (n w : Nat) (hw : w ≤ 63) :
    Sparse.getBuckets n w = (n + 2 ^ w - 1) / 2 ^ w :=
  Doc.getBuckets_eq_ceil n w hw

/-- wavelet matrix core: the document reads the level bitvectors -/
theorem wavelet_core_file_follows_format (c : WMCore) (hw1 : 1 ≤ c.width) (hw : c.width ≤ 64)
    (hwf : ∀ b ∈ c.levels.toList, bitVectorWF b ∧ b.ones = b.data.bits.count true)
    (n : Nat) (hlen : ∀ b ∈ c.levels.toList, b.data.bits.length = n) (rest : Doc.File) :
    Doc.wmCore (wmCoreC.ser c ++ rest) = some (c.levels.toList.map (·.data.bits), rest) :=
  Doc.wmCore_ser hw1 hw hwf n hlen rest

/-- wavelet matrix: for every item list `V`, the matrix built by the library is written as a plain wavelet
matrix of the document, and the document's walk (level 0 offset `i`, down the matrix, summing the values of
the set bits) reads back exactly `V`; the decoder also checked that `first` is the table of first occurrences
over the alphabet and is bit-packed with the MINIMAL width -/
theorem wavelet_matrix_file_follows_format (V : List Nat) (hV : ∀ v ∈ V, v < 2 ^ 64) (hlen : V.length < 2 ^ 63)
    (hfirst : (V.foldl max 0 + 1) * 64 < 2 ^ 64) (rest : Doc.File) :
    Doc.wm (wmC.ser (WM.ofValues V) ++ rest) = some (V, rest) :=
  Doc.wm_ser_ofValues V hV hlen hfirst rest

/-
run-length vector — intended full statement:

    for every mode `m` and every vector `v` produced by `From<RLBuilder>` from a builder reached by accepted
    calls describing the bit sequence `B`:
      Doc.rl ((rlC m).ser v ++ rest) = some ((B.length, maximalRuns B), rest)

Proven (`Doc.rl_ser_of_conf`, `Doc.rlBlocks_conf`): the DOCUMENT side — the document's decoder, run on the
serialization of any vector whose data and samples are laid out in blocks `bl` conforming to the document
(`Doc.RLConf`: block `b` starts at unit `64 b`, its sample is `(set bits, bits)` before it, its runs are
maximal and entire, padding is 0 and present only when the next run does not fit, the final block ends with
its last run), returns the length and exactly the runs of `bl`.
Missing: the MODEL side — that `From<RLBuilder>` always yields a vector with `intVecWF` data / samples,
minimal sample width and a conforming layout.  Proofs/RL has the corresponding layout for the iterator
(`RunIter.Layout`), which deliberately says nothing about the padding units, the sample width or the
maximality of gaps, so it does not imply `Doc.RLConf`.  Covered by correspondence.
-/
theorem rl_file_follows_format_partial (m : Mode) (v : RL) (hlen : v.len < 2 ^ 64) (hones : v.ones < 2 ^ 64)
    (hs : intVecWF v.samples) (hd : intVecWF v.data) (hw : v.data.width = 4)
    (hsl : v.samples.len = 2 * ((v.data.len + 63) / 64))
    (hmin : Doc.minimalWidth v.samples.width v.samples.items = true)
    (bl : List (List (Nat × Nat)))
    (hconf : Doc.RLConf v.data.items.toArray v.samples.items.toArray v.ones ((v.data.len + 63) / 64) 0 0 0 bl)
    (hl : Doc.lens bl.flatten = v.ones) (hn : Doc.span bl.flatten ≤ v.len) (rest : Doc.File) :
    Doc.rl ((rlC m).ser v ++ rest) = some ((v.len, Doc.absRuns 0 bl.flatten), rest) :=
  Doc.rl_ser_of_conf m v hlen hones hs hd hw hsl hmin bl hconf hl hn rest

/-! ### direction (←): what the document accepts, the library loads, with that content -/

/-- raw bitvector: every element list the document accepts as a raw bitvector with bits `B` is loaded, leaving
the same rest, into THE vector with content `B` (the representation is canonical: it is the value the
builder produces from `B`), so every query on it answers by `B` (C01, C05) -/
theorem raw_vector_document_file_loads (es : Doc.File) (B : List Bool) (rest : Doc.File)
    (h : Doc.rawBits es = some (B, rest)) :
    rawVecC.load es = ok (RawVec.ofBits B, rest) ∧ (RawVec.ofBits B).WF ∧ (RawVec.ofBits B).bits = B ∧
      B.length < 2 ^ 64 := by
  obtain ⟨v, hv, hwf, hlen, hb⟩ := Doc.rawBits_load h
  have e : v = RawVec.ofBits B :=
    RawVec.canonical hwf (RawVec.ofBits_WF B) (hb.trans (RawVec.bits_ofBits B).symm)
  subst e
  refine ⟨hv, hwf, hb, ?_⟩
  rw [← hb, RawVec.bits_length]; exact hlen

/-- integer vector: every element list the document accepts as an integer vector of width `w` with the given
items is loaded into a well-formed vector of that width with those items (and that vector is unique:
`IntVec.canonical`), so `get(i)` returns `items[i]` (C08) -/
theorem int_vector_document_file_loads (es : Doc.File) (w : Nat) (items : List Nat) (rest : Doc.File)
    (h : Doc.intVector es = some ((w, items), rest)) :
    ∃ v, intVecC.load es = ok (v, rest) ∧ v.WF ∧ v.width = w ∧ v.items = items ∧
      (∀ v', v'.WF → v'.width = w → v'.items = items → v' = v) := by
  obtain ⟨v, hv, hwf, _, _, hw, hi⟩ := Doc.intVector_load h
  exact ⟨v, hv, hwf, hw, hi, fun v' hwf' hw' hi' =>
    IntVec.canonical hwf' hwf (hw'.trans hw.symm) (hi'.trans hi.symm)⟩

/-- plain bitvector, support structures absent (three 0 length elements): the file is a bitvector of the
document with bits `B`, and the library loads it into exactly `BitVector::from` of the raw vector with
content `B`, without supports — the value on which C01 states every query -/
theorem bit_vector_document_file_loads (w : Word) (r : Doc.File) (B : List Bool) (rest : Doc.File)
    (hraw : Doc.rawBits r = some (B, 0 :: 0 :: 0 :: rest)) (hones : B.count true = w.toNat) :
    Doc.bitVector (w :: r) = some (B, rest) ∧
    bitVectorC.load (w :: r) = ok (BitVector.ofRaw (RawVec.ofBits B), rest) := by
  obtain ⟨h1, b, hb, hwf, hbits, ho, hr, hs, hz, _⟩ := Doc.bitVector_load_plain hraw hones
  refine ⟨h1, ?_⟩
  have e : b.data = RawVec.ofBits B :=
    RawVec.canonical hwf (RawVec.ofBits_WF B) (hbits.trans (RawVec.bits_ofBits B).symm)
  have hb' : b = BitVector.ofRaw (RawVec.ofBits B) := by
    cases b with
    | mk ones data rank select selectZero =>
      simp only at e hr hs hz ho hbits
      subst e hr hs hz
      simp only [BitVector.ofRaw, BitVector.mk.injEq, and_true]
      rw [ho, countOnes_eq (RawVec.ofBits B) hwf, RawVec.bits_ofBits]
  rw [← hb']; exact hb

/-- … and, after enabling the supports (which the loader leaves to the user), it answers `len`, `get`, `rank`,
`select`, `select_zero` by `B`, for every argument, in both modes -/
theorem bit_vector_document_file_answers_queries (w : Word) (r : Doc.File) (B : List Bool) (rest : Doc.File)
    (hraw : Doc.rawBits r = some (B, 0 :: 0 :: 0 :: rest)) (hones : B.count true = w.toNat) :
    ∃ b, bitVectorC.load (w :: r) = ok (b, rest) ∧
      b.enableAll.len = B.length ∧ b.enableAll.countOnes = B.count true ∧
      (∀ i, b.enableAll.rankQ i = ok (rankSpec B i)) ∧
      (∀ (m : Mode) r, b.enableAll.selectQ m r = ok (selectSpec B r)) ∧
      (∀ (m : Mode) r, b.enableAll.selectZeroQ m r = ok (selectZeroSpec B r)) := by
  obtain ⟨_, hb⟩ := bit_vector_document_file_loads w r B rest hraw hones
  obtain ⟨_, hwf, hbits, hlen⟩ := raw_vector_document_file_loads r B _ hraw
  have hl : (RawVec.ofBits B).len < 2 ^ 64 := by rw [← RawVec.bits_length, hbits]; exact hlen
  refine ⟨_, hb, ?_, ?_, ?_, ?_, ?_⟩
  · rw [enableAll_len]; show (RawVec.ofBits B).len = _; rw [← RawVec.bits_length, hbits]
  · show (BitVector.ofRaw (RawVec.ofBits B)).enableAll.ones = _
    rw [enableAll_ones]; show (RawVec.ofBits B).countOnes = _
    rw [countOnes_eq _ hwf, hbits]
  · intro i
    have := rankQ_build (b := (BitVector.ofRaw (RawVec.ofBits B)).enableAll) hwf hl rfl rfl
      (countOnes_eq _ hwf) i
    rw [hbits] at this; exact this
  · intro m r
    have := selectQ_enableAll hwf hl m r
    rw [hbits] at this; exact this
  · intro m r
    have := selectZeroQ_enableAll hwf hl m r
    rw [hbits] at this; exact this

/-- what the document-side acceptance of a bitvector WITH optional structures gives (and why (←) cannot hold
for them as stated: the document lets a reader skip the optionals by length, the library parses them, so a
file with garbage of the announced length is valid for the document and refused by the loader) -/
theorem bit_vector_document_acceptance (es : Doc.File) (B : List Bool) (rest : Doc.File)
    (h : Doc.bitVector es = some (B, rest)) :
    ∃ w r r0 r1 r2, es = w :: r ∧ Doc.rawBits r = some (B, r0) ∧ B.count true = w.toNat ∧
      Doc.optionalSkip r0 = some r1 ∧ Doc.optionalSkip r1 = some r2 ∧ Doc.optionalSkip r2 = some rest :=
  Doc.bitVector_eq_some h

/-
direction (←) for the compressed structures — intended statements, NOT proven (by correspondence only:
`tools/` contains an encoder written from the document; its files — supports absent, every admissible low
width for sparse vectors, any sufficient sample width — are loaded by the library and every query is compared
with the reference):

  sparse_document_file_loads_partial :
    Doc.sparse es = some ((n, P), rest) → (the optionals of `high` absent) →
      ∃ s w, sparseC.load es = ok (s, rest) ∧ s.Encodes n w P        -- hence all queries by C02 / C15
  rl_document_file_loads_partial :
    Doc.rl es = some ((len, runs), rest) →
      ∃ v, (rlC m).load es = ok (v, rest) ∧ v.len = len ∧ <v.run_iter yields `runs`>
  wavelet_matrix_document_file_loads_partial :
    Doc.wm es = some (V, rest) → (the optionals of the levels absent) →
      ∃ x, wmC.load es = ok (x, rest) ∧ <x answers all queries by V>   -- C04 / C06

What is missing: for sparse, the uniqueness of the unary bucket sequence (`highBits_unique`) applied to the
DECODED `high` and the validity of the select supports the loader enables; for rl, that the document's
validity rules imply the monotonicity asserted by the three `SampleIndex::new` calls of the loader; for wm,
the converse of `Doc.wmItems_cols` (a level list accepted by `Doc.wm` is the column decomposition of its items).
-/

/-! ### non-vacuity -/

/-- a raw vector of 3 bits: one element, unused bits zero; the document reads the bits back -/
example : Doc.rawBits (rawVecC.ser (RawVec.ofBits [true, false, true]) ++ [7]) =
    some ([true, false, true], [7]) := by decide
/-- … and a file violating "unused bits must be 0" (bit 3 set in a 3-bit vector) is not a file of the document -/
example : Doc.rawBits [3, 1, 13] = none := by decide
/-- an integer vector of two 3-bit items 3, 5 -/
example : Doc.intVector (intVecC.ser (IntVec.ofList 3 [3, 5])) = some ((3, [3, 5]), []) := by decide
/-- a document-level plain bitvector file (2 set bits, 3 bits, one element 0b101, three absent optionals) -/
example : Doc.bitVector [2, 3, 1, 5, 0, 0, 0] = some ([true, false, true], []) := by decide
example : bitVectorC.load [2, 3, 1, 5, 0, 0, 0] = ok (BitVector.ofRaw (RawVec.ofBits [true, false, true]), []) := by
  decide
/-- hypotheses of the sparse theorem on a small instance -/
example : (1 ≤ 2 ∧ 2 ≤ 63 ∧ 10 < 2 ^ 64 ∧ [0, 5, 9].length + Sparse.getBuckets 10 2 < 2 ^ 63 ∧
    [0, 5, 9].length * 2 < 2 ^ 64 ∧ sortedStrict [0, 5, 9] = true ∧ ∀ p ∈ [0, 5, 9], p < 10) := by decide

end Sds.C07
