/-
C20 — Temporary file names are unique within a process under concurrent use.

  "However many threads request temporary file names at the same time, no two calls in one process ever
   receive the same path, and every returned path contains the caller's name part."

Property theorems only (helper lemmas live in Proofs/Atomic.lean and Proofs/NameFmt.lean).  Quantifiers: every
number of threads, EVERY schedule (a schedule is any list of thread indices; each entry lets that thread execute
the next access of its current `temp_file_name` call, so all interleavings of any number of calls are covered;
entries naming a non-existent thread are no-ops), every process id, and EVERY assignment of name parts to the
completed calls (`partOf : Nat → List Char`, call index in completion order ↦ the `name_part` of that call; or a
list of parts of the right length).  Name parts are arbitrary character lists: they may contain underscores and
digits, be empty, or be equal for all calls.

Nothing about the program is hand-written: `Generated.tempNameOps` is the list of accesses to
`TEMP_FILE_COUNTER` extracted from the body of `serialize::temp_file_name` on every run,
`Generated.tempNameResultOp` is the access whose result is formatted into the name,
`Generated.tempNameFormatChars` is the `format!` string and `Generated.tempNameArgs` the kinds of its arguments.
The obligations `program_is_single_rmw`, `result_op_is_first`, `name_contains_part` and `format_is_part_pid_counter`
are re-checked by `decide` against whatever the source says now; if somebody replaces the `fetch_add` by a load
and a store, or changes the format string or the argument order, they fail (`load_then_store_duplicates` and
`unseparated_format_collides` show what then goes wrong).

FULL intended statement:
   for all thread counts and all interleavings, the PATHS returned by all calls in one process are pairwise
   distinct, and each path contains the `name_part` argument of its call.
What is proven:
   * `names_unique`, `no_two_calls_share_a_name`, `names_unique_of_parts`: for all thread counts, all schedules,
     all process ids and all assignments of name parts, the rendered file NAME TEXTS
     `name_part ++ "_" ++ dec(pid) ++ "_" ++ dec(count)` of the completed calls are pairwise distinct;
   * `paths_unique`, `no_two_calls_share_a_path`: the same for the PATH TEXTS `d_i ++ name_i`, where `d_i` is ANY
     text put in front of the name of call `i` (so the directory need not even be the same for all calls);
   * `every_name_contains_its_part`, `every_path_contains_its_part`, `name_of_call`: each text contains the name
     part of its call as a contiguous infix (`<:+:`); the `i`-th completed call receives exactly
     `partOf i ++ "_" ++ dec(pid) ++ "_" ++ dec(i)`;
   * `one_name_per_call`: one text per completed call (so the statements are about all of them);
   * string formatting is MODELLED (Model/Atomic.lean `renderFmt`, `decDigits`) and item (2) of the previous
     version of this file is now a theorem: `decimal_digits_only`, `decimal_injective`, `name_text_shape`,
     `name_text_determines_counter`, `name_text_determines_arguments`, `path_text_determines_counter`;
   * the intermediate statements about the COUNTER VALUES handed to the calls (`counters_unique`, …): pairwise
     distinct, strictly increasing in completion order and contiguous from 0.
Naming: the theorems of the previous version carried the suffix `_partial` because the step from counters to
paths was missing.  It has been dropped everywhere (old `names_unique_partial` is now `counters_unique`, and
similarly `no_two_calls_share_a_counter`, `no_duplicating_schedule`, `counters_strictly_increasing`,
`one_counter_per_call`, `counters_contiguous`, `counter_counts_calls`), because everything that remains assumed
is about the RUNTIME, not about the code of the crate:
  (1) atomicity and sequential consistency of `AtomicUsize::fetch_add(1, SeqCst)` are the semantics of
      Model/Atomic.lean (`execOp`, `stepThread`: one access = one indivisible step, one global order);
      that is the contract of the Rust/C++11 memory model, assumed, not proven;
  (2) the returned `PathBuf` is `env::temp_dir()` with the name `push`ed.  Assumed about `std`: the text of
      the result is `d ++ name` for some text `d` (on Unix `push` appends a separator if needed and then the
      name, or — if the name is absolute, i.e. `name_part` starts with '/' — replaces the buffer by the name,
      `d = ""`).  With this, `paths_unique` needs NO assumption that `temp_dir()` returns the same directory for all
      calls.  (The weaker reading "the path is `temp_dir().join(name)` for one fixed directory, and joining a fixed
      directory is injective" is the special case `dirOf = fun _ => dir ++ "/"`.)  `Display` for `u32`/`usize`
      prints decimal digits without leading zeros (`decDigits`); the name part is rendered literally;
  (3) the counter is a mathematical natural number here, in the source a `usize` that wraps.  With a 64-bit
      counter the values of the first 2^64 completed calls are below 2^64 and unchanged by `% 2^64`
      (`wrapped_counters_unchanged`), so all statements hold for schedules with at most 2^64 completed calls
      (`names_unique_wrapping`); the call after that would repeat the first counter (`wrap_repeats_first`).
      A process performing 2^64 calls is out of reach;
  (4) uniqueness across processes is not claimed by the property (it rests on `process::id()`; the name does
      determine the pid: `name_text_determines_arguments`).
-/
import Sds.Proofs.Atomic
import Sds.Proofs.NameFmt
import Sds.Generated.TempName

namespace Sds.C20
open Sds

/-! ### obligations on the generated program (re-checked on every run) -/

/-- the body of `temp_file_name`, as extracted from the source now, touches the counter by exactly one
atomic fetch-and-add of a positive constant, and it is the result of that access that names the file -/
theorem program_is_single_rmw :
    isSingleRMW Generated.tempNameOps Generated.tempNameResultOp = true := by decide

/-- the access whose result is formatted into the name is the first (only) one -/
theorem result_op_is_first : Generated.tempNameResultOp = some 0 := by decide

/-- both the caller's name part and the process id are arguments of the `format!` that builds the file name,
whose shape is `{}_{}_{}` -/
theorem name_contains_part :
    Generated.tempNameUsesPart = true ∧ Generated.tempNameUsesPid = true ∧
      Generated.tempNameFormat = "{}_{}_{}" := by decide

/-- the format string, character by character, is `{}_{}_{}` and its arguments are, in this order, the name
part, the process id and the counter value -/
theorem format_is_part_pid_counter :
    Generated.tempNameFormatChars = ['{', '}', '_', '{', '}', '_', '{', '}'] ∧
      Generated.tempNameArgs = [NameArg.part, NameArg.pid, NameArg.counter] := by decide

/-! ### the texts -/

/-- the file name `temp_file_name` builds for name part `part` in process `pid` from counter value `c`:
the GENERATED format string rendered with the GENERATED argument list -/
def nameText (part : List Char) (pid c : Nat) : List Char :=
  tempFileNameText Generated.tempNameFormatChars Generated.tempNameArgs part pid c

/-- the names of the completed calls, in completion order: call `i` was made with name part `partOf i` and
received the counter value `cs[i]` -/
def renderedNames (partOf : Nat → List Char) (pid : Nat) (cs : List Nat) : List (List Char) :=
  cs.mapIdx fun i c => nameText (partOf i) pid c

/-- the path texts: the name of call `i` preceded by an arbitrary text `dirOf i` (the temporary directory and a
separator; nothing if the name is absolute) -/
def renderedPaths (dirOf partOf : Nat → List Char) (pid : Nat) (cs : List Nat) : List (List Char) :=
  cs.mapIdx fun i c => dirOf i ++ nameText (partOf i) pid c

theorem nameText_eq (part : List Char) (pid c : Nat) :
    nameText part pid c = tempFileNameText NameFmt.fmt3 NameFmt.args3 part pid c := by
  unfold nameText
  rw [format_is_part_pid_counter.1, format_is_part_pid_counter.2]
  rfl

/-! ### formatting: decimal notation and the shape of the name (former missing item (2)) -/

/-- decimal notation consists of the digits '0'..'9' only — in particular it contains no underscore — and is
never empty -/
theorem decimal_digits_only (n : Nat) :
    (∀ ch ∈ decDigits n, '0' ≤ ch ∧ ch ≤ '9' ∧ ch.isDigit = true ∧ ch ≠ '_') ∧ decDigits n ≠ [] :=
  ⟨fun ch h =>
      have hd := NameFmt.decDigits_isDig n ch h
      ⟨hd.le_chars.1, hd.le_chars.2, hd.isDigit, hd.ne_underscore⟩,
    NameFmt.decDigits_ne_nil n⟩

/-- decimal notation is injective, for numbers of any size (`NameFmt.ofDigits` is a left inverse; the fuel
`n + 1` of `decDigits` always suffices: `NameFmt.decDigits_eq_digs`) -/
theorem decimal_injective (a b : Nat) (h : decDigits a = decDigits b) : a = b :=
  NameFmt.decDigits_injective h

theorem decimal_left_inverse (n : Nat) : NameFmt.ofDigits (decDigits n) = n :=
  NameFmt.ofDigits_decDigits n

/-- the name is `part_pid_count` -/
theorem name_text_shape (part : List Char) (pid c : Nat) :
    nameText part pid c = part ++ '_' :: (decDigits pid ++ '_' :: decDigits c) := by
  rw [nameText_eq]; exact NameFmt.name_shape part pid c

/-- **Injectivity in the counter**, for ALL name parts (they may contain '_' and digits) and one process id:
the text after the last underscore is the counter -/
theorem name_text_determines_counter (part part' : List Char) (pid c c' : Nat)
    (h : nameText part pid c = nameText part' pid c') : c = c' := by
  rw [nameText_eq, nameText_eq] at h
  exact NameFmt.name_injective_counter part part' pid c c' h

/-- more: the name determines all three arguments -/
theorem name_text_determines_arguments (part part' : List Char) (pid pid' c c' : Nat)
    (h : nameText part pid c = nameText part' pid' c') : part = part' ∧ pid = pid' ∧ c = c' := by
  rw [nameText_eq, nameText_eq] at h
  exact NameFmt.name_injective part part' pid pid' c c' h

/-- and the counter is determined even when arbitrary texts precede the names -/
theorem path_text_determines_counter (d d' part part' : List Char) (pid pid' c c' : Nat)
    (h : d ++ nameText part pid c = d' ++ nameText part' pid' c') : c = c' := by
  rw [nameText_eq, nameText_eq] at h
  exact NameFmt.counter_of_prefixed_name d d' part part' pid pid' c c' h

/-- **Containment**: the name part occurs in the name (at the front), and in every text ending with the name -/
theorem name_text_contains_part (part : List Char) (pid c : Nat) :
    part <+: nameText part pid c ∧ part <:+: nameText part pid c := by
  rw [nameText_eq]
  exact ⟨NameFmt.part_prefix_name part pid c, NameFmt.part_infix_name part pid c⟩

theorem path_text_contains_part (d part : List Char) (pid c : Nat) :
    part <:+: d ++ nameText part pid c := by
  rw [nameText_eq]; exact NameFmt.part_infix_prefixed_name d part pid c

/-! ### counter values under every schedule -/

/-- For every number of threads and every schedule, the counter values handed out to the calls of the
generated program are pairwise distinct. -/
theorem counters_unique (nthreads : Nat) (sched : List Nat) :
    (namesOf Generated.tempNameOps 0 nthreads sched).Nodup :=
  unique_of_isSingleRMW Generated.tempNameOps 0 program_is_single_rmw nthreads sched

/-- the same spelled out: two different completed calls (positions `i ≠ j` in completion order) never
received the same value -/
theorem no_two_calls_share_a_counter (nthreads : Nat) (sched : List Nat) (i j : Nat) (a : Nat)
    (hi : (namesOf Generated.tempNameOps 0 nthreads sched)[i]? = some a)
    (hj : (namesOf Generated.tempNameOps 0 nthreads sched)[j]? = some a) : i = j := by
  have hinc := List.pairwise_iff_getElem.1
    (increasing_of_isSingleRMW Generated.tempNameOps 0 program_is_single_rmw nthreads sched)
  rw [List.getElem?_eq_some_iff] at hi hj
  obtain ⟨hi', hi⟩ := hi
  obtain ⟨hj', hj⟩ := hj
  rcases Nat.lt_trichotomy i j with h | h | h
  · have := hinc i j hi' hj' h; omega
  · exact h
  · have := hinc j i hj' hi' h; omega

/-- the decidable form the driver replays: no schedule produces a duplicate -/
theorem no_duplicating_schedule (nthreads : Nat) (sched : List Nat) :
    hasDup (namesOf Generated.tempNameOps 0 nthreads sched) = false :=
  no_dup_of_isSingleRMW Generated.tempNameOps 0 program_is_single_rmw nthreads sched

/-- values are strictly increasing in completion order, under every schedule -/
theorem counters_strictly_increasing (nthreads : Nat) (sched : List Nat) :
    (namesOf Generated.tempNameOps 0 nthreads sched).Pairwise (· < ·) :=
  increasing_of_isSingleRMW Generated.tempNameOps 0 program_is_single_rmw nthreads sched

/-- every scheduled step of an existing thread is one completed call and hands out one value … -/
theorem one_counter_per_call (nthreads : Nat) (sched : List Nat) :
    (namesOf Generated.tempNameOps 0 nthreads sched).length = (sched.filter (· < nthreads)).length :=
  single_rmw_length 1 nthreads sched

/-- … and the values are contiguous: the `i`-th completed call received exactly `i` -/
theorem counters_contiguous (nthreads : Nat) (sched : List Nat) (i : Nat)
    (hi : i < (namesOf Generated.tempNameOps 0 nthreads sched).length) :
    (namesOf Generated.tempNameOps 0 nthreads sched)[i]? = some i := by
  have := single_rmw_get 1 nthreads sched i hi
  rw [Nat.one_mul] at this
  exact this

/-- the shared counter ends at the number of names handed out: no update is lost -/
theorem counter_counts_calls (nthreads : Nat) (sched : List Nat) :
    (runSchedule Generated.tempNameOps 0 nthreads sched).counter =
      (namesOf Generated.tempNameOps 0 nthreads sched).length := by
  have := single_rmw_counter 1 nthreads sched
  rw [Nat.one_mul] at this
  exact this

/-! ### the property, on texts -/

/-- **Headline (names).**  For every number of threads, every schedule, every process id and every assignment
of name parts to the completed calls, the file names received by the calls are pairwise distinct. -/
theorem names_unique (nthreads : Nat) (sched : List Nat) (partOf : Nat → List Char) (pid : Nat) :
    (renderedNames partOf pid (namesOf Generated.tempNameOps 0 nthreads sched)).Nodup :=
  NameFmt.nodup_mapIdx _ _ (counters_unique nthreads sched)
    (fun i j a b h => name_text_determines_counter (partOf i) (partOf j) pid a b h)

/-- **Headline (paths).**  The same for the path texts, whatever text precedes the name of each call. -/
theorem paths_unique (nthreads : Nat) (sched : List Nat) (dirOf partOf : Nat → List Char) (pid : Nat) :
    (renderedPaths dirOf partOf pid (namesOf Generated.tempNameOps 0 nthreads sched)).Nodup :=
  NameFmt.nodup_mapIdx _ _ (counters_unique nthreads sched)
    (fun i j a b h => path_text_determines_counter (dirOf i) (dirOf j) (partOf i) (partOf j) pid pid a b h)

/-- one name and one path per completed call: the lists above cover all of them -/
theorem one_name_per_call (nthreads : Nat) (sched : List Nat) (dirOf partOf : Nat → List Char) (pid : Nat) :
    (renderedNames partOf pid (namesOf Generated.tempNameOps 0 nthreads sched)).length
        = (sched.filter (· < nthreads)).length ∧
    (renderedPaths dirOf partOf pid (namesOf Generated.tempNameOps 0 nthreads sched)).length
        = (sched.filter (· < nthreads)).length := by
  simp only [renderedNames, renderedPaths, List.length_mapIdx]
  exact ⟨one_counter_per_call nthreads sched, one_counter_per_call nthreads sched⟩

/-- spelled out: two different completed calls never received the same name … -/
theorem no_two_calls_share_a_name (nthreads : Nat) (sched : List Nat) (partOf : Nat → List Char) (pid : Nat)
    (i j : Nat) (t : List Char)
    (hi : (renderedNames partOf pid (namesOf Generated.tempNameOps 0 nthreads sched))[i]? = some t)
    (hj : (renderedNames partOf pid (namesOf Generated.tempNameOps 0 nthreads sched))[j]? = some t) : i = j := by
  simp only [renderedNames, List.getElem?_mapIdx, Option.map_eq_some_iff] at hi hj
  obtain ⟨a, ha, hat⟩ := hi
  obtain ⟨b, hb, hbt⟩ := hj
  have hab : a = b := name_text_determines_counter _ _ pid a b (hat.trans hbt.symm)
  subst hab
  exact no_two_calls_share_a_counter nthreads sched i j a ha hb

/-- … nor the same path -/
theorem no_two_calls_share_a_path (nthreads : Nat) (sched : List Nat) (dirOf partOf : Nat → List Char)
    (pid : Nat) (i j : Nat) (t : List Char)
    (hi : (renderedPaths dirOf partOf pid (namesOf Generated.tempNameOps 0 nthreads sched))[i]? = some t)
    (hj : (renderedPaths dirOf partOf pid (namesOf Generated.tempNameOps 0 nthreads sched))[j]? = some t) : i = j := by
  simp only [renderedPaths, List.getElem?_mapIdx, Option.map_eq_some_iff] at hi hj
  obtain ⟨a, ha, hat⟩ := hi
  obtain ⟨b, hb, hbt⟩ := hj
  have hab : a = b := path_text_determines_counter _ _ _ _ pid pid a b (hat.trans hbt.symm)
  subst hab
  exact no_two_calls_share_a_counter nthreads sched i j a ha hb

/-- **Containment.**  Every name contains the name part of its call … -/
theorem every_name_contains_its_part (nthreads : Nat) (sched : List Nat) (partOf : Nat → List Char) (pid : Nat)
    (i : Nat) (t : List Char)
    (hi : (renderedNames partOf pid (namesOf Generated.tempNameOps 0 nthreads sched))[i]? = some t) :
    partOf i <:+: t := by
  simp only [renderedNames, List.getElem?_mapIdx, Option.map_eq_some_iff] at hi
  obtain ⟨a, _, hat⟩ := hi
  rw [← hat]
  exact (name_text_contains_part (partOf i) pid a).2

/-- … and so does every path -/
theorem every_path_contains_its_part (nthreads : Nat) (sched : List Nat) (dirOf partOf : Nat → List Char)
    (pid : Nat) (i : Nat) (t : List Char)
    (hi : (renderedPaths dirOf partOf pid (namesOf Generated.tempNameOps 0 nthreads sched))[i]? = some t) :
    partOf i <:+: t := by
  simp only [renderedPaths, List.getElem?_mapIdx, Option.map_eq_some_iff] at hi
  obtain ⟨a, _, hat⟩ := hi
  rw [← hat]
  exact path_text_contains_part (dirOf i) (partOf i) pid a

/-- exactly: the `i`-th completed call receives `partOf i ++ "_" ++ dec pid ++ "_" ++ dec i` -/
theorem name_of_call (nthreads : Nat) (sched : List Nat) (partOf : Nat → List Char) (pid : Nat) (i : Nat)
    (hi : i < (sched.filter (· < nthreads)).length) :
    (renderedNames partOf pid (namesOf Generated.tempNameOps 0 nthreads sched))[i]?
      = some (partOf i ++ '_' :: (decDigits pid ++ '_' :: decDigits i)) := by
  rw [← one_counter_per_call nthreads sched] at hi
  simp only [renderedNames, List.getElem?_mapIdx, counters_contiguous nthreads sched i hi, Option.map_some,
    name_text_shape]

/-- the same property with the name parts given as a list `parts` with one entry per completed call: the names
are pairwise distinct, there is one per call, and the `i`-th contains `parts[i]` -/
theorem names_unique_of_parts (nthreads : Nat) (sched : List Nat) (parts : List (List Char)) (pid : Nat)
    (hlen : parts.length = (sched.filter (· < nthreads)).length) :
    let names := List.zipWith (fun p c => nameText p pid c) parts (namesOf Generated.tempNameOps 0 nthreads sched)
    names.Nodup ∧ names.length = (sched.filter (· < nthreads)).length ∧
      ∀ (i : Nat) (p t : List Char), parts[i]? = some p → names[i]? = some t → p <:+: t := by
  intro names
  refine ⟨?_, ?_, ?_⟩
  · exact NameFmt.nodup_zipWith _ _ _ (counters_unique nthreads sched)
      (fun p q a b h => name_text_determines_counter p q pid a b h)
  · simp only [names, List.length_zipWith, one_counter_per_call nthreads sched, hlen, Nat.min_self]
  · intro i p t hp ht
    simp only [names, List.getElem?_zipWith, hp] at ht
    cases hc : (namesOf Generated.tempNameOps 0 nthreads sched)[i]? with
    | none => rw [hc] at ht; simp at ht
    | some c =>
      rw [hc] at ht
      simp only [Option.some.injEq] at ht
      rw [← ht]
      exact (name_text_contains_part p pid c).2

/-! ### the bounded counter -/

/-- with a 64-bit counter nothing changes as long as at most 2^64 calls complete: all values handed out are
below 2^64 and therefore unchanged by the reduction `% 2^64` that `fetch_add` on a `usize` performs -/
theorem wrapped_counters_unchanged (nthreads : Nat) (sched : List Nat)
    (h : (sched.filter (· < nthreads)).length ≤ 2 ^ 64) :
    (namesOf Generated.tempNameOps 0 nthreads sched).map (· % 2 ^ 64)
      = namesOf Generated.tempNameOps 0 nthreads sched := by
  apply NameFmt.map_mod_eq_self
  intro c hc
  obtain ⟨i, hi, hci⟩ := List.getElem_of_mem hc
  have hget := counters_contiguous nthreads sched i hi
  rw [List.getElem?_eq_getElem hi, hci, Option.some.injEq] at hget
  rw [one_counter_per_call nthreads sched] at hi
  omega

/-- hence the headline holds with the wrapped counter values for all such schedules -/
theorem names_unique_wrapping (nthreads : Nat) (sched : List Nat) (dirOf partOf : Nat → List Char) (pid : Nat)
    (h : (sched.filter (· < nthreads)).length ≤ 2 ^ 64) :
    (renderedNames partOf pid ((namesOf Generated.tempNameOps 0 nthreads sched).map (· % 2 ^ 64))).Nodup ∧
    (renderedPaths dirOf partOf pid ((namesOf Generated.tempNameOps 0 nthreads sched).map (· % 2 ^ 64))).Nodup := by
  rw [wrapped_counters_unchanged nthreads sched h]
  exact ⟨names_unique nthreads sched partOf pid, paths_unique nthreads sched dirOf partOf pid⟩

/-- … and not beyond: the call after 2^64 completed ones would be handed the first counter value again, hence,
for the same name part, the same name -/
theorem wrap_repeats_first (part : List Char) (pid : Nat) :
    nameText part pid (2 ^ 64 % 2 ^ 64) = nameText part pid 0 := by
  rw [Nat.mod_self]

/-! ### the general theorems the instantiation rests on (any positive increment) -/

theorem single_rmw_unique (k : Nat) (hk : 0 < k) (nthreads : Nat) (sched : List Nat) :
    (namesOf [AOp.fetchAdd k] 0 nthreads sched).Nodup ∧
    (namesOf [AOp.fetchAdd k] 0 nthreads sched).Pairwise (· < ·) :=
  ⟨single_rmw_nodup k hk nthreads sched, single_rmw_strictly_increasing k hk nthreads sched⟩

/-- any program passing the obligation is unique under every schedule (so the headline keeps holding for
whatever single fetch-and-add the source contains) -/
theorem unique_whenever_obligation_holds (prog : List AOp) (r : Nat)
    (h : isSingleRMW prog (some r) = true) (nthreads : Nat) (sched : List Nat) :
    (namesOf prog r nthreads sched).Nodup :=
  unique_of_isSingleRMW prog r h nthreads sched

/-! ### why the obligations are needed -/

/-- a counter read and written in two separate accesses hands the same value to two threads: two threads,
schedule `0 1 0 1` (both load 0, both store 1) — both calls get name 0 -/
theorem load_then_store_duplicates :
    namesOf [.load, .storeRegPlus 1] 0 2 [0, 1, 0, 1] = [0, 0] ∧
    ¬ (namesOf [.load, .storeRegPlus 1] 0 2 [0, 1, 0, 1]).Nodup ∧
    isSingleRMW [.load, .storeRegPlus 1] (some 0) = false :=
  ⟨load_store_duplicates_names, load_store_not_nodup, by decide⟩

/-- without the separators distinct counters do not give distinct names: with the format `{}{}{}`, process 1,
the calls ("a", counter 11) and ("a1", counter 1) both receive `a111` -/
theorem unseparated_format_collides :
    tempFileNameText ['{', '}', '{', '}', '{', '}'] [.part, .pid, .counter] ['a'] 1 11
      = tempFileNameText ['{', '}', '{', '}', '{', '}'] [.part, .pid, .counter] ['a', '1'] 1 1 := by decide

/-! ### non-vacuity -/

/-- three threads, an interleaved schedule of seven calls: seven names are handed out, 0..6 -/
example : namesOf Generated.tempNameOps 0 3 [2, 0, 1, 1, 0, 2, 2] = [0, 1, 2, 3, 4, 5, 6] := by decide
example : (6 : Nat) < (namesOf Generated.tempNameOps 0 3 [2, 0, 1, 1, 0, 2, 2]).length := by decide

/-- a rendered name -/
example : nameText "example".toList 4242 17 = "example_4242_17".toList := by decide
example : decDigits 0 = ['0'] ∧ decDigits 18446744073709551615 = "18446744073709551615".toList := by decide

/-- name parts that try to imitate the other components: three calls, parts "x", "x_77" and "x_77_0", process 77.
The names are `x_77_0`, `x_77_77_1`, `x_77_0_77_2`: distinct, although the first name is a prefix of the third
and equals the third call's name part -/
example :
    renderedNames (fun i => if i = 0 then "x".toList else if i = 1 then "x_77".toList else "x_77_0".toList) 77
        (namesOf Generated.tempNameOps 0 2 [1, 0, 1])
      = ["x_77_0".toList, "x_77_77_1".toList, "x_77_0_77_2".toList] := by decide

/-- paths: a relative and an absolute name part (the latter replaces the directory) -/
example :
    renderedPaths (fun i => if i = 0 then "/tmp/".toList else []) (fun i => if i = 0 then "a".toList else "/x/a".toList)
        5 (namesOf Generated.tempNameOps 0 1 [0, 0])
      = ["/tmp/a_5_0".toList, "/x/a_5_1".toList] := by decide

/-- the hypotheses of the spelled-out forms are satisfiable: the second completed call has a name, and it
contains its part -/
example : (renderedNames (fun _ => "p".toList) 1 (namesOf Generated.tempNameOps 0 2 [1, 0, 1]))[1]?
    = some "p_1_1".toList := by decide
example : "p".toList <:+: "p_1_1".toList := ⟨[], "_1_1".toList, by decide⟩

/-- the hypothesis of the bounded-counter statements is satisfiable -/
example : ([1, 0, 1].filter (· < 2)).length ≤ 2 ^ 64 := by decide

end Sds.C20
