/-
C20 — Temporary file names are unique within a process under concurrent use.

  "However many threads request temporary file names at the same time, no two calls in one process ever
   receive the same path, and every returned path contains the caller's name part."

Property theorems only (helper lemmas live in Proofs/Atomic.lean).  Quantifiers: every number of threads,
EVERY schedule (a schedule is any list of thread indices; each entry lets that thread execute the next
access of its current `temp_file_name` call, so all interleavings of any number of calls are covered;
entries naming a non-existent thread are no-ops).

The program whose interleavings are quantified over is not hand-written: `Generated.tempNameOps` is the list
of accesses to `TEMP_FILE_COUNTER` extracted from the body of `serialize::temp_file_name` on every run,
`Generated.tempNameResultOp` is the access whose result is formatted into the name, and
`Generated.tempNameUsesPart` / `tempNameUsesPid` / `tempNameFormat` describe the `format!` call.  The two
obligations `program_is_single_rmw` and `name_contains_part` are re-checked by `decide` against whatever
the source says now; if somebody replaces the `fetch_add` by a load and a store they fail (and
`load_then_store_duplicates` shows the resulting duplicate).

FULL intended statement:
   for all thread counts and all interleavings, the PATHS returned by all calls in one process are pairwise
   distinct, and each path contains the `name_part` argument of its call.
What is proven (`…_partial` names below): the COUNTER VALUES formatted into the paths are pairwise
distinct, strictly increasing in completion order and contiguous from the initial value, for all thread
counts and all schedules of the generated program; and the format call uses the caller's name part.
What is missing, precisely:
  (1) atomicity and sequential consistency of `AtomicUsize::fetch_add(1, SeqCst)` are the semantics of
      Model/Atomic.lean (`execOp`, `stepThread`: one access = one indivisible step, one global order);
      that is the contract of the Rust/C++11 memory model, assumed, not proven;
  (2) the step from distinct counters to distinct paths: the path is
      `temp_dir().join(format!("{}_{}_{}", name_part, process::id(), count))`; string formatting is not
      modelled.  Assumption used: for a fixed process id, decimal formatting of `count` as the LAST
      underscore-separated component is injective in `count` whatever `name_part` is (the last component
      is recovered by splitting at the last '_', and decimal notation without leading zeros is injective),
      and the formatted string contains its first argument literally;
  (3) the counter is a mathematical natural number: wrap-around of the `usize` after 2^64 calls in one
      process is not modelled (a process performing 2^64 calls is out of reach);
  (4) uniqueness across processes is not claimed by the property (it rests on `process::id()`).
-/
import Sds.Proofs.Atomic
import Sds.Generated.TempName

namespace Sds.C20
open Sds

/-! ### obligations on the generated program (re-checked on every run) -/

/-- the body of `temp_file_name`, as extracted from the source now, touches the counter by exactly one
atomic fetch-and-add of a positive constant, and it is the result of that access that names the file -/
theorem program_is_single_rmw :
    isSingleRMW Generated.tempNameOps Generated.tempNameResultOp = true := by decide

/-- the access whose result is formatted into the name is the first (only) one -/
theorem result_op_is_first : Generated.tempNameResultOp = some 0 := by decide

/-- every returned path contains the caller's name part (and the process id): both are arguments of the
`format!` that builds the file name, whose shape is `{}_{}_{}` with the counter last -/
theorem name_contains_part :
    Generated.tempNameUsesPart = true ∧ Generated.tempNameUsesPid = true ∧
      Generated.tempNameFormat = "{}_{}_{}" := by decide

/-! ### uniqueness under every schedule -/

/-- **Headline.**  For every number of threads and every schedule, the counter values handed out to the
calls of the generated program are pairwise distinct. -/
theorem names_unique_partial (nthreads : Nat) (sched : List Nat) :
    (namesOf Generated.tempNameOps 0 nthreads sched).Nodup :=
  unique_of_isSingleRMW Generated.tempNameOps 0 program_is_single_rmw nthreads sched

/-- the same spelled out: two different completed calls (positions `i ≠ j` in completion order) never
received the same value -/
theorem no_two_calls_share_a_name_partial (nthreads : Nat) (sched : List Nat) (i j : Nat) (a : Nat)
    (hi : (namesOf Generated.tempNameOps 0 nthreads sched)[i]? = some a)
    (hj : (namesOf Generated.tempNameOps 0 nthreads sched)[j]? = some a) : i = j := by
  have hinc := List.pairwise_iff_getElem.1
    (increasing_of_isSingleRMW Generated.tempNameOps 0 program_is_single_rmw nthreads sched)
  rw [List.getElem?_eq_some_iff] at hi hj
  obtain ⟨hi', hi⟩ := hi
  obtain ⟨hj', hj⟩ := hj
  rcases Nat.lt_trichotomy i j with h | h | h
  · have := hinc i j hi' hj' h; omega
  · exact h
  · have := hinc j i hj' hi' h; omega

/-- the decidable form the driver replays: no schedule produces a duplicate -/
theorem no_duplicating_schedule_partial (nthreads : Nat) (sched : List Nat) :
    hasDup (namesOf Generated.tempNameOps 0 nthreads sched) = false :=
  no_dup_of_isSingleRMW Generated.tempNameOps 0 program_is_single_rmw nthreads sched

/-- values are strictly increasing in completion order, under every schedule -/
theorem names_strictly_increasing_partial (nthreads : Nat) (sched : List Nat) :
    (namesOf Generated.tempNameOps 0 nthreads sched).Pairwise (· < ·) :=
  increasing_of_isSingleRMW Generated.tempNameOps 0 program_is_single_rmw nthreads sched

/-- every scheduled step of an existing thread is one completed call and hands out one value … -/
theorem one_name_per_call_partial (nthreads : Nat) (sched : List Nat) :
    (namesOf Generated.tempNameOps 0 nthreads sched).length = (sched.filter (· < nthreads)).length :=
  single_rmw_length 1 nthreads sched

/-- … and the values are contiguous: the `i`-th completed call received exactly `i` -/
theorem names_contiguous_partial (nthreads : Nat) (sched : List Nat) (i : Nat)
    (hi : i < (namesOf Generated.tempNameOps 0 nthreads sched).length) :
    (namesOf Generated.tempNameOps 0 nthreads sched)[i]? = some i := by
  have := single_rmw_get 1 nthreads sched i hi
  rw [Nat.one_mul] at this
  exact this

/-- the shared counter ends at the number of names handed out: no update is lost -/
theorem counter_counts_calls_partial (nthreads : Nat) (sched : List Nat) :
    (runSchedule Generated.tempNameOps 0 nthreads sched).counter =
      (namesOf Generated.tempNameOps 0 nthreads sched).length := by
  have := single_rmw_counter 1 nthreads sched
  rw [Nat.one_mul] at this
  exact this

/-! ### the general theorems the instantiation rests on (any positive increment) -/

theorem single_rmw_unique (k : Nat) (hk : 0 < k) (nthreads : Nat) (sched : List Nat) :
    (namesOf [AOp.fetchAdd k] 0 nthreads sched).Nodup ∧
    (namesOf [AOp.fetchAdd k] 0 nthreads sched).Pairwise (· < ·) :=
  ⟨single_rmw_nodup k hk nthreads sched, single_rmw_strictly_increasing k hk nthreads sched⟩

/-- any program passing the obligation is unique under every schedule (so the headline keeps holding for
whatever single fetch-and-add the source contains) -/
theorem unique_whenever_obligation_holds (prog : List AOp) (r : Nat)
    (h : isSingleRMW prog (some r) = true) (nthreads : Nat) (sched : List Nat) :
    (namesOf prog r nthreads sched).Nodup :=
  unique_of_isSingleRMW prog r h nthreads sched

/-! ### why the obligation is needed -/

/-- a counter read and written in two separate accesses hands the same value to two threads: two threads,
schedule `0 1 0 1` (both load 0, both store 1) — both calls get name 0 -/
theorem load_then_store_duplicates :
    namesOf [.load, .storeRegPlus 1] 0 2 [0, 1, 0, 1] = [0, 0] ∧
    ¬ (namesOf [.load, .storeRegPlus 1] 0 2 [0, 1, 0, 1]).Nodup ∧
    isSingleRMW [.load, .storeRegPlus 1] (some 0) = false :=
  ⟨load_store_duplicates_names, load_store_not_nodup, by decide⟩

/-! ### non-vacuity -/

/-- three threads, an interleaved schedule of seven calls: seven names are handed out, 0..6 -/
example : namesOf Generated.tempNameOps 0 3 [2, 0, 1, 1, 0, 2, 2] = [0, 1, 2, 3, 4, 5, 6] := by decide
example : (6 : Nat) < (namesOf Generated.tempNameOps 0 3 [2, 0, 1, 1, 0, 2, 2]).length := by decide

end Sds.C20
