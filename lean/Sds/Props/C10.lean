/-
C10 — Every iterator yields the reference sequence under any interleaving of calls.

Property theorems only (helper lemmas live in Proofs/).

The reference.  `dequeRunM xs calls` (Model/Iter.lean) runs a call list over a plain double-ended queue holding
the reference sequence `xs`: `next` pops the front, `next_back` pops the back, `nth k` drops `k` items then
pops the front, `nth_back k` drops `k` items from the back then pops the back, `len` reports the number of
items left; an empty queue answers `None`.  Saying that an iterator, run over the same call list, produces the
SAME LIST OF ANSWERS is therefore the whole of C10 for that iterator: the right items with the right ranks,
exact `len` at every step, `None` for ever once exhausted, and — because a queue hands out every item at most
once and never skips one except as `nth` / `nth_back` say — a partition of the sequence between the two ends.

Quantifiers.  Every finite call list `calls : List ICall` over the alphabet `next`, `next_back`, `nth k`,
`nth_back k` (EVERY `k : Nat`, so every `usize`), `len`; every well-formed raw vector of `usize` length resp.
every integer vector; every starting point (`select_iter(r)`, `predecessor(x)`, `successor(x)` for every `r`,
`x`); both arithmetic modes `m : Mode`; set bits (`tr = .ident`) and unset bits (`tr = .compl`).
(`clone` copies the state, which is a value here, so a cloned iterator is covered by the same theorems.)

Machines.  `cursorRun get ⟨0, n⟩` is the two-cursor iterator (`ops::AccessIter`, `bit_vector::Iter`) of
Model/Iter.lean.  `IterProofs.oneRun tr m b it` runs a call list through `OneIter<T>`: `OneIterSt.nextQ`,
`nextBackQ`, `nthQ` of Model/BitVector.lean, `nth_back` by its standard default (`k` times `next_back`, then one
more), `len = limit.0 - next.0`; a fault (panic, out-of-bounds) anywhere makes the whole run a fault, so
`oneRun … = ok …` also says that no call of the history faults.  `IterProofs.pairs P` is the list of
`(rank, position)` pairs (`reference_pairs`).

Default `nth` / `nth_back` / `len`.  The sparse vector's, the run-length vector's and the wavelet matrix's
iterators do not override `nth` / `nth_back`: a call is the standard library's default, `Iter2.nthDefault` (`k`
times `next` resp. `next_back`, giving up with `None` at the first `None`, then one more).  `len()` is
`ExactSizeIterator::len` = `size_hint().0`; the `size_hint` bodies are transcribed in Proofs/Iter2.lean (`Sp.oneLen`,
`Sp.bitLen`, `Sp.zeroLen`, `RLI.oneLen`, `RLI.bitLen`, `RLI.zeroLen`, `WMI.intoLen`: one `usize` subtraction each,
through `subM m`, so that a `len()` that would underflow is a fault of the run) and proven equal to the model's
`remaining` on every reachable state (`…_len_is_remaining`).  The run machines are `Iter2.iterGenRun` (two-ended:
full alphabet `ICall`), `Iter2.fwdRun` (forward-only exact-size iterators: `FCall` = `next` / `nth k` / `len`) and
`Iter2.nRun` (forward-only iterators that are not `ExactSizeIterator`: `NCall` = `next` / `nth k`); the forward
alphabets are embedded in `ICall` by `toICall`, so the reference is the same `dequeRunM`.  Forward-only in the
Rust: sparse `ZeroIter`; run-length `RunIter` (no `len`), `Iter`, `OneIter`, `ZeroIter`; wavelet-matrix
`ValueIter` (no `len`) and `IntoIter`.

Modelled here, not run by the correspondence driver: the `size_hint` transcriptions just named, `nthDefault`,
`WMI.intoNext` (`IntoIter::next` of the wavelet matrix) and `Iter2.cursorStepM` (`AccessIter` with a `get` that can
fault, for `WaveletMatrix::iter`), `Iter2.intoStep` / `intoStepLen` (`IntVector`'s `IntoIter`).

Run-length `predecessor(x)` / `successor(x)` (`rl_predecessor_continues`, `rl_successor_continues`,
`rl_built_pred_succ`; Proofs/RLPredSucc.lean): the returned `OneIter` starts at the predecessor resp. successor and
CONTINUES with the set bits of the following ranks to the end, under every forward call history.  The loops stop in
a `RunIter` state that `next()` walks through (a run refused by the closure of `advance_if` leaves offset, position
and limit untouched — also when the refused run is the first of the next block), with the rank inside the run that
ends at the iterator position: the invariant `select_iter(r)` is handled with (`RLQ.drain_walk`).

NOT covered in this file: the sparse `ZeroIter` on multisets (the Rust documents it as incorrect there).
-/
import Sds.Proofs.Iter
import Sds.Proofs.IntVec
import Sds.Proofs.Sparse
import Sds.Proofs.Sparse2
import Sds.Proofs.Glue
import Sds.Proofs.Glue2
import Sds.Proofs.Iter2
import Sds.Proofs.RLPredSucc
import Sds.Proofs.GenEqIter
import Sds.Proofs.GenEqLoop2
import Sds.Proofs.GenEqSpIter
import Sds.Proofs.GenEqSpZero
import Sds.Proofs.GenEqSpAll
import Sds.Proofs.GenEqRL2
import Sds.Proofs.IterBridge
import Sds.Proofs.GenEqRLPred

namespace Sds.C10
open Sds Outcome IterProofs Iter2

/-! ### two-cursor iterators: `AccessIter`, `bit_vector::Iter`, `IntoIter` -/

/-- **generic two-cursor iterator**: over any parent whose item `i` is `get i`, every call history gives the
answers of the reference queue -/
theorem two_cursor_any_interleaving {α} (xs : List α) (get : Nat → α)
    (hx : ∀ i, i < xs.length → xs[i]? = some (get i)) (calls : List ICall) :
    cursorRun get ⟨0, xs.length⟩ calls = dequeRunM xs calls :=
  cursorRun_eq xs get hx calls

/-- `bit_vector::Iter` (all bits of a bitvector over the raw vector `v`) -/
theorem bitvector_iter_any_interleaving (v : RawVec) (calls : List ICall) :
    cursorRun (fun i => v.bit i) ⟨0, v.len⟩ calls = dequeRunM v.bits calls := by
  have := cursorRun_eq v.bits (fun i => v.bit i)
    (fun i hi => RawVec.bit_eq_getElem? v i (by rw [RawVec.bits_length] at hi; exact hi)) calls
  rw [RawVec.bits_length] at this
  exact this

/-- `AccessIter` over an integer vector (vector items) -/
theorem intvec_iter_any_interleaving (v : IntVec) (calls : List ICall) :
    cursorRun (fun i => (v.getRaw i).toNat) ⟨0, v.len⟩ calls = dequeRunM v.items calls := by
  have := cursorRun_eq v.items (fun i => (v.getRaw i).toNat)
    (fun i hi => by
      rw [IntVec.items_length] at hi
      rw [IntVec.items_getElem?, if_pos hi]) calls
  rw [IntVec.items_length] at this
  exact this

/-- exact size at every step: in any state standing for the segment `[next, limit)` of the reference, `len`
reports exactly the number of reference items left -/
theorem two_cursor_len_exact {α} (xs : List α) (get : Nat → α) (c : Cursor) (d : List α)
    (hR : c.next ≤ c.limit ∧ c.limit ≤ xs.length ∧ d = (xs.take c.limit).drop c.next) :
    cursorStep get c .len = (.len d.length, c) :=
  cursor_len_exact xs get c d ((R_def xs c d).mpr hR)

/-- `None` is absorbing: once an item call has answered `None`, every later call (any kind, any argument)
answers `None` resp. length 0 -/
theorem two_cursor_none_absorbing {α} (get : Nat → α) (c : Cursor) (call : ICall) (hcall : call ≠ .len)
    (h : (cursorStep get c call).1 = .none) (calls : List ICall) :
    ∀ o, o ∈ cursorRun get (cursorStep get c call).2 calls → IsEmptyOut o :=
  none_absorbing get c call hcall h calls

/-- owning `IntoIter` (forward index cursor): each `next` answers as the queue of the remaining items does -/
theorem into_iter_step {α} (xs : List α) (get : Nat → α) (hx : ∀ i, i < xs.length → xs[i]? = some (get i))
    (i : Nat) (hi : i ≤ xs.length) :
    (dequeStep (xs.drop i) .next).1 = (intoIterStep get xs.length i).1 ∧
      (dequeStep (xs.drop i) .next).2 = xs.drop (intoIterStep get xs.length i).2 ∧
      (intoIterStep get xs.length i).2 ≤ xs.length :=
  intoIterStep_sim xs get hx i hi

/-- owning `IntoIter` of an integer vector (forward-only, exact size; `Iter2.intoStep` = `intoIterStep` as a step
function, default `nth`, `len` = `size_hint().0`): every call history over `next` / `nth k` / `len` yields the items -/
theorem intvec_into_iter_any_history (v : IntVec) (m : Mode) (calls : List FCall) :
    fwdRun (intoStep (fun i => (v.getRaw i).toNat) v.len) (intoStepLen m v.len) 0 calls =
      ok (dequeRunM v.items (calls.map FCall.toICall)) := by
  have := intoStep_run v.items (fun i => (v.getRaw i).toNat)
    (fun i hi => by
      rw [IntVec.items_length] at hi
      rw [IntVec.items_getElem?, if_pos hi]) m calls
  rw [IntVec.items_length] at this
  exact this

/-! ### `OneIter<T>`: set bits and unset bits of a plain bitvector -/

/-- the reference sequence of `one_iter` / `zero_iter`: position list zipped with ranks `0, 1, 2, …` -/
theorem reference_pairs (P : List Nat) : pairs P = (List.range P.length).zip P := pairs_eq_zip P

/-- **`one_iter()` / `zero_iter()`**, any bitvector `b` over the well-formed raw vector `v` with a correct
cached count: every call history yields the `(rank, position)` pairs of the set (unset) bits exactly as the
reference queue does, with no fault, in both modes -/
theorem one_iter_any_interleaving (b : BitVector) (v : RawVec) (hv : v.WF) (hlen : v.len < 2 ^ 64)
    (hdata : b.data = v) (hones : b.ones = v.bits.count true) (tr : Tr) (m : Mode) (calls : List ICall) :
    oneRun tr m b (OneIterSt.full tr b) calls = ok (dequeRunM (pairs (onesPos (bitsT tr v.bits))) calls) :=
  oneRun_full ⟨hv, hlen, hdata, hones⟩ tr m calls

/-- in particular for `BitVector::from(raw)`, with or without supports (the iterator uses none) -/
theorem one_iter_from_raw (v : RawVec) (hv : v.WF) (hlen : v.len < 2 ^ 64) (tr : Tr) (m : Mode)
    (calls : List ICall) :
    oneRun tr m (BitVector.ofRaw v) (OneIterSt.full tr (BitVector.ofRaw v)) calls =
      ok (dequeRunM (pairs (onesPos (bitsT tr v.bits))) calls) ∧
    oneRun tr m (BitVector.ofRaw v).enableAll (OneIterSt.full tr (BitVector.ofRaw v).enableAll) calls =
      ok (dequeRunM (pairs (onesPos (bitsT tr v.bits))) calls) :=
  ⟨oneRun_full_ofRaw hv hlen tr m calls, oneRun_full (ctx_enableAll hv hlen) tr m calls⟩

/-- the same from ANY intermediate state: an iterator standing for the ranks `[r, R)` (`IterProofs.Rel`: the
rank components are `r`, `R` and each position cursor has exactly that many set bits before it) continues with
exactly the items `r, r+1, …, R-1` -/
theorem one_iter_from_any_state (b : BitVector) (v : RawVec) (hv : v.WF) (hlen : v.len < 2 ^ 64)
    (hdata : b.data = v) (hones : b.ones = v.bits.count true) (tr : Tr) (m : Mode) (it : OneIterSt)
    (r R : Nat) (hrel : Rel tr v it r R) (calls : List ICall) :
    oneRun tr m b it calls =
      ok (dequeRunM (((pairs (onesPos (bitsT tr v.bits))).take R).drop r) calls) :=
  oneRun_sim ⟨hv, hlen, hdata, hones⟩ tr m calls hrel

/-- exact size: `len()` of such a state is `R - r` -/
theorem one_iter_len_exact (tr : Tr) (v : RawVec) (it : OneIterSt) (r R : Nat) (hrel : Rel tr v it r R) :
    it.remaining = R - r :=
  IterProofs.remaining_eq hrel

/-- every single call, in detail: `next` → `(r, P[r])`, `next_back` → `(R-1, P[R-1])`, `nth n` → `(r+n, P[r+n])`,
`nth_back k` → `(R-k-1, P[R-k-1])` inside the range, and `None` outside it — for EVERY `n`, `k` -/
theorem one_iter_calls (b : BitVector) (v : RawVec) (hv : v.WF) (hlen : v.len < 2 ^ 64)
    (hdata : b.data = v) (hones : b.ones = v.bits.count true) (tr : Tr) (m : Mode) (it : OneIterSt)
    (r R : Nat) (hrel : Rel tr v it r R) :
    (r < R → ∃ p, (onesPos (bitsT tr v.bits))[r]? = some p ∧
      OneIterSt.nextQ tr m b it = ok (some (r, p), { it with next := (r + 1, p + 1) })) ∧
    (R ≤ r → OneIterSt.nextQ tr m b it = ok (none, it)) ∧
    (r < R → ∃ p, (onesPos (bitsT tr v.bits))[R - 1]? = some p ∧
      OneIterSt.nextBackQ tr m b it = ok (some (R - 1, p), { it with limit := (R - 1, p) })) ∧
    (R ≤ r → OneIterSt.nextBackQ tr m b it = ok (none, it)) ∧
    (∀ n, r + n < R → ∃ p, (onesPos (bitsT tr v.bits))[r + n]? = some p ∧
      OneIterSt.nthQ tr m b it n = ok (some (r + n, p), { it with next := (r + n + 1, p + 1) })) ∧
    (∀ n, R ≤ r + n → OneIterSt.nthQ tr m b it n = ok (none, { it with next := it.limit })) ∧
    (∀ k, r + k < R → ∃ p, (onesPos (bitsT tr v.bits))[R - k - 1]? = some p ∧
      nthBackQ tr m b k it = ok (some (R - k - 1, p), { it with limit := (R - k - 1, p) })) ∧
    (∀ k, R ≤ r + k → ∃ it', nthBackQ tr m b k it = ok (none, it') ∧ Rel tr v it' r r) := by
  have C : Ctx b v := ⟨hv, hlen, hdata, hones⟩
  have e1 := hrel.next_rank
  have e2 := hrel.limit_rank
  refine ⟨?_, ?_, ?_, ?_, ?_, ?_, ?_, ?_⟩
  · intro h; obtain ⟨p, h1, h2, _⟩ := nextQ_some C tr m hrel h; exact ⟨p, h1, h2⟩
  · intro h; exact IterProofs.nextQ_none tr m b it (by omega)
  · intro h; obtain ⟨p, h1, h2, _⟩ := nextBackQ_some C tr m hrel h; exact ⟨p, h1, h2⟩
  · intro h; exact IterProofs.nextBackQ_none tr m b it (by omega)
  · intro n h; obtain ⟨p, h1, h2, _⟩ := nthQ_some C tr m hrel n h; exact ⟨p, h1, h2⟩
  · intro n h; exact (nthQ_none (b := b) tr m hrel n h).1
  · intro k h; obtain ⟨p, h1, h2, _⟩ := nthBackQ_some C tr m k hrel h; exact ⟨p, h1, h2⟩
  · intro k h; exact nthBackQ_none C tr m k hrel h

/-- **keeps returning `None` once exhausted**: with no ranks left (the state after any call that answered
`None`, see `one_iter_none_exhausts`) every further call history answers only `None` / length 0, without fault -/
theorem one_iter_none_absorbing (b : BitVector) (v : RawVec) (hv : v.WF) (hlen : v.len < 2 ^ 64)
    (hdata : b.data = v) (hones : b.ones = v.bits.count true) (tr : Tr) (m : Mode) (calls : List ICall)
    (it : OneIterSt) (r R : Nat) (hrel : Rel tr v it r R) (h : R ≤ r) :
    ∃ os, oneRun tr m b it calls = ok os ∧ ∀ o, o ∈ os → IsEmptyOut o :=
  oneRun_exhausted ⟨hv, hlen, hdata, hones⟩ tr m calls hrel h

/-- an item call that answers `None` leaves the iterator exhausted -/
theorem one_iter_none_exhausts (b : BitVector) (v : RawVec) (hv : v.WF) (hlen : v.len < 2 ^ 64)
    (hdata : b.data = v) (hones : b.ones = v.bits.count true) (tr : Tr) (m : Mode) (it : OneIterSt)
    (r R : Nat) (hrel : Rel tr v it r R) (call : ICall) (hcall : call ≠ .len)
    (hnone : (dequeStep (((pairs (onesPos (bitsT tr v.bits))).take R).drop r) call).1 = .none) :
    ∃ it' r', oneStep tr m b it call = ok (.none, it') ∧ Rel tr v it' r' r' :=
  oneStep_none_exhausted ⟨hv, hlen, hdata, hones⟩ tr m hrel call hcall hnone

/-! ### iterators positioned by `select_iter`, `predecessor`, `successor` -/

/-- **`select_iter(r)` / `select_zero_iter(r)`** for EVERY `r`, any valid select support: the iterator
continues with the items of ranks `r, r+1, …` to the end (nothing, when `r ≥ count`), under every call history -/
theorem select_iter_continues (b : BitVector) (v : RawVec) (s : SelSup) (hv : v.WF) (hlen : v.len < 2 ^ 64)
    (hdata : b.data = v) (hones : b.ones = v.bits.count true) (tr : Tr) (m : Mode)
    (hsup : b.supT tr = some s) (hs : s.Valid tr v) (r : Nat) (calls : List ICall) :
    ∃ it, b.selectIterT tr m r = ok it ∧
      oneRun tr m b it calls = ok (dequeRunM ((pairs (onesPos (bitsT tr v.bits))).drop r) calls) := by
  have C : Ctx b v := ⟨hv, hlen, hdata, hones⟩
  obtain ⟨h1, h2⟩ := Rel_selectIter C tr m hsup hs r
  have hfull : ∀ k, seg (pairs (onesPos (bitsT tr v.bits))) k (onesPos (bitsT tr v.bits)).length =
      (pairs (onesPos (bitsT tr v.bits))).drop k := by
    intro k
    unfold seg
    rw [List.take_of_length_le (by rw [pairs_length]; exact Nat.le_refl _)]
  by_cases hr : r < (onesPos (bitsT tr v.bits)).length
  · obtain ⟨p, _, hit, hrel⟩ := h1 hr
    exact ⟨_, hit, by rw [oneRun_sim C tr m calls hrel, hfull]⟩
  · have hit := h2 (by omega)
    refine ⟨_, hit, ?_⟩
    have e1 : (pairs (onesPos (bitsT tr v.bits))).drop (onesPos (bitsT tr v.bits)).length = [] :=
      List.drop_eq_nil_of_le (by rw [pairs_length]; exact Nat.le_refl _)
    have e2 : (pairs (onesPos (bitsT tr v.bits))).drop r = [] :=
      List.drop_eq_nil_of_le (by rw [pairs_length]; omega)
    rw [oneRun_sim C tr m calls (Rel_empty C tr), hfull, e1, e2]

/-- **`predecessor(x)`** for EVERY `x`, any valid supports: the iterator starts at the predecessor (rank `k`)
and continues with consecutive ranks to the end; it is empty when there is no predecessor -/
theorem predecessor_continues (b : BitVector) (v : RawVec) (rs : RankSup) (s : SelSup) (hv : v.WF)
    (hlen : v.len < 2 ^ 64) (hdata : b.data = v) (hones : b.ones = v.bits.count true)
    (hrank : b.rank = some rs) (hrs : rs.Valid v) (hsel : b.select = some s) (hs : s.Valid .ident v)
    (m : Mode) (x : Nat) (calls : List ICall) :
    ∃ it, b.predecessorQ m x = ok it ∧
      oneRun .ident m b it calls = ok (dequeRunM
        (match predSpec v.bits x with
         | none => []
         | some (k, _) => (pairs (onesPos v.bits)).drop k) calls) := by
  have C : Ctx b v := ⟨hv, hlen, hdata, hones⟩
  have hfull : ∀ k, seg (pairs (onesPos (bitsT .ident v.bits))) k (onesPos (bitsT .ident v.bits)).length =
      (pairs (onesPos v.bits)).drop k := by
    intro k
    unfold seg
    rw [List.take_of_length_le (by rw [pairs_length]; exact Nat.le_refl _)]
    rfl
  have h := predecessorQ_ok C hrank hrs hsel hs m x
  cases hp : predSpec v.bits x with
  | none =>
    rw [hp] at h
    refine ⟨_, h, ?_⟩
    have e1 : (pairs (onesPos v.bits)).drop (onesPos (bitsT .ident v.bits)).length = [] :=
      List.drop_eq_nil_of_le (by rw [pairs_length]; exact Nat.le_refl _)
    rw [oneRun_sim C .ident m calls (Rel_empty C .ident), hfull, e1]
  | some kp =>
    obtain ⟨k, p⟩ := kp
    rw [hp] at h
    obtain ⟨_, h2, h3⟩ := h
    refine ⟨_, h2, ?_⟩
    rw [oneRun_sim C .ident m calls h3]
    show ok (dequeRunM (seg (pairs (onesPos (bitsT .ident v.bits))) k (onesPos (bitsT .ident v.bits)).length) calls) = _
    rw [hfull]

/-- **`successor(x)`** for EVERY `x`, any valid supports -/
theorem successor_continues (b : BitVector) (v : RawVec) (rs : RankSup) (s : SelSup) (hv : v.WF)
    (hlen : v.len < 2 ^ 64) (hdata : b.data = v) (hones : b.ones = v.bits.count true)
    (hrank : b.rank = some rs) (hrs : rs.Valid v) (hsel : b.select = some s) (hs : s.Valid .ident v)
    (m : Mode) (x : Nat) (calls : List ICall) :
    ∃ it, b.successorQ m x = ok it ∧
      oneRun .ident m b it calls = ok (dequeRunM
        (match succSpec v.bits x with
         | none => []
         | some (k, _) => (pairs (onesPos v.bits)).drop k) calls) := by
  have C : Ctx b v := ⟨hv, hlen, hdata, hones⟩
  have hfull : ∀ k, seg (pairs (onesPos (bitsT .ident v.bits))) k (onesPos (bitsT .ident v.bits)).length =
      (pairs (onesPos v.bits)).drop k := by
    intro k
    unfold seg
    rw [List.take_of_length_le (by rw [pairs_length]; exact Nat.le_refl _)]
    rfl
  have h := successorQ_ok C hrank hrs hsel hs m x
  cases hp : succSpec v.bits x with
  | none =>
    rw [hp] at h
    refine ⟨_, h, ?_⟩
    have e1 : (pairs (onesPos v.bits)).drop (onesPos (bitsT .ident v.bits)).length = [] :=
      List.drop_eq_nil_of_le (by rw [pairs_length]; exact Nat.le_refl _)
    rw [oneRun_sim C .ident m calls (Rel_empty C .ident), hfull, e1]
  | some kp =>
    obtain ⟨k, p⟩ := kp
    rw [hp] at h
    obtain ⟨_, h2, h3⟩ := h
    refine ⟨_, h2, ?_⟩
    rw [oneRun_sim C .ident m calls h3]
    show ok (dequeRunM (seg (pairs (onesPos (bitsT .ident v.bits))) k (onesPos (bitsT .ident v.bits)).length) calls) = _
    rw [hfull]

/-! ### sparse (Elias–Fano) vector iterators — full alphabet

For every vector `s` that encodes the sorted list `P` in universe `n` with low width `w` (`Sparse.Encodes`;
`sparse_built_iterators` shows that is what the builder produces, sets and multisets). -/

/-- sparse `OneIter` (`one_iter()`, the values with ranks), two-ended, EVERY call history over `next`, `next_back`,
`nth k`, `nth_back k`, `len`: the answers of the reference queue over the pairs `(i, P[i])`, no fault, both modes -/
theorem sparse_one_iter_any_interleaving (s : Sparse) (n w : Nat) (P : List Nat)
    (hs : s.Encodes n w P) (m : Mode) (calls : List ICall) :
    Sp.oneRun m s (SpOneIter.full s) calls = ok (dequeRunM (pairs P) calls) :=
  Sp.oneRun_full hs m calls

/-- the same from ANY intermediate state standing for the ranks `[r, R)` (`Sparse2.IterBetween`) -/
theorem sparse_one_iter_from_any_state (s : Sparse) (n w : Nat) (P : List Nat) (hs : s.Encodes n w P) (m : Mode)
    (it : SpOneIter) (r R : Nat) (hit : Sparse2.IterBetween s w P r R it) (calls : List ICall) :
    Sp.oneRun m s it calls = ok (dequeRunM (((pairs P).take R).drop r) calls) :=
  Sp.oneRun_between hs m calls hit

/-- the reference queue partitions its content: the answers from the front, what is left, and the reversed
answers from the back make up the original sequence — no item twice, none skipped -/
theorem two_ended_partition {α} (calls : List Sparse2.End) (D : List α) :
    Sparse2.answersOf .front calls (Sparse2.runDeque calls D).1 ++ (Sparse2.runDeque calls D).2 ++
      (Sparse2.answersOf .back calls (Sparse2.runDeque calls D).1).reverse = D :=
  Sparse2.runDeque_partition calls D

/-- sparse `Iter` (`iter()`, all bits, sets AND multisets), two-ended, every call history over the full alphabet:
the answers of the reference queue over the bit sequence of the set -/
theorem sparse_iter_any_interleaving (s : Sparse) (n w : Nat) (P : List Nat) (hs : s.Encodes n w P)
    (m : Mode) (calls : List ICall) :
    ∃ it, s.iter m = ok it ∧ Sp.bitRun m s it calls = ok (dequeRunM (bitsOfSet P n) calls) :=
  Sp.bitRun_full hs m calls

/-- sparse `ZeroIter` (`zero_iter()`, set mode; forward-only in the Rust), every call history over `next`,
`nth k`, `len`: the `(rank, position)` pairs of the `n - |P|` unset positions -/
theorem sparse_zero_iter_any_history (s : Sparse) (n w : Nat) (P : List Nat) (hs : s.Encodes n w P)
    (hstrict : sortedStrict P = true) (m : Mode) (calls : List FCall) :
    ∃ z, s.zeroIter m = ok z ∧
      Sp.zeroRun m s z calls = ok (dequeRunM
        ((List.range (n - P.length)).map fun i => (i, (selectZeroSet P n i).getD 0)) (calls.map FCall.toICall)) :=
  Sp.zeroRun_full hs hstrict m calls

/-- **sparse `select_iter(r)`** for EVERY `r`: continues with the ranks `r, r+1, …` to the end -/
theorem sparse_select_iter_continues (s : Sparse) (n w : Nat) (P : List Nat) (hs : s.Encodes n w P) (m : Mode)
    (r : Nat) (calls : List ICall) :
    ∃ it, s.selectIter m r = ok it ∧ Sp.oneRun m s it calls = ok (dequeRunM ((pairs P).drop r) calls) :=
  ⟨_, selectIter_ok hs m r, Sp.oneRun_iterAt hs m calls r⟩

/-- **sparse `predecessor(x)`** for EVERY `x`: starts at the predecessor (rank `k`) and continues to the end; empty
when there is none -/
theorem sparse_predecessor_continues (s : Sparse) (n w : Nat) (P : List Nat) (hs : s.Encodes n w P) (m : Mode)
    (x : Nat) (calls : List ICall) :
    ∃ it, s.predecessor m x = ok it ∧
      Sp.oneRun m s it calls = ok (dequeRunM
        (match predSet P x with
         | none => []
         | some (k, _) => (pairs P).drop k) calls) := by
  refine ⟨_, pred_ok hs m x, ?_⟩
  cases predSet P x with
  | none => exact Sp.oneRun_empty hs m calls
  | some kv => exact Sp.oneRun_iterAt hs m calls kv.1

/-- **sparse `successor(x)`** for EVERY `x` -/
theorem sparse_successor_continues (s : Sparse) (n w : Nat) (P : List Nat) (hs : s.Encodes n w P) (m : Mode)
    (x : Nat) (calls : List ICall) :
    ∃ it, s.successor m x = ok it ∧
      Sp.oneRun m s it calls = ok (dequeRunM
        (match succSet P x with
         | none => []
         | some (k, _) => (pairs P).drop k) calls) := by
  refine ⟨_, succ_ok hs m x, ?_⟩
  cases succSet P x with
  | none => exact Sp.oneRun_empty hs m calls
  | some kv => exact Sp.oneRun_iterAt hs m calls kv.1

/-- **sparse `select_zero_iter(r)`** (set mode) for EVERY `r`: continues with the zeros of rank `r, r+1, …` -/
theorem sparse_select_zero_iter_continues (s : Sparse) (n w : Nat) (P : List Nat) (hs : s.Encodes n w P)
    (hstrict : sortedStrict P = true) (m : Mode) (r : Nat) (calls : List FCall) :
    ∃ z, s.selectZeroIter m r = ok z ∧
      Sp.zeroRun m s z calls = ok (dequeRunM
        (((List.range (n - P.length)).map fun i => (i, (selectZeroSet P n i).getD 0)).drop r)
        (calls.map FCall.toICall)) :=
  Sp.zeroRun_select hs hstrict m r calls

/-- the transcribed `len()` (`size_hint().0`) of the three sparse iterators is the model's `remaining` on every
state the simulations pass through -/
theorem sparse_len_is_remaining (s : Sparse) (n w : Nat) (P : List Nat) (m : Mode) :
    (∀ it d, Sp.OneRel s w P it d → Sp.oneLen m it = ok it.remaining) ∧
    (∀ it d, Sp.BitRel s w P n it d → Sp.bitLen m it = ok it.remaining) ∧
    (∀ z d, Sp.ZeroRel s w P n z d → Sp.zeroLen m z = ok z.remaining) :=
  ⟨fun _ _ h => Sp.oneLen_eq_remaining m h, fun _ _ h => Sp.bitLen_eq_remaining m h,
    fun _ _ h => Sp.zeroLen_eq_remaining m h⟩

/-- sparse `OneIter` run forward to exhaustion: all values with their ranks, in order -/
theorem sparse_one_iter_drain (s : Sparse) (n w : Nat) (P : List Nat) (hs : s.Encodes n w P)
    (m : Mode) :
    drain m s (P.length + 1) (SpOneIter.full s) = ok ((List.range P.length).map fun i => (i, P[i]?.getD 0)) := by
  rw [Sds.drain_full hs m]
  simp [itemsFrom]

/-- the hypotheses are what construction gives: for every strictly increasing (`multi = false`) resp.
non-decreasing (`multi = true`) list below the universe size, the built vector's iterators behave as above -/
theorem sparse_built_iterators (w n : Nat) (multi : Bool) (P : List Nat) (hw1 : 1 ≤ w) (hw : w ≤ 63)
    (hn : n < 2 ^ 64) (hm : P.length < 2 ^ 63)
    (hsorted : if multi then sortedLe P = true else sortedStrict P = true) (hbound : ∀ p ∈ P, p < n) :
    ∃ s, Sparse.ofValues w n multi P = ok s ∧
      (∀ (m : Mode) (calls : List ICall),
        Sp.oneRun m s (SpOneIter.full s) calls = ok (dequeRunM (pairs P) calls)) ∧
      (∀ (m : Mode) (calls : List ICall), ∃ it, s.iter m = ok it ∧
        Sp.bitRun m s it calls = ok (dequeRunM (bitsOfSet P n) calls)) ∧
      (∀ (m : Mode) (r : Nat) (calls : List ICall), ∃ it, s.selectIter m r = ok it ∧
        Sp.oneRun m s it calls = ok (dequeRunM ((pairs P).drop r) calls)) ∧
      (multi = false → ∀ (m : Mode) (calls : List FCall), ∃ z, s.zeroIter m = ok z ∧
        Sp.zeroRun m s z calls = ok (dequeRunM
          ((List.range (n - P.length)).map fun i => (i, (selectZeroSet P n i).getD 0))
          (calls.map FCall.toICall))) := by
  obtain ⟨s, h1, hs, _⟩ := ofValues_queries w n multi P hw1 hw hn hm hsorted hbound
  refine ⟨s, h1, fun m calls => sparse_one_iter_any_interleaving s n w P hs m calls,
    fun m calls => sparse_iter_any_interleaving s n w P hs m calls,
    fun m r calls => sparse_select_iter_continues s n w P hs m r calls, ?_⟩
  intro hmulti m calls
  subst hmulti
  exact sparse_zero_iter_any_history s n w P hs (by simpa using hsorted) m calls

/-! ### run-length vector iterators (all forward-only in the Rust)

`RLQ.Good v (maximalRuns B)`: `v` is a well-formed run-length vector whose runs are the maximal runs of the bit
sequence `B` — what `From<RLBuilder>` produces (`rl_built_iterators`). -/

/-- **all six iterators of a well-formed run-length vector**: every forward call history on `run_iter()` (`next` /
`nth k`), `iter()`, `one_iter()`, `zero_iter()`, `select_iter(r)`, `select_zero_iter(r)` (`next` / `nth k` / `len`;
EVERY `r`) answers as the reference queue over the maximal runs `(start, len)` / the bits / the
`(rank, position)` pairs of the set resp. unset bits (from rank `r` on) — no fault, both modes -/
theorem rl_iterators_any_history (m : Mode) (v : RL) (B : List Bool) (hg : RLQ.Good v (maximalRuns B))
    (e1 : v.len = B.length) (e2 : v.ones = B.count true) (e3 : v.countZeros = B.count false) :
    (∀ cs : List NCall, ∃ it, v.runIter = ok it ∧
      RLI.runRun m v it cs = ok (dequeRunM (maximalRuns B) (cs.map NCall.toICall))) ∧
    (∀ cs : List FCall, ∃ st, v.iter = ok st ∧
      RLI.bitRun m v st cs = ok (dequeRunM B (cs.map FCall.toICall))) ∧
    (∀ cs : List FCall, ∃ st, v.oneIter = ok st ∧
      RLI.oneRun m v st cs = ok (dequeRunM (pairs (onesPos B)) (cs.map FCall.toICall))) ∧
    (∀ cs : List FCall, ∃ st, v.zeroIter m = ok st ∧
      RLI.zeroRun m v st cs = ok (dequeRunM (pairs (zerosPos B)) (cs.map FCall.toICall))) ∧
    (∀ (r : Nat) (cs : List FCall), ∃ st, v.selectIter m r = ok st ∧
      RLI.oneRun m v st cs = ok (dequeRunM ((pairs (onesPos B)).drop r) (cs.map FCall.toICall))) ∧
    (∀ (r : Nat) (cs : List FCall), ∃ st, v.selectZeroIter m r = ok st ∧
      RLI.zeroRun m v st cs = ok (dequeRunM ((pairs (zerosPos B)).drop r) (cs.map FCall.toICall))) :=
  RLI.good_iterators m B hg e1 e2 e3

/-- the same for EVERY vector built by a list of accepted builder calls (`try_set` / `set_len` / single bits;
`B` = the bit sequence the calls describe); the success of the conversion and the block-count bound are hypotheses -/
theorem rl_built_iterators (m : Mode) (calls : List RL.BCall) (hc : ∀ c ∈ calls, RL.callArgsOk c)
    (b : RLBuilder) (hb : RL.runBCalls m calls {} = ok b) (v : RL) (hv : RL.ofBuilder m b = ok v)
    (hsz : v.blocks + 8 < U64) :
    let B := calls.foldl RL.specCall []
    (∀ cs : List NCall, ∃ it, v.runIter = ok it ∧
      RLI.runRun m v it cs = ok (dequeRunM (maximalRuns B) (cs.map NCall.toICall))) ∧
    (∀ cs : List FCall, ∃ st, v.iter = ok st ∧
      RLI.bitRun m v st cs = ok (dequeRunM B (cs.map FCall.toICall))) ∧
    (∀ cs : List FCall, ∃ st, v.oneIter = ok st ∧
      RLI.oneRun m v st cs = ok (dequeRunM (pairs (onesPos B)) (cs.map FCall.toICall))) ∧
    (∀ cs : List FCall, ∃ st, v.zeroIter m = ok st ∧
      RLI.zeroRun m v st cs = ok (dequeRunM (pairs (zerosPos B)) (cs.map FCall.toICall))) ∧
    (∀ (r : Nat) (cs : List FCall), ∃ st, v.selectIter m r = ok st ∧
      RLI.oneRun m v st cs = ok (dequeRunM ((pairs (onesPos B)).drop r) (cs.map FCall.toICall))) ∧
    (∀ (r : Nat) (cs : List FCall), ∃ st, v.selectZeroIter m r = ok st ∧
      RLI.zeroRun m v st cs = ok (dequeRunM ((pairs (zerosPos B)).drop r) (cs.map FCall.toICall))) :=
  RLI.build_iterators m calls hc b hb v hv hsz

/-- **run-length `predecessor(x)`** for EVERY `x` (also `x ≥ len`, which behaves like `len - 1`): the iterator
starts AT the predecessor (rank `k`; its first item is the nearest set bit at or before `x`) and continues with
consecutive ranks to the end; it is empty when there is no set bit at or before `x` — every forward call history
(`next` / `nth k` / `len`), no fault, both modes -/
theorem rl_predecessor_continues (m : Mode) (v : RL) (B : List Bool) (hg : RLQ.Good v (maximalRuns B))
    (e2 : v.ones = B.count true) (x : Nat) (cs : List FCall) :
    ∃ st, v.predecessor m x = ok st ∧
      RLI.oneRun m v st cs = ok (dequeRunM
        (match predSpec B x with
         | none => []
         | some (k, _) => (pairs (onesPos B)).drop k) (cs.map FCall.toICall)) :=
  RLPS.good_predecessor m B hg e2 x cs

/-- **run-length `successor(x)`** for EVERY `x`: starts at the successor (rank `k` = number of set bits before `x`)
and continues with consecutive ranks to the end; empty when there is no set bit at or after `x` -/
theorem rl_successor_continues (m : Mode) (v : RL) (B : List Bool) (hg : RLQ.Good v (maximalRuns B))
    (e2 : v.ones = B.count true) (x : Nat) (cs : List FCall) :
    ∃ st, v.successor m x = ok st ∧
      RLI.oneRun m v st cs = ok (dequeRunM
        (match succSpec B x with
         | none => []
         | some (k, _) => (pairs (onesPos B)).drop k) (cs.map FCall.toICall)) :=
  RLPS.good_successor m B hg e2 x cs

/-- the same for EVERY vector built by a list of accepted builder calls (hypotheses of `rl_built_iterators`) -/
theorem rl_built_pred_succ (m : Mode) (calls : List RL.BCall) (hc : ∀ c ∈ calls, RL.callArgsOk c)
    (b : RLBuilder) (hb : RL.runBCalls m calls {} = ok b) (v : RL) (hv : RL.ofBuilder m b = ok v)
    (hsz : v.blocks + 8 < U64) :
    let B := calls.foldl RL.specCall []
    (∀ (x : Nat) (cs : List FCall), ∃ st, v.predecessor m x = ok st ∧
      RLI.oneRun m v st cs = ok (dequeRunM
        (match predSpec B x with
         | none => []
         | some (k, _) => (pairs (onesPos B)).drop k) (cs.map FCall.toICall))) ∧
    (∀ (x : Nat) (cs : List FCall), ∃ st, v.successor m x = ok st ∧
      RLI.oneRun m v st cs = ok (dequeRunM
        (match succSpec B x with
         | none => []
         | some (k, _) => (pairs (onesPos B)).drop k) (cs.map FCall.toICall))) :=
  RLPS.build_pred_succ m calls hc b hb v hv hsz

/-- the transcribed `len()` of the three exact-size run-length iterators is the model's `remaining` on every
state the simulations pass through -/
theorem rl_len_is_remaining (m : Mode) (v : RL) :
    (∀ it d, RLI.OneRel m v it d → RLI.oneLen m v it = ok (RLOneIter.remaining v it)) ∧
    (∀ it d, RLI.BitRel m v it d → RLI.bitLen m v it = ok (RLIter.remaining v it)) ∧
    (∀ z d, RLI.ZeroRel m v z d → RLI.zeroLen m v z = ok (RLZeroIter.remaining v z)) :=
  ⟨fun _ _ h => RLI.oneLen_eq_remaining m h, fun _ _ h => RLI.bitLen_eq_remaining m h,
    fun _ _ h => RLI.zeroLen_eq_remaining m h⟩

/-- `FusedIterator` for the run iterator, on ANY state (no well-formedness needed): the state left by a `None`
answers `None` again and does not move -/
theorem rl_run_iter_fused (m : Mode) (v : RL) (it e : RunIter) (h : RunIter.nextQ m v it = ok (none, e)) :
    RunIter.nextQ m v e = ok (none, e) :=
  (RLI.run_fused m v it e h).1

/-! ### wavelet matrix iterators

`WMI.occ V x`: the ascending positions of the occurrences of `x` in `V`. -/

/-- **`value_iter(x)` / `select_iter(r, x)`** on `WaveletMatrix::from(V)` (forward-only, no `len` in the Rust), EVERY
starting rank `r`, value `x` and call history over `next` / `nth k`: the `(rank, index)` pairs of the occurrences
of `x` from rank `r` on -/
theorem wm_value_iter_any_history (V : List Nat) (hV : ∀ v, v ∈ V → v < 2 ^ 64) (hlen : V.length < 2 ^ 63)
    (m : Mode) (x r : Nat) (calls : List NCall) :
    WMI.valueRun m (WM.ofValues V) x r calls =
      ok (dequeRunM ((pairs (WMI.occ V x)).drop r) (calls.map NCall.toICall)) :=
  WMI.valueRun_from (WM.ofValues_ok_full V hV hlen) m x r calls

/-- the positions listed by `WMI.occ` are exactly the occurrences, in order: the `r`-th one is where `V` holds `x`
with `r` earlier occurrences -/
theorem wm_occ_spec (V : List Nat) (x r i : Nat) :
    (WMI.occ V x)[r]? = some i ↔ V[i]? = some x ∧ (V.take i).count x = r := by
  rw [← WMI.selectVal_eq_occ]; exact selectVal_eq_some V x r i

/-- **default `predecessor(i, x)` / `successor(i, x)`** of the wavelet matrix return a `ValueIter` at the rank of
the nearest occurrence; it continues with consecutive ranks to the end (EVERY `i`, `x`) -/
theorem wm_pred_succ_continue (V : List Nat) (hV : ∀ v, v ∈ V → v < 2 ^ 64) (hlen : V.length < 2 ^ 63)
    (m : Mode) (i x : Nat) (calls : List NCall) :
    (∃ r, (WM.ofValues V).predecessor m i x = ok r ∧
      r = (if (V.take (i + 1)).count x > 0 then (V.take (i + 1)).count x - 1 else V.length) ∧
      WMI.valueRun m (WM.ofValues V) x r calls =
        ok (dequeRunM ((pairs (WMI.occ V x)).drop r) (calls.map NCall.toICall))) ∧
    (∃ r, (WM.ofValues V).successor m i x = ok r ∧ r = (V.take i).count x ∧
      WMI.valueRun m (WM.ofValues V) x r calls =
        ok (dequeRunM ((pairs (WMI.occ V x)).drop r) (calls.map NCall.toICall))) := by
  have hw := WM.ofValues_ok_full V hV hlen
  exact ⟨⟨_, predecessor_ok hw m i x, rfl, WMI.valueRun_from hw m x _ calls⟩,
    ⟨_, successor_ok hw m i x, rfl, WMI.valueRun_from hw m x _ calls⟩⟩

/-- **`into_iter()`** of the wavelet matrix (forward-only, exact size), every call history over `next` / `nth k` /
`len`: the items -/
theorem wm_into_iter_any_history (V : List Nat) (hV : ∀ v, v ∈ V → v < 2 ^ 64) (hlen : V.length < 2 ^ 63)
    (m : Mode) (calls : List FCall) :
    WMI.intoRun m (WM.ofValues V) 0 calls = ok (dequeRunM V (calls.map FCall.toICall)) :=
  WMI.intoRun_full (WM.ofValues_ok_full V hV hlen) m calls

/-- **`iter()`** of the wavelet matrix (`AccessIter` over the fallible `get`), two-ended, every call history over
the full alphabet: the items, no fault -/
theorem wm_iter_any_interleaving (V : List Nat) (hV : ∀ v, v ∈ V → v < 2 ^ 64) (hlen : V.length < 2 ^ 63)
    (m : Mode) (calls : List ICall) :
    cursorRunM ((WM.ofValues V).get m) ⟨0, (WM.ofValues V).len⟩ calls = ok (dequeRunM V calls) :=
  wm_iter_run (WM.ofValues_ok_full V hV hlen) m calls

/-! ### the default `nth` / `nth_back`, spelled out -/

/-- `nth(0)` is `next()`; `nth(k+1)` is `next()` followed, unless that was `None`, by `nth(k)` -/
theorem nth_default_unfold {σ α} (next : σ → Outcome (Option α × σ)) (it : σ) (k : Nat) :
    nthDefault next 0 it = next it ∧
    nthDefault next (k + 1) it = (do
      let r ← next it
      match r.1 with
      | none => return (none, r.2)
      | some _ => nthDefault next k r.2) :=
  ⟨rfl, rfl⟩

/-! ### non-vacuity -/

example : (RawVec.ofBits [true, false, true]).WF ∧ (RawVec.ofBits [true, false, true]).len < 2 ^ 64 := by decide
/-- a legitimate mid-run state: the ranks `[1, 2)` of the vector `11` -/
example : Rel .ident (RawVec.ofBits [true, true]) ⟨(1, 1), (2, 2)⟩ 1 2 := F1_state_rel
example : dequeRunM [10, 20, 30, 40] [.next, .nthBack 1, .len, .nth 5, .next] =
    [.item 10, .item 30, .len 1, .none, .none] := by decide
example : (1 ≤ 2 ∧ 2 ≤ 63 ∧ 10 < 2 ^ 64 ∧ [1, 4, 7].length < 2 ^ 63 ∧ sortedStrict [1, 4, 7] = true ∧
    ∀ p ∈ [1, 4, 7], p < 10) := by decide
example : dequeRunM [10, 20, 30, 40] ([FCall.next, .nth 1, .len, .nth 5].map FCall.toICall) =
    [.item 10, .item 30, .len 1, .none] := by decide

/-! **The two-cursor iterators as translated from the source on this run.**  `Generated/FnsIter.lean` is produced by
`tools/rs2lean.py` from the bodies of `next`, `nth`, `size_hint`, `next_back`, `nth_back` of `ops::AccessIter` (the
iterator of `IntVector`, the mapped views and `WaveletMatrix`) and of `bit_vector::Iter` — the clamp with `cmp::min`, the
additions and subtractions in the arithmetic of the build mode, the delegation to `next` / `next_back`.  For every cursor
with `next ≤ limit < 2^64` (true initially and preserved by every step: `GenEq.cursorStep_inv`), every `n` up to
`usize::MAX` and both build modes, the code as it is NOW performs exactly the step `cursorStep` whose call histories the
simulation theorems above relate to the deque.  An unclamped `next + n`, a `saturating_sub` in place of the clamp, or a
comparison against the wrong cursor changes the generated definition and breaks the equation by name. -/
theorem two_cursor_iterators_as_translated_from_source {α} (m : Mode) (get : Nat → α) (c : Cursor) (n : Nat)
    (hc : c.next ≤ c.limit) (hl : c.limit < U64) :
    (Generated.gen_AccessIter_next m get c = ok (GenEq.stepPair get c .next) ∧
     Generated.gen_AccessIter_nth m get c n = ok (GenEq.stepPair get c (.nth n)) ∧
     Generated.gen_AccessIter_next_back m get c = ok (GenEq.stepPair get c .nextBack) ∧
     Generated.gen_AccessIter_nth_back m get c n = ok (GenEq.stepPair get c (.nthBack n)) ∧
     Generated.gen_AccessIter_size_hint m get c = ok (c.limit - c.next, some (c.limit - c.next))) ∧
    (Generated.gen_BitIter_next m get c = ok (GenEq.stepPair get c .next) ∧
     Generated.gen_BitIter_nth m get c n = ok (GenEq.stepPair get c (.nth n)) ∧
     Generated.gen_BitIter_next_back m get c = ok (GenEq.stepPair get c .nextBack) ∧
     Generated.gen_BitIter_nth_back m get c n = ok (GenEq.stepPair get c (.nthBack n)) ∧
     Generated.gen_BitIter_size_hint m get c = ok (c.limit - c.next, some (c.limit - c.next))) :=
  ⟨⟨GenEq.access_next_eq m get c hl, GenEq.access_nth_eq m get c n hc hl, GenEq.access_next_back_eq m get c,
    GenEq.access_nth_back_eq m get c n hc, GenEq.access_size_hint_eq m get c hc⟩,
   ⟨GenEq.bit_next_eq m get c hl, GenEq.bit_nth_eq m get c n hc hl, GenEq.bit_next_back_eq m get c,
    GenEq.bit_nth_back_eq m get c n hc, GenEq.bit_size_hint_eq m get c hc⟩⟩

/-- the translated `nth(usize::MAX)` after one `next()` exhausts the iterator and returns `None` in the checked build
(the input of several seeded changes: an unclamped `next + n` panics here) -/
example : Generated.gen_AccessIter_nth .checked (fun i => i) ⟨1, 7⟩ (U64 - 1) = ok (none, ⟨7, 7⟩) := by decide

/-! **`OneIter<T>` as translated from the source on this run — loops included** (`Generated/FnsLoop.lean`): `next` (forward
scan for a non-zero word), `nth` (the repaired guard `n >= limit.0 - next.0` of finding F1, then the counted scan),
`next_back` (backward scan, `leading_zeros`), `size_hint`.  For every cursor state, every `n`, both transformations and
both build modes the code as it is NOW is `nextQ` / `nthQ` / `nextBackQ` — the step functions of the simulation theorems
above.  Hypotheses: the vector has fewer than 2^64 words; for `nth`, the rank limit is a `usize`. -/
theorem one_iterators_as_translated_from_source (m : Mode) (tr : Tr) (b : BitVector) (it : OneIterSt) (n : Nat)
    (hv : b.data.data.size < U64) (hl : it.limit.1 ≤ U64) :
    Generated.gen_OneIter_next m tr b.data it = OneIterSt.nextQ tr m b it ∧
    Generated.gen_OneIter_nth m tr b.data it n = OneIterSt.nthQ tr m b it n ∧
    Generated.gen_OneIter_next_back m tr b.data it = OneIterSt.nextBackQ tr m b it ∧
    (it.next.1 ≤ it.limit.1 → Generated.gen_OneIter_size_hint m tr b.data it = ok (it.remaining, some it.remaining)) :=
  ⟨GenEq.one_next_eq m tr b it hv, GenEq.one_nth_eq m tr b it n hv hl, GenEq.one_next_back_eq m tr b it,
   fun h => GenEq.one_size_hint_eq m tr b it h⟩

/-- the translated `one_iter(); next(); nth(usize::MAX)` (finding F1) returns `None` and exhausts the iterator in the
checked build, without reading a word -/
example : Generated.gen_OneIter_nth .checked .ident (RawVec.ofBits [true, false, true]) ⟨(1, 1), (2, 3)⟩ (U64 - 1)
    = ok (none, ⟨(2, 3), (2, 3)⟩) := by decide +kernel

/-! **The sparse vector's three iterators as translated from the source on this run** (`Generated/FnsSpIter.lean`,
`FnsSpZero.lean`, `FnsSpAll.lean`): `sparse_vector.rs`'s `OneIter` (`next` with the `while !high[next.high]` scan and the
`combine` call, `next_back` with the backwards scan, `size_hint`), `ZeroIter` (`next_run` with its `loop` over the
embedded one-iterator, `next`, `size_hint`), `Iter` (`next` with the duplicate-skipping `while let`, `next_back`,
`size_hint`) and the constructors `one_iter`, `select_iter`, `zero_iter`, `select_zero_iter`, `iter`.  Each equals the
model iterator the theorems above quantify over, on every vector whose `high` word count and `low` length fit a `usize`
(every vector the code can hold); a change to a scan condition, to the order of `next`/`limit` updates or to a
`size_hint` subtraction breaks the equation. -/
theorem sparse_iterators_as_translated_from_source (m : Mode) (s : Sparse)
    (hH : s.high.data.data.size * 64 < U64) (hL : s.low.len < U64) :
    (Generated.gen_SparseVector_one_iter m s = ok (SpOneIter.full s) ∧
     (∀ r, Generated.gen_SparseVector_select_iter m s r = s.selectIter m r) ∧
     (∀ it, Generated.gen_SparseOneIter_next m s it = SpOneIter.nextQ m s it) ∧
     (∀ it, Generated.gen_SparseOneIter_next_back m s it = SpOneIter.nextBackQ m s it) ∧
     (∀ it : SpOneIter, it.next.low ≤ it.limit.low →
        Generated.gen_SparseOneIter_size_hint m s it = ok (it.remaining, some it.remaining))) ∧
    (Generated.gen_SparseVector_zero_iter m s = s.zeroIter m ∧
     (∀ r, Generated.gen_SparseVector_select_zero_iter m s r = s.selectZeroIter m r) ∧
     (∀ z, Generated.gen_SparseZeroIter_next_run m s z = SpZeroIter.nextRun m s (s.countOnes + 2) z) ∧
     (∀ z : SpZeroIter, z.limit.1 < U64 → z.onePos < U64 → z.limit.2 < U64 →
        Generated.gen_SparseZeroIter_next m s z = SpZeroIter.nextQ m s z) ∧
     (∀ z : SpZeroIter, z.next.1 ≤ z.limit.1 →
        Generated.gen_SparseZeroIter_size_hint m s z = ok (z.remaining, some z.remaining))) ∧
    (Generated.gen_SparseVector_iter m s = s.iter m ∧
     (∀ it : SpIter, it.limit < U64 → Generated.gen_SparseIter_next m s it = SpIter.nextQ m s it) ∧
     (∀ it, Generated.gen_SparseIter_next_back m s it = SpIter.nextBackQ m s it) ∧
     (∀ it : SpIter, it.next ≤ it.limit →
        Generated.gen_SparseIter_size_hint m s it = ok (it.remaining, some it.remaining))) :=
  ⟨⟨GenEq.sp_one_iter_eq m s, GenEq.sp_select_iter_eq m s, fun it => GenEq.sp_iter_next_eq m s it hH hL,
    GenEq.sp_iter_next_back_eq m s, fun it h => GenEq.sp_iter_size_hint_eq m s it h⟩,
   ⟨GenEq.sp_zero_iter_eq m s hH hL, fun r => GenEq.sp_select_zero_iter_eq m s r hH hL,
    fun z => GenEq.sp_zero_next_run_eq m s z hH hL, fun z h1 h2 h3 => GenEq.sp_zero_next_eq m s z hH hL h1 h2 h3,
    fun z h => GenEq.sp_zero_size_hint_eq m s z h⟩,
   ⟨GenEq.sp_all_iter_eq m s hH hL, fun it h => GenEq.sp_all_next_eq m s it hH hL h, GenEq.sp_all_next_back_eq m s,
    fun it h => GenEq.sp_all_size_hint_eq m s it h⟩⟩

/-! **The run-length vector's three iterators as translated from the source on this run** (`Generated/FnsRL.lean`):
`OneIter::next` (advance the run iterator while the current run is exhausted, then `(rank, offset_for(rank))`, `rank += 1`),
`ZeroIter::next` (the short-circuit `!got_none && …` walk over gaps), `Iter::next` (bit by bit, with the cached run), and the
three `size_hint`s.  Each equals the model iterator under the representation bounds (`RLBounds`) and the iterator's own
invariants: the rank / position about to be incremented fits a `usize`, a cached run ends below 2^64 (observation O14:
on crafted data with a run ending AT 2^64 the release build wraps `start + len` to 0 where the `Nat` model does not —
`GenEq.rl_iter_next_ne`), and for `size_hint` the invariant that makes the `usize` subtraction exact. -/
theorem rl_iterators_as_translated_from_source {m : Mode} {v : RL} (hb : GenEq.RLBounds m v) :
    (∀ it : RLOneIter, it.rank + 1 < U64 → Generated.gen_RLOneIter_next m v it = it.nextQ m v) ∧
    (∀ it : RLOneIter, it.rank ≤ v.ones →
        Generated.gen_RLOneIter_size_hint m v it = ok (it.remaining v, some (it.remaining v))) ∧
    (v.len < U64 → v.ones ≤ v.len → ∀ z : RLZeroIter,
        (z.gotNone = true → m = .checked → z.iter.rank ≤ z.iter.offsetBits) → z.pos.2 + 1 < U64 →
        z.iter.offsetBits + 1 < U64 → Generated.gen_RLZeroIter_next m v z = z.nextQ m v) ∧
    (v.ones ≤ v.len → ∀ z : RLZeroIter, z.pos.1 ≤ v.countZeros →
        Generated.gen_RLZeroIter_size_hint m v z = ok (z.remaining v, some (z.remaining v))) ∧
    (∀ it : RLIter, (∀ s l, it.run = some (s, l) → s + l < U64) → it.pos + 1 < U64 →
        Generated.gen_RLIter_next m v it = it.nextQ m v) ∧
    (∀ it : RLIter, it.pos ≤ v.len →
        Generated.gen_RLIter_size_hint m v it = ok (it.remaining v, some (it.remaining v))) :=
  ⟨fun it h => GenEq.rl_one_next_eq hb it h, fun it h => GenEq.rl_one_size_hint_eq m v it h,
   fun hlen hol z hgn hp hi => GenEq.rl_zero_next_eq hb z hlen hol hgn hp hi,
   fun hol z h => GenEq.rl_zero_size_hint_eq m v z hol h,
   fun it hrun hp => GenEq.rl_iter_next_eq hb it hrun hp, fun it h => GenEq.rl_iter_size_hint_eq m v it h⟩

/-! **A consumed `OneIter<T>` IS the list of its items** (`Proofs/IterBridge.lean`).  The translated constructors that
consume an iterator (`SelectSupport::new`, the `copy_bit_vec`s) take it as the list of its remaining items, `next()` =
head / tail and `nth(k)` = drop `k`.  This theorem discharges that step for the plain bitvector's one- and zero-iterators:
started from the translated `one_iter()` / `zero_iter()`, ANY sequence of `next` / `nth k` calls run with the TRANSLATED
`OneIter::next` / `OneIter::nth` yields exactly what the same calls yield on the list
`enumerate (positionsT tr data)` of (rank, position) pairs, on every well-formed vector with a correct cached count. -/
theorem consumed_one_iter_is_its_list {b : BitVector} (g : GenEq.Good b) (m : Mode) (calls : List GenEq.FCall) :
    (do let it ← Generated.gen_BitVector_one_iter m b
        let r ← GenEq.iterGenRun m .ident b.data it calls
        return r.1) = ok (GenEq.listRun (GenEq.enumerate (positionsT .ident b.data)) calls).1 ∧
    (do let it ← Generated.gen_BitVector_zero_iter m b
        let r ← GenEq.iterGenRun m .compl b.data it calls
        return r.1) = ok (GenEq.listRun (GenEq.enumerate (positionsT .compl b.data)) calls).1 :=
  ⟨GenEq.one_iter_is_its_list g m calls, GenEq.zero_iter_is_its_list g m calls⟩

/-- **the iterator positioned by `RLVector::predecessor`, as translated from the source on this run** (lambda-lifted
closure, state-passing `advance_if`: see Props/C03 `rl_predecessor_as_translated_from_source`): whenever the model positions
an iterator, the code as it is NOW positions the same one — so the continuation theorems above apply to it -/
theorem rl_predecessor_iterator_as_translated_from_source {m : Mode} {v : RL} (hb : GenEq.RLBounds m v) (value : Nat)
    (hlen : v.len < U64) (hr : min value (v.len - 1) < v.len → GenEq.RangeOK v.rankIndex (min value (v.len - 1)))
    (r : RLOneIter) (h : RL.predecessor m v value = ok r) : Generated.gen_RLVector_predecessor m v value = ok r :=
  GenEq.rl_predecessor_eq_of_ok hb value hlen hr r h

end Sds.C10
