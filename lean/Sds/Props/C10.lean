/-
C10 — Every iterator yields the reference sequence under any interleaving of calls.

Property theorems only (helper lemmas live in Proofs/).

The reference.  `dequeRunM xs calls` (Model/Iter.lean) runs a call list over a plain double-ended queue holding
the reference sequence `xs`: `next` pops the front, `next_back` pops the back, `nth k` drops `k` items then
pops the front, `nth_back k` drops `k` items from the back then pops the back, `len` reports the number of
items left; an empty queue answers `None`.  Saying that an iterator, run over the same call list, produces the
SAME LIST OF ANSWERS is therefore the whole of C10 for that iterator: the right items with the right ranks,
exact `len` at every step, `None` for ever once exhausted, and — because a queue hands out every item at most
once and never skips one except as `nth` / `nth_back` say — a partition of the sequence between the two ends.

Quantifiers.  Every finite call list `calls : List ICall` over the alphabet `next`, `next_back`, `nth k`,
`nth_back k` (EVERY `k : Nat`, so every `usize`), `len`; every well-formed raw vector of `usize` length resp.
every integer vector; every starting point (`select_iter(r)`, `predecessor(x)`, `successor(x)` for every `r`,
`x`); both arithmetic modes `m : Mode`; set bits (`tr = .ident`) and unset bits (`tr = .compl`).
(`clone` copies the state, which is a value here, so a cloned iterator is covered by the same theorems.)

Machines.  `cursorRun get ⟨0, n⟩` is the two-cursor iterator (`ops::AccessIter`, `bit_vector::Iter`) of
Model/Iter.lean.  `IterProofs.oneRun tr m b it` runs a call list through `OneIter<T>`: `OneIterSt.nextQ`,
`nextBackQ`, `nthQ` of Model/BitVector.lean, `nth_back` by its standard default (`k` times `next_back`, then one
more), `len = limit.0 - next.0`; a fault (panic, out-of-bounds) anywhere makes the whole run a fault, so
`oneRun … = ok …` also says that no call of the history faults.  `IterProofs.pairs P` is the list of
`(rank, position)` pairs (`reference_pairs`).

PARTIAL.  The sparse-vector iterators are proven over the alphabet `next` / `next_back` only (theorems named
`…_partial`): `nth` / `nth_back` of those iterators are the standard defaults (repeated `next` / `next_back`) and
are not modelled as separate calls, their `len` is not in the alphabet, and the sparse `ZeroIter` is proven for
a forward run to exhaustion only.  The run-length vector's iterators and the wavelet matrix's `ValueIter` /
item iterators are not treated in this file: they are covered in their own property files resp. by the
correspondence tests only.
-/
import Sds.Proofs.Iter
import Sds.Proofs.IntVec
import Sds.Proofs.Sparse
import Sds.Proofs.Sparse2
import Sds.Proofs.Glue

namespace Sds.C10
open Sds Outcome IterProofs

/-! ### two-cursor iterators: `AccessIter`, `bit_vector::Iter`, `IntoIter` -/

/-- **generic two-cursor iterator**: over any parent whose item `i` is `get i`, every call history gives the
answers of the reference queue -/
theorem two_cursor_any_interleaving {α} (xs : List α) (get : Nat → α)
    (hx : ∀ i, i < xs.length → xs[i]? = some (get i)) (calls : List ICall) :
    cursorRun get ⟨0, xs.length⟩ calls = dequeRunM xs calls :=
  cursorRun_eq xs get hx calls

/-- `bit_vector::Iter` (all bits of a bitvector over the raw vector `v`) -/
theorem bitvector_iter_any_interleaving (v : RawVec) (calls : List ICall) :
    cursorRun (fun i => v.bit i) ⟨0, v.len⟩ calls = dequeRunM v.bits calls := by
  have := cursorRun_eq v.bits (fun i => v.bit i)
    (fun i hi => RawVec.bit_eq_getElem? v i (by rw [RawVec.bits_length] at hi; exact hi)) calls
  rw [RawVec.bits_length] at this
  exact this

/-- `AccessIter` over an integer vector (vector items) -/
theorem intvec_iter_any_interleaving (v : IntVec) (calls : List ICall) :
    cursorRun (fun i => (v.getRaw i).toNat) ⟨0, v.len⟩ calls = dequeRunM v.items calls := by
  have := cursorRun_eq v.items (fun i => (v.getRaw i).toNat)
    (fun i hi => by
      rw [IntVec.items_length] at hi
      rw [IntVec.items_getElem?, if_pos hi]) calls
  rw [IntVec.items_length] at this
  exact this

/-- exact size at every step: in any state standing for the segment `[next, limit)` of the reference, `len`
reports exactly the number of reference items left -/
theorem two_cursor_len_exact {α} (xs : List α) (get : Nat → α) (c : Cursor) (d : List α)
    (hR : c.next ≤ c.limit ∧ c.limit ≤ xs.length ∧ d = (xs.take c.limit).drop c.next) :
    cursorStep get c .len = (.len d.length, c) :=
  cursor_len_exact xs get c d ((R_def xs c d).mpr hR)

/-- `None` is absorbing: once an item call has answered `None`, every later call (any kind, any argument)
answers `None` resp. length 0 -/
theorem two_cursor_none_absorbing {α} (get : Nat → α) (c : Cursor) (call : ICall) (hcall : call ≠ .len)
    (h : (cursorStep get c call).1 = .none) (calls : List ICall) :
    ∀ o, o ∈ cursorRun get (cursorStep get c call).2 calls → IsEmptyOut o :=
  none_absorbing get c call hcall h calls

/-- owning `IntoIter` (forward index cursor): each `next` answers as the queue of the remaining items does -/
theorem into_iter_step {α} (xs : List α) (get : Nat → α) (hx : ∀ i, i < xs.length → xs[i]? = some (get i))
    (i : Nat) (hi : i ≤ xs.length) :
    (dequeStep (xs.drop i) .next).1 = (intoIterStep get xs.length i).1 ∧
      (dequeStep (xs.drop i) .next).2 = xs.drop (intoIterStep get xs.length i).2 ∧
      (intoIterStep get xs.length i).2 ≤ xs.length :=
  intoIterStep_sim xs get hx i hi

/-! ### `OneIter<T>`: set bits and unset bits of a plain bitvector -/

/-- the reference sequence of `one_iter` / `zero_iter`: position list zipped with ranks `0, 1, 2, …` -/
theorem reference_pairs (P : List Nat) : pairs P = (List.range P.length).zip P := pairs_eq_zip P

/-- **`one_iter()` / `zero_iter()`**, any bitvector `b` over the well-formed raw vector `v` with a correct
cached count: every call history yields the `(rank, position)` pairs of the set (unset) bits exactly as the
reference queue does, with no fault, in both modes -/
theorem one_iter_any_interleaving (b : BitVector) (v : RawVec) (hv : v.WF) (hlen : v.len < 2 ^ 64)
    (hdata : b.data = v) (hones : b.ones = v.bits.count true) (tr : Tr) (m : Mode) (calls : List ICall) :
    oneRun tr m b (OneIterSt.full tr b) calls = ok (dequeRunM (pairs (onesPos (bitsT tr v.bits))) calls) :=
  oneRun_full ⟨hv, hlen, hdata, hones⟩ tr m calls

/-- in particular for `BitVector::from(raw)`, with or without supports (the iterator uses none) -/
theorem one_iter_from_raw (v : RawVec) (hv : v.WF) (hlen : v.len < 2 ^ 64) (tr : Tr) (m : Mode)
    (calls : List ICall) :
    oneRun tr m (BitVector.ofRaw v) (OneIterSt.full tr (BitVector.ofRaw v)) calls =
      ok (dequeRunM (pairs (onesPos (bitsT tr v.bits))) calls) ∧
    oneRun tr m (BitVector.ofRaw v).enableAll (OneIterSt.full tr (BitVector.ofRaw v).enableAll) calls =
      ok (dequeRunM (pairs (onesPos (bitsT tr v.bits))) calls) :=
  ⟨oneRun_full_ofRaw hv hlen tr m calls, oneRun_full (ctx_enableAll hv hlen) tr m calls⟩

/-- the same from ANY intermediate state: an iterator standing for the ranks `[r, R)` (`IterProofs.Rel`: the
rank components are `r`, `R` and each position cursor has exactly that many set bits before it) continues with
exactly the items `r, r+1, …, R-1` -/
theorem one_iter_from_any_state (b : BitVector) (v : RawVec) (hv : v.WF) (hlen : v.len < 2 ^ 64)
    (hdata : b.data = v) (hones : b.ones = v.bits.count true) (tr : Tr) (m : Mode) (it : OneIterSt)
    (r R : Nat) (hrel : Rel tr v it r R) (calls : List ICall) :
    oneRun tr m b it calls =
      ok (dequeRunM (((pairs (onesPos (bitsT tr v.bits))).take R).drop r) calls) :=
  oneRun_sim ⟨hv, hlen, hdata, hones⟩ tr m calls hrel

/-- exact size: `len()` of such a state is `R - r` -/
theorem one_iter_len_exact (tr : Tr) (v : RawVec) (it : OneIterSt) (r R : Nat) (hrel : Rel tr v it r R) :
    it.remaining = R - r :=
  IterProofs.remaining_eq hrel

/-- every single call, in detail: `next` → `(r, P[r])`, `next_back` → `(R-1, P[R-1])`, `nth n` → `(r+n, P[r+n])`,
`nth_back k` → `(R-k-1, P[R-k-1])` inside the range, and `None` outside it — for EVERY `n`, `k` -/
theorem one_iter_calls (b : BitVector) (v : RawVec) (hv : v.WF) (hlen : v.len < 2 ^ 64)
    (hdata : b.data = v) (hones : b.ones = v.bits.count true) (tr : Tr) (m : Mode) (it : OneIterSt)
    (r R : Nat) (hrel : Rel tr v it r R) :
    (r < R → ∃ p, (onesPos (bitsT tr v.bits))[r]? = some p ∧
      OneIterSt.nextQ tr m b it = ok (some (r, p), { it with next := (r + 1, p + 1) })) ∧
    (R ≤ r → OneIterSt.nextQ tr m b it = ok (none, it)) ∧
    (r < R → ∃ p, (onesPos (bitsT tr v.bits))[R - 1]? = some p ∧
      OneIterSt.nextBackQ tr m b it = ok (some (R - 1, p), { it with limit := (R - 1, p) })) ∧
    (R ≤ r → OneIterSt.nextBackQ tr m b it = ok (none, it)) ∧
    (∀ n, r + n < R → ∃ p, (onesPos (bitsT tr v.bits))[r + n]? = some p ∧
      OneIterSt.nthQ tr m b it n = ok (some (r + n, p), { it with next := (r + n + 1, p + 1) })) ∧
    (∀ n, R ≤ r + n → OneIterSt.nthQ tr m b it n = ok (none, { it with next := it.limit })) ∧
    (∀ k, r + k < R → ∃ p, (onesPos (bitsT tr v.bits))[R - k - 1]? = some p ∧
      nthBackQ tr m b k it = ok (some (R - k - 1, p), { it with limit := (R - k - 1, p) })) ∧
    (∀ k, R ≤ r + k → ∃ it', nthBackQ tr m b k it = ok (none, it') ∧ Rel tr v it' r r) := by
  have C : Ctx b v := ⟨hv, hlen, hdata, hones⟩
  have e1 := hrel.next_rank
  have e2 := hrel.limit_rank
  refine ⟨?_, ?_, ?_, ?_, ?_, ?_, ?_, ?_⟩
  · intro h; obtain ⟨p, h1, h2, _⟩ := nextQ_some C tr m hrel h; exact ⟨p, h1, h2⟩
  · intro h; exact IterProofs.nextQ_none tr m b it (by omega)
  · intro h; obtain ⟨p, h1, h2, _⟩ := nextBackQ_some C tr m hrel h; exact ⟨p, h1, h2⟩
  · intro h; exact IterProofs.nextBackQ_none tr m b it (by omega)
  · intro n h; obtain ⟨p, h1, h2, _⟩ := nthQ_some C tr m hrel n h; exact ⟨p, h1, h2⟩
  · intro n h; exact (nthQ_none (b := b) tr m hrel n h).1
  · intro k h; obtain ⟨p, h1, h2, _⟩ := nthBackQ_some C tr m k hrel h; exact ⟨p, h1, h2⟩
  · intro k h; exact nthBackQ_none C tr m k hrel h

/-- **keeps returning `None` once exhausted**: with no ranks left (the state after any call that answered
`None`, see `one_iter_none_exhausts`) every further call history answers only `None` / length 0, without fault -/
theorem one_iter_none_absorbing (b : BitVector) (v : RawVec) (hv : v.WF) (hlen : v.len < 2 ^ 64)
    (hdata : b.data = v) (hones : b.ones = v.bits.count true) (tr : Tr) (m : Mode) (calls : List ICall)
    (it : OneIterSt) (r R : Nat) (hrel : Rel tr v it r R) (h : R ≤ r) :
    ∃ os, oneRun tr m b it calls = ok os ∧ ∀ o, o ∈ os → IsEmptyOut o :=
  oneRun_exhausted ⟨hv, hlen, hdata, hones⟩ tr m calls hrel h

/-- an item call that answers `None` leaves the iterator exhausted -/
theorem one_iter_none_exhausts (b : BitVector) (v : RawVec) (hv : v.WF) (hlen : v.len < 2 ^ 64)
    (hdata : b.data = v) (hones : b.ones = v.bits.count true) (tr : Tr) (m : Mode) (it : OneIterSt)
    (r R : Nat) (hrel : Rel tr v it r R) (call : ICall) (hcall : call ≠ .len)
    (hnone : (dequeStep (((pairs (onesPos (bitsT tr v.bits))).take R).drop r) call).1 = .none) :
    ∃ it' r', oneStep tr m b it call = ok (.none, it') ∧ Rel tr v it' r' r' :=
  oneStep_none_exhausted ⟨hv, hlen, hdata, hones⟩ tr m hrel call hcall hnone

/-! ### iterators positioned by `select_iter`, `predecessor`, `successor` -/

/-- **`select_iter(r)` / `select_zero_iter(r)`** for EVERY `r`, any valid select support: the iterator
continues with the items of ranks `r, r+1, …` to the end (nothing, when `r ≥ count`), under every call history -/
theorem select_iter_continues (b : BitVector) (v : RawVec) (s : SelSup) (hv : v.WF) (hlen : v.len < 2 ^ 64)
    (hdata : b.data = v) (hones : b.ones = v.bits.count true) (tr : Tr) (m : Mode)
    (hsup : b.supT tr = some s) (hs : s.Valid tr v) (r : Nat) (calls : List ICall) :
    ∃ it, b.selectIterT tr m r = ok it ∧
      oneRun tr m b it calls = ok (dequeRunM ((pairs (onesPos (bitsT tr v.bits))).drop r) calls) := by
  have C : Ctx b v := ⟨hv, hlen, hdata, hones⟩
  obtain ⟨h1, h2⟩ := Rel_selectIter C tr m hsup hs r
  have hfull : ∀ k, seg (pairs (onesPos (bitsT tr v.bits))) k (onesPos (bitsT tr v.bits)).length =
      (pairs (onesPos (bitsT tr v.bits))).drop k := by
    intro k
    unfold seg
    rw [List.take_of_length_le (by rw [pairs_length]; exact Nat.le_refl _)]
  by_cases hr : r < (onesPos (bitsT tr v.bits)).length
  · obtain ⟨p, _, hit, hrel⟩ := h1 hr
    exact ⟨_, hit, by rw [oneRun_sim C tr m calls hrel, hfull]⟩
  · have hit := h2 (by omega)
    refine ⟨_, hit, ?_⟩
    have e1 : (pairs (onesPos (bitsT tr v.bits))).drop (onesPos (bitsT tr v.bits)).length = [] :=
      List.drop_eq_nil_of_le (by rw [pairs_length]; exact Nat.le_refl _)
    have e2 : (pairs (onesPos (bitsT tr v.bits))).drop r = [] :=
      List.drop_eq_nil_of_le (by rw [pairs_length]; omega)
    rw [oneRun_sim C tr m calls (Rel_empty C tr), hfull, e1, e2]

/-- **`predecessor(x)`** for EVERY `x`, any valid supports: the iterator starts at the predecessor (rank `k`)
and continues with consecutive ranks to the end; it is empty when there is no predecessor -/
theorem predecessor_continues (b : BitVector) (v : RawVec) (rs : RankSup) (s : SelSup) (hv : v.WF)
    (hlen : v.len < 2 ^ 64) (hdata : b.data = v) (hones : b.ones = v.bits.count true)
    (hrank : b.rank = some rs) (hrs : rs.Valid v) (hsel : b.select = some s) (hs : s.Valid .ident v)
    (m : Mode) (x : Nat) (calls : List ICall) :
    ∃ it, b.predecessorQ m x = ok it ∧
      oneRun .ident m b it calls = ok (dequeRunM
        (match predSpec v.bits x with
         | none => []
         | some (k, _) => (pairs (onesPos v.bits)).drop k) calls) := by
  have C : Ctx b v := ⟨hv, hlen, hdata, hones⟩
  have hfull : ∀ k, seg (pairs (onesPos (bitsT .ident v.bits))) k (onesPos (bitsT .ident v.bits)).length =
      (pairs (onesPos v.bits)).drop k := by
    intro k
    unfold seg
    rw [List.take_of_length_le (by rw [pairs_length]; exact Nat.le_refl _)]
    rfl
  have h := predecessorQ_ok C hrank hrs hsel hs m x
  cases hp : predSpec v.bits x with
  | none =>
    rw [hp] at h
    refine ⟨_, h, ?_⟩
    have e1 : (pairs (onesPos v.bits)).drop (onesPos (bitsT .ident v.bits)).length = [] :=
      List.drop_eq_nil_of_le (by rw [pairs_length]; exact Nat.le_refl _)
    rw [oneRun_sim C .ident m calls (Rel_empty C .ident), hfull, e1]
  | some kp =>
    obtain ⟨k, p⟩ := kp
    rw [hp] at h
    obtain ⟨_, h2, h3⟩ := h
    refine ⟨_, h2, ?_⟩
    rw [oneRun_sim C .ident m calls h3]
    show ok (dequeRunM (seg (pairs (onesPos (bitsT .ident v.bits))) k (onesPos (bitsT .ident v.bits)).length) calls) = _
    rw [hfull]

/-- **`successor(x)`** for EVERY `x`, any valid supports -/
theorem successor_continues (b : BitVector) (v : RawVec) (rs : RankSup) (s : SelSup) (hv : v.WF)
    (hlen : v.len < 2 ^ 64) (hdata : b.data = v) (hones : b.ones = v.bits.count true)
    (hrank : b.rank = some rs) (hrs : rs.Valid v) (hsel : b.select = some s) (hs : s.Valid .ident v)
    (m : Mode) (x : Nat) (calls : List ICall) :
    ∃ it, b.successorQ m x = ok it ∧
      oneRun .ident m b it calls = ok (dequeRunM
        (match succSpec v.bits x with
         | none => []
         | some (k, _) => (pairs (onesPos v.bits)).drop k) calls) := by
  have C : Ctx b v := ⟨hv, hlen, hdata, hones⟩
  have hfull : ∀ k, seg (pairs (onesPos (bitsT .ident v.bits))) k (onesPos (bitsT .ident v.bits)).length =
      (pairs (onesPos v.bits)).drop k := by
    intro k
    unfold seg
    rw [List.take_of_length_le (by rw [pairs_length]; exact Nat.le_refl _)]
    rfl
  have h := successorQ_ok C hrank hrs hsel hs m x
  cases hp : succSpec v.bits x with
  | none =>
    rw [hp] at h
    refine ⟨_, h, ?_⟩
    have e1 : (pairs (onesPos v.bits)).drop (onesPos (bitsT .ident v.bits)).length = [] :=
      List.drop_eq_nil_of_le (by rw [pairs_length]; exact Nat.le_refl _)
    rw [oneRun_sim C .ident m calls (Rel_empty C .ident), hfull, e1]
  | some kp =>
    obtain ⟨k, p⟩ := kp
    rw [hp] at h
    obtain ⟨_, h2, h3⟩ := h
    refine ⟨_, h2, ?_⟩
    rw [oneRun_sim C .ident m calls h3]
    show ok (dequeRunM (seg (pairs (onesPos (bitsT .ident v.bits))) k (onesPos (bitsT .ident v.bits)).length) calls) = _
    rw [hfull]

/-! ### sparse (Elias–Fano) vector iterators — alphabet `next` / `next_back`

Full intended statement: as for `OneIter<T>` above, over the alphabet `next`, `next_back`, `nth k`, `nth_back k`,
`len`.  Proven: every interleaving of `next` / `next_back` (`Sparse2.End`), for every vector `s` that encodes
the sorted list `P` in universe `n` with low width `w` (`Sparse.Encodes`; `sparse_built_iterators_partial` shows
that is what the builder produces, sets and multisets).  Missing: `nth` / `nth_back` / `len` as calls, and for
`ZeroIter` anything but a forward run to exhaustion. -/

/-- sparse `OneIter` (`iter` over the values with ranks), two-ended: answers of the reference queue over the
pairs `(i, P[i])`, no fault, both modes -/
theorem sparse_one_iter_any_interleaving_partial (s : Sparse) (n w : Nat) (P : List Nat)
    (hs : s.Encodes n w P) (m : Mode) (calls : List Sparse2.End) :
    ∃ it', Sparse2.runCalls m s calls (SpOneIter.full s) =
      ok ((Sparse2.runDeque calls ((List.range P.length).map fun i => (i, P[i]?.getD 0))).1, it') := by
  obtain ⟨it', _, _, h, _⟩ := Sparse2.runCalls_full hs m calls
  refine ⟨it', ?_⟩
  rw [h]
  simp [itemsFrom]

/-- the reference queue partitions its content: the answers from the front, what is left, and the reversed
answers from the back make up the original sequence — no item twice, none skipped -/
theorem two_ended_partition {α} (calls : List Sparse2.End) (D : List α) :
    Sparse2.answersOf .front calls (Sparse2.runDeque calls D).1 ++ (Sparse2.runDeque calls D).2 ++
      (Sparse2.answersOf .back calls (Sparse2.runDeque calls D).1).reverse = D :=
  Sparse2.runDeque_partition calls D

/-- sparse `Iter` (all bits, sets AND multisets), two-ended: answers of the reference queue over the bit
sequence of the set -/
theorem sparse_iter_any_interleaving_partial (s : Sparse) (n w : Nat) (P : List Nat) (hs : s.Encodes n w P)
    (m : Mode) (calls : List Sparse2.End) :
    ∃ it it', s.iter m = ok it ∧
      Sparse2.runSpCalls m s calls it = ok ((Sparse2.runDeque calls (bitsOfSet P n)).1, it') :=
  Sparse2.iter_runSpCalls hs m calls

/-- sparse `ZeroIter` (set mode), run forward to exhaustion: exactly the `(rank, position)` pairs of the
`n - |P|` unset positions -/
theorem sparse_zero_iter_partial (s : Sparse) (n w : Nat) (P : List Nat) (hs : s.Encodes n w P)
    (hstrict : sortedStrict P = true) (m : Mode) :
    ∃ z, s.zeroIter m = ok z ∧
      Sparse2.drainZ m s (n - P.length + 1) z =
        ok ((List.range (n - P.length)).map fun i => (i, (selectZeroSet P n i).getD 0)) := by
  obtain ⟨z, h1, h2⟩ := Sparse2.zeroIter_drain hs hstrict m
  refine ⟨z, h1, ?_⟩
  rw [h2]
  simp [Sparse2.zerosFrom]

/-- sparse `OneIter` run forward to exhaustion: all values with their ranks, in order -/
theorem sparse_one_iter_drain_partial (s : Sparse) (n w : Nat) (P : List Nat) (hs : s.Encodes n w P)
    (m : Mode) :
    drain m s (P.length + 1) (SpOneIter.full s) = ok ((List.range P.length).map fun i => (i, P[i]?.getD 0)) := by
  rw [Sds.drain_full hs m]
  simp [itemsFrom]

/-- the hypotheses are what construction gives: for every strictly increasing (`multi = false`) resp.
non-decreasing (`multi = true`) list below the universe size, the built vector's iterators behave as above -/
theorem sparse_built_iterators_partial (w n : Nat) (multi : Bool) (P : List Nat) (hw1 : 1 ≤ w) (hw : w ≤ 63)
    (hn : n < 2 ^ 64) (hm : P.length < 2 ^ 63)
    (hsorted : if multi then sortedLe P = true else sortedStrict P = true) (hbound : ∀ p ∈ P, p < n) :
    ∃ s, Sparse.ofValues w n multi P = ok s ∧
      (∀ (m : Mode) (calls : List Sparse2.End), ∃ it', Sparse2.runCalls m s calls (SpOneIter.full s) =
        ok ((Sparse2.runDeque calls ((List.range P.length).map fun i => (i, P[i]?.getD 0))).1, it')) ∧
      (∀ (m : Mode) (calls : List Sparse2.End), ∃ it it', s.iter m = ok it ∧
        Sparse2.runSpCalls m s calls it = ok ((Sparse2.runDeque calls (bitsOfSet P n)).1, it')) ∧
      (multi = false → ∀ m : Mode, ∃ z, s.zeroIter m = ok z ∧
        Sparse2.drainZ m s (n - P.length + 1) z =
          ok ((List.range (n - P.length)).map fun i => (i, (selectZeroSet P n i).getD 0))) := by
  obtain ⟨s, h1, hs, _⟩ := ofValues_queries w n multi P hw1 hw hn hm hsorted hbound
  refine ⟨s, h1, fun m calls => sparse_one_iter_any_interleaving_partial s n w P hs m calls,
    fun m calls => sparse_iter_any_interleaving_partial s n w P hs m calls, ?_⟩
  intro hmulti m
  subst hmulti
  exact sparse_zero_iter_partial s n w P hs (by simpa using hsorted) m

/-! ### non-vacuity -/

example : (RawVec.ofBits [true, false, true]).WF ∧ (RawVec.ofBits [true, false, true]).len < 2 ^ 64 := by decide
/-- a legitimate mid-run state: the ranks `[1, 2)` of the vector `11` -/
example : Rel .ident (RawVec.ofBits [true, true]) ⟨(1, 1), (2, 2)⟩ 1 2 := F1_state_rel
example : dequeRunM [10, 20, 30, 40] [.next, .nthBack 1, .len, .nth 5, .next] =
    [.item 10, .item 30, .len 1, .none, .none] := by decide
example : (1 ≤ 2 ∧ 2 ≤ 63 ∧ 10 < 2 ^ 64 ∧ [1, 4, 7].length < 2 ^ 63 ∧ sortedStrict [1, 4, 7] = true ∧
    ∀ p ∈ [1, 4, 7], p < 10) := by decide

end Sds.C10
