/-
C18 — Memory maps are valid while alive, fully released on drop, and fail loudly.

  "Creating a memory map either fails with an error (missing file, size not a multiple of 8, mapping refused
   by the OS) or returns a map whose element slice is valid and equal to the file's content for its whole
   length.  After the map is dropped no part of the file remains mapped in the process, for every file
   size; changes made through a mutable map are in the file afterwards."

Property theorems only (helper lemmas live in Proofs/OS.lean).  Quantifiers: every file size in bytes
(0, 8, sub-page, exact pages, many pages, sizes that are not a multiple of 8), every address space the
process may be in, every number and every sequence of map/drop cycles.  The two mapping modes differ only in
the `prot` argument of `mmap` and the open mode of the file; neither influences which pages are mapped or
unmapped, so the model (Model/Mapper.lean, "address space") has no mode parameter and every theorem below
holds for both.

The theorems are about the model INSTANTIATED WITH THE CONSTANTS EXTRACTED FROM THE SOURCE on this run
(Generated/SerConsts.lean, regenerated from /repo/src/serialize.rs):
  `Generated.MUNMAP_FACTOR`           what `Drop` multiplies the element count by in the `munmap` length,
  `Generated.MMAP_CHECKS_MAP_FAILED`  whether `MemoryMap::new` compares the result of `mmap` with
                                      MAP_FAILED (true) or only with NULL (false).
`newCur` / `dropCur` are `MemoryMap::new` / `Drop` of the code as it is now.  If the source regresses, the
obligations `munmap_length_is_in_bytes` / `mmap_failure_is_detected` fail and everything below them with
it; the `F5_*` / `F6_*` theorems document what the code as first written did.

FULL intended statement:
   for every file and mode, `MemoryMap::new` returns `Err` (file missing / size % 8 ≠ 0 / `mmap` refused) or
   a map `m` with `m.len() = size / 8`, whose slice `m[0..len]` is readable and equal to the file content;
   after `drop(m)` no page of the file is mapped in the process, for every size and after any number of
   cycles; writes through a `Mutable` map are in the file after drop.
What is proven (address-space part, for every size and every sequence of cycles): error / success split of
`new` exactly as specified, the returned length, that on success a live mapping of ⌈size/4096⌉ pages
covering all `8 * len` bytes exists while the map is alive and the pointer is a real address (never the
MAP_FAILED sentinel), that `drop` removes exactly that mapping and nothing else, and that any sequence
of cycles leaves nothing mapped.
What is missing, precisely (hence `…_partial` on the headline theorems):
  (1) the kernel: `sysMmap` / `sysMunmap` in Model/Mapper.lean are DEFINITIONS of what `mmap(NULL, len, …,
      MAP_SHARED, fd, 0)` and `munmap(addr, len)` do to the set of mapped pages (page granularity 4096,
      `mmap` of length 0 fails with MAP_FAILED, `munmap` releases the pages of [addr, addr+roundup(len))).
      They are the documented POSIX/Linux behaviour and are confirmed by the harness reading
      /proc/self/maps, but they are assumed, not proven; `mmap` refusing for other reasons (ENOMEM, …) is
      covered only in that `newCur` turns every `.failed` result into an error;
  (2) a missing file: `open` fails before `mmap` is reached and `?` returns the error — not modelled;
  (3) "the slice equals the file's content" and "changes through a mutable map reach the file" are the
      MAP_SHARED contract of the kernel; the model has no page contents.  Both are observed by the harness
      (read back through `std::fs`) and not proven.  The views built ON TOP of a map (`MappedSlice`,
      `RawVectorMapper`, …: bounds tests, offsets, lengths, payload = file elements) are property C19.
-/
import Sds.Proofs.OS
import Sds.Generated.SerConsts

namespace Sds.C18
open Sds Outcome

/-- `MemoryMap::new` of the code as it is now -/
def newCur (s : AddrSpace) (bytes : Nat) : AddrSpace × Outcome MMap :=
  if Generated.MMAP_CHECKS_MAP_FAILED then mmapNewSpec s bytes else mmapNewImpl s bytes

/-- `impl Drop for MemoryMap` of the code as it is now -/
def dropCur (s : AddrSpace) (mm : MMap) : AddrSpace := mmapDrop Generated.MUNMAP_FACTOR s mm

/-- one `new` … `drop` cycle of the code as it is now (a refused `new` leaves the address space as it is) -/
def cycleCur (s : AddrSpace) (bytes : Nat) : AddrSpace :=
  match newCur s bytes with
  | (s', ok mm) => dropCur s' mm
  | (s', fault _) => s'

/-! ### obligations on the extracted constants (re-checked on every run) -/

/-- `Drop` passes the length to `munmap` in BYTES: element count × 8 -/
theorem munmap_length_is_in_bytes : Generated.MUNMAP_FACTOR = 8 := by decide

/-- `new` detects a failed `mmap` by comparing with MAP_FAILED -/
theorem mmap_failure_is_detected : Generated.MMAP_CHECKS_MAP_FAILED = true := by decide

/-- hence the current code is the specified constructor and the byte-length drop -/
theorem current_code_meets_spec :
    (∀ s bytes, newCur s bytes = mmapNewSpec s bytes) ∧ (∀ s mm, dropCur s mm = mmapDrop 8 s mm) ∧
    (∀ s bytes, cycleCur s bytes = mapCycle 8 s bytes) := by
  have hn : ∀ s bytes, newCur s bytes = mmapNewSpec s bytes := by
    intro s bytes; unfold newCur; rw [mmap_failure_is_detected]; rfl
  have hd : ∀ s mm, dropCur s mm = mmapDrop 8 s mm := by
    intro s mm; unfold dropCur; rw [munmap_length_is_in_bytes]
  refine ⟨hn, hd, ?_⟩
  intro s bytes
  unfold cycleCur mapCycle
  rw [hn]
  generalize mmapNewSpec s bytes = r
  obtain ⟨s', o⟩ := r
  cases o with
  | ok mm => exact hd s' mm
  | fault f => rfl

/-! ### creating a map: error, or a live mapping covering the file -/

/-- a size that is not a multiple of 8 bytes is refused with an error; nothing is mapped -/
theorem new_unaligned_is_error (s : AddrSpace) (bytes : Nat) (h : bytes % 8 ≠ 0) :
    newCur s bytes = (s, fault (.err .other)) :=
  mmapNewSpec_unaligned s bytes h

/-- an empty file: the kernel refuses a zero-length mapping (MAP_FAILED) and `new` reports the error -/
theorem new_empty_is_error (s : AddrSpace) : newCur s 0 = (s, fault (.err .other)) :=
  mmapNewSpec_zero s

/-- every other size: `new` succeeds, the map has `bytes / 8` elements, its pointer is the address the
kernel returned, and while it is alive a mapping of ⌈bytes / 4096⌉ pages starting there is present —
that is at least `8 * len` bytes, the whole file — on top of whatever was mapped before -/
theorem new_ok_maps_file_partial (s : AddrSpace) (bytes : Nat) (h8 : bytes % 8 = 0) (hpos : 0 < bytes) :
    ∃ s' mm, newCur s bytes = (s', ok mm) ∧
      mm.ptr = .addr s.nextPage ∧ mm.lenElems = bytes / 8 ∧ mm.lenElems * 8 = bytes ∧
      s'.mapped = (s.nextPage, (bytes + 4095) / 4096) :: s.mapped ∧
      mm.lenElems * 8 ≤ (bytes + 4095) / 4096 * 4096 ∧
      pagesMapped s' = (bytes + 4095) / 4096 + pagesMapped s := by
  have hnew : newCur s bytes = (afterMap s bytes, ok ⟨.addr s.nextPage, bytes / 8⟩) :=
    mmapNewSpec_ok s bytes h8 hpos
  refine ⟨_, _, hnew, rfl, rfl, ?_, ?_, ?_, new_maps_pages s _ bytes _ hnew⟩
  · show bytes / 8 * 8 = bytes; omega
  · show (s.nextPage, (bytes + PAGE - 1) / PAGE) :: s.mapped = _
    simp only [PAGE]
    rw [show bytes + 4096 - 1 = bytes + 4095 by omega]
  · show bytes / 8 * 8 ≤ _; omega

/-- **Headline (creation).**  For every address space and every file size exactly one of three things
happens: size not a multiple of 8 → error; size 0 → error (mapping refused); otherwise → a live map of
`size / 8` elements whose pages are mapped.  `new` never maps anything when it returns an error. -/
theorem new_fails_loudly_or_maps_partial (s : AddrSpace) (bytes : Nat) :
    (bytes % 8 ≠ 0 ∧ newCur s bytes = (s, fault (.err .other))) ∨
    (bytes = 0 ∧ newCur s bytes = (s, fault (.err .other))) ∨
    (bytes % 8 = 0 ∧ 0 < bytes ∧ ∃ s' mm, newCur s bytes = (s', ok mm) ∧
      mm.ptr = .addr s.nextPage ∧ mm.lenElems = bytes / 8 ∧
      s'.mapped = (s.nextPage, (bytes + 4095) / 4096) :: s.mapped ∧
      mm.lenElems * 8 ≤ (bytes + 4095) / 4096 * 4096) := by
  by_cases h8 : bytes % 8 = 0
  · by_cases h0 : bytes = 0
    · subst h0; exact Or.inr (Or.inl ⟨rfl, new_empty_is_error s⟩)
    · obtain ⟨s', mm, h, hp, hl, _, hm, hc, _⟩ := new_ok_maps_file_partial s bytes h8 (by omega)
      exact Or.inr (Or.inr ⟨h8, by omega, s', mm, h, hp, hl, hm, hc⟩)
  · exact Or.inl ⟨h8, new_unaligned_is_error s bytes h8⟩

/-- a successful `new` never carries the MAP_FAILED sentinel as its pointer, and its size was a positive
multiple of 8 (inversion: success implies the good case above) -/
theorem new_ok_has_real_pointer {s s' : AddrSpace} {bytes : Nat} {mm : MMap}
    (h : newCur s bytes = (s', ok mm)) :
    mm.ptr = .addr s.nextPage ∧ mm.ptr ≠ .failed ∧ mm.lenElems = bytes / 8 ∧ bytes % 8 = 0 ∧ 0 < bytes := by
  obtain ⟨h8, hpos, _, rfl⟩ := mmapNewSpec_inv (show mmapNewSpec s bytes = (s', ok mm) from h)
  exact ⟨rfl, by simp, rfl, h8, hpos⟩

/-! ### after drop nothing of it remains mapped -/

/-- **Headline (drop).**  From a process with nothing of the file mapped, for every file size: after
`new` then `drop` no page remains mapped. -/
theorem drop_releases_everything_partial (s : AddrSpace) (hs : s.mapped = []) (bytes : Nat)
    (s' : AddrSpace) (mm : MMap) (hnew : newCur s bytes = (s', ok mm)) :
    pagesMapped (dropCur s' mm) = 0 :=
  drop_releases_all s bytes (new_ok_has_real_pointer hnew).2.2.2.1 hs s' mm hnew

/-- in any well-formed address space (other maps may be alive): `drop` removes exactly the mapping that
`new` added — the list of mappings is what it was before `new`, other live maps are untouched — and the
address space stays well formed -/
theorem drop_removes_exactly_this_map_partial (s : AddrSpace) (hwf : s.WF) (bytes : Nat)
    (s' : AddrSpace) (mm : MMap) (hnew : newCur s bytes = (s', ok mm)) :
    (dropCur s' mm).mapped = s.mapped ∧ pagesMapped (dropCur s' mm) = pagesMapped s ∧ (dropCur s' mm).WF :=
  ⟨(drop_restores s s' bytes mm hwf hnew).1, drop_restores_pages s s' bytes mm hwf hnew,
    (drop_restores s s' bytes mm hwf hnew).2.1⟩

/-- **Headline (cycles).**  Any number of cycles over any sequence of file sizes (erroring sizes included),
starting with nothing mapped, ends with nothing mapped. -/
theorem cycles_release_everything_partial (sizes : List Nat) :
    pagesMapped (sizes.foldl cycleCur {}) = 0 :=
  cycles_release_all sizes

/-- the same from any well-formed address space: the mappings present before are exactly those after -/
theorem cycles_restore_address_space_partial (sizes : List Nat) (s : AddrSpace) (hwf : s.WF) :
    (sizes.foldl cycleCur s).mapped = s.mapped ∧ (sizes.foldl cycleCur s).WF :=
  cycles_restore sizes s hwf

/-- `n` cycles with the same file, for every size and every `n` -/
theorem repeated_cycles_release_everything_partial (bytes n : Nat) :
    pagesMapped ((List.replicate n bytes).foldl cycleCur {}) = 0 :=
  cycles_release_all _

/-! ### documentation: the code as first written (findings F5, F6; repaired by `fix:` commits)

These are theorems about the model with the OLD constants (`mmapDrop 1`, `mmapNewImpl`); they say why the
two obligations above are needed. -/

/-- F5: with the `munmap` length in ELEMENTS (factor 1), every file larger than one page leaves pages
mapped after drop — exactly ⌈size/4096⌉ − ⌈size/8/4096⌉ of them (7/8 of a large file) -/
theorem F5_length_in_elements_leaks (bytes : Nat) (h8 : bytes % 8 = 0) (hbig : 4096 < bytes)
    (s' : AddrSpace) (mm : MMap) (hnew : mmapNewSpec {} bytes = (s', ok mm)) :
    pagesMapped (mmapDrop 1 s' mm) > 0 ∧
    pagesMapped (mmapDrop 1 s' mm) = (bytes + 4095) / 4096 - (bytes / 8 + 4095) / 4096 :=
  ⟨drop_elements_leaks bytes h8 hbig s' mm hnew, drop_elements_leak_count bytes h8 hbig s' mm hnew⟩

/-- F5 with the constructor as first written as well (it agrees with the spec on non-empty files) -/
theorem F5_length_in_elements_leaks_old_new (bytes : Nat) (h8 : bytes % 8 = 0) (hbig : 4096 < bytes)
    (s' : AddrSpace) (mm : MMap) (hnew : mmapNewImpl {} bytes = (s', ok mm)) :
    pagesMapped (mmapDrop 1 s' mm) > 0 :=
  drop_elements_leaks_impl bytes h8 hbig s' mm hnew

/-- F5 went unnoticed on small files: up to one page nothing leaks -/
theorem F5_small_files_unaffected (bytes : Nat) (h8 : bytes % 8 = 0) (hpos : 0 < bytes) (hsmall : bytes ≤ 4096)
    (s' : AddrSpace) (mm : MMap) (hnew : mmapNewSpec {} bytes = (s', ok mm)) :
    pagesMapped (mmapDrop 1 s' mm) = 0 :=
  drop_elements_small_ok bytes h8 hpos hsmall s' mm hnew

/-- F5, concrete: a two-page file leaks one page per cycle, three cycles leak three; factor 8 leaks none -/
theorem F5_counterexample_8192 :
    pagesMapped (mapCycle 1 {} 8192) = 1 ∧ pagesMapped (iterCycle 1 8192 3 {}) = 3 ∧
    pagesMapped (mapCycle 8 {} 8192) = 0 :=
  ⟨mapCycle_8192.1, iter_cycles_elements_leak_8192, mapCycle_8192.2⟩

/-- F6: the NULL test accepts the failed mapping of an empty file — `new` returns `Ok` with the MAP_FAILED
sentinel as pointer and length 0, in every address space — where the specified constructor errors -/
theorem F6_null_test_accepts_failed_mapping (s : AddrSpace) :
    mmapNewImpl s 0 = (s, ok ⟨.failed, 0⟩) ∧ mmapNewSpec s 0 = (s, fault (.err .other)) :=
  ⟨mmapNewImpl_zero s, mmapNewSpec_zero s⟩

/-- F6 is the only difference: on every non-empty file the two constructors agree -/
theorem F6_only_empty_file_differs (s : AddrSpace) (bytes : Nat) (h : bytes ≠ 0) :
    mmapNewImpl s bytes = mmapNewSpec s bytes :=
  mmapNewImpl_eq_spec s bytes h

/-! ### non-vacuity -/

/-- sizes meeting the hypotheses: one element, a sub-page file, exact pages, many pages + 8 -/
example : (8 % 8 = 0 ∧ 0 < 8) ∧ (4088 % 8 = 0 ∧ 0 < 4088) ∧ (8192 % 8 = 0 ∧ 0 < 8192) ∧
    (409608 % 8 = 0 ∧ 4096 < 409608) := by decide
/-- the default address space has nothing mapped and is well formed -/
example : ({} : AddrSpace).mapped = [] ∧ ({} : AddrSpace).WF := ⟨rfl, AddrSpace.WF_of_nil rfl⟩
/-- a successful `new` exists, its map is live, and dropping it releases everything -/
example : newCur {} 8192 = ({ mapped := [(16, 2)], nextPage := 19 }, ok ⟨.addr 16, 1024⟩) := by decide
example : pagesMapped (dropCur { mapped := [(16, 2)], nextPage := 19 } ⟨.addr 16, 1024⟩) = 0 := by decide
/-- a mixed sequence of cycles, erroring sizes included -/
example : pagesMapped ([0, 8, 12, 4096, 8192, 409608].foldl cycleCur {}) = 0 := by decide

end Sds.C18
