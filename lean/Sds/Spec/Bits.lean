/-
Spec/Bits: reference semantics of bit sequences (List Bool) and of sets / multisets of positions
(sorted List Nat).  Deliberately tiny; the harness carries an independent naive oracle in Rust, so a
wrong spec shows up as a spec-vs-oracle disagreement.
-/
import Sds.Model.Bits

namespace Sds

/-- number of set bits strictly before position `i` (clamps naturally: `i ≥ |B|` counts all) -/
def rankSpec (B : List Bool) (i : Nat) : Nat := (B.take i).count true

def rankZeroSpec (B : List Bool) (i : Nat) : Nat := (B.take i).count false

/-- position of the set bit of rank `r`, if any -/
def selectSpec (B : List Bool) (r : Nat) : Option Nat := selectBits B r

def selectZeroSpec (B : List Bool) (r : Nat) : Option Nat := selectBits (B.map not) r

/-- ascending positions of the set bits, starting the numbering at `s` -/
def onesFrom : List Bool → Nat → List Nat
  | [], _ => []
  | true :: bs, s => s :: onesFrom bs (s + 1)
  | false :: bs, s => onesFrom bs (s + 1)

def onesPos (B : List Bool) : List Nat := onesFrom B 0
def zerosPos (B : List Bool) : List Nat := onesFrom (B.map not) 0

/-- nearest set bit at or before `x`, with its rank -/
def predSpec (B : List Bool) (x : Nat) : Option (Nat × Nat) :=
  let ps := (onesPos B).filter (· ≤ x)
  match ps.getLast? with
  | none => none
  | some p => some (ps.length - 1, p)

/-- nearest set bit at or after `x`, with its rank -/
def succSpec (B : List Bool) (x : Nat) : Option (Nat × Nat) :=
  let before := (onesPos B).filter (· < x)
  match ((onesPos B).drop before.length).head? with
  | none => none
  | some p => some (before.length, p)

/-! ### positions as a sorted list (set or multiset), universe `n` -/

/-- number of values strictly below `i` -/
def rankSet (P : List Nat) (i : Nat) : Nat := (P.filter (· < i)).length

def selectSet (P : List Nat) (r : Nat) : Option Nat := P[r]?

def getSet (P : List Nat) (i : Nat) : Bool := P.contains i

/-- `r`-th element of the complement of `P` in `0..n` -/
def selectZeroSet (P : List Nat) (n r : Nat) : Option Nat :=
  ((List.range n).filter (fun i => !P.contains i))[r]?

/-- last occurrence of the largest value ≤ x: (rank, value) -/
def predSet (P : List Nat) (x : Nat) : Option (Nat × Nat) :=
  let ps := P.filter (· ≤ x)
  match ps.getLast? with
  | none => none
  | some p => some (ps.length - 1, p)

/-- first occurrence of the smallest value ≥ x: (rank, value) -/
def succSet (P : List Nat) (x : Nat) : Option (Nat × Nat) :=
  let k := (P.filter (· < x)).length
  match P[k]? with
  | none => none
  | some p => some (k, p)

/-- bit sequence of a set of positions in universe `n` -/
def bitsOfSet (P : List Nat) (n : Nat) : List Bool := (List.range n).map fun i => P.contains i

def sortedStrict : List Nat → Bool
  | [] => true
  | [_] => true
  | a :: b :: t => decide (a < b) && sortedStrict (b :: t)

def sortedLe : List Nat → Bool
  | [] => true
  | [_] => true
  | a :: b :: t => decide (a ≤ b) && sortedLe (b :: t)

/-- maximal runs `(start, length)` of set bits -/
def runsOf : List Bool → Nat → Option (Nat × Nat) → List (Nat × Nat)
  | [], _, none => []
  | [], _, some r => [r]
  | true :: bs, i, none => runsOf bs (i + 1) (some (i, 1))
  | true :: bs, i, some (s, l) => runsOf bs (i + 1) (some (s, l + 1))
  | false :: bs, i, none => runsOf bs (i + 1) none
  | false :: bs, i, some r => r :: runsOf bs (i + 1) none

def maximalRuns (B : List Bool) : List (Nat × Nat) := runsOf B 0 none

end Sds
