/-
Spec/Format: the serialization formats of SERIALIZATION.md (version 0.4.0), read from the document only.

A file is a list of 64-bit elements.  Every decoder takes the elements that are still unread and returns the
decoded *content* (bits, numbers, runs — never an implementation structure) together with the elements that
follow the structure; `none` means "this is not a valid serialization of that type according to the document".
Nothing here refers to the codecs of `Model/Ser` or to the structure models: the only imports are the word type
and the bit accessor (`getBit`) of `Model/Bits` and the reference semantics `rankSpec` / `onesPos` of `Spec/Bits`.

Each section quotes the sentences of the document it implements.  Where the document leaves a choice, the
choice made is marked CHOICE.
-/
import Sds.Model.Bits
import Sds.Spec.Bits

namespace Sds
namespace Doc

/-- "A file is an array of elements, which are unsigned 64-bit little-endian integers." -/
abbrev File := List Word

/-! ### Basic structures -/

/-- one element, as a number -/
def elem : File → Option (Nat × File)
  | [] => none
  | w :: r => some (w.toNat, r)

/-- "Serialization format for vectors of serializable items: 1. Length of the vector as an element.
2. Concatenated items from the vector." — here for items that are elements. -/
def elemVector (es : File) : Option (Array Word × File) := do
  let (n, r) ← elem es
  if n ≤ r.length then some ((r.take n).toArray, r.drop n) else none

/-- "Serialization format for optional structures: 1. Length of the optional structure as an element.
2. The structure, if present."  "The reader can easily skip an optional structure, because its length is
stored before the structure itself." -/
def optionalSkip (es : File) : Option File := do
  let (l, r) ← elem es
  if l ≤ r.length then some (r.drop l) else none

/-- an optional structure that the reader understands: "The length of an optional structure is the number of
elements required to serialize the actual structure (if present) or 0 (if absent)" — so the decoder of the
structure must consume exactly the announced elements. -/
def optional {α : Type} (dec : File → Option (α × File)) (es : File) : Option (Option α × File) := do
  let (l, r) ← elem es
  if l = 0 then some (none, r)
  else if l ≤ r.length then
    match dec (r.take l) with
    | some (x, []) => some (some x, r.drop l)
    | _ => none
  else none

/-! ### Raw bitvector -/

/-- "Any unused bits in the last element must be set to 0": the bits `n ..< 64 * (number of elements)`. -/
def unusedZero (a : Array Word) (n : Nat) : Bool :=
  (List.range (64 * a.size - n)).all fun k => !getBit a (n + k)

/-- "Serialization format for raw bitvectors: 1. Length of the vector as an element. 2. Vector of elements
storing the items."  "Bit `i` of the raw bitvector is stored as bit `i % 64` of element `floor(i / 64)`"
(this is `getBit`).  "A raw bitvector of length `n` requires a vector of `floor((n + 63) / 64)` elements."
"Any unused bits in the last element must be set to 0." -/
def rawBits (es : File) : Option (List Bool × File) := do
  let (n, r) ← elem es
  let (a, r) ← elemVector r
  if a.size = (n + 63) / 64 ∧ unusedZero a n = true then
    some ((List.range n).map (getBit a), r)
  else none

/-! ### Integer vector -/

/-- the number with the given binary digits, least significant first -/
def natOfBits : List Bool → Nat
  | [] => 0
  | b :: bs => b.toNat + 2 * natOfBits bs

/-- item `i` of a bit-packed vector of `w`-bit integers stored in the bits `a` -/
def item (a : Array Bool) (w i : Nat) : Nat := natOfBits (a.extract (i * w) (i * w + w)).toList

/-- "Serialization format for integer vectors: 1. Length of the vector as an element. 2. Width of the items
as an element. 3. Raw bitvector storing the items."  "The width of the items can be from 1 to 64 bits."
"The items of an integer vector are concatenated and stored in a raw bitvector. An integer vector of `n`
items of width `w` bits requires a raw bitvector of length `n * w`."
Returns (width, items). -/
def intVector (es : File) : Option ((Nat × List Nat) × File) := do
  let (n, r) ← elem es
  let (w, r) ← elem r
  if w < 1 ∨ 64 < w then none else
  let (B, r) ← rawBits r
  if B.length ≠ n * w then none else
  let a := B.toArray
  some ((w, (List.range n).map (item a w)), r)

/-! ### Bitvector -/

/-- "Serialization format for bitvectors: 1. Number of set bits as an element. 2. Raw bitvector storing the
items. 3. Optional rank support structure. 4. Optional select support structure for set bits. 5. Optional
select support structure for unset bits."  The support structures are "implementation-dependent"; a reader of
the document skips them by their length elements. -/
def bitVector (es : File) : Option (List Bool × File) := do
  let (ones, r) ← elem es
  let (B, r) ← rawBits r
  if B.count true ≠ ones then none else
  let r ← optionalSkip r
  let r ← optionalSkip r
  let r ← optionalSkip r
  some (B, r)

/-! ### Sparse bitvector -/

/-- "The `i`th item in the sorted vector of integers is `low[i] + ((high.select(i) - i) << w)`":
`sel` = the positions of the ones of `high` from the `i`-th on, `low` = the low parts from the `i`-th on. -/
def sparseValues (w : Nat) : Nat → List Nat → List Nat → List Nat
  | i, p :: sel, l :: low => (l + ((p - i) <<< w)) :: sparseValues w (i + 1) sel low
  | _, _, _ => []

/-- "Serialization format for sparse bitvectors: 1. Length of the vector of bits as an element.
2. Bitvector storing the high parts. 3. Integer vector storing the low parts."
Validity:
* "The low parts are the lowest `w` bits of each integer, with `w >= 1`.  They are stored in an integer vector
  of length `m` and width `w`": one low part per one of `high`;
* "For each bucket with `k >= 0` integers, in sorted order, the bitvector contains a sequence of `1`s of length
  `k` followed by `0`.  There must be a bucket for each position in the semiopen interval `0..n` but no
  additional buckets after them": the high parts of the positions `0..n` are `0 ..< ⌈n / 2^w⌉`, every bucket is
  closed by exactly one `0`, so `high` has exactly `⌈n / 2^w⌉` zeros and, being a sequence of closed buckets,
  does not end with a `1`;
* the items are positions of the vector of bits (`< n`) and "a vector of sorted integers".
Returns (n, values). -/
def sparse (es : File) : Option ((Nat × List Nat) × File) := do
  let (n, r) ← elem es
  let (H, r) ← bitVector r
  let ((w, low), r) ← intVector r
  let sel := onesPos H
  let vals := sparseValues w 0 sel low
  if sel.length = low.length ∧ H.count false = (n + 2 ^ w - 1) / 2 ^ w ∧ H.getLast? ≠ some true ∧
      vals.all (· < n) = true ∧ sortedLe vals = true then
    some ((n, vals), r)
  else none

/-! ### Run-length encoded bitvector -/

/-- number of binary digits of `x`, at least 1 (the width needed for an item of value `x`) -/
def bitLength (x : Nat) : Nat := if x = 0 then 1 else Nat.log2 x + 1

/-- "bit-packed with the minimal width necessary": the width is the bit length of the largest item -/
def minimalWidth (w : Nat) (items : List Nat) : Bool := w == bitLength (items.foldl max 0)

/-- "Each integer is encoded in little-endian order using 4-bit code units.  The lowest 3 bits of each code
unit contain data.  If the high bit is set, the encoding continues in the next unit."
Reads one integer from the units `U` at `pos`, never reading at or beyond `stop` ("blocks ... consist of
entire runs"); returns (value, position after the integer). -/
def rlInt (U : Array Nat) (stop : Nat) : Nat → Nat → Nat → Nat → Option (Nat × Nat)
  | 0, _, _, _ => none
  | fuel + 1, pos, shift, acc =>
    if pos ≥ stop then none else
      let u := U[pos]?.getD 0
      let acc := acc + ((u % 8) <<< shift)
      if u / 8 % 2 = 1 then rlInt U stop fuel (pos + 1) (shift + 3) acc else some (acc, pos + 1)

/-- "If there are `n0` unset bits followed by `n1` set bits, it is encoded as a pair of integers
`(n0, n1 - 1)`": one run at `pos`; returns (n0, n1, position after the run). -/
def rlRun (U : Array Nat) (stop pos : Nat) : Option (Nat × Nat × Nat) := do
  let (n0, p) ← rlInt U stop 64 pos 0 0
  let (l, p) ← rlInt U stop 64 p 0 0
  some (n0, l + 1, p)

/-- the runs of one block, from unit `pos` on: `n` bits and `n1` set bits are encoded before `pos`; padding is
not self-delimiting (a `0` unit is also the encoding of the integer 0), so the runs of the block end where
the number of set bits reaches `target` (the sample of the next block, or the total for the last block).
"a sequence of maximal runs": only the very first run of the vector may have `n0 = 0`.
Returns (runs as (start, length), position after the last run, bits encoded so far). -/
def rlBlockRuns (U : Array Nat) (stop target : Nat) : Nat → Nat → Nat → Nat → Option (List (Nat × Nat) × Nat × Nat)
  | 0, _, _, _ => none
  | fuel + 1, pos, n, n1 =>
    if n1 = target then some ([], pos, n)
    else if n1 > target then none
    else do
      let (n0, l, p) ← rlRun U stop pos
      if n0 = 0 ∧ n ≠ 0 then none else
      let (runs, p', n') ← rlBlockRuns U stop target fuel p (n + n0 + l) (n1 + l)
      some ((n + n0, l) :: runs, p', n')

/-- all blocks from block `b` on.  "We partition the encoding into 64-unit (32-byte) blocks that consist of
entire runs.  If there is not enough space left for encoding the next `(n0, n1)`, we pad the block with `0`
values and move to the next block.  If the final block is not full, it must not contain any padding."
"For each block, we store a sample `(n1, n)`, where `n` is the number of bits and `n1` is the number of set
bits encoded in all preceding blocks." -/
def rlBlocks (U S : Array Nat) (ones nb : Nat) : Nat → Nat → Nat → Nat → Option (List (Nat × Nat) × Nat × Nat)
  | 0, _, _, _ => none
  | fuel + 1, b, n, n1 =>
    if b ≥ nb then some ([], n, n1) else
    -- the sample of this block
    if S[2 * b]?.getD 0 ≠ n1 ∨ S[2 * b + 1]?.getD 0 ≠ n then none else
    let start := 64 * b
    let stop := min (start + 64) U.size
    let final := decide (b + 1 ≥ nb)
    let target := if final then ones else S[2 * (b + 1)]?.getD 0
    match rlBlockRuns U stop target 64 start n n1 with
    | none => none
    | some (runs, pos, n') =>
      -- the rest of the block is padding
      let padOk :=
        if final then
          -- CHOICE: there is no next run, so the final block is never padded (full or not)
          decide (pos = stop)
        else
          (List.range (stop - pos)).all (fun k => U[pos + k]?.getD 0 == 0) &&
          (pos == stop ||
            -- "If there is not enough space left for encoding the next (n0, n1), we pad"
            match rlRun U (min (stop + 64) U.size) stop with
            | some (_, _, p) => decide (stop - pos < p - stop)
            | none => false)
      if !padOk then none else
      match rlBlocks U S ones nb fuel (b + 1) n' target with
      | none => none
      | some (more, nEnd, n1End) => some (runs ++ more, nEnd, n1End)

/-- "Serialization format for run-length encoded bitvectors: 1. Length of the vector of bits as an element.
2. Number of set bits as an element. 3. Samples as an integer vector with the minimal width necessary.
4. Concatenated blocks as an integer vector of width 4."
The samples `(n1, n)` are stored as consecutive items `n1, n`.  Returns (length, maximal runs of set bits as
(start, length)). -/
def rl (es : File) : Option ((Nat × List (Nat × Nat)) × File) := do
  let (len, r) ← elem es
  let (ones, r) ← elem r
  let ((sw, S), r) ← intVector r
  let ((uw, U), r) ← intVector r
  let nb := (U.length + 63) / 64
  if uw ≠ 4 ∨ S.length ≠ 2 * nb ∨ minimalWidth sw S = false then none else
  let (runs, n, n1) ← rlBlocks U.toArray S.toArray ones nb (nb + 1) 0 0 0
  if n1 = ones ∧ n ≤ len then some ((len, runs), r) else none

/-! ### Wavelet matrices -/

/-- `count` levels, each a `BitVector` -/
def wmLevels : Nat → File → Option (List (List Bool) × File)
  | 0, es => some ([], es)
  | k + 1, es => do
    let (B, r) ← bitVector es
    let (Bs, r) ← wmLevels k r
    some (B :: Bs, r)

/-- "Serialization format for the wavelet matrix core: 1. `width`: Width of the items as an element.
2. `levels`: A `BitVector` for each level in `0..width`."
Position `i` exists on every level, so the levels have the same length.
CHOICE: items are elements, and the width of an item "can be from 1 to 64 bits". -/
def wmCore (es : File) : Option (List (List Bool) × File) := do
  let (w, r) ← elem es
  if w < 1 ∨ 64 < w then none else
  let (levels, r) ← wmLevels w r
  match levels with
  | [] => none
  | B0 :: _ => if levels.all (fun B => B.length == B0.length) then some (levels, r) else none

/-- "If `bv[level][i] == 0`, position `i` on level `level` maps to position `bv[level].rank_zero(i)` on level
`level + 1`.  Otherwise it maps to position `bv[level].count_zeros() + bv[level].rank(i)`." -/
def mapDown (B : List Bool) (i : Nat) : Nat :=
  if B.getD i false then B.count false + rankSpec B i else rankZeroSpec B i

/-- the map of a whole level computed in one pass: `zeros` = `count_zeros()`, `r0` / `r1` = unset / set bits
before the current position (`levelMap_eq` in Proofs/Format: entry `i` is `mapDown B i`) -/
def levelMapFrom (zeros : Nat) : List Bool → Nat → Nat → List Nat
  | [], _, _ => []
  | true :: bs, r0, r1 => (zeros + r1) :: levelMapFrom zeros bs r0 (r1 + 1)
  | false :: bs, r0, r1 => r0 :: levelMapFrom zeros bs (r0 + 1) r1

def levelMap (B : List Bool) : Array Nat := (levelMapFrom (B.count false) B 0 0).toArray

/-- "The value of the item at offset `i` can be determined by starting from level 0 offset `i`, proceeding
down in the matrix, and calculating the sum of values corresponding to set bits", the bitvector on level
`level` representing `1 << (width - 1 - level)`.
Walks all positions at once: `cur` = for every original offset its (position on this level, value so far).
Returns for every offset (position after the last level = position in the reordered vector, value). -/
def wmWalk : List (List Bool) → List (Nat × Nat) → List (Nat × Nat)
  | [], cur => cur
  | B :: levels, cur =>
    let bits := B.toArray
    let next := levelMap B
    let bv := 2 ^ levels.length
    wmWalk levels (cur.map fun (p, v) =>
      (next[p]?.getD 0, if bits[p]?.getD false then v + bv else v))

/-- positions in the reordered vector and values of the items `0 ..< len` -/
def wmPlaces (levels : List (List Bool)) (len : Nat) : List (Nat × Nat) :=
  wmWalk levels ((List.range len).map fun i => (i, 0))

/-- the items of the vector -/
def wmItems (levels : List (List Bool)) (len : Nat) : List Nat := (wmPlaces levels len).map (·.2)

/-- "`first`: An `IntVector` storing the position of the first occurrence of each value in the reordered
vector.  Note: `first` is only defined over the values in the alphabet.  If a value is not present in the
vector, the corresponding position is `len`."  "If `value` is the largest item present in the vector, the
alphabet of the vector is `0..=value`" (CHOICE: `0..=0` for the empty vector). -/
def wmFirst (places : List (Nat × Nat)) (len : Nat) : List Nat :=
  let maxv := places.foldl (fun m pv => max m pv.2) 0
  (places.foldl (fun (a : Array Nat) (pv : Nat × Nat) => a.modify pv.2 (min pv.1)) (Array.replicate (maxv + 1) len)).toList

/-- "Serialization format for plain wavelet matrices: 1. `len`: Length of the vector as an element.
2. `data`: The core of the wavelet matrix as `WMCore`. 3. `first`: An `IntVector` ..."
"Note: `first` must be bit-packed to minimize its width."  Returns the items. -/
def wm (es : File) : Option (List Nat × File) := do
  let (len, r) ← elem es
  let (levels, r) ← wmCore r
  let ((fw, first), r) ← intVector r
  if levels.any (fun B => B.length != len) then none else
  let places := wmPlaces levels len
  if first = wmFirst places len ∧ minimalWidth fw first = true then some (places.map (·.2), r) else none

end Doc
end Sds
