/-
Proofs/GenEqLoad4: the generic `impl<V: Serialize> Serialize for Option<V> { fn load }` as TRANSLATED from the source at
its two instances (Generated/FnsLoad4.lean: `gen_Option_RankSupport_load`, `gen_Option_SelectSupport_load`) against the
model's `optionC`, and `gen_BitVector_load_full` — `BitVector::load` translated over those translated option loaders —
against `gen_BitVector_load` (the same source function translated over the MODEL's option codecs, GenEqLoad) and against
`bitVectorC.load`.  Same method and style as Proofs/GenEqLoad.

The length prefix: the Rust code reads it and looks only at `size == 0`; so does `optionC.load` (`n.toNat = 0`, the value
is not compared with the size of what follows).  No hypothesis comes from the prefix.  The hypotheses are those of the
value loaders:

* `Option<RankSupport>`: unconditional (`rank_load_eq` is).
* `Option<SelectSupport>`: `OptSelOk` — `SelOk` of the stream behind the length word when that word is non-zero.
  Without it `sel_load_ne_long` lifts: `opt_sel_load_ne`.
* `BitVector::load` over the translated option loaders: `BvOk` (GenEqLoad) says NOTHING about the contents of the select
  supports — in `gen_BitVector_load` they are read by the model's codec.  The additional hypothesis is `BvSelOk`:
  `OptSelOk` at the two places where the loader reads an optional select support (whenever the loader gets that far).
  `BvOk` alone does not suffice: `bv_load_full_ne_select` / `bv_load_full_ne_select_zero` are streams that ARE `BvOk`
  (`bv_full_cex_BvOk`), on which `gen_BitVector_load` agrees with the model, and on which `gen_BitVector_load_full`
  panics (checked) / accepts (wrapping) where the model refuses.  This is the divergence already recorded for
  `SelectSupport::load` (unchecked `len + 4096`, `len + 64`, `len * width`, `bits_to_words`), seen through `BitVector::load`;
  it is not a new one and not one of the option prefix.
* every word below `2^32`: all of it holds (`bv_load_full_eq_small`).
-/
import Sds.Generated.FnsLoad4
import Sds.Proofs.GenEqLoad

set_option linter.unusedSimpArgs false
namespace Sds.GenEq
open Sds Outcome Generated

theorem l4_bind_congr {α β} {x : Outcome α} {f g : α → Outcome β} (h : ∀ a, x = ok a → f a = g a) :
    (x >>= f) = (x >>= g) := by
  cases x with
  | fault e => rfl
  | ok a => exact h a rfl

/-! ### Option<RankSupport>: unconditional -/

theorem opt_rank_load_eq (m : Mode) (es : Elems) :
    gen_Option_RankSupport_load m es = (optionC rankSupC).load es := by
  unfold gen_Option_RankSupport_load optionC usizeC
  dsimp only
  cases es with
  | nil => rfl
  | cons w r =>
    simp only [readElem, bind_ok, Pure.pure]
    rw [rank_load_eq]
    by_cases c : w.toNat = 0 <;> simp [c]

/-! ### Option<SelectSupport> -/

/-- `SelOk` of the stream behind the length word, when that word is non-zero -/
def OptSelOk (es : Elems) : Prop := ∀ n r, usizeC.load es = ok (n, r) → n ≠ 0 → SelOk r

theorem opt_sel_load_eq (m : Mode) (es : Elems) (h : OptSelOk es) :
    gen_Option_SelectSupport_load m es = (optionC selSupC).load es := by
  unfold gen_Option_SelectSupport_load optionC
  cases es with
  | nil => rfl
  | cons w r =>
    have h := h _ _ (usizeC_cons w r)
    unfold usizeC
    simp only [readElem, bind_ok, Pure.pure]
    by_cases c : w.toNat = 0
    · simp [c]
    · rw [sel_load_eq m r (h c)]
      simp [c]

theorem OptSelOk_of_small {es : Elems} (hs : Small es) : OptSelOk es :=
  fun _ _ h1 _ => SelOk_of_small (hs.suffix (usizeC_suffix h1))

theorem opt_rank_load_eq_small (m : Mode) (es : Elems) (_ : ∀ w ∈ es, w.toNat < 2 ^ 32) :
    gen_Option_RankSupport_load m es = (optionC rankSupC).load es := opt_rank_load_eq m es
theorem opt_sel_load_eq_small (m : Mode) (es : Elems) (h : ∀ w ∈ es, w.toNat < 2 ^ 32) :
    gen_Option_SelectSupport_load m es = (optionC selSupC).load es := opt_sel_load_eq m es (OptSelOk_of_small h)

/-- the stream of `sel_load_ne_long` -/
def l4_selLong : Elems :=
  [0#64, 0#64, 0#64, 0#64, 0xFFFFFFFFFFFFFFFF#64, 0#64, 0#64, 0#64, 0#64, 0#64, 0#64, 0#64]

/-- without the hypothesis: `sel_load_ne_long` behind a non-zero length word (its value, here 1 and not the 12 that
`serialize` would write, is looked at by neither side).  The checked build panics, the wrapping build ACCEPTS, the model
refuses; a zero length word in front of the same words: all three agree on `None`. -/
theorem opt_sel_load_ne :
    gen_Option_SelectSupport_load .checked (1#64 :: l4_selLong) = fault (.panic .overflow) ∧
    gen_Option_SelectSupport_load .wrapping (1#64 :: l4_selLong) =
      ok (some ⟨⟨0, 0, ⟨0, #[]⟩⟩, ⟨18446744073709551615, 0, ⟨0, #[]⟩⟩, ⟨0, 0, ⟨0, #[]⟩⟩⟩, []) ∧
    (optionC selSupC).load (1#64 :: l4_selLong) = fault (.err .invalid) ∧
    gen_Option_SelectSupport_load .checked (0#64 :: l4_selLong) = ok (none, l4_selLong) ∧
    gen_Option_SelectSupport_load .wrapping (0#64 :: l4_selLong) = ok (none, l4_selLong) ∧
    (optionC selSupC).load (0#64 :: l4_selLong) = ok (none, l4_selLong) := by
  decide +kernel

/-! ### BitVector over the translated option loaders -/

/-- `OptSelOk` at the two places where `BitVector::load` reads an optional select support, whenever the loader gets there -/
def BvSelOk (es : Elems) : Prop :=
  ∀ ones r, usizeC.load es = ok (ones, r) → ∀ data r1, rawVecC.load r = ok (data, r1) → ones ≤ data.len →
    ∀ rank r2, (optionC rankSupC).load r1 = ok (rank, r2) →
      (∀ s, rank = some s → s.samples.size = (data.len + 511) / 512) →
        OptSelOk r2 ∧ ∀ sel r3, (optionC selSupC).load r2 = ok (sel, r3) →
          (∀ s, sel = some s → s.superblocks = (ones + 4095) / 4096) → OptSelOk r3

/-- the same for the comparison of the two translations with each other: phrased with the translated raw-vector loader,
and without the two consistency tests (they are the same computation on both sides) -/
def BvSelOkGen (m : Mode) (es : Elems) : Prop :=
  ∀ ones r, usizeC.load es = ok (ones, r) → ∀ data r1, gen_RawVector_load m r = ok (data, r1) → ones ≤ data.len →
    ∀ rank r2, (optionC rankSupC).load r1 = ok (rank, r2) →
      OptSelOk r2 ∧ ∀ sel r3, (optionC selSupC).load r2 = ok (sel, r3) → OptSelOk r3

/-- the two translations of `BitVector::load` against each other: no arithmetic hypothesis at all, only `SelOk` where a
select support is read -/
theorem bv_load_full_eq_gen (m : Mode) (es : Elems) (hs : BvSelOkGen m es) :
    gen_BitVector_load_full m es = gen_BitVector_load m es := by
  unfold gen_BitVector_load_full gen_BitVector_load
  refine l4_bind_congr ?_
  rintro ⟨ones, r⟩ h1
  refine l4_bind_congr ?_
  rintro ⟨data, r1⟩ h2
  dsimp only
  by_cases c0 : ones > data.len
  · simp [c0]
  · simp only [c0, decide_false, if_false, Bool.false_eq_true]
    have hs := hs _ _ h1 _ _ h2 (by omega)
    rw [opt_rank_load_eq]
    refine l4_bind_congr ?_
    rintro ⟨rank, r2⟩ h3
    dsimp only
    obtain ⟨hs2, hs⟩ := hs _ _ h3
    rcases rank with _ | s
    case' some =>
      dsimp only
      refine l4_bind_congr ?_
      intro t4 _
      by_cases c1 : s.samples.size = t4
      case' neg => simp [c1]
      case' pos => simp only [c1, ne_eq, not_true_eq_false, decide_false, if_false, Bool.false_eq_true]
    all_goals (
      try dsimp only
      rw [opt_sel_load_eq m r2 hs2]
      refine l4_bind_congr ?_
      rintro ⟨sel, r3⟩ h4
      have hs3 := hs _ _ h4
      rcases sel with _ | s2
      case' some =>
        dsimp only
        refine l4_bind_congr ?_
        intro t6 _
        refine l4_bind_congr ?_
        intro t7 _
        by_cases c2 : t6 = t7
        case' neg => simp [c2]
        case' pos => simp only [c2, ne_eq, not_true_eq_false, decide_false, if_false, Bool.false_eq_true]
      all_goals (
        try dsimp only
        rw [opt_sel_load_eq m r3 hs3] <;> try rfl))

set_option maxRecDepth 4000 in
theorem bv_load_full_eq (m : Mode) (es : Elems) (h : BvOk es) (hs : BvSelOk es) :
    gen_BitVector_load_full m es = bitVectorC.load es := by
  unfold gen_BitVector_load_full bitVectorC
  dsimp only
  cases h1 : usizeC.load es with
  | fault f => simp only [bind_fault]
  | ok p =>
    obtain ⟨ones, r⟩ := p
    simp only [bind_ok]
    obtain ⟨hr, h⟩ := h _ _ h1
    rw [raw_load_eq m r hr]
    cases h2 : rawVecC.load r with
    | fault f => simp only [bind_fault]
    | ok p =>
      obtain ⟨data, r1⟩ := p
      simp only [bind_ok]
      by_cases c0 : ones > data.len
      · simp [c0]
      · simp only [c0, decide_false, if_false, Bool.false_eq_true]
        have h := h _ _ h2 (by omega)
        have hs := hs _ _ h1 _ _ h2 (by omega)
        rw [opt_rank_load_eq]
        cases h3 : (optionC rankSupC).load r1 with
        | fault f => simp only [bind_fault]
        | ok p =>
          obtain ⟨rank, r2⟩ := p
          simp only [bind_ok]
          obtain ⟨hk, h⟩ := h _ _ h3
          have hs := hs _ _ h3
          rcases rank with _ | s
          case' some =>
            dsimp only
            rw [div_round_up_ok m _ 512 511 rfl (hk rfl)]
            simp only [bind_ok]
            by_cases c1 : s.samples.size = (data.len + 511) / 512
            case' neg => simp [c1]
            case' pos => simp only [c1, ne_eq, not_true_eq_false, decide_false, if_false, Bool.false_eq_true]
          all_goals (
            try dsimp only
            try simp only [Bool.false_eq_true, if_false]
            have h := h (by intro s' e; cases e <;> assumption)
            obtain ⟨hs2, hs⟩ := hs (by intro s' e; cases e <;> assumption)
            rw [opt_sel_load_eq m r2 hs2]
            cases h4 : (optionC selSupC).load r2 with
            | fault f => simp only [bind_fault]
            | ok p =>
              obtain ⟨sel, r3⟩ := p
              simp only [bind_ok]
              obtain ⟨hk2, h⟩ := h _ _ h4
              have hs := hs _ _ h4
              rcases sel with _ | s2
              case' some =>
                dsimp only
                rw [sel_superblocks_eq, div_round_up_ok m _ 4096 4095 rfl (hk2 rfl)]
                simp only [bind_ok]
                by_cases c2 : s2.superblocks = (ones + 4095) / 4096
                case' neg => simp [c2]
                case' pos => simp only [c2, ne_eq, not_true_eq_false, decide_false, if_false, Bool.false_eq_true]
              all_goals (
                try dsimp only
                try simp only [Bool.false_eq_true, if_false]
                have h := h (by intro s' e; cases e <;> assumption)
                have hs3 := hs (by intro s' e; cases e <;> assumption)
                rw [opt_sel_load_eq m r3 hs3]
                cases h5 : (optionC selSupC).load r3 with
                | fault f => simp only [bind_fault]
                | ok p =>
                  obtain ⟨selz, r4⟩ := p
                  simp only [bind_ok]
                  have hk3 := h _ _ h5
                  rcases selz with _ | s3
                  · simp [Pure.pure]
                  · dsimp only
                    rw [sel_superblocks_eq, subM_ok (by omega)]
                    simp only [bind_ok]
                    rw [div_round_up_ok m _ 4096 4095 rfl (hk3 rfl)]
                    simp only [bind_ok]
                    by_cases c3 : s3.superblocks = (data.len - ones + 4095) / 4096 <;> simp [c3, Pure.pure]))

/-- the two translations against each other under the hypotheses of `bv_load_full_eq` -/
theorem bv_load_full_eq_gen_of_BvOk (m : Mode) (es : Elems) (h : BvOk es) (hs : BvSelOk es) :
    gen_BitVector_load_full m es = gen_BitVector_load m es :=
  (bv_load_full_eq m es h hs).trans (bv_load_eq m es h).symm

/-! ### sufficient conditions: `SelOk` of every suffix; small words -/

theorem l4_optRank_suffix {es r : Elems} {o : Option RankSup} (h : (optionC rankSupC).load es = ok (o, r)) : r <:+ es :=
  optionC_suffix (fun _ _ _ => rankSupC_suffix) h

theorem l4_optSel_suffix {es r : Elems} {o : Option SelSup} (h : (optionC selSupC).load es = ok (o, r)) : r <:+ es :=
  optionC_suffix (fun _ _ _ => selSupC_suffix) h

theorem OptSelOk_of_suffix {es : Elems} (h : ∀ r, r <:+ es → SelOk r) : OptSelOk es :=
  fun _ _ h1 _ => h _ (usizeC_suffix h1)

theorem BvSelOk_of_suffix {es : Elems} (h : ∀ r, r <:+ es → SelOk r) : BvSelOk es := by
  intro ones r h1 data r1 h2 _ rank r2 h3 _
  have s2 : r2 <:+ es := ((l4_optRank_suffix h3).trans (rawVecC_suffix h2)).trans (usizeC_suffix h1)
  refine ⟨OptSelOk_of_suffix fun q hq => h q (hq.trans s2), fun sel r3 h4 _ => ?_⟩
  exact OptSelOk_of_suffix fun q hq => h q ((hq.trans (l4_optSel_suffix h4)).trans s2)

theorem BvSelOk_of_small {es : Elems} (hs : Small es) : BvSelOk es :=
  BvSelOk_of_suffix fun _ hr => SelOk_of_small (hs.suffix hr)

theorem bv_load_full_eq_small (m : Mode) (es : Elems) (h : ∀ w ∈ es, w.toNat < 2 ^ 32) :
    gen_BitVector_load_full m es = bitVectorC.load es :=
  bv_load_full_eq m es (BvOk_of_small h) (BvSelOk_of_small h)

theorem bv_load_full_eq_gen_small (m : Mode) (es : Elems) (h : ∀ w ∈ es, w.toNat < 2 ^ 32) :
    gen_BitVector_load_full m es = gen_BitVector_load m es :=
  bv_load_full_eq_gen_of_BvOk m es (BvOk_of_small h) (BvSelOk_of_small h)

/-! ### `BvOk` alone does not suffice

The empty bitvector (`ones = 0`, `len = 0`, no data word), no rank support, and `sel_load_ne_long` as the select
(resp. select_zero) support.  Both streams are `BvOk` — `BvOk` follows the MODEL's option loaders, which refuse the
support, so its later clauses are vacuous — and on both `gen_BitVector_load` (which calls the model's option loaders)
agrees with the model. -/

def l4_cexSel : Elems :=
  [0#64, 0#64, 0#64, 0#64, 1#64,
   0#64, 0#64, 0#64, 0#64, 0xFFFFFFFFFFFFFFFF#64, 0#64, 0#64, 0#64, 0#64, 0#64, 0#64, 0#64, 0#64]

def l4_cexSelZero : Elems :=
  [0#64, 0#64, 0#64, 0#64, 0#64, 1#64,
   0#64, 0#64, 0#64, 0#64, 0xFFFFFFFFFFFFFFFF#64, 0#64, 0#64, 0#64, 0#64, 0#64, 0#64, 0#64]

/-- `long.len + 4096` overflows inside the select support: the checked build panics, the wrapping build ACCEPTS a
bitvector whose select support has a long array of `2^64 − 1` elements over no data, the model and the translation over
the model's option loaders refuse -/
theorem bv_load_full_ne_select :
    gen_BitVector_load_full .checked l4_cexSel = fault (.panic .overflow) ∧
    gen_BitVector_load_full .wrapping l4_cexSel =
      ok ({ ones := 0, data := ⟨0, #[]⟩,
            select := some ⟨⟨0, 0, ⟨0, #[]⟩⟩, ⟨18446744073709551615, 0, ⟨0, #[]⟩⟩, ⟨0, 0, ⟨0, #[]⟩⟩⟩ }, []) ∧
    gen_BitVector_load .checked l4_cexSel = fault (.err .invalid) ∧
    gen_BitVector_load .wrapping l4_cexSel = fault (.err .invalid) ∧
    bitVectorC.load l4_cexSel = fault (.err .invalid) := by
  decide +kernel

theorem bv_load_full_ne_select_zero :
    gen_BitVector_load_full .checked l4_cexSelZero = fault (.panic .overflow) ∧
    gen_BitVector_load_full .wrapping l4_cexSelZero =
      ok ({ ones := 0, data := ⟨0, #[]⟩,
            selectZero := some ⟨⟨0, 0, ⟨0, #[]⟩⟩, ⟨18446744073709551615, 0, ⟨0, #[]⟩⟩, ⟨0, 0, ⟨0, #[]⟩⟩⟩ }, []) ∧
    gen_BitVector_load .checked l4_cexSelZero = fault (.err .invalid) ∧
    gen_BitVector_load .wrapping l4_cexSelZero = fault (.err .invalid) ∧
    bitVectorC.load l4_cexSelZero = fault (.err .invalid) := by
  decide +kernel

theorem l4_BvRawOk_zero (w : Word) (tl : Elems) : BvRawOk (w :: 0#64 :: tl) := by
  intro ones r h1
  rw [usizeC_cons] at h1
  injection h1 with h1; injection h1 with _ h1
  subst h1
  intro len r' data r'' h2 _
  rw [usizeC_cons] at h2
  injection h2 with h2; injection h2 with h2 _
  rw [← h2, U64_eq]
  decide

theorem bv_full_cex_BvOk : BvOk l4_cexSel ∧ BvOk l4_cexSelZero :=
  ⟨BvOk_of_length (by decide) (l4_BvRawOk_zero _ _), BvOk_of_length (by decide) (l4_BvRawOk_zero _ _)⟩

theorem bv_load_full_ne_of_BvOk :
    ¬ (∀ m es, BvOk es → gen_BitVector_load_full m es = bitVectorC.load es) ∧
    ¬ (∀ m es, BvOk es → gen_BitVector_load_full m es = gen_BitVector_load m es) := by
  refine ⟨fun h => ?_, fun h => ?_⟩
  · have e := h .checked l4_cexSel bv_full_cex_BvOk.1
    rw [bv_load_full_ne_select.1, bv_load_full_ne_select.2.2.2.2] at e
    exact absurd e (by decide)
  · have e := h .checked l4_cexSel bv_full_cex_BvOk.1
    rw [bv_load_full_ne_select.1, bv_load_full_ne_select.2.2.1] at e
    exact absurd e (by decide)

end Sds.GenEq
