/-
Proofs/IterBridge: the iterator `OneIter<T>` of `bit_vector.rs` IS the list of its items.

The constructors that consume an iterator (`SelectSupport::new`, `SampleIndex::new`) are translated with the iterator
modelled as the LIST of its remaining items: `next()` is `(head?, tail)` (`listNext`), `nth(k)` is
`((drop k).head?, drop (k + 1))` (`listNth`); the proven equations (`select_support_new_positions`) are stated for the
list `enumerate (positionsT tr v)`.  This file discharges the modelling step "that list is what the real iterator
yields" by theorems about the TRANSLATED iterator methods `gen_OneIter_next` / `gen_OneIter_nth` (Generated/FnsLoop)
started from the state built by the TRANSLATED `one_iter` / `zero_iter` (Generated/FnsBv):

* `Sim tr b it l`: the state `it` (untouched back end, `limit = (count, len)`) stands for the list
  `l = (enumerate (positionsT tr b.data)).drop it.next.1`; the position cursor `it.next.2` is `≤ len` and has exactly
  `it.next.1` set bits of the transformed vector strictly before it (equivalently, `IterProofs.rank_eq_iff_sandwich`:
  it lies strictly after item `next.1 - 1` and at or before item `next.1`).
* `sim_full` / `sim_one_iter` / `sim_zero_iter`: the initial state satisfies `Sim` with the whole list.
* `sim_next` / `sim_nth`: one call of the model iterator = one call on the list, `Sim` preserved, no fault in either
  arithmetic mode, EVERY `n : Nat` for `nth`.  `gen_next_sim` / `gen_nth_sim`: the same for the translated functions.
* `genRun_sim`, `iter_is_its_list`, `one_iter_is_its_list`, `zero_iter_is_its_list`: every finite sequence of
  `next` / `nth k` calls gives the same outputs on the translated iterator and on the list.
* `select_support_new_via_iter`: `SelectSupport::new` run on ANY list that simulates the freshly built iterator is
  `SelSup.build` of the positions.

Hypotheses (`Good b`): the raw vector is well formed, `len < 2^64`, the cached `ones` is the number of set bits.
Each is needed for the statement as given or is a representation bound: `sim_next_ne_ones` (wrong cached count: the
iterator stops early), `sim_next_ne_wf` (buffer shorter than `len`: out-of-bounds read).
-/
import Sds.Proofs.Iter
import Sds.Proofs.GenEqLoop2
import Sds.Proofs.GenEqConstr2
import Sds.Proofs.GenEqBv

namespace Sds.GenEq
open Sds Outcome Generated
open Sds.IterProofs

/-! ### the list iterator -/

/-- `Iterator::next` on the list of remaining items (what the translated constructors use) -/
def listNext {α} (l : List α) : Option α × List α := (l.head?, l.tail)

/-- `Iterator::nth` on the list of remaining items -/
def listNth {α} (l : List α) (k : Nat) : Option α × List α := ((l.drop k).head?, l.drop (k + 1))

/-- the standing hypotheses on the bitvector: well-formed buffer, `len` a `usize`, correct cached count -/
structure Good (b : BitVector) : Prop where
  wf : b.data.WF
  len : b.data.len < 2 ^ 64
  ones : b.ones = b.data.bits.count true

theorem Good.ctx {b : BitVector} (g : Good b) : Ctx b b.data := ⟨g.wf, g.len, rfl, g.ones⟩

theorem Good.size_lt {b : BitVector} (g : Good b) : b.data.data.size < U64 := by
  have h1 := g.wf.1
  have h2 := g.len
  rw [U64_eq]; omega

/-- `OneIter<T>` state vs. list of remaining items -/
structure Sim (tr : Tr) (b : BitVector) (it : OneIterSt) (l : List (Nat × Nat)) : Prop where
  /-- the back end has not been touched -/
  limit : it.limit = (b.countT tr, b.len)
  /-- the rank cursor is at most the number of items -/
  rank_le : it.next.1 ≤ (positionsT tr b.data).size
  /-- the position cursor is inside the vector -/
  pos_le : it.next.2 ≤ b.data.len
  /-- exactly `next.1` items lie strictly before the position cursor -/
  pos_rank : rankSpec (bitsT tr b.data.bits) it.next.2 = it.next.1
  /-- the list is what remains after `next.1` items -/
  list : l = (enumerate (positionsT tr b.data)).drop it.next.1

theorem positionsT_size_eq (tr : Tr) (v : RawVec) : (positionsT tr v).size = (onesPos (bitsT tr v.bits)).length := by
  rw [← Array.length_toList, positionsT_toList]

theorem positionsT_getD (tr : Tr) (v : RawVec) {r p : Nat} (h : (onesPos (bitsT tr v.bits))[r]? = some p) :
    (positionsT tr v)[r]?.getD 0 = p := by
  rw [← positionsT_toList, Array.getElem?_toList] at h
  rw [h]; rfl

theorem onesPos_length_le (tr : Tr) (v : RawVec) : (onesPos (bitsT tr v.bits)).length ≤ v.len := by
  rw [P_length]; exact cnt_le _ _

/-- `Sim` gives the relation `Rel` of Proofs/Iter with `R` = the number of items -/
theorem Sim.toRel {tr : Tr} {b : BitVector} {it : OneIterSt} {l : List (Nat × Nat)} (g : Good b)
    (h : Sim tr b it l) : Rel tr b.data it it.next.1 (onesPos (bitsT tr b.data.bits)).length := by
  obtain ⟨h1, h2, h3, h4, _⟩ := h
  rw [positionsT_size_eq] at h2
  refine ⟨rfl, ?_, h2, Nat.le_refl _, h4, ?_, h3, ?_⟩
  · rw [h1]; exact countT_eq_len g.ctx tr
  · rw [h1]; exact rank_len tr b.data
  · rw [h1]; exact Nat.le_refl _

/-- and back -/
theorem Sim.ofRel {tr : Tr} {b : BitVector} {it : OneIterSt} {r : Nat}
    (hrel : Rel tr b.data it r (onesPos (bitsT tr b.data.bits)).length) (hl : it.limit = (b.countT tr, b.len)) :
    Sim tr b it ((enumerate (positionsT tr b.data)).drop r) := by
  obtain ⟨h1, _, h3, _, h5, _, h7, _⟩ := hrel
  refine ⟨hl, ?_, h7, ?_, ?_⟩
  · rw [positionsT_size_eq, h1]; exact h3
  · rw [h1]; exact h5
  · rw [h1]

/-! ### the initial state -/

/-- the state `(0, 0), (count, len)` stands for the whole list -/
theorem sim_full {b : BitVector} (g : Good b) (tr : Tr) :
    Sim tr b (OneIterSt.full tr b) (enumerate (positionsT tr b.data)) :=
  Sim.ofRel (r := 0) (Rel_full g.ctx tr) rfl

/-- `one_iter` as translated -/
theorem sim_one_iter {b : BitVector} (g : Good b) (m : Mode) :
    ∃ it, gen_BitVector_one_iter m b = ok it ∧ Sim .ident b it (enumerate (positionsT .ident b.data)) :=
  ⟨_, bv_one_iter_eq m b, sim_full g .ident⟩

/-- `zero_iter` as translated -/
theorem sim_zero_iter {b : BitVector} (g : Good b) (m : Mode) :
    ∃ it, gen_BitVector_zero_iter m b = ok it ∧ Sim .compl b it (enumerate (positionsT .compl b.data)) :=
  ⟨_, bv_zero_iter_eq m b, sim_full g .compl⟩

/-! ### the steps of the model iterator -/

/-- **`next`**: the item is the head of the list, the new state stands for the tail -/
theorem sim_next {b : BitVector} (g : Good b) (tr : Tr) (m : Mode) {it : OneIterSt} {l : List (Nat × Nat)}
    (h : Sim tr b it l) :
    ∃ it', OneIterSt.nextQ tr m b it = ok ((listNext l).1, it') ∧ Sim tr b it' (listNext l).2 := by
  have hrel := h.toRel g
  have hlist := h.list
  have hsz := positionsT_size_eq tr b.data
  by_cases hr : it.next.1 < (onesPos (bitsT tr b.data.bits)).length
  · obtain ⟨p, hp1, hp2, hp3⟩ := nextQ_some g.ctx tr m hrel hr
    refine ⟨{ it with next := (it.next.1 + 1, p + 1) }, ?_, ?_⟩
    · rw [hp2, hlist]
      simp only [listNext, List.head?_drop]
      rw [enumerate_lt (positionsT tr b.data) (show it.next.1 < _ by omega), positionsT_getD tr _ hp1]
    · have := Sim.ofRel hp3 h.limit
      rw [hlist]
      simpa only [listNext, List.tail_drop] using this
  · have hnil : l = [] := by
      rw [hlist]; exact List.drop_eq_nil_of_le (by rw [enumerate_length]; omega)
    refine ⟨it, ?_, ?_⟩
    · rw [nextQ_none tr m b it (by rw [hrel.limit_rank]; omega), hnil]; rfl
    · rw [hnil]; rw [hnil] at h; exact h

/-- **`nth(n)`**, every `n : Nat`: the item is `(drop n).head?`, the new state stands for `drop (n + 1)` -/
theorem sim_nth {b : BitVector} (g : Good b) (tr : Tr) (m : Mode) {it : OneIterSt} {l : List (Nat × Nat)}
    (h : Sim tr b it l) (n : Nat) :
    ∃ it', OneIterSt.nthQ tr m b it n = ok ((listNth l n).1, it') ∧ Sim tr b it' (listNth l n).2 := by
  have hrel := h.toRel g
  have hlist := h.list
  have hsz := positionsT_size_eq tr b.data
  by_cases hr : it.next.1 + n < (onesPos (bitsT tr b.data.bits)).length
  · obtain ⟨p, hp1, hp2, hp3⟩ := nthQ_some g.ctx tr m hrel n hr
    refine ⟨{ it with next := (it.next.1 + n + 1, p + 1) }, ?_, ?_⟩
    · rw [hp2, hlist]
      simp only [listNth, List.drop_drop, List.head?_drop]
      rw [enumerate_lt (positionsT tr b.data) (show it.next.1 + n < _ by omega), positionsT_getD tr _ hp1]
    · have := Sim.ofRel hp3 h.limit
      rw [hlist]
      simpa only [listNth, List.drop_drop, Nat.add_assoc] using this
  · obtain ⟨hp2, hp3⟩ := nthQ_none (b := b) tr m hrel n (by omega)
    have hlen := enumerate_length (positionsT tr b.data)
    refine ⟨{ it with next := it.limit }, ?_, ?_⟩
    · rw [hp2, hlist]
      simp only [listNth, List.drop_drop, List.head?_drop, enumerate_ge (positionsT tr b.data) (show _ ≤ it.next.1 + n by omega)]
    · have := Sim.ofRel hp3 h.limit
      rw [hlist]
      simp only [listNth, List.drop_drop]
      rw [List.drop_eq_nil_of_le (by omega)]
      rw [List.drop_eq_nil_of_le (by omega)] at this
      exact this

/-! ### the steps of the TRANSLATED iterator -/

theorem Sim.limit_le {tr : Tr} {b : BitVector} {it : OneIterSt} {l : List (Nat × Nat)} (g : Good b)
    (h : Sim tr b it l) : it.limit.1 ≤ U64 := by
  have h1 := (h.toRel g).limit_rank
  have h2 := onesPos_length_le tr b.data
  have h3 := g.len
  rw [U64_eq]; omega

/-- `OneIter::next` as translated from the source -/
theorem gen_next_sim {b : BitVector} (g : Good b) (tr : Tr) (m : Mode) {it : OneIterSt} {l : List (Nat × Nat)}
    (h : Sim tr b it l) :
    ∃ it', gen_OneIter_next m tr b.data it = ok ((listNext l).1, it') ∧ Sim tr b it' (listNext l).2 := by
  rw [one_next_eq m tr b it g.size_lt]
  exact sim_next g tr m h

/-- `OneIter::nth` as translated from the source -/
theorem gen_nth_sim {b : BitVector} (g : Good b) (tr : Tr) (m : Mode) {it : OneIterSt} {l : List (Nat × Nat)}
    (h : Sim tr b it l) (n : Nat) :
    ∃ it', gen_OneIter_nth m tr b.data it n = ok ((listNth l n).1, it') ∧ Sim tr b it' (listNth l n).2 := by
  rw [one_nth_eq m tr b it n g.size_lt (h.limit_le g)]
  exact sim_nth g tr m h n

/-! ### every finite sequence of forward calls -/

/-- the forward call alphabet of `Iterator` used by the constructors -/
inductive FCall | next | nth (k : Nat)
  deriving DecidableEq, Repr

/-- one call on the list -/
def listStep {α} (l : List α) : FCall → Option α × List α
  | .next => listNext l
  | .nth k => listNth l k

/-- a sequence of calls on the list: the outputs and what is left -/
def listRun {α} : List α → List FCall → List (Option α) × List α
  | l, [] => ([], l)
  | l, c :: cs => let r := listStep l c; let q := listRun r.2 cs; (r.1 :: q.1, q.2)

/-- one call of the translated iterator -/
def iterGenStep (m : Mode) (tr : Tr) (data : RawVec) (it : OneIterSt) : FCall → Outcome (Option (Nat × Nat) × OneIterSt)
  | .next => gen_OneIter_next m tr data it
  | .nth k => gen_OneIter_nth m tr data it k

/-- a sequence of calls of the translated iterator: the outputs and the final state -/
def iterGenRun (m : Mode) (tr : Tr) (data : RawVec) : OneIterSt → List FCall →
    Outcome (List (Option (Nat × Nat)) × OneIterSt)
  | it, [] => ok ([], it)
  | it, c :: cs => do
    let r ← iterGenStep m tr data it c
    let q ← iterGenRun m tr data r.2 cs
    return (r.1 :: q.1, q.2)

theorem genStep_sim {b : BitVector} (g : Good b) (tr : Tr) (m : Mode) {it : OneIterSt} {l : List (Nat × Nat)}
    (h : Sim tr b it l) (c : FCall) :
    ∃ it', iterGenStep m tr b.data it c = ok ((listStep l c).1, it') ∧ Sim tr b it' (listStep l c).2 := by
  cases c with
  | next => exact gen_next_sim g tr m h
  | nth k => exact gen_nth_sim g tr m h k

/-- **Every finite sequence of `next` / `nth k` calls** on a state that stands for the list `l`: the translated
iterator does not fault (either arithmetic mode), returns the outputs of the list iterator, and ends in a state that
stands for the list that is left. -/
theorem genRun_sim {b : BitVector} (g : Good b) (tr : Tr) (m : Mode) (calls : List FCall) :
    ∀ {it : OneIterSt} {l : List (Nat × Nat)}, Sim tr b it l →
      ∃ it', iterGenRun m tr b.data it calls = ok ((listRun l calls).1, it') ∧ Sim tr b it' (listRun l calls).2 := by
  induction calls with
  | nil => intro it l h; exact ⟨it, rfl, h⟩
  | cons c cs ih =>
    intro it l h
    obtain ⟨it1, h1, h2⟩ := genStep_sim g tr m h c
    obtain ⟨it2, h3, h4⟩ := ih h2
    refine ⟨it2, ?_, h4⟩
    unfold iterGenRun
    rw [h1]
    simp only [bind_ok]
    rw [h3]
    rfl

/-- the freshly built iterator (`T::one_iter(parent)`), either transformation -/
theorem iter_is_its_list {b : BitVector} (g : Good b) (tr : Tr) (m : Mode) (calls : List FCall) :
    ∃ it', iterGenRun m tr b.data (OneIterSt.full tr b) calls =
        ok ((listRun (enumerate (positionsT tr b.data)) calls).1, it') ∧
      Sim tr b it' (listRun (enumerate (positionsT tr b.data)) calls).2 :=
  genRun_sim g tr m calls (sim_full g tr)

/-- **`one_iter` is its list**: build the iterator with the translated `one_iter`, run any sequence of `next` /
`nth k` with the translated methods: the outputs are those of the list `enumerate (positionsT .ident b.data)`. -/
theorem one_iter_is_its_list {b : BitVector} (g : Good b) (m : Mode) (calls : List FCall) :
    (do let it ← gen_BitVector_one_iter m b
        let r ← iterGenRun m .ident b.data it calls
        return r.1) = ok (listRun (enumerate (positionsT .ident b.data)) calls).1 := by
  obtain ⟨it', h1, _⟩ := iter_is_its_list g .ident m calls
  rw [bv_one_iter_eq]
  simp only [bind_ok]
  rw [h1]; rfl

/-- **`zero_iter` is its list** -/
theorem zero_iter_is_its_list {b : BitVector} (g : Good b) (m : Mode) (calls : List FCall) :
    (do let it ← gen_BitVector_zero_iter m b
        let r ← iterGenRun m .compl b.data it calls
        return r.1) = ok (listRun (enumerate (positionsT .compl b.data)) calls).1 := by
  obtain ⟨it', h1, _⟩ := iter_is_its_list g .compl m calls
  rw [bv_zero_iter_eq]
  simp only [bind_ok]
  rw [h1]; rfl

/-! ### the consumer: `SelectSupport::new` on whatever simulates the fresh iterator -/

/-- a list that simulates the fresh iterator is the list of the proven equation -/
theorem sim_full_unique {b : BitVector} (tr : Tr) {l : List (Nat × Nat)} (h : Sim tr b (OneIterSt.full tr b) l) :
    l = enumerate (positionsT tr b.data) := by
  have := h.list
  simpa [OneIterSt.full] using this

/-- `SelectSupport::new(parent)` as translated: `parent.len()`, `T::count_ones(parent)`, `T::one_iter(parent)` -/
theorem select_support_new_via_iter {b : BitVector} (g : Good b) (tr : Tr) (m : Mode)
    (hlen : b.data.len * 64 + 127 < U64) {l : List (Nat × Nat)} (h : Sim tr b (OneIterSt.full tr b) l) :
    gen_SelectSupport_new m b.len (b.countT tr) l = ok (SelSup.build b.len (positionsT tr b.data)) := by
  rw [sim_full_unique tr h, countT_eq_len g.ctx tr, ← positionsT_size_eq]
  exact select_support_new_positions m tr b.data hlen

/-! ### the hypotheses are needed -/

/-- wrong cached count (`ones = 0` over the bits `[1]`): the iterator stops at once, the list has an item -/
theorem sim_next_ne_ones :
    let b : BitVector := { ones := 0, data := RawVec.ofBits [true] }
    b.data.WF ∧ b.data.len < 2 ^ 64 ∧
    gen_OneIter_next .checked .ident b.data (OneIterSt.full .ident b) = ok (none, OneIterSt.full .ident b) ∧
    (listNext (enumerate (positionsT .ident b.data))).1 = some (0, 0) := by decide

/-- buffer shorter than `len` (no word for one bit), count as `count_ones` would compute it from `len` zeros under the
complement: the unchecked word read is out of bounds -/
theorem sim_next_ne_wf :
    let b : BitVector := { ones := 0, data := ⟨1, #[]⟩ }
    b.ones = b.data.bits.count true ∧ b.data.len < 2 ^ 64 ∧
    gen_OneIter_next .checked .compl b.data (OneIterSt.full .compl b) = fault .oob ∧
    (listNext (enumerate (positionsT .compl b.data))).1 = some (0, 0) := by decide

end Sds.GenEq
