/-
Proofs/Bits: helper lemmas about masks and the bit-level effect of read_int / write_int.
-/
import Sds.Model.Bits
set_option linter.unusedSimpArgs false
set_option linter.unusedVariables false

namespace Sds
open Outcome

theorem lowSet_getLsbD (n i : Nat) (hi : i < 64) : (lowSet n).getLsbD i = decide (i < n) := by
  unfold lowSet
  rw [BitVec.getLsbD_ofNat, Nat.testBit_two_pow_sub_one]
  simp [hi]

theorem highSet_getLsbD (n i : Nat) (hi : i < 64) : (highSet n).getLsbD i = decide (64 - n ≤ i) := by
  unfold highSet
  rw [BitVec.getLsbD_not, lowSet_getLsbD _ _ hi]
  by_cases h : 64 - n ≤ i
  · have : ¬ (i < 64 - n) := by omega
    simp [hi, h, this]
  · have : i < 64 - n := by omega
    simp [hi, h, this]

@[simp] theorem lowSet_getElem (n i : Nat) (hi : i < 64) : (lowSet n)[i] = decide (i < n) := by
  rw [← BitVec.getLsbD_eq_getElem]; exact lowSet_getLsbD n i hi

@[simp] theorem highSet_getElem (n i : Nat) (hi : i < 64) : (highSet n)[i] = decide (64 - n ≤ i) := by
  rw [← BitVec.getLsbD_eq_getElem]; exact highSet_getLsbD n i hi

theorem getLsbD_ge64 (w : Word) (i : Nat) (h : 64 ≤ i) : w.getLsbD i = false :=
  BitVec.getLsbD_of_ge _ _ h

/-- Bit-level effect of `write_int`: inside the field the written value, everything else unchanged;
both the one-word and the two-word branch, every offset, every width 1..64, any background. -/
theorem getBit_writeInt (a : Array Word) (off : Nat) (v : Word) (w : Nat) (hw : 1 ≤ w) (hw' : w ≤ 64)
    (hidx : (off + w - 1) / 64 < a.size) (j : Nat) :
    getBit (writeInt a off v w) j =
      if off ≤ j ∧ j < off + w then v.getLsbD (j - off) else getBit a j := by
  have hdiv : off / 64 < a.size := by
    have : off / 64 ≤ (off + w - 1) / 64 := Nat.div_le_div_right (by omega)
    omega
  have hm := Nat.div_add_mod off 64
  have hml := Nat.mod_lt off (show 64 > 0 by decide)
  have hj := Nat.div_add_mod j 64
  have hjl := Nat.mod_lt j (show 64 > 0 by decide)
  unfold writeInt getBit
  simp only []
  split
  · -- single word
    rename_i h1
    rw [rd_set _ _ _ _ hdiv]
    by_cases hjw : j / 64 = off / 64
    · simp only [hjw, if_true, BitVec.getLsbD_or, BitVec.getLsbD_and, BitVec.getLsbD_shiftLeft,
        lowSet_getLsbD _ _ hjl, highSet_getLsbD _ _ hjl]
      by_cases hin : off ≤ j ∧ j < off + w
      · have e : j % 64 - off % 64 = j - off := by omega
        have h2 : ¬ (j % 64 < off % 64) := by omega
        have h3 : j - off < w := by omega
        have h4 : j - off < 64 := by omega
        simp [hin, hjl, h2, e, lowSet_getLsbD _ _ h4, h3]
        omega
      · simp only [hin, if_false]
        by_cases h5 : j % 64 < off % 64
        · simp [h5, hjl]
        · have h6 : 64 - (64 - w - off % 64) ≤ j % 64 := by omega
          have h7 : ¬ (j % 64 - off % 64 < w) := by omega
          have h8 : j % 64 - off % 64 < 64 := by omega
          simp [h5, h6, hjl, lowSet_getLsbD _ _ h8, h7]
    · have hin : ¬ (off ≤ j ∧ j < off + w) := by omega
      simp [hin, hjw]
  · -- two words
    rename_i h1
    have h1' : 64 < off % 64 + w := by omega
    have hidx1 : off / 64 + 1 < a.size := by
      have : (off + w - 1) / 64 = off / 64 + 1 := by omega
      omega
    rw [rd_set _ _ _ _ (by simpa using hidx1), rd_set _ _ _ _ hdiv, rd_set _ _ _ _ hdiv]
    have hne : off / 64 + 1 ≠ off / 64 := by omega
    simp only [hne, if_false]
    by_cases hjw : j / 64 = off / 64
    · -- first word
      have hne' : j / 64 ≠ off / 64 + 1 := by omega
      simp only [hne', hjw, if_true, if_false, BitVec.getLsbD_or, BitVec.getLsbD_and, BitVec.getLsbD_shiftLeft,
        lowSet_getLsbD _ _ hjl]
      by_cases h5 : j % 64 < off % 64
      · have hin : ¬ (off ≤ j ∧ j < off + w) := by omega
        simp [hin, h5, hjl]
      · have hin : off ≤ j ∧ j < off + w := by omega
        have e : j % 64 - off % 64 = j - off := by omega
        have h3 : j - off < w := by omega
        have h4 : j - off < 64 := by omega
        simp [hin, h5, hjl, e, lowSet_getLsbD _ _ h4, h3]
        exact (BitVec.getLsbD_eq_getElem h4).symm
    · by_cases hjw1 : j / 64 = off / 64 + 1
      · -- second word
        simp only [hjw1, if_true, BitVec.getLsbD_or, BitVec.getLsbD_and, BitVec.getLsbD_ushiftRight,
          highSet_getLsbD _ _ hjl]
        by_cases hin : off ≤ j ∧ j < off + w
        · have e : 64 - off % 64 + j % 64 = j - off := by omega
          have h3 : j - off < w := by omega
          have h4 : j - off < 64 := by omega
          have h6 : ¬ (64 - (128 - w - off % 64) ≤ j % 64) := by omega
          simp [hin, e, lowSet_getLsbD _ _ h4, h3, h6]
        · have h6 : 64 - (128 - w - off % 64) ≤ j % 64 := by omega
          have h7 : 64 ≤ 64 - off % 64 + j % 64 ∨ w ≤ 64 - off % 64 + j % 64 := by omega
          simp only [hin, if_false]
          have : ((v &&& lowSet w).getLsbD (64 - off % 64 + j % 64)) = false := by
            rcases h7 with h7 | h7
            · exact BitVec.getLsbD_of_ge _ _ h7
            · by_cases h9 : 64 - off % 64 + j % 64 < 64
              · simp [BitVec.getLsbD_and, lowSet_getLsbD _ _ h9]; omega
              · exact BitVec.getLsbD_of_ge _ _ (by omega)
          rw [BitVec.getLsbD_and] at this
          simp only [h6, decide_true, Bool.and_true, BitVec.getLsbD_and, this, Bool.or_false]
      · have hin : ¬ (off ≤ j ∧ j < off + w) := by omega
        simp [hin, hjw, hjw1]

/-- `write_int` keeps the number of words. -/
theorem size_writeInt (a : Array Word) (off : Nat) (v : Word) (w : Nat) :
    (writeInt a off v w).size = a.size := by
  unfold writeInt; simp only []; split <;> simp

/-- Bit-level meaning of `read_int`: bit `i` of the result is bit `off + i` of the array for `i < w`,
and zero above the width; both branches. -/
theorem getLsbD_readInt (a : Array Word) (off w : Nat) (hw : 1 ≤ w) (hw' : w ≤ 64) (i : Nat) :
    (readInt a off w).getLsbD i = (decide (i < w) && getBit a (off + i)) := by
  have hm := Nat.div_add_mod off 64
  have hml := Nat.mod_lt off (show 64 > 0 by decide)
  by_cases hi : i < 64
  · unfold readInt getBit
    simp only []
    split
    · rename_i h1
      simp only [BitVec.getLsbD_and, BitVec.getLsbD_ushiftRight, lowSet_getLsbD _ _ hi]
      by_cases hiw : i < w
      · have e1 : (off + i) / 64 = off / 64 := by omega
        have e2 : (off + i) % 64 = off % 64 + i := by omega
        simp [hiw, e1, e2]
      · simp [hiw]
    · rename_i h1
      have hmod : (off % 64 + w) % 64 = off % 64 + w - 64 := by omega
      simp only [BitVec.getLsbD_or, BitVec.getLsbD_and, BitVec.getLsbD_ushiftRight,
        BitVec.getLsbD_shiftLeft, hmod]
      by_cases hlo : off % 64 + i < 64
      · -- the bit comes from the first word
        have e1 : (off + i) / 64 = off / 64 := by omega
        have e2 : (off + i) % 64 = off % 64 + i := by omega
        have hiw : i < w := by omega
        have h3 : i < 64 - off % 64 := by omega
        simp [hi, hiw, e1, e2, h3]
      · -- the bit comes from the second word (or is above the width)
        have e1 : (off + i) / 64 = off / 64 + 1 := by omega
        have e2 : (off + i) % 64 = i - (64 - off % 64) := by omega
        have h3 : ¬ (i < 64 - off % 64) := by omega
        have h4 : (rd a (off / 64)).getLsbD (off % 64 + i) = false := BitVec.getLsbD_of_ge _ _ (by omega)
        have h5 : i - (64 - off % 64) < 64 := by omega
        simp only [h4, Bool.false_or, hi, decide_true, Bool.true_and, h3, decide_false, Bool.not_false,
          lowSet_getLsbD _ _ h5, e1, e2]
        by_cases hiw : i < w
        · have : i - (64 - off % 64) < off % 64 + w - 64 := by omega
          simp [hiw, this]
        · have : ¬ (i - (64 - off % 64) < off % 64 + w - 64) := by omega
          simp [hiw, this]
  · have : 64 ≤ i := by omega
    rw [BitVec.getLsbD_of_ge _ _ this]
    have : ¬ (i < w) := by omega
    simp [this]

/-- Read-after-write: the value truncated to the width, at every offset and width. -/
theorem readInt_writeInt (a : Array Word) (off : Nat) (v : Word) (w : Nat) (hw : 1 ≤ w) (hw' : w ≤ 64)
    (hidx : (off + w - 1) / 64 < a.size) :
    readInt (writeInt a off v w) off w = v &&& lowSet w := by
  apply BitVec.eq_of_getLsbD_eq
  intro i hi
  rw [getLsbD_readInt _ _ _ hw hw', getBit_writeInt _ _ _ _ hw hw' hidx, BitVec.getLsbD_and,
    lowSet_getLsbD _ _ hi]
  by_cases hiw : i < w
  · have : off ≤ off + i ∧ off + i < off + w := by omega
    simp [hiw, this]
  · simp [hiw]

/-- Reading a field that does not overlap the written one is unaffected. -/
theorem readInt_writeInt_disjoint (a : Array Word) (off off' : Nat) (v : Word) (w w' : Nat)
    (hw : 1 ≤ w) (hw' : w ≤ 64) (hv : 1 ≤ w') (hv' : w' ≤ 64)
    (hidx : (off + w - 1) / 64 < a.size) (hdis : off' + w' ≤ off ∨ off + w ≤ off') :
    readInt (writeInt a off v w) off' w' = readInt a off' w' := by
  apply BitVec.eq_of_getLsbD_eq
  intro i _
  rw [getLsbD_readInt _ _ _ hv hv', getLsbD_readInt _ _ _ hv hv',
    getBit_writeInt _ _ _ _ hw hw' hidx]
  by_cases hiw : i < w'
  · have : ¬ (off ≤ off' + i ∧ off' + i < off + w) := by omega
    simp [this]
  · simp [hiw]

end Sds
