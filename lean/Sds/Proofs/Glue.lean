/-
Proofs/Glue: the few small connecting lemmas the property files (Props/C01, C05, C08, C09, C10) need and
that no proof file states in exactly this form.  Nothing here is a property theorem.
-/
import Sds.Proofs.Rank
import Sds.Proofs.Select
import Sds.Proofs.Iter
import Sds.Proofs.RawVec
import Sds.Model.Mapper

namespace Sds.Glue
open Sds Outcome

/-! ### counting unset bits -/

theorem count_true_map_not (l : List Bool) : (l.map not).count true = l.count false := by
  induction l with
  | nil => rfl
  | cons a t ih => cases a <;> simp [ih]

theorem count_false_eq (l : List Bool) : l.count false = l.length - l.count true := by
  rw [← count_true_map_not, Sds.count_true_map_not]

/-! ### the third construction route: `with_len(len, false)` then `set_bit(i, true)` for every one -/

theorem mem_onesPos (B : List Bool) (j : Nat) : j ∈ onesPos B ↔ B[j]? = some true := by
  constructor
  · intro h
    obtain ⟨r, hr⟩ := List.getElem?_of_mem h
    rw [← selectSpec_eq_onesPos] at hr
    exact ((selectBits_spec_sel B r j).mp hr).2.1
  · intro h
    have hj : j < B.length := by
      rcases Nat.lt_or_ge j B.length with h' | h'
      · exact h'
      · rw [List.getElem?_eq_none h'] at h; cases h
    have : selectBits B ((B.take j).count true) = some j := (selectBits_spec_sel B _ j).mpr ⟨hj, h, rfl⟩
    have h2 : (onesPos B)[(B.take j).count true]? = some j := by
      rw [← selectSpec_eq_onesPos]; exact this
    exact List.mem_of_getElem? h2

theorem foldl_setBit (L : List Nat) : ∀ (v : RawVec), v.WF → (∀ i ∈ L, i < v.len) →
    (L.foldl (fun v i => v.setBit i true) v).WF ∧ (L.foldl (fun v i => v.setBit i true) v).len = v.len ∧
    ∀ j, getBit (L.foldl (fun v i => v.setBit i true) v).data j = (getBit v.data j || decide (j ∈ L)) := by
  induction L with
  | nil => intro v hv _; exact ⟨hv, rfl, fun j => by simp⟩
  | cons a t ih =>
    intro v hv hL
    have ha : a < v.len := hL a (List.mem_cons_self ..)
    have hv1 := RawVec.setBit_WF hv a ha true
    have hl1 : (v.setBit a true).len = v.len := RawVec.len_setBit v a true
    obtain ⟨h1, h2, h3⟩ := ih (v.setBit a true) hv1 (fun i hi => by
      rw [hl1]; exact hL i (List.mem_cons_of_mem _ hi))
    refine ⟨h1, by rw [List.foldl_cons, h2, hl1], ?_⟩
    intro j
    rw [List.foldl_cons, h3 j, RawVec.getBit_setBit hv a ha true j]
    by_cases hja : j = a
    · subst hja; simp
    · simp [hja]

/-- `copy_bit_vec`: the vector made by `with_len(|B|, false)` and one `set_bit` per set position is well formed
and holds exactly `B` -/
theorem copyBits_spec (B : List Bool) :
    ((onesPos B).foldl (fun v i => v.setBit i true) (RawVec.withLen B.length false)).WF ∧
    ((onesPos B).foldl (fun v i => v.setBit i true) (RawVec.withLen B.length false)).bits = B := by
  have hlen0 : (RawVec.withLen B.length false).len = B.length := RawVec.len_withLen _ _
  have hwf0 := RawVec.withLen_WF B.length false
  have hmem : ∀ i ∈ onesPos B, i < (RawVec.withLen B.length false).len := by
    intro i hi
    rw [hlen0]
    have := (mem_onesPos B i).mp hi
    rcases Nat.lt_or_ge i B.length with h' | h'
    · exact h'
    · rw [List.getElem?_eq_none h'] at this; cases this
  obtain ⟨h1, h2, h3⟩ := foldl_setBit (onesPos B) _ hwf0 hmem
  refine ⟨h1, ?_⟩
  rw [RawVec.bits_eq_iff]
  refine ⟨by rw [h2, hlen0], ?_⟩
  intro i hi
  rw [h2, hlen0] at hi
  rw [h3 i]
  have h0 : getBit (RawVec.withLen B.length false).data i = false := by
    have hb := RawVec.bits_withLen B.length false
    have hg := RawVec.bits_getElem? (RawVec.withLen B.length false) i
    rw [hb, hlen0, if_pos hi] at hg
    rw [List.getElem?_replicate, if_pos hi] at hg
    exact (Option.some.inj hg).symm
  rw [h0, Bool.false_or]
  rw [List.getElem?_eq_getElem hi]
  congr 1
  cases hb : B[i] with
  | true =>
    have : i ∈ onesPos B := (mem_onesPos B i).mpr (by rw [List.getElem?_eq_getElem hi, hb])
    simp [this]
  | false =>
    have : ¬ i ∈ onesPos B := by
      intro hc
      have := (mem_onesPos B i).mp hc
      rw [List.getElem?_eq_getElem hi, hb] at this
      cases this
    simp [this]

/-! ### `oob` is not among the faults of mode-checked arithmetic, checked file reads and their sequencing -/

theorem addM_not_oob (m : Mode) (a b : Nat) : addM m a b ≠ fault .oob := by
  unfold addM; split
  · intro h; cases h
  · cases m <;> (intro h; cases h)

theorem subM_not_oob (m : Mode) (a b : Nat) : subM m a b ≠ fault .oob := by
  unfold subM; split
  · intro h; cases h
  · cases m <;> (intro h; cases h)

theorem mulM_not_oob (m : Mode) (a b : Nat) : mulM m a b ≠ fault .oob := by
  unfold mulM; split
  · intro h; cases h
  · cases m <;> (intro h; cases h)

theorem fileAt_not_oob (file : Array Word) (i : Nat) : fileAt file i ≠ fault .oob := by
  unfold fileAt; split <;> (intro h; cases h)

theorem bind_not_oob {α β} {x : Outcome α} {f : α → Outcome β} (hx : x ≠ fault .oob)
    (hf : ∀ a, f a ≠ fault .oob) : (x >>= f) ≠ fault .oob := by
  cases x with
  | ok a => exact hf a
  | fault e =>
    intro h
    rw [bind_fault] at h
    cases h
    exact hx rfl

theorem ok_not_oob {α} (a : α) : (ok a : Outcome α) ≠ fault .oob := by intro h; cases h
theorem err_not_oob {α} (k : ErrKind) : (fault (.err k) : Outcome α) ≠ fault .oob := by intro h; cases h

theorem bytesToWords_not_oob (m : Mode) (n : Nat) : bytesToWords m n ≠ fault .oob :=
  bind_not_oob (addM_not_oob m n 7) (fun _ => ok_not_oob _)

end Sds.Glue
