/-
Proofs/GenEqVec: the methods of `raw_vector.rs` / `int_vector.rs` as TRANSLATED statement by statement from the
source (Generated/FnsVec.lean, produced by tools/rs2lean.py) are equal to the hand-written model definitions of
Model/RawVec.lean and Model/IntVec.lean, under hypotheses that follow from the representation invariants
(`RawVec.WF` / `IntVec.WF`) and from "lengths in bits are below 2^64".
-/
import Sds.Model.IntVec
import Sds.Generated.FnsVec
import Sds.Proofs.GenFns
import Sds.Proofs.GenEqBits
import Sds.Proofs.Tables
import Sds.Proofs.Round
import Sds.Proofs.RawVec

namespace Sds.GenEq
open Sds Outcome Generated

/-! ### helpers -/

theorem vsplit_eq (m : Mode) (b : Nat) : gen_split_offset m b = ok (b / 64, b % 64) := by
  rw [Sds.GenFns.split_offset_eq, splitOffset_eq]

theorem vshAmt_lt (m : Mode) (k : Nat) (h : k < 64) : shAmt m k = ok k := by
  simp [shAmt, h]

theorem vshlW_lt (m : Mode) (w : Word) (k : Nat) (h : k < 64) : shlW m w k = ok (w <<< k) := by
  simp [shlW, vshAmt_lt m k h]

theorem vshrW_lt (m : Mode) (w : Word) (k : Nat) (h : k < 64) : shrW m w k = ok (w >>> k) := by
  simp [shrW, vshAmt_lt m k h]

theorem vboolW_eq (b : Bool) : boolW b = if b then (1 : Word) else 0 := rfl

theorem vgetC_fail {a : Array Word} {i : Nat} (h : ¬ i < a.size) : getC a i = fault (.panic .index) := by
  simp [getC, h]

theorem vand_one_eq_one (w : Word) (k : Nat) : decide ((w >>> k) &&& (1 : Word) = (1 : Word)) = w.getLsbD k := by
  have e : (w >>> k) &&& (1 : Word) = if w.getLsbD k then (1 : Word) else 0 := by
    apply BitVec.eq_of_getLsbD_eq
    intro i hi
    by_cases h0 : i = 0
    · subst h0; cases hb : w.getLsbD k <;> simp [hb]
    · cases hb : w.getLsbD k <;> simp [BitVec.getLsbD_one, h0]
  rw [e]
  cases w.getLsbD k <;> decide

theorem vreadIntM_ok (a : Array Word) (off w : Nat) (hw : 1 ≤ w) (hw' : w ≤ 64) (hin : off + w ≤ 64 * a.size) :
    readIntM a off w = ok (readInt a off w) := by
  unfold readIntM
  rw [if_neg (by omega)]
  by_cases hc : off % 64 + w ≤ 64
  · simp only [if_pos hc]; rw [if_pos (by omega)]
  · simp only [if_neg hc]; rw [if_pos (by omega)]

theorem vwriteIntM_ok (a : Array Word) (off : Nat) (x : Word) (w : Nat) (hw : 1 ≤ w) (hw' : w ≤ 64)
    (hin : off + w ≤ 64 * a.size) : writeIntM a off x w = ok (writeInt a off x w) := by
  unfold writeIntM
  rw [if_neg (by omega)]
  by_cases hc : off % 64 + w ≤ 64
  · simp only [if_pos hc]; rw [if_pos (by omega)]
  · simp only [if_neg hc]; rw [if_pos (by omega)]

/-! ### raw_vector.rs : readers -/

theorem raw_bit_eq (m : Mode) (v : RawVec) (i : Nat) : gen_RawVector_bit m v i = v.bitM i := by
  unfold gen_RawVector_bit RawVec.bitM
  rw [vsplit_eq]
  by_cases h : i / 64 < v.data.size
  · simp [getC_ok h, vshrW_lt m _ _ (Nat.mod_lt i (by decide : 0 < 64)), h, RawVec.bit, getBit]
    exact vand_one_eq_one _ _
  · simp [vgetC_fail h, h]


theorem raw_int_eq' (m : Mode) (v : RawVec) (off w : Nat) (hw : w ≤ 64) (ho : off < U64) :
    gen_RawVector_int m v off w = if w = 0 then ok 0 else readIntM v.data off w := by
  unfold gen_RawVector_int
  by_cases h0 : w = 0
  · simp [h0]
  · simp only [h0, decide_false, Bool.false_eq_true, if_false, read_int_eq m v.data off w hw ho]

theorem raw_int_eq (m : Mode) (v : RawVec) (off w : Nat) (hw : w ≤ 64) (ho : off < U64)
    (hin : off + w ≤ 64 * v.data.size) : gen_RawVector_int m v off w = ok (v.int off w) := by
  rw [raw_int_eq' m v off w hw ho]
  unfold RawVec.int
  by_cases h0 : w = 0
  · simp [h0]
  · rw [if_neg h0, if_neg h0, vreadIntM_ok _ _ _ (by omega) hw hin]

theorem raw_word_eq (m : Mode) (v : RawVec) (i : Nat) : gen_RawVector_word m v i = v.wordM i := by
  unfold gen_RawVector_word RawVec.wordM
  cases getC v.data i <;> simp

theorem raw_word_unchecked_eq (m : Mode) (v : RawVec) (i : Nat) : gen_RawVector_word_unchecked m v i = v.wordU i := by
  unfold gen_RawVector_word_unchecked RawVec.wordU
  cases getW v.data i <;> simp

/-! ### raw_vector.rs : writers -/

theorem raw_set_unused_bits_eq' (m : Mode) (v : RawVec) (b : Bool)
    (hs : v.len % 64 ≠ 0 → v.len / 64 < v.data.size) :
    gen_RawVector_set_unused_bits m v b = ok (v.setUnusedBits b) := by
  unfold gen_RawVector_set_unused_bits RawVec.setUnusedBits
  dsimp only
  rw [vsplit_eq]
  by_cases h0 : v.len % 64 > 0
  · have hlt : v.len % 64 ≤ 64 := by omega
    have hi := hs (by omega)
    cases b <;> simp [h0, low_set_eq, lowSetT_eq _ hlt, getC_ok hi]
  · cases b <;> simp [h0]

theorem raw_set_unused_bits_eq (m : Mode) (v : RawVec) (b : Bool) (hs : v.data.size = (v.len + 63) / 64) :
    gen_RawVector_set_unused_bits m v b = ok (v.setUnusedBits b) :=
  raw_set_unused_bits_eq' m v b (by omega)

theorem raw_set_bit_eq (m : Mode) (v : RawVec) (i : Nat) (b : Bool) (hi : i / 64 < v.data.size) :
    gen_RawVector_set_bit m v i b = ok (v.setBit i b) := by
  unfold gen_RawVector_set_bit RawVec.setBit
  dsimp only
  rw [vsplit_eq]
  have ho : i % 64 < 64 := Nat.mod_lt i (by decide)
  have hi' : ∀ x, i / 64 < (v.data.setIfInBounds (i / 64) x).size := by intro x; simpa using hi
  simp [vshlW_lt m _ _ ho, getC_ok hi, getC_ok (hi' _), rd_set _ _ _ _ hi, vboolW_eq]

theorem raw_set_int_eq (m : Mode) (v : RawVec) (off : Nat) (x : Word) (w : Nat) (hw : w ≤ 64) (ho : off < U64)
    (hin : off + w ≤ 64 * v.data.size) : gen_RawVector_set_int m v off x w = ok (v.setInt off x w) := by
  unfold gen_RawVector_set_int RawVec.setInt
  by_cases h0 : w = 0
  · simp [h0]
  · simp [h0, write_int_eq m v.data off x w ho, vwriteIntM_ok _ _ _ _ (by omega) hw hin]


theorem raw_push_bit_eq (m : Mode) (v : RawVec) (b : Bool) (hs : v.len / 64 ≤ v.data.size) (hl : v.len + 1 < U64) :
    gen_RawVector_push_bit m v b = ok (v.pushBit b) := by
  unfold gen_RawVector_push_bit RawVec.pushBit
  dsimp only
  rw [vsplit_eq]
  have ho : v.len % 64 < 64 := Nat.mod_lt _ (by decide)
  by_cases he : v.len / 64 = v.data.size
  · have hi : v.data.size < (v.data.push 0#64).size := by simp
    simp [he, vshlW_lt m _ _ ho, addM_ok hl, vboolW_eq, getC_ok hi]
  · have hi : v.len / 64 < v.data.size := by omega
    simp [he, vshlW_lt m _ _ ho, addM_ok hl, vboolW_eq, getC_ok hi]

theorem raw_push_int_eq (m : Mode) (v : RawVec) (x : Word) (w : Nat) (hw : w ≤ 64)
    (hs : v.len ≤ 64 * v.data.size) (hc : 64 * v.data.size < U64) (hl : v.len + w < U64) :
    gen_RawVector_push_int m v x w = ok (v.pushInt x w) := by
  unfold gen_RawVector_push_int RawVec.pushInt
  dsimp only
  by_cases h0 : w = 0
  · simp [h0]
  · have hlen : v.len < U64 := by omega
    rw [Sds.GenFns.words_to_bits_eq, wordsToBits_ok m _ (by omega), addM_ok hl]
    by_cases hp : v.len + w > 64 * v.data.size
    · have hp' : v.len + w > v.data.size * 64 := by omega
      have hin : v.len + w ≤ 64 * (v.data.push 0#64).size := by simp; omega
      simp [h0, hp, hp', write_int_eq m _ v.len x w hlen, vwriteIntM_ok _ _ _ _ (by omega) hw hin]
    · have hp' : ¬ v.len + w > v.data.size * 64 := by omega
      have hin : v.len + w ≤ 64 * v.data.size := by omega
      simp [h0, hp, hp', write_int_eq m _ v.len x w hlen, vwriteIntM_ok _ _ _ _ (by omega) hw hin]


theorem vmk_setUnusedBits_data (n : Nat) (a : Array Word) (f : Bool) :
    (⟨n, (RawVec.setUnusedBits ⟨n, a⟩ f).data⟩ : RawVec) = RawVec.setUnusedBits ⟨n, a⟩ f := by
  have h := RawVec.len_setUnusedBits ⟨n, a⟩ f
  generalize RawVec.setUnusedBits ⟨n, a⟩ f = r at h ⊢
  cases r; simp_all

theorem vbits_to_words_ok (m : Mode) (n : Nat) (h : n + 63 < U64) : gen_bits_to_words m n = ok ((n + 63) / 64) := by
  rw [Sds.GenFns.bits_to_words_eq, bitsToWords_ok m n h]

theorem raw_pop_bit_eq (m : Mode) (v : RawVec) (hs : v.data.size = (v.len + 63) / 64) (hl : v.len + 62 < U64) :
    gen_RawVector_pop_bit m v = ok v.popBit := by
  unfold gen_RawVector_pop_bit RawVec.popBit
  obtain ⟨len, data⟩ := v
  dsimp only at *
  by_cases h0 : len = 0
  · simp [h0]
  · have h1 : 1 ≤ len := by omega
    have hi : (len - 1) / 64 < data.size := by omega
    have hsu := raw_set_unused_bits_eq m ⟨len - 1, resizeArr data ((len - 1 + 63) / 64) 0#64⟩ false
      (by simp [size_resizeArr])
    simp [h0, subM_ok h1, raw_bit_eq, RawVec.bitM, hi, vbits_to_words_ok m (len - 1) (by omega), hsu,
      vmk_setUnusedBits_data]

theorem raw_pop_int_eq (m : Mode) (v : RawVec) (w : Nat) (hw : w ≤ 64) (hs : v.data.size = (v.len + 63) / 64)
    (hl : v.len + 62 < U64) : gen_RawVector_pop_int m v w = ok (v.popInt w) := by
  unfold gen_RawVector_pop_int RawVec.popInt
  obtain ⟨len, data⟩ := v
  dsimp only at *
  by_cases hge : len ≥ w
  · by_cases h0 : w = 0
    · simp [h0]
    · have hsu := raw_set_unused_bits_eq m ⟨len - w, resizeArr data ((len - w + 63) / 64) 0#64⟩ false
        (by simp [size_resizeArr])
      have hint := raw_int_eq m ⟨len, data⟩ (len - w) w hw (by omega) (by simp only []; omega)
      simp [hge, h0, subM_ok hge, hint, vbits_to_words_ok m (len - w) (by omega), hsu, vmk_setUnusedBits_data]
  · simp [hge]

theorem raw_resize_eq (m : Mode) (v : RawVec) (n : Nat) (b : Bool)
    (hs : n > v.len → v.len % 64 ≠ 0 → v.len / 64 < v.data.size) (hn : n + 63 < U64) :
    gen_RawVector_resize m v n b = ok (v.resize n b) := by
  unfold gen_RawVector_resize RawVec.resize
  obtain ⟨len, data⟩ := v
  dsimp only at *
  have hsu : ∀ a : Array Word, gen_RawVector_set_unused_bits m ⟨n, resizeArr a ((n + 63) / 64) (fillerValue b)⟩ false
      = ok (RawVec.setUnusedBits ⟨n, resizeArr a ((n + 63) / 64) (fillerValue b)⟩ false) := by
    intro a; exact raw_set_unused_bits_eq m _ false (by simp [size_resizeArr])
  by_cases hg : n > len
  · have h1 := raw_set_unused_bits_eq' m ⟨len, data⟩ b (hs hg)
    simp [hg, h1, vbits_to_words_ok m n hn, filler_value_eq, hsu, vmk_setUnusedBits_data]
  · simp [hg, vbits_to_words_ok m n hn, filler_value_eq, hsu, vmk_setUnusedBits_data]

/-! ### int_vector.rs -/

theorem intvec_in_range {v : IntVec} (hwf : v.WF) {i : Nat} (hi : i < v.len) :
    i * v.width + v.width ≤ 64 * v.data.data.size := by
  obtain ⟨_, _, hlen, hsz, _⟩ := hwf
  have h1 : (i + 1) * v.width ≤ v.len * v.width := Nat.mul_le_mul_right _ hi
  rw [Nat.succ_mul] at h1
  omega

theorem int_get_eq (m : Mode) (v : IntVec) (i : Nat) (hwf : v.WF) (hb : v.len * v.width < U64) :
    gen_IntVector_get m v i = v.get i := by
  unfold gen_IntVector_get IntVec.get IntVec.getRaw
  by_cases hi : i < v.len
  · have hin := intvec_in_range hwf hi
    have h1 : (i + 1) * v.width ≤ v.len * v.width := Nat.mul_le_mul_right _ hi
    rw [Nat.succ_mul] at h1
    have hm : i * v.width < U64 := by omega
    simp [gAssert, hi, mulM_ok hm, raw_int_eq m v.data (i * v.width) v.width hwf.2.1 hm hin]
  · simp [gAssert, hi]

theorem int_set_eq (m : Mode) (v : IntVec) (i : Nat) (x : Word) (hwf : v.WF) (hb : v.len * v.width < U64) :
    gen_IntVector_set m v i x = v.set i x := by
  unfold gen_IntVector_set IntVec.set
  dsimp only
  by_cases hi : i < v.len
  · have hin := intvec_in_range hwf hi
    have h1 : (i + 1) * v.width ≤ v.len * v.width := Nat.mul_le_mul_right _ hi
    rw [Nat.succ_mul] at h1
    have hm : i * v.width < U64 := by omega
    simp [gAssert, hi, mulM_ok hm, raw_set_int_eq m v.data (i * v.width) x v.width hwf.2.1 hm hin]
  · simp [gAssert, hi]

theorem int_push_eq (m : Mode) (v : IntVec) (x : Word) (hwf : v.WF) (hb : (v.len + 1) * v.width + 63 < U64) :
    gen_IntVector_push m v x = ok (v.push x) := by
  unfold gen_IntVector_push IntVec.push
  dsimp only
  obtain ⟨hw1, hw2, hlen, hsz, _⟩ := hwf
  rw [Nat.succ_mul] at hb
  have hle : v.len + 1 ≤ v.len * v.width + v.width := by
    have := Nat.mul_le_mul_left v.len hw1
    omega
  have hp := raw_push_int_eq m v.data x v.width hw2 (by omega) (by omega) (by omega)
  simp [hp, addM_ok (show v.len + 1 < U64 by omega)]


/-! ### the drafted hypothesis shapes (size-exact word count, first conjunct of `RawVec.WF`) as corollaries -/

theorem raw_push_bit_eq_sz (m : Mode) (v : RawVec) (b : Bool) (hs : v.data.size = (v.len + 63) / 64)
    (hl : v.len + 1 < U64) : gen_RawVector_push_bit m v b = ok (v.pushBit b) :=
  raw_push_bit_eq m v b (by omega) hl

theorem raw_push_int_eq_sz (m : Mode) (v : RawVec) (x : Word) (w : Nat) (hw : w ≤ 64)
    (hs : v.data.size = (v.len + 63) / 64) (hl : v.len + 63 < U64) (hl' : v.len + w < U64) :
    gen_RawVector_push_int m v x w = ok (v.pushInt x w) :=
  raw_push_int_eq m v x w hw (by omega) (by omega) hl'

theorem raw_resize_eq_sz (m : Mode) (v : RawVec) (n : Nat) (b : Bool) (hs : v.data.size = (v.len + 63) / 64)
    (hn : n + 63 < U64) : gen_RawVector_resize m v n b = ok (v.resize n b) :=
  raw_resize_eq m v n b (by intros; omega) hn

/-! ### the remaining hypotheses are needed: outside them the code faults (or wraps) where the total model
function returns a value -/

example : gen_RawVector_set_bit .checked ⟨0, #[]⟩ 0 true = fault (.panic .index) ∧
    (RawVec.setBit ⟨0, #[]⟩ 0 true) = ⟨0, #[]⟩ := by decide
example : gen_RawVector_set_unused_bits .checked ⟨1, #[]⟩ false = fault (.panic .index) := by decide
example : gen_RawVector_push_bit .wrapping ⟨U64 - 1, #[]⟩ false = fault (.panic .index) := by decide
example : gen_RawVector_push_int .checked ⟨0, #[]⟩ 0 65 = fault (.panic .index) ∧
    RawVec.pushInt ⟨0, #[]⟩ 0 65 = ⟨65, #[0]⟩ := by decide
example : gen_RawVector_resize .checked ⟨0, #[]⟩ (U64 - 63) false = fault (.panic .overflow) := by decide

end Sds.GenEq
