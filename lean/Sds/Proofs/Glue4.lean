/-
Proofs/Glue4: glue lemmas used by the property files C03, C07, C11, C13, C16.

* C13: `View.option` over a truncated file (`option_cut`, `option_vecU64_truncated`,
  `option_none_truncated`) — the option view has no bounds test of its own beyond the first one; a cut
  inside the payload is reported by the inner constructor, and the error is passed on unchanged.
* C16 / C03: a history of run-length builder calls in which the caller ignores `Err` results
  (`BuildersProofs.rlRun`) is the history of its accepted calls (`rlAccepted`, `rlRun_accepted`), so the
  round-trip theorem of Proofs/RL (`RL.build_iterate_calls`, stated for accepted calls) applies to it.
* C03: the run-length builder accepts every increasing list of non-overlapping runs followed by `set_len`
  (`RL.RunsFrom`, `RL.callsOf`, `RL.runBCalls_accepts`), and the bit sequence those calls describe is the
  explicit one (`RL.runBits`, `RL.callsOf_spec`).
* C11: copying an arbitrary list of positions into a plain vector (`copyPositions_spec`); the positions of
  the ones of `bitsOfSet P n` are `P` again (`onesPos_bitsOfSet`); the closed form of the sparse vector built
  from `(w, n, P)` (`Sparse.ofValues_closed_form`); the bit sequence described by one `set_bit` per set
  position followed by `set_len` is the bit sequence itself (`RL.bitCalls_spec`).
* C03 / C16 / C11: `From<RLBuilder>` never faults on a builder reached by accepted calls (`RL.ofBuilder_ok`,
  `RL.ofBuilder_total`), hence the unconditional round trips `RL.build_iterate_calls_total` and
  `BuildersProofs.rl_history_roundtrip_total`.
-/
import Sds.Proofs.Mapper
import Sds.Proofs.Codec
import Sds.Proofs.Builders
import Sds.Proofs.RL
import Sds.Proofs.Glue
import Sds.Proofs.Glue2
import Sds.Proofs.Sparse2

set_option linter.unusedVariables false

namespace Sds
open Outcome

/-! ### C13: `MappedOption` over a file that was cut short -/

/-- the length word of a present value was read, and the inner constructor (run at `offset + 1`) refuses:
the option view is refused with the same fault -/
theorem option_cut (m : Mode) (inner : Array Word → Nat → Outcome View) (file : Array Word)
    (pre rest : List Word) (dl : Nat) (e : Fault)
    (hf : file.toList = pre ++ BitVec.ofNat 64 dl :: rest) (hpos : 0 < dl) (hdl : dl < U64)
    (hsz : pre.length + 1 < U64) (hin : inner file (pre.length + 1) = fault e) :
    View.option m inner file pre.length = fault e := by
  have hsize : file.size = pre.length + (1 + rest.length) := by
    rw [size_eq_of_toList hf]; simp only [List.length_append, List.length_cons]; omega
  have hat : fileAt file pre.length = ok dl := by
    rw [fileAt_of_toList hf, toNat_ofNat64_map hdl]
  unfold View.option
  have h1 : ¬ (pre.length ≥ file.size) := by omega
  rw [if_neg h1, hat]
  simp only [bind_ok]
  rw [if_pos hpos, addM_ok hsz]
  simp only [bind_ok]
  rw [hin]
  rfl

/-- an absent value occupies one element; the only truncation removes it -/
theorem option_none_truncated (m : Mode) {α} (c : Codec α) (inner : Array Word → Nat → Outcome View)
    (pre : List Word) (j : Nat) (hj : j < ((optionC c).ser (none : Option α)).length) :
    View.option m inner (pre ++ ((optionC c).ser (none : Option α)).take j).toArray pre.length =
      fault (.err .eof) := by
  rw [optionC_ser_none] at hj ⊢
  have : j = 0 := by simpa using hj
  subst this
  exact option_refuses m inner _ _ (by simp)

/-- `Option<Vec<u64>>`, value present, file cut anywhere inside the structure (before the length word, right
after it, inside the inner vector) -/
theorem option_vecU64_truncated (m : Mode) (pre : List Word) (a : Array Word) (j : Nat)
    (hj : j < ((optionC vecU64C).ser (some a)).length)
    (hsz : (pre ++ (optionC vecU64C).ser (some a)).length < U64) :
    View.option m (View.slice m 1) (pre ++ ((optionC vecU64C).ser (some a)).take j).toArray pre.length =
      fault (.err .eof) := by
  rw [optionC_ser_some] at hj hsz ⊢
  simp only [List.length_append, List.length_cons, vecU64C_ser_length] at hj hsz
  cases j with
  | zero => exact option_refuses m _ _ _ (by simp)
  | succ j =>
    rw [List.take_succ_cons]
    refine option_cut m _ _ pre ((vecU64C.ser a).take j) (vecU64C.ser a).length _ (by simp)
      (by rw [vecU64C_ser_length]; omega) (by rw [vecU64C_ser_length]; omega) (by omega) ?_
    have e : pre ++ BitVec.ofNat 64 (vecU64C.ser a).length :: (vecU64C.ser a).take j =
        (pre ++ [BitVec.ofNat 64 (vecU64C.ser a).length]) ++ (vecU64C.ser a).take j := by simp
    have := slice_vecU64_truncated m (pre ++ [BitVec.ofNat 64 (vecU64C.ser a).length]) a j
      (by rw [vecU64C_ser_length]; omega)
      (by simp only [List.length_append, List.length_cons, List.length_nil, vecU64C_ser_length]; omega)
    rw [← e] at this
    simpa using this

/-! ### C16: histories with rejected calls = histories of the accepted calls -/

namespace BuildersProofs

/-- the two transcriptions of "one builder call" (Proofs/Builders and Proofs/RL) are the same function -/
theorem applyCall_eq (m : Mode) (b : RLBuilder) (c : RL.BCall) :
    applyCall m b c = RL.applyCall m b c := by
  cases c <;> rfl

/-- the calls of a history that were accepted (the others returned `Err` and were ignored) -/
def rlAccepted (m : Mode) : List RL.BCall → RLBuilder → List RL.BCall
  | [], _ => []
  | c :: cs, b =>
    match applyCall m b c with
    | ok b' => c :: rlAccepted m cs b'
    | fault _ => rlAccepted m cs b

theorem rlAccepted_sublist (m : Mode) : ∀ (cs : List RL.BCall) (b : RLBuilder),
    (rlAccepted m cs b).Sublist cs := by
  intro cs
  induction cs with
  | nil => intro b; exact List.Sublist.slnil
  | cons c cs ih =>
    intro b
    unfold rlAccepted
    cases h : applyCall m b c with
    | ok b' => exact (ih b').cons_cons c
    | fault f => exact (ih b).cons c

/-- a history that ran to completion is the all-accepted history of its accepted calls -/
theorem rlRun_accepted (m : Mode) : ∀ (cs : List RL.BCall) (b b' : RLBuilder),
    rlRun m cs b = ok b' → RL.runBCalls m (rlAccepted m cs b) b = ok b' := by
  intro cs
  induction cs with
  | nil => intro b b' h; exact h
  | cons c cs ih =>
    intro b b' h
    rw [rlRun_cons] at h
    unfold rlAccepted
    cases hc : applyCall m b c with
    | ok b1 =>
      rw [hc] at h
      show RL.runBCalls m (c :: rlAccepted m cs b1) b = ok b'
      unfold RL.runBCalls
      rw [← applyCall_eq, hc]
      exact ih b1 b' h
    | fault f =>
      rw [hc] at h
      cases f with
      | err k => exact ih b b' h
      | panic k => cases h
      | oob => cases h
      | fuel => cases h

theorem argsOk_iff (c : RL.BCall) : argsOk c ↔ RL.callArgsOk c := by
  cases c <;> exact Iff.rfl

/-- **any history of run-length builder calls, rejected ones included, then `From<RLBuilder>`, then
`run_iter`**: the history runs to completion (no panic, either mode), and whenever the conversion succeeds
the vector's `len` / `count_ones` / maximal runs are those of the bit sequence described by the accepted
calls -/
theorem rl_history_roundtrip (m : Mode) (cs : List RL.BCall) (hargs : ∀ c ∈ cs, argsOk c) :
    ∃ b, rlRun m cs {} = ok b ∧ RlInv b ∧
      ∀ v, RL.ofBuilder m b = ok v →
        v.len = ((rlAccepted m cs {}).foldl RL.specCall []).length ∧
        v.ones = ((rlAccepted m cs {}).foldl RL.specCall []).count true ∧
        ∃ it0 e endPos, v.runIter = ok it0 ∧
          RunIter.collect m v ((maximalRuns ((rlAccepted m cs {}).foldl RL.specCall [])).length + 1) it0 =
            ok (RunIter.withPos 0 (maximalRuns ((rlAccepted m cs {}).foldl RL.specCall [])), e) ∧
          e.pos = (((rlAccepted m cs {}).foldl RL.specCall []).count true, endPos) ∧
          endPos ≤ ((rlAccepted m cs {}).foldl RL.specCall []).length := by
  obtain ⟨b, hb, hi⟩ := rlRun_fixed_default m cs hargs
  refine ⟨b, hb, hi, fun v hv => ?_⟩
  have hacc := rlRun_accepted m cs {} b hb
  have hok : ∀ c ∈ rlAccepted m cs {}, RL.callArgsOk c := fun c hc =>
    (argsOk_iff c).mp (hargs c ((rlAccepted_sublist m cs {}).subset hc))
  exact RL.build_iterate_calls m _ hok b hacc v hv

end BuildersProofs

/-! ### C03: the builder accepts every run list -/

namespace RL
open RLBuilder

/-- a list of runs `(start, length)` of set bits, in increasing order, each of positive length, none
starting before `pos` or before the end of its predecessor (adjacent runs are allowed), all ending within
the `usize` range -/
def RunsFrom : Nat → List (Nat × Nat) → Prop
  | _, [] => True
  | pos, r :: rs => pos ≤ r.1 ∧ 1 ≤ r.2 ∧ r.1 + r.2 < U64 ∧ RunsFrom (r.1 + r.2) rs

/-- the bits from position `pos` on described by such a list: zeros up to each start, then the run -/
def bitsOfRuns : Nat → List (Nat × Nat) → List Bool
  | _, [] => []
  | pos, r :: rs => List.replicate (r.1 - pos) false ++ List.replicate r.2 true ++ bitsOfRuns (r.1 + r.2) rs

/-- the bit sequence of total length `n` (or the end of the last run, if that is larger) with exactly the
given runs set -/
def runBits (runs : List (Nat × Nat)) (n : Nat) : List Bool :=
  bitsOfRuns 0 runs ++ List.replicate (n - (bitsOfRuns 0 runs).length) false

/-- the builder calls that construct it: one `try_set` per run, then `set_len(n)` -/
def callsOf (runs : List (Nat × Nat)) (n : Nat) : List BCall :=
  runs.map (fun r => BCall.set r.1 r.2) ++ [BCall.setLen n]

theorem callsOf_argsOk (runs : List (Nat × Nat)) (n : Nat) (pos : Nat) (h : RunsFrom pos runs)
    (hn : n < U64) : ∀ c ∈ callsOf runs n, callArgsOk c := by
  induction runs generalizing pos with
  | nil => intro c hc; simp [callsOf] at hc; subst hc; exact hn
  | cons r rs ih =>
    intro c hc
    obtain ⟨_, _, h3, h4⟩ := h
    simp only [callsOf, List.map_cons, List.cons_append, List.mem_cons] at hc
    rcases hc with rfl | hc
    · show r.2 < U64; omega
    · exact ih _ h4 c hc

/-- the end of the last run (`pos` for the empty list) -/
def endOf : Nat → List (Nat × Nat) → Nat
  | pos, [] => pos
  | _, r :: rs => endOf (r.1 + r.2) rs

theorem bitsOfRuns_length (runs : List (Nat × Nat)) : ∀ pos, RunsFrom pos runs →
    pos + (bitsOfRuns pos runs).length = endOf pos runs := by
  induction runs with
  | nil => intro pos _; rfl
  | cons r rs ih =>
    intro pos h
    obtain ⟨h1, _, _, h4⟩ := h
    have := ih _ h4
    simp only [bitsOfRuns, List.length_append, List.length_replicate, endOf]
    omega

/-- the length of `runBits runs n` is `n`, or the end of the last run if that is larger -/
theorem runBits_length (runs : List (Nat × Nat)) (n : Nat) (h : RunsFrom 0 runs) :
    (runBits runs n).length = max n (endOf 0 runs) := by
  have := bitsOfRuns_length runs 0 h
  unfold runBits
  simp only [List.length_append, List.length_replicate]
  omega

theorem foldl_specCall_sets : ∀ (runs : List (Nat × Nat)) (B0 : List Bool), RunsFrom B0.length runs →
    (runs.map (fun r => BCall.set r.1 r.2)).foldl specCall B0 = B0 ++ bitsOfRuns B0.length runs := by
  intro runs
  induction runs with
  | nil => intro B0 _; simp [bitsOfRuns]
  | cons r rs ih =>
    intro B0 h
    obtain ⟨h1, h2, _, h4⟩ := h
    simp only [List.map_cons, List.foldl_cons]
    have e : specCall B0 (BCall.set r.1 r.2) =
        B0 ++ (List.replicate (r.1 - B0.length) false ++ List.replicate r.2 true) := by
      show specStep B0 (r.1, r.2) = _
      unfold specStep
      rw [if_neg (by show ¬ r.2 = 0; omega)]
    have hl : (specCall B0 (BCall.set r.1 r.2)).length = r.1 + r.2 := by
      rw [e]; simp only [List.length_append, List.length_replicate]; omega
    rw [ih _ (by rw [hl]; exact h4), hl, e]
    simp [bitsOfRuns, List.append_assoc]

/-- the bit sequence described by `callsOf runs n` (in the sense of `specCall`, the reference of the
round-trip theorem) is `runBits runs n` -/
theorem callsOf_spec (runs : List (Nat × Nat)) (n : Nat) (h : RunsFrom 0 runs) :
    (callsOf runs n).foldl specCall [] = runBits runs n := by
  unfold callsOf runBits
  rw [List.foldl_append, foldl_specCall_sets runs [] h]
  simp [specCall]

/-- **the builder accepts every run list**: from any builder satisfying the invariant whose length does not
exceed the first start, every `try_set` and the final `set_len` succeed, in both modes -/
theorem runBCalls_accepts (m : Mode) (n : Nat) (hn : n < U64) : ∀ (runs : List (Nat × Nat)) (b : RLBuilder),
    b.Inv → RunsFrom b.len runs → ∃ b', runBCalls m (callsOf runs n) b = ok b' ∧ b'.Inv := by
  intro runs
  induction runs with
  | nil =>
    intro b hi _
    obtain ⟨b', hb', hi', _⟩ := setLen_spec m hi n hn
    refine ⟨b', ?_, hi'⟩
    show (applyCall m b (BCall.setLen n) >>= fun b => runBCalls m [] b) = _
    show (b.setLen m n >>= fun b => runBCalls m [] b) = _
    rw [hb']; rfl
  | cons r rs ih =>
    intro b hi h
    obtain ⟨h1, h2, h3, h4⟩ := h
    obtain ⟨b1, hb1, hi1, _, hne⟩ := (trySet_spec m hi r.1 r.2 (by omega)).2 (by omega)
    obtain ⟨hl1, _⟩ := hne (by omega)
    obtain ⟨b', hb', hi'⟩ := ih b1 hi1 (by rw [hl1]; exact h4)
    refine ⟨b', ?_, hi'⟩
    show (b.trySet m r.1 r.2 >>= fun b => runBCalls m (callsOf rs n) b) = _
    rw [hb1]; exact hb'

/-! #### C11: bit-at-a-time construction describes the bit sequence -/

theorem onesFrom_ge : ∀ (B : List Bool) (s x : Nat), x ∈ onesFrom B s → s ≤ x := by
  intro B
  induction B with
  | nil => intro s x h; simp [onesFrom] at h
  | cons b bs ih =>
    intro s x h
    cases b with
    | true =>
      simp only [onesFrom, List.mem_cons] at h
      rcases h with rfl | h
      · exact Nat.le_refl _
      · have := ih (s + 1) x h; omega
    | false =>
      simp only [onesFrom] at h
      have := ih (s + 1) x h; omega

theorem endOf_ones_le : ∀ (B : List Bool) (s : Nat),
    endOf s ((onesFrom B s).map fun i => (i, 1)) ≤ s + B.length := by
  intro B
  induction B with
  | nil => intro s; simp [onesFrom, endOf]
  | cons b bs ih =>
    intro s
    cases b with
    | true =>
      simp only [onesFrom, List.map_cons, endOf, List.length_cons]
      have := ih (s + 1); omega
    | false =>
      simp only [onesFrom, List.length_cons]
      have h1 := ih (s + 1)
      cases hL : onesFrom bs (s + 1) with
      | nil => simp [endOf]
      | cons a t =>
        rw [hL] at h1
        simp only [List.map_cons, endOf] at h1 ⊢
        omega

/-- one run of length 1 per set position, read from position `s` on, and zeros up to the end: the bits -/
theorem bitsOfRuns_ones : ∀ (B : List Bool) (s : Nat),
    bitsOfRuns s ((onesFrom B s).map fun i => (i, 1)) ++
      List.replicate (s + B.length - endOf s ((onesFrom B s).map fun i => (i, 1))) false = B := by
  intro B
  induction B with
  | nil => intro s; simp [onesFrom, bitsOfRuns, endOf]
  | cons b bs ih =>
    intro s
    cases b with
    | true =>
      have := ih (s + 1)
      simp only [onesFrom, List.map_cons, bitsOfRuns, endOf, List.length_cons, Nat.sub_self,
        List.replicate_zero, List.nil_append, List.replicate_one, List.cons_append]
      rw [show s + (bs.length + 1) = s + 1 + bs.length by omega, this]
    | false =>
      have h1 := ih (s + 1)
      have hge := onesFrom_ge bs (s + 1)
      simp only [onesFrom, List.length_cons]
      cases hL : onesFrom bs (s + 1) with
      | nil =>
        rw [hL] at h1
        simp only [List.map_nil, bitsOfRuns, endOf, List.nil_append] at h1 ⊢
        rw [show s + (bs.length + 1) - s = (s + 1 + bs.length - (s + 1)) + 1 by omega,
          List.replicate_succ, h1]
      | cons a t =>
        rw [hL] at h1
        have ha : s + 1 ≤ a := hge a (by rw [hL]; simp)
        simp only [List.map_cons, bitsOfRuns, endOf] at h1 ⊢
        rw [show a - s = (a - (s + 1)) + 1 by omega, List.replicate_succ]
        rw [show s + (bs.length + 1) = s + 1 + bs.length by omega]
        simp only [List.cons_append, List.append_assoc] at h1 ⊢
        rw [h1]

theorem runsFrom_ones : ∀ (B : List Bool) (s : Nat), s + B.length < U64 →
    RunsFrom s ((onesFrom B s).map fun i => (i, 1)) := by
  intro B
  induction B with
  | nil => intro s _; trivial
  | cons b bs ih =>
    intro s h
    simp only [List.length_cons] at h
    cases b with
    | true =>
      simp only [onesFrom, List.map_cons]
      exact ⟨Nat.le_refl _, Nat.le_refl _, by omega, ih (s + 1) (by omega)⟩
    | false =>
      simp only [onesFrom]
      have h1 := ih (s + 1) (by omega)
      cases hL : onesFrom bs (s + 1) with
      | nil => trivial
      | cons a t =>
        rw [hL] at h1
        obtain ⟨g1, g2, g3, g4⟩ := h1
        exact ⟨by show s ≤ a; have : s + 1 ≤ a := g1; omega, g2, g3, g4⟩

/-- **bit at a time**: one `try_set(i, 1)` per set position of `B`, in order, then `set_len(|B|)`: every call
is accepted and the bit sequence described is `B` -/
theorem bitCalls_spec (B : List Bool) (hB : B.length < U64) :
    RunsFrom 0 ((onesPos B).map fun i => (i, 1)) ∧
    runBits ((onesPos B).map fun i => (i, 1)) B.length = B := by
  refine ⟨runsFrom_ones B 0 (by omega), ?_⟩
  have h := bitsOfRuns_ones B 0
  have hlen := bitsOfRuns_length _ 0 (runsFrom_ones B 0 (by omega))
  unfold runBits onesPos
  rw [Nat.zero_add] at h hlen
  rw [hlen]
  exact h

end RL

/-! ### C11: positions ↔ bits -/

/-- `copy_bit_vec` for an arbitrary list of positions below `n` (in any order, repetitions allowed): the vector
made by `with_len(n, false)` and one `set_bit` per position is well formed and holds the membership bits -/
theorem copyPositions_spec (n : Nat) (P : List Nat) (hP : ∀ p ∈ P, p < n) :
    (P.foldl (fun v i => v.setBit i true) (RawVec.withLen n false)).WF ∧
    (P.foldl (fun v i => v.setBit i true) (RawVec.withLen n false)).bits = bitsOfSet P n := by
  have hlen0 : (RawVec.withLen n false).len = n := RawVec.len_withLen _ _
  have hwf0 := RawVec.withLen_WF n false
  obtain ⟨h1, h2, h3⟩ := Glue.foldl_setBit P _ hwf0 (fun i hi => by rw [hlen0]; exact hP i hi)
  refine ⟨h1, ?_⟩
  rw [RawVec.bits_eq_iff]
  refine ⟨by rw [h2, hlen0]; simp [bitsOfSet], ?_⟩
  intro i hi
  rw [h2, hlen0] at hi
  rw [h3 i]
  have h0 : getBit (RawVec.withLen n false).data i = false := by
    have hb := RawVec.bits_withLen n false
    have hg := RawVec.bits_getElem? (RawVec.withLen n false) i
    rw [hb, hlen0, if_pos hi] at hg
    rw [List.getElem?_replicate, if_pos hi] at hg
    exact (Option.some.inj hg).symm
  rw [h0, Bool.false_or]
  simp [bitsOfSet, hi]

/-- the positions of the ones of any bit list are strictly increasing and below its length -/
theorem onesPos_pairwise (B : List Bool) : (onesPos B).Pairwise (· < ·) := by
  have := onesPos_sorted .ident (RawVec.ofBits B)
  simpa [bitsT, RawVec.bits_ofBits] using this

theorem onesPos_lt (B : List Bool) (x : Nat) (h : x ∈ onesPos B) : x < B.length := by
  have := (Glue.mem_onesPos B x).mp h
  rcases Nat.lt_or_ge x B.length with h' | h'
  · exact h'
  · rw [List.getElem?_eq_none h'] at this; cases this

/-- two strictly increasing lists with the same members are equal -/
theorem pairwise_lt_ext : ∀ (l1 l2 : List Nat), l1.Pairwise (· < ·) → l2.Pairwise (· < ·) →
    (∀ x, x ∈ l1 ↔ x ∈ l2) → l1 = l2 := by
  intro l1
  induction l1 with
  | nil =>
    intro l2 _ _ h
    cases l2 with
    | nil => rfl
    | cons b t => exact absurd ((h b).mpr (by simp)) (by simp)
  | cons a t ih =>
    intro l2 h1 h2 h
    cases l2 with
    | nil => exact absurd ((h a).mp (by simp)) (by simp)
    | cons b u =>
      obtain ⟨ha, ht⟩ := List.pairwise_cons.mp h1
      obtain ⟨hb, hu⟩ := List.pairwise_cons.mp h2
      have hab : a = b := by
        have m1 : a ∈ b :: u := (h a).mp (by simp)
        have m2 : b ∈ a :: t := (h b).mpr (by simp)
        rcases List.mem_cons.mp m1 with e | m1
        · exact e
        · rcases List.mem_cons.mp m2 with e | m2
          · exact e.symm
          · have := hb a m1; have := ha b m2; omega
      subst hab
      congr 1
      apply ih u ht hu
      intro x
      constructor
      · intro hx
        have := (h x).mp (List.mem_cons_of_mem _ hx)
        rcases List.mem_cons.mp this with e | hm
        · subst e; have := ha x hx; omega
        · exact hm
      · intro hx
        have := (h x).mpr (List.mem_cons_of_mem _ hx)
        rcases List.mem_cons.mp this with e | hm
        · subst e; have := hb x hx; omega
        · exact hm

/-- a strictly increasing list of positions below `n` is recovered from its membership bits -/
theorem onesPos_bitsOfSet (P : List Nat) (n : Nat) (hs : P.Pairwise (· < ·)) (hb : ∀ p ∈ P, p < n) :
    onesPos (bitsOfSet P n) = P := by
  apply pairwise_lt_ext _ _ (onesPos_pairwise _) hs
  intro x
  rw [Glue.mem_onesPos]
  unfold bitsOfSet
  by_cases hx : x < n
  · simp [hx]
  · constructor
    · intro h
      rw [List.getElem?_eq_none (by simp; omega)] at h; cases h
    · intro h; exact absurd (hb x h) hx

theorem bitsOfSet_onesPos (B : List Bool) : bitsOfSet (onesPos B) B.length = B := by
  apply List.ext_getElem?
  intro i
  unfold bitsOfSet
  by_cases hi : i < B.length
  · simp only [List.getElem?_map, List.getElem?_range hi, Option.map_some, List.getElem?_eq_getElem hi]
    congr 1
    cases hb : B[i] with
    | true =>
      have : i ∈ onesPos B := (Glue.mem_onesPos B i).mpr (by rw [List.getElem?_eq_getElem hi, hb])
      simp [this]
    | false =>
      have : ¬ i ∈ onesPos B := by
        intro hc
        have := (Glue.mem_onesPos B i).mp hc
        rw [List.getElem?_eq_getElem hi, hb] at this
        cases this
      simp [this]
  · rw [List.getElem?_eq_none (by simp; omega), List.getElem?_eq_none (by omega)]

theorem contains_onesPos (B : List Bool) (i : Nat) (hi : i < B.length) : (onesPos B).contains i = B[i] := by
  cases hb : B[i] with
  | true =>
    have : i ∈ onesPos B := (Glue.mem_onesPos B i).mpr (by rw [List.getElem?_eq_getElem hi, hb])
    simp [this]
  | false =>
    have : ¬ i ∈ onesPos B := by
      intro hc
      have := (Glue.mem_onesPos B i).mp hc
      rw [List.getElem?_eq_getElem hi, hb] at this
      cases this
    simp [this]

theorem sortedStrict_of_pairwise : ∀ (P : List Nat), P.Pairwise (· < ·) → sortedStrict P = true
  | [], _ => rfl
  | [_], _ => rfl
  | a :: b :: t, h => by
    obtain ⟨h1, h2⟩ := List.pairwise_cons.mp h
    simp only [sortedStrict, Bool.and_eq_true, decide_eq_true_eq]
    exact ⟨h1 b (by simp), sortedStrict_of_pairwise (b :: t) h2⟩

/-! ### C11: the sparse vector built from `(w, n, P)` in closed form -/

/-- **closed form of the built sparse vector**: whatever the call history that fed the positions `P` (set
mode: strictly increasing, multiset mode: non-decreasing) into a builder of low width `w` over the universe
`n`, the result is: `high` = `BitVector::from` of THE raw vector holding the unary bucket sequence
`highBits w ⌈n / 2^w⌉ P`, with select and select_zero enabled; `low` = a well-formed integer vector of width
`w` holding `p mod 2^w` for each `p` in `P` -/
theorem Sparse.ofValues_closed_form (w n : Nat) (multi : Bool) (P : List Nat) (hw1 : 1 ≤ w) (hw : w ≤ 63)
    (hn : n < 2 ^ 64) (hm : P.length < 2 ^ 63)
    (hsorted : if multi then sortedLe P = true else sortedStrict P = true) (hbound : ∀ p ∈ P, p < n) :
    ∃ s, Sparse.ofValues w n multi P = ok s ∧ s.Encodes n w P ∧ s.len = n ∧
      s.high = (BitVector.ofRaw (RawVec.ofBits (highBits w (Sparse.getBuckets n w) P))).enableSelect.enableSelectZero ∧
      s.low.WF ∧ s.low.width = w ∧ s.low.items = P.map (· % 2 ^ w) := by
  have hle : sortedLe P = true := by
    cases multi with
    | true => simpa using hsorted
    | false => exact Sparse2.sortedStrict_le P (by simpa using hsorted)
  have hlen : multi = false → P.length ≤ n := by
    intro h; subst h; exact Sparse2.strict_length_le (by simpa using hsorted) hbound
  have hacc : Sparse2.accepts n (if multi then 0 else 1) 0 P = true := by
    cases multi with
    | true => exact (Sparse2.accepts_le n P 0).mpr ⟨by simpa using hsorted, hbound, fun _ _ => Nat.zero_le _⟩
    | false =>
      exact (Sparse2.accepts_strict n P 0).mpr ⟨by simpa using hsorted, hbound, fun _ _ => Nat.zero_le _⟩
  obtain ⟨b0, hb0, hnx, heq⟩ := Sparse2.ofValues_eq_fold w n multi P hw1 hw hlen
  have hf := Sparse2.fold_spec hw P.length 0 b0 (by omega) hb0
  rw [hnx, List.drop_zero, if_pos hacc] at hf
  obtain ⟨b', h1, h2⟩ := hf
  obtain ⟨s, hbuild, henc⟩ := Sparse2.build_encodes hw1 hw hn hm h2 hle hbound
  have hfull : b'.isFull = true := by
    unfold SparseBuilder.isFull SparseBuilder.capacity
    rw [h2.len_eq, h2.low_len]; simp
  have hs : s = ⟨b'.univ, (BitVector.ofRaw b'.high).enableSelect.enableSelectZero, b'.low⟩ := by
    unfold SparseBuilder.build at hbuild
    rw [hfull] at hbuild
    simp only [Bool.not_true, Bool.false_eq_true, if_false] at hbuild
    exact (Outcome.ok.inj hbuild).symm
  have hhigh : b'.high = RawVec.ofBits (highBits w (Sparse.getBuckets n w) P) :=
    RawVec.canonical h2.high_wf (RawVec.ofBits_WF _)
      ((Sparse2.high_bits_eq hw h2 hle hbound).trans (RawVec.bits_ofBits _).symm)
  refine ⟨s, ?_, henc, henc.len_eq, ?_, ?_, ?_, ?_⟩
  · rw [heq, List.drop_zero, h1]; exact hbuild
  · rw [hs, hhigh]
  · rw [hs]; exact h2.low_wf
  · rw [hs]; exact h2.low_width
  · rw [hs]
    apply List.ext_getElem?
    intro i
    rw [IntVec.items_getElem?]
    show (if i < b'.low.len then _ else _) = _
    rw [h2.low_len]
    by_cases hi : i < P.length
    · rw [if_pos hi, h2.low_val i hi, if_pos hi]
      simp [List.getElem?_eq_getElem hi]
    · rw [if_neg hi, List.getElem?_eq_none (by simp; omega)]

/-! ### C03 / C16 / C11: `From<RLBuilder>` never faults on a reachable builder

The conversion calls `SampleIndex::new` three times (block start offsets, ones before each block, zeros
before each block); each call asserts that its values start at 0, are non-decreasing and stay below the
universe.  For a builder that describes a bit sequence (`RLBuilder.Abs`, which every accepted call history
establishes) the flushed runs are the MAXIMAL runs of that sequence, hence separated by at least one unset
bit; so every block holds a set bit, every block but the first also an unset one, the number of blocks is at
most 2^63, and all three assertions hold. -/

namespace RL
open RunIter RLBuilder SampleIndex

/-! #### maximal runs are separated -/

/-- runs `(start, length)` in increasing order, each starting at or after `lo`, consecutive runs separated by
at least one position -/
def Sep : Nat → List (Nat × Nat) → Prop
  | _, [] => True
  | lo, r :: rs => lo ≤ r.1 ∧ Sep (r.1 + r.2 + 1) rs

theorem runsOf_sep : ∀ (bs : List Bool) (i lo : Nat) (st : Option (Nat × Nat)),
    (st = none → lo ≤ i) → (∀ r, st = some r → lo ≤ r.1 ∧ r.1 + r.2 = i) → Sep lo (runsOf bs i st) := by
  intro bs
  induction bs with
  | nil =>
    intro i lo st h1 h2
    cases st with
    | none => trivial
    | some r => exact ⟨(h2 r rfl).1, trivial⟩
  | cons b bs ih =>
    intro i lo st h1 h2
    cases b with
    | true =>
      cases st with
      | none =>
        simp only [runsOf]
        exact ih (i + 1) lo (some (i, 1)) (by intro h; cases h)
          (by intro r hr; cases hr; exact ⟨h1 rfl, rfl⟩)
      | some r =>
        obtain ⟨s, l⟩ := r
        simp only [runsOf]
        have := h2 (s, l) rfl
        exact ih (i + 1) lo (some (s, l + 1)) (by intro h; cases h)
          (by intro r hr; cases hr; exact ⟨this.1, by simp at this ⊢; omega⟩)
    | false =>
      cases st with
      | none =>
        simp only [runsOf]
        exact ih (i + 1) lo none (by intro _; have := h1 rfl; omega) (by intro r hr; cases hr)
      | some r =>
        simp only [runsOf]
        have := h2 r rfl
        exact ⟨this.1, ih (i + 1) (r.1 + r.2 + 1) none (by intro _; omega) (by intro r hr; cases hr)⟩

theorem maximalRuns_sep (B : List Bool) : Sep 0 (maximalRuns B) :=
  runsOf_sep B 0 0 none (fun _ => Nat.le_refl _) (by intro r hr; cases hr)

/-- relative runs whose absolute form is separated from `pos + 1` on all have a gap of at least 1 -/
theorem gaps_of_sep : ∀ (rel : List (Nat × Nat)) (pos : Nat), Sep (pos + 1) (absRuns pos rel) →
    ∀ p ∈ rel, 1 ≤ p.1 := by
  intro rel
  induction rel with
  | nil => intro pos _ p hp; cases hp
  | cons q rs ih =>
    intro pos h p hp
    simp only [absRuns, Sep] at h
    rcases List.mem_cons.mp hp with rfl | hp
    · omega
    · exact ih (pos + q.1 + q.2) h.2 p hp

theorem gaps_of_sep_tail (rel : List (Nat × Nat)) (h : Sep 0 (absRuns 0 rel)) :
    ∀ p ∈ rel.tail, 1 ≤ p.1 := by
  cases rel with
  | nil => intro p hp; cases hp
  | cons q rs =>
    simp only [absRuns, Sep] at h
    exact gaps_of_sep rs _ h.2

/-! #### `SampleIndex::new` succeeds on a monotone table -/

theorem new_nil_ok (m : Mode) (univ : Nat) : ∃ s, SampleIndex.new m [] univ = ok s := by
  obtain ⟨d, hd, _⟩ := IntVec.withLen_spec_rl 1 1 0 (by decide) (by decide)
  exact ⟨_, by unfold SampleIndex.new; rw [hd]; rfl⟩

theorem new_univ_zero_ok (m : Mode) (values : List Nat) : ∃ s, SampleIndex.new m values 0 = ok s := by
  obtain ⟨d, hd, _⟩ := IntVec.withLen_spec_rl 1 1 0 (by decide) (by decide)
  cases values with
  | nil => exact new_nil_ok m 0
  | cons a t => exact ⟨_, by unfold SampleIndex.new; simp only [if_pos]; rw [hd]; rfl⟩

/-- the values `f 0, …, f (n-1)` of a non-decreasing function with `f 0 = 0`, all below a non-zero universe
(or any values at all when the universe is empty) -/
theorem new_range_map_ok (m : Mode) (f : Nat → Nat) (n univ : Nat)
    (hmono : ∀ i j, i ≤ j → j < n → f i ≤ f j) (h0 : 0 < n → f 0 = 0)
    (hlt : univ ≠ 0 → ∀ i, i < n → f i < univ) (hn : n + 8 < U64) (hu : univ < U64) :
    ∃ s, SampleIndex.new m ((List.range n).map f) univ = ok s := by
  by_cases hu0 : univ = 0
  · subst hu0; exact new_univ_zero_ok m _
  cases n with
  | zero => exact new_nil_ok m univ
  | succ k =>
    have e : (List.range (k + 1)).map f = 0 :: (List.range k).map (fun i => f (i + 1)) := by
      rw [List.range_succ_eq_map, List.map_cons, List.map_map, h0 (by omega)]
      rfl
    rw [e]
    have hget : ∀ i (hi : i < (0 :: (List.range k).map (fun i => f (i + 1))).length),
        (0 :: (List.range k).map (fun i => f (i + 1)))[i] = f i := by
      intro i hi
      have hi' : i < ((List.range (k + 1)).map f).length := by simpa using hi
      have : ((List.range (k + 1)).map f)[i] = f i := by simp
      rw [← this]
      congr 1
      exact e.symm
    obtain ⟨s, hs, _⟩ := SampleIndex.new_valid m ((List.range k).map (fun i => f (i + 1))) univ
      (by
        intro i j hij hj
        rw [hget i (by omega), hget j hj]
        exact hmono i j hij (by simpa using hj))
      (by
        intro v hv
        obtain ⟨i, hi, rfl⟩ := List.getElem_of_mem hv
        rw [hget i hi]
        exact hlt hu0 i (by simpa using hi))
      (by show (0 :: (List.range k).map (fun i => f (i + 1))).length + 8 < U64; simpa using hn) hu
    exact ⟨s, hs⟩

theorem mapM_loop_ok {α β : Type} (f : α → Outcome β) (g : α → β) : ∀ (l : List α) (acc : List β),
    (∀ p ∈ l, f p = ok (g p)) → List.mapM.loop f l acc = ok (acc.reverse ++ l.map g) := by
  intro l
  induction l with
  | nil => intro acc _; simp [List.mapM.loop]
  | cons a t ih =>
    intro acc h
    rw [List.mapM.loop, h a (by simp)]
    simp only [bind_ok]
    rw [ih _ (fun p hp => h p (List.mem_cons_of_mem _ hp))]
    simp

theorem mapM_ok {α β : Type} (f : α → Outcome β) (g : α → β) (l : List α)
    (h : ∀ p ∈ l, f p = ok (g p)) : l.mapM f = ok (l.map g) := by
  rw [List.mapM, mapM_loop_ok f g l [] h]; simp

/-! #### prefix sums over a block list -/

theorem lens_take_mono (L : List (List (Nat × Nat))) (j k : Nat) (h : j ≤ k) :
    lens (L.take j).flatten ≤ lens (L.take k).flatten := by
  have : L.take k = L.take j ++ (L.take k).drop j := by
    have := List.take_append_drop j (L.take k)
    rw [List.take_take, Nat.min_eq_left h] at this
    exact this.symm
  rw [this, List.flatten_append, lens_append]; omega

theorem span_succ (bl : List (List (Nat × Nat))) (i : Nat) (h : i < bl.length) :
    span (bl.take (i + 1)).flatten = span (bl.take i).flatten + span bl[i] := by
  rw [List.take_add_one, List.getElem?_eq_getElem h]
  rw [Option.toList_some, List.flatten_append, span_append]
  simp only [List.flatten_cons, List.flatten_nil, List.append_nil]

/-- zeros before block `i` are non-decreasing in `i` -/
theorem zeros_take_mono (L : List (List (Nat × Nat))) (j k : Nat) (h : j ≤ k) :
    span (L.take j).flatten - lens (L.take j).flatten ≤ span (L.take k).flatten - lens (L.take k).flatten := by
  have : L.take k = L.take j ++ (L.take k).drop j := by
    have := List.take_append_drop j (L.take k)
    rw [List.take_take, Nat.min_eq_left h] at this
    exact this.symm
  rw [this, List.flatten_append, span_append, lens_append]
  have a := lens_le_span (L.take j).flatten
  have c := lens_le_span ((L.take k).drop j).flatten
  omega

/-- a block other than the first lies in the tail of the flattened run list -/
theorem mem_flatten_tail (bl : List (List (Nat × Nat))) (h0 : ∀ blk ∈ bl, blk ≠ []) (i : Nat)
    (hi : i < bl.length) (hpos : 1 ≤ i) (p : Nat × Nat) (hp : p ∈ bl[i]) : p ∈ bl.flatten.tail := by
  cases bl with
  | nil => simp at hi
  | cons b0 rest =>
    cases b0 with
    | nil => exact absurd rfl (h0 [] (by simp))
    | cons q b0' =>
      simp only [List.flatten_cons, List.cons_append, List.tail_cons]
      apply List.mem_append_right
      cases i with
      | zero => omega
      | succ j =>
        simp only [List.getElem_cons_succ] at hp
        exact List.mem_flatten.mpr ⟨_, List.getElem_mem _, hp⟩

theorem span_ge_of_gaps : ∀ (blk : List (Nat × Nat)), (∀ p ∈ blk, 1 ≤ p.1) → lens blk + blk.length ≤ span blk := by
  intro blk
  induction blk with
  | nil => intro _; simp [lens, span]
  | cons p rs ih =>
    intro h
    have := ih (fun q hq => h q (List.mem_cons_of_mem _ hq))
    have := h p (by simp)
    simp only [lens, span, List.length_cons]; omega

theorem two_runs_le_span (rel : List (Nat × Nat)) (hl : ∀ p ∈ rel, 1 ≤ p.2) (hg : ∀ p ∈ rel.tail, 1 ≤ p.1) :
    2 * rel.length ≤ span rel + 1 := by
  cases rel with
  | nil => simp
  | cons q rs =>
    have h1 := span_ge_of_gaps rs hg
    have h2 : rs.length ≤ lens rs := by
      clear h1 hg
      induction rs with
      | nil => simp
      | cons r rs ih =>
        have := ih (fun p hp => hl p (by
          rcases List.mem_cons.mp hp with rfl | hp
          · simp
          · exact List.mem_cons_of_mem _ (List.mem_cons_of_mem _ hp)))
        have := hl r (by simp)
        simp only [lens, List.length_cons]; omega
    have := hl q (by simp)
    simp only [span, List.length_cons]; omega

theorem length_le_flatten (bl : List (List (Nat × Nat))) (h0 : ∀ blk ∈ bl, blk ≠ []) :
    bl.length ≤ bl.flatten.length := by
  induction bl with
  | nil => simp
  | cons b rest ih =>
    have := ih (fun blk hb => h0 blk (List.mem_cons_of_mem _ hb))
    have hb : 1 ≤ b.length := by
      cases b with
      | nil => exact absurd rfl (h0 [] (by simp))
      | cons _ _ => simp
    simp only [List.flatten_cons, List.length_append, List.length_cons]; omega

/-! #### `From<RLBuilder>` never faults on a reachable builder -/

theorem ofBuilder_ok (m : Mode) {b : RLBuilder} {B : List Bool} {done : List (List (Nat × Nat))}
    {cur : List (Nat × Nat)} (ha : Abs b B done cur) : ∃ v, ofBuilder m b = ok v := by
  obtain ⟨hi, hd, hl, hcnt, hrn⟩ := ha
  obtain ⟨b1, done', cur', e, hd1, l1, l2, l3, hfl⟩ := flush_dinv m hi hd
  have hi1 := flush_inv m hi e
  have hr2 : b1.run.2 = 0 := by rw [l3]
  have hr1 : b1.run.1 = b.len := by rw [l3]
  have htl := hi1.tail_le
  have hlt := hi1.len_lt
  have hol := hi1.ones_le
  -- the flushed runs are the maximal runs of `B`: separated
  have hruns : absRuns 0 (done'.flatten ++ cur') = maximalRuns B := by
    have := hrn []
    rw [List.append_nil] at this
    unfold maximalRuns
    rw [this, hfl]
    unfold pend
    have htl0 := hi.tail_le
    by_cases hr0 : b.run.2 = 0
    · rw [if_pos hr0, if_pos hr0, List.append_nil]; simp [runsOf]
    · have ht : span (done.flatten ++ cur) = b.tail := by rw [span_append, hd.tail]
      rw [if_neg hr0, if_neg hr0, absRuns_append, ht]
      simp only [absRuns, runsOf]
      rw [show 0 + b.tail + (b.run.1 - b.tail) = b.run.1 by omega]
  have hgaps : ∀ p ∈ (done'.flatten ++ cur').tail, 1 ≤ p.1 :=
    gaps_of_sep_tail _ (by rw [hruns]; exact maximalRuns_sep B)
  obtain ⟨d1, d2, d3, d4, d5, d6, d7, d8, d9, d10⟩ := hd1
  have hones : b1.ones = lens done'.flatten + lens cur' := by rw [hr2] at d9; omega
  have hslen : b1.samples.toList.length = b1.samples.size := Array.length_toList
  have hzero : b1.countZeros m = ok (b1.len - b1.ones) := by
    unfold RLBuilder.countZeros; exact subM_ok hol
  by_cases hcur : cur' = []
  · have hdn := d3 hcur
    subst hcur; subst hdn
    simp only [if_true, List.length_nil, Nat.add_zero] at d4
    have hsl : b1.samples.toList = [] := List.eq_nil_of_length_eq_zero (by rw [hslen, d4])
    obtain ⟨ri, hri⟩ := new_nil_ok m b1.len
    obtain ⟨si, hsi⟩ := new_nil_ok m b1.ones
    obtain ⟨zi, hzi⟩ := new_nil_ok m (b1.len - b1.ones)
    have hw := bitLen_spec_rl 0 (by decide)
    unfold ofBuilder
    rw [e]
    simp only [bind_ok, hsl, List.map_nil, hri, hsi, hzero, List.mapM_nil, pure_eq, hzi, List.getLast?_nil]
    unfold IntVec.withCapacity IntVec.new
    rw [if_neg (by omega)]
    exact ⟨_, rfl⟩
  · rw [if_neg hcur] at d4
    -- all blocks uniformly: `bl = done' ++ [cur']`
    have hbl : (done' ++ [cur']).length = done'.length + 1 := by simp
    have hflat : (done' ++ [cur']).flatten = done'.flatten ++ cur' := by simp [List.flatten_append]
    have hne : ∀ blk ∈ done' ++ [cur'], blk ≠ [] := by
      intro blk hb
      rcases List.mem_append.mp hb with hb | hb
      · exact (d1 blk hb).1
      · simp at hb; subst hb; exact hcur
    have hok : ∀ blk ∈ done' ++ [cur'], ∀ p ∈ blk, p.1 < 2 ^ 64 ∧ 1 ≤ p.2 := by
      intro blk hb
      rcases List.mem_append.mp hb with hb | hb
      · exact (d1 blk hb).2.1
      · simp at hb; subst hb; exact d2.1
    have htake : ∀ j, j ≤ done'.length → (done' ++ [cur']).take j = done'.take j :=
      fun j hj => List.take_append_of_le_length hj
    have hfull : (done' ++ [cur']).take (done'.length + 1) = done' ++ [cur'] := by
      rw [← hbl, List.take_length]
    -- totals
    have hF1n : lens ((done' ++ [cur']).take (done'.length + 1)).flatten = b1.ones := by
      rw [hfull, hflat, lens_append, hones]
    have hF2n : span ((done' ++ [cur']).take (done'.length + 1)).flatten ≤ b1.len := by
      rw [hfull, hflat, span_append, ← d10]; rw [l1]; omega
    -- each block has at least one set bit; each block but the first at least one unset bit
    have hblk1 : ∀ i (hi : i < (done' ++ [cur']).length), 1 ≤ lens (done' ++ [cur'])[i] :=
      fun i hi => lens_pos (hne _ (List.getElem_mem hi)) (hok _ (List.getElem_mem hi))
    have hblk2 : ∀ i (hi : i < (done' ++ [cur']).length), 1 ≤ i →
        lens (done' ++ [cur'])[i] + 1 ≤ span (done' ++ [cur'])[i] := by
      intro i hi hpos
      have hg : ∀ p ∈ (done' ++ [cur'])[i], 1 ≤ p.1 := fun p hp =>
        hgaps p (by rw [← hflat]; exact mem_flatten_tail _ hne i hi hpos p hp)
      have := span_ge_of_gaps _ hg
      have : 1 ≤ ((done' ++ [cur'])[i]).length := by
        cases hh : (done' ++ [cur'])[i] with
        | nil => exact absurd hh (hne _ (List.getElem_mem hi))
        | cons _ _ => simp
      omega
    -- the samples
    have hsl : b1.samples.toList = (List.range (done'.length + 1)).map fun i =>
        (lens ((done' ++ [cur']).take i).flatten, span ((done' ++ [cur']).take i).flatten) := by
      apply List.ext_getElem
      · rw [hslen, d4]; simp
      · intro i h1 h2
        have hi : i < done'.length + 1 := by rw [hslen, d4] at h1; exact h1
        rw [Array.getElem_toList, d8 i (by rw [d4]; exact hi)]
        simp only [List.getElem_map, List.getElem_range]
        rw [htake i (by omega)]
    -- number of blocks
    have hnb : done'.length + 1 + 8 < U64 := by
      have h1 := length_le_flatten _ hne
      have h2 := two_runs_le_span (done' ++ [cur']).flatten
        (fun p hp => by
          obtain ⟨blk, hb, hp⟩ := List.mem_flatten.mp hp
          exact (hok blk hb p hp).2)
        (by rw [hflat]; exact hgaps)
      rw [hbl] at h1
      rw [hfull] at hF2n
      rw [U64_eq] at hlt ⊢
      omega
    -- prefix sums
    have hsuccL : ∀ i (hi : i < done'.length + 1),
        lens ((done' ++ [cur']).take (i + 1)).flatten =
          lens ((done' ++ [cur']).take i).flatten + lens ((done' ++ [cur'])[i]'(by rw [hbl]; exact hi)) :=
      fun i hi => cum_succ _ i (by rw [hbl]; exact hi)
    have hsuccS : ∀ i (hi : i < done'.length + 1),
        span ((done' ++ [cur']).take (i + 1)).flatten =
          span ((done' ++ [cur']).take i).flatten + span ((done' ++ [cur'])[i]'(by rw [hbl]; exact hi)) :=
      fun i hi => span_succ _ i (by rw [hbl]; exact hi)
    -- the three indexes
    obtain ⟨ri, hri⟩ : ∃ ri, SampleIndex.new m (b1.samples.toList.map (·.2)) b1.len = ok ri := by
      rw [hsl, List.map_map]
      refine new_range_map_ok m _ (done'.length + 1) b1.len ?_ ?_ ?_ hnb hlt
      · intro i j hij hj
        exact span_take_mono _ i j hij
      · intro _; simp [span]
      · intro _ i hi
        show span ((done' ++ [cur']).take i).flatten < b1.len
        have h1 := hsuccS i hi
        have h2 := span_take_mono (done' ++ [cur']) (i + 1) (done'.length + 1) (by omega)
        have h3 := hblk1 i (by rw [hbl]; exact hi)
        have h4 := lens_le_span ((done' ++ [cur'])[i]'(by rw [hbl]; omega))
        omega
    obtain ⟨si, hsi⟩ : ∃ si, SampleIndex.new m (b1.samples.toList.map (·.1)) b1.ones = ok si := by
      rw [hsl, List.map_map]
      refine new_range_map_ok m _ (done'.length + 1) b1.ones ?_ ?_ ?_ hnb (by omega)
      · intro i j hij hj
        exact lens_take_mono _ i j hij
      · intro _; simp [lens]
      · intro _ i hi
        show lens ((done' ++ [cur']).take i).flatten < b1.ones
        have h1 := hsuccL i hi
        have h2 := lens_take_mono (done' ++ [cur']) (i + 1) (done'.length + 1) (by omega)
        have h3 := hblk1 i (by rw [hbl]; exact hi)
        omega
    have hzs : b1.samples.toList.mapM (fun p => subM m p.2 p.1) =
        ok ((List.range (done'.length + 1)).map fun i =>
          span ((done' ++ [cur']).take i).flatten - lens ((done' ++ [cur']).take i).flatten) := by
      rw [mapM_ok _ (fun p => p.2 - p.1), hsl, List.map_map]
      · rfl
      · intro p hp
        rw [hsl] at hp
        obtain ⟨i, _, rfl⟩ := List.mem_map.mp hp
        exact subM_ok (lens_le_span _)
    obtain ⟨zi, hzi⟩ : ∃ zi, SampleIndex.new m ((List.range (done'.length + 1)).map fun i =>
          span ((done' ++ [cur']).take i).flatten - lens ((done' ++ [cur']).take i).flatten)
          (b1.len - b1.ones) = ok zi := by
      refine new_range_map_ok m _ (done'.length + 1) (b1.len - b1.ones) ?_ ?_ ?_ hnb (by omega)
      · intro i j hij hj
        exact zeros_take_mono _ i j hij
      · intro _; simp [span, lens]
      · intro hu0 i hi
        show span ((done' ++ [cur']).take i).flatten - lens ((done' ++ [cur']).take i).flatten <
          b1.len - b1.ones
        have hmono := zeros_take_mono (done' ++ [cur']) i done'.length (by omega)
        have hL := hsuccL done'.length (by omega)
        have hS := hsuccS done'.length (by omega)
        have hls := lens_le_span ((done' ++ [cur']).take done'.length).flatten
        have hls2 := lens_le_span ((done' ++ [cur'])[done'.length]'(by rw [hbl]; omega))
        by_cases hd0 : done'.length = 0
        · have : i = 0 := by omega
          subst this
          simp only [List.take_zero, List.flatten_nil, span, lens]
          omega
        · have hb2 := hblk2 done'.length (by rw [hbl]; omega) (by omega)
          omega
    -- the width of the packed samples
    have hlast : ∀ p, b1.samples.toList.getLast? = some p → p.2 < 2 ^ 64 := by
      intro p hgl
      have hmem := List.mem_of_getLast? hgl
      rw [hsl] at hmem
      obtain ⟨i, hi, rfl⟩ := List.mem_map.mp hmem
      have hi' := List.mem_range.mp hi
      show span ((done' ++ [cur']).take i).flatten < 2 ^ 64
      have h2 := span_take_mono (done' ++ [cur']) i (done'.length + 1) (by omega)
      rw [U64_eq] at hlt
      omega
    unfold ofBuilder
    rw [e]
    simp only [bind_ok, hri, hsi, hzero, hzs, hzi]
    cases hgl : b1.samples.toList.getLast? with
    | none =>
      have hw := bitLen_spec_rl 0 (by decide)
      simp only []
      unfold IntVec.withCapacity IntVec.new
      rw [if_neg (by omega)]
      exact ⟨_, rfl⟩
    | some p =>
      have hw := bitLen_spec_rl p.2 (hlast p hgl)
      simp only []
      unfold IntVec.withCapacity IntVec.new
      rw [if_neg (by omega)]
      exact ⟨_, rfl⟩


/-- the conversion succeeds after every accepted call history -/
theorem ofBuilder_total (m : Mode) (calls : List BCall) (hc : ∀ c ∈ calls, callArgsOk c)
    (b : RLBuilder) (hb : runBCalls m calls {} = ok b) : ∃ v, ofBuilder m b = ok v := by
  obtain ⟨done, cur, ha⟩ := runBCalls_abs m calls {} b [] [] [] hc abs_empty hb
  exact ofBuilder_ok m ha

/-- **round trip, unconditional**: any accepted call history, converted, iterated -/
theorem build_iterate_calls_total (m : Mode) (calls : List BCall) (hc : ∀ c ∈ calls, callArgsOk c)
    (b : RLBuilder) (hb : runBCalls m calls {} = ok b) :
    ∃ v, ofBuilder m b = ok v ∧
      v.len = (calls.foldl specCall []).length ∧ v.ones = (calls.foldl specCall []).count true ∧
      ∃ it0 e endPos, v.runIter = ok it0 ∧
        collect m v ((maximalRuns (calls.foldl specCall [])).length + 1) it0 =
          ok (withPos 0 (maximalRuns (calls.foldl specCall [])), e) ∧
        e.pos = ((calls.foldl specCall []).count true, endPos) ∧
        endPos ≤ (calls.foldl specCall []).length := by
  obtain ⟨v, hv⟩ := ofBuilder_total m calls hc b hb
  exact ⟨v, hv, build_iterate_calls m calls hc b hb v hv⟩

end RL

namespace BuildersProofs

/-- **any history, refused calls included, is converted successfully**, and the vector is that of the
accepted calls -/
theorem rl_history_roundtrip_total (m : Mode) (cs : List RL.BCall) (hargs : ∀ c ∈ cs, argsOk c) :
    ∃ b v, rlRun m cs {} = ok b ∧ RlInv b ∧ RL.ofBuilder m b = ok v ∧
      v.len = ((rlAccepted m cs {}).foldl RL.specCall []).length ∧
      v.ones = ((rlAccepted m cs {}).foldl RL.specCall []).count true ∧
      ∃ it0 e endPos, v.runIter = ok it0 ∧
        RunIter.collect m v ((maximalRuns ((rlAccepted m cs {}).foldl RL.specCall [])).length + 1) it0 =
          ok (RunIter.withPos 0 (maximalRuns ((rlAccepted m cs {}).foldl RL.specCall [])), e) ∧
        e.pos = (((rlAccepted m cs {}).foldl RL.specCall []).count true, endPos) ∧
        endPos ≤ ((rlAccepted m cs {}).foldl RL.specCall []).length := by
  obtain ⟨b, hb, hi⟩ := rlRun_fixed_default m cs hargs
  have hacc := rlRun_accepted m cs {} b hb
  have hok : ∀ c ∈ rlAccepted m cs {}, RL.callArgsOk c := fun c hc =>
    (argsOk_iff c).mp (hargs c ((rlAccepted_sublist m cs {}).subset hc))
  obtain ⟨v, hv, h⟩ := RL.build_iterate_calls_total m _ hok b hacc
  exact ⟨b, v, hb, hi, hv, h⟩

end BuildersProofs

end Sds
