/-
Proofs/GenEqBits: the functions of `bits.rs` as TRANSLATED statement by statement from the source on every run
(Generated/FnsBits.lean, produced by tools/rs2lean.py) are equal to the hand-written model definitions of
Model/Bits.lean that all other theorems are about.
-/
import Sds.Model.Bits
import Sds.Generated.FnsBits
import Sds.Proofs.Tables
import Sds.Proofs.BitsMore
import Sds.Proofs.GenFns

namespace Sds.GenEq
open Sds Outcome Generated

/-! ### helpers -/

theorem bind_pure_id {α} (x : Outcome α) : (x >>= fun a => pure a) = x := by
  cases x <;> rfl

theorem shr6 (b : Nat) : b >>> 6 = b / 64 := by
  rw [Nat.shiftRight_eq_div_pow]

theorem and63 (b : Nat) : b &&& 63 = b % 64 :=
  Nat.and_two_pow_sub_one_eq_mod b 6

theorem shAmt_ok (m : Mode) {k : Nat} (h : k < 64) : shAmt m k = ok k := by
  simp [shAmt, h]

theorem shlW_ok (m : Mode) (w : Word) {k : Nat} (h : k < 64) : shlW m w k = ok (w <<< k) := by
  simp [shlW, shAmt_ok m h, Bind.bind, Outcome.bind, Pure.pure]

theorem shrW_ok (m : Mode) (w : Word) {k : Nat} (h : k < 64) : shrW m w k = ok (w >>> k) := by
  simp [shrW, shAmt_ok m h, Bind.bind, Outcome.bind, Pure.pure]

theorem getC_fault {a : Array Word} {i : Nat} (h : ¬ i < a.size) : getC a i = fault (.panic .index) := by
  simp [getC, h]

theorem rd_set_self (a : Array Word) (i : Nat) (x : Word) (h : i < a.size) :
    rd (a.setIfInBounds i x) i = x := by
  rw [rd_set _ _ _ _ h, if_pos rfl]

/-! ### the equations -/

theorem low_set_eq (m : Mode) (n : Nat) : gen_low_set m n = lowSetT n := by
  unfold gen_low_set lowSetT; rfl
theorem low_set_unchecked_eq (m : Mode) (n : Nat) : gen_low_set_unchecked m n = lowSetU n := by
  unfold gen_low_set_unchecked lowSetU; rfl
theorem high_set_eq (m : Mode) (n : Nat) : gen_high_set m n = highSetT n := by
  unfold gen_high_set highSetT; rfl
theorem high_set_unchecked_eq (m : Mode) (n : Nat) : gen_high_set_unchecked m n = highSetU n := by
  unfold gen_high_set_unchecked highSetU; rfl

theorem bit_len_eq (m : Mode) (n : Word) : gen_bit_len m n = ok (bitLen n) := by
  unfold gen_bit_len bitLen
  rw [subM_ok (clz_le _)]

theorem reverse_low_eq (m : Mode) (n : Word) (bits : Nat) (h1 : 1 ≤ bits) (h2 : bits ≤ 64) :
    gen_reverse_low m n bits = ok (reverseLow n bits) := by
  unfold gen_reverse_low reverseLow
  rw [subM_ok h2]
  simp only [bind_ok]
  rw [shrW_ok m _ (by omega)]

theorem filler_value_eq (m : Mode) (b : Bool) : gen_filler_value m b = ok (fillerValue b) := by
  unfold gen_filler_value fillerValue
  cases b <;> simp [Pure.pure]

theorem read_int_eq (m : Mode) (a : Array Word) (off width : Nat) (hw : width ≤ 64) (ho : off < U64) :
    gen_read_int m a off width = readIntM a off width := by
  have hU : U64 = 18446744073709551616 := rfl
  have hoff : off % 64 < 64 := Nat.mod_lt _ (by decide)
  unfold gen_read_int readIntM readInt
  rw [Sds.GenFns.split_offset_eq]
  simp only [bind_ok, splitOffset, shr6, and63]
  rw [if_neg (by omega)]
  by_cases hi : off / 64 < a.size
  · rw [getC_ok hi]
    simp only [bind_ok]
    rw [shrW_ok m _ hoff]
    simp only [bind_ok]
    rw [addM_ok (by omega)]
    simp only [bind_ok]
    by_cases hc : off % 64 + width ≤ 64
    · simp only [hc, decide_true, if_true, hi, low_set_unchecked_eq, lowSetU_eq _ hw, bind_ok, pure_eq]
    · have hm : (off % 64 + width) % 64 ≤ 64 := by omega
      simp only [hc, decide_false, if_false, Bool.false_eq_true, low_set_unchecked_eq]
      rw [addM_ok (by omega)]
      simp only [bind_ok]
      by_cases hi1 : off / 64 + 1 < a.size
      · rw [getC_ok hi1]
        simp only [bind_ok, lowSetU_eq _ hm]
        rw [subM_ok (by omega)]
        simp only [bind_ok]
        rw [shlW_ok m _ (by omega)]
        simp only [bind_ok, pure_eq, hi1, if_true]
      · rw [getC_fault hi1]
        simp only [bind_fault, hi1, if_false]
  · rw [getC_fault hi]
    simp only [bind_fault]
    have : ¬ off / 64 + 1 < a.size := by omega
    simp only [hi, this, if_false, ite_self]

theorem write_int_eq (m : Mode) (a : Array Word) (off : Nat) (value : Word) (width : Nat) (ho : off < U64) :
    gen_write_int m a off value width = writeIntM a off value width := by
  have hU : U64 = 18446744073709551616 := rfl
  have hoff : off % 64 < 64 := Nat.mod_lt _ (by decide)
  unfold gen_write_int writeIntM
  rw [low_set_eq]
  by_cases hw : width > 64
  · rw [lowSetT_out _ hw, if_pos hw]; rfl
  · have hw' : width ≤ 64 := by omega
    rw [lowSetT_eq _ hw', if_neg hw]
    simp only [bind_ok]
    rw [Sds.GenFns.split_offset_eq]
    simp only [bind_ok, splitOffset, shr6, and63]
    rw [addM_ok (by omega)]
    simp only [bind_ok, low_set_unchecked_eq, high_set_unchecked_eq, high_set_eq]
    by_cases hc : off % 64 + width ≤ 64
    · simp only [hc, decide_true, if_true]
      rw [subM_ok hw']
      simp only [bind_ok]
      rw [subM_ok (by omega)]
      simp only [bind_ok]
      rw [highSetU_eq _ (by omega), lowSetU_eq _ (by omega)]
      simp only [bind_ok]
      by_cases hi : off / 64 < a.size
      · rw [getC_ok hi]
        simp only [bind_ok]
        rw [shlW_ok m _ hoff]
        simp only [bind_ok]
        rw [getC_ok (by simpa using hi)]
        simp only [bind_ok, pure_eq, hi, if_true, rd_set _ _ _ _ hi, Array.setIfInBounds_setIfInBounds,
          writeInt, hc]
      · rw [getC_fault hi]
        simp only [bind_fault, hi, if_false]
    · simp only [hc, decide_false, if_false, Bool.false_eq_true]
      rw [lowSetU_eq _ (by omega)]
      simp only [bind_ok]
      by_cases hi : off / 64 < a.size
      · rw [getC_ok hi]
        simp only [bind_ok]
        rw [shlW_ok m _ hoff]
        simp only [bind_ok]
        rw [getC_ok (by simpa using hi)]
        simp only [bind_ok]
        rw [subM_ok (by omega)]
        simp only [bind_ok]
        rw [subM_ok (by omega)]
        simp only [bind_ok]
        rw [highSetT_eq _ (by omega)]
        simp only [bind_ok]
        rw [addM_ok (by omega)]
        simp only [bind_ok]
        by_cases hi1 : off / 64 + 1 < a.size
        · rw [getC_ok (by simpa using hi1)]
          simp only [bind_ok]
          rw [subM_ok (by omega)]
          simp only [bind_ok]
          rw [shrW_ok m _ (by omega)]
          simp only [bind_ok]
          rw [getC_ok (by simpa using hi1)]
          simp only [bind_ok, pure_eq, hi1, if_true, Array.setIfInBounds_setIfInBounds, writeInt, hc, if_false]
          simp only [rd_set_self, Array.size_setIfInBounds, hi, hi1]
        · rw [getC_fault (by simpa using hi1)]
          simp only [bind_fault, hi1, if_false]
      · rw [getC_fault hi]
        simp only [bind_fault]
        have : ¬ off / 64 + 1 < a.size := by omega
        simp only [this, if_false]

end Sds.GenEq
