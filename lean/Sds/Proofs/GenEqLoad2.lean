/-
Proofs/GenEqLoad2: `RLVector::load` as TRANSLATED from the source (Generated/FnsLoad2.lean) against the `load` of the
hand-written codec `rlC m` (Model/RL) — same method and style as Proofs/GenEqLoad.

* `rl_load_eq : RlOk es → RlOrd m es → gen_RLVector_load m es = (rlC m).load es`, and under `RlOk es` the second
  hypothesis is also NECESSARY: `rl_load_eq_iff : RlOk es → (… = … ↔ RlOrd m es)`.
* `RlOk es` (arithmetic on the words read, mirrors the loader): the two embedded `IntVector::load` are `IntOk` on their
  part of the stream; `data.len() + 64 < 2^64` (`div_round_up(data.len(), 64)`; sharp: `rl_load_ne_blocks` — the wrapping
  build ACCEPTS a vector with `2^64 − 1` code units and no sample); and, once the sanity check has passed with at least
  one block, `samples.width ≤ 64` (`samples.get` goes through `read_int`, `IntVector::load` does not check the width;
  sharp in the checked build: `rl_load_ne_width`).  Everything else is derived: `len`, `ones < 2^64` (read as words),
  `2 * block + 1 < samples.len()` (so no `samples.get` ever panics: `block < samples.len() / 2`), the number of blocks
  is below `2^58` (sanity check + the bound on `data.len()`), hence the three `SampleIndex::new` agree
  (`sample_index_new_eq`), `len - ones < 2^64`, and `(a - c) as usize` on words is the model's `subM` on their values in
  BOTH modes (`subW_toNat`: same overflow panic when checked, same wrapped value when not).
* `RlOrd m es` (order of effects).  The source evaluates column 1, index 1, column 2, index 2, column 3, `len - ones`,
  index 3; the model evaluates the three columns first.  Columns 1 and 2 cannot fault, the zero column can (checked
  build only, `zerosColQ_ovf`, `zerosColQ_wrapping`: `bits - ones` of a stored pair underflows), so the model reports the
  arithmetic-overflow panic on a stream where the source has already died in the rank or select `SampleIndex::new`.
  `RlRestOrd`: IF the zero column underflows THEN those two constructions fault, if at all, with the overflow panic too.
  `rl_load_ne_order` / `rl_load_ne_order_select`: streams with `RlOk` (`rlOrderStream_ok`) on which the checked source
  reports the ASSERTION panic of `SampleIndex::new` and the model the OVERFLOW panic.  This is a divergence of the MODEL
  from the real code: the real iterators are lazy, the zero-column closure is not even created before the first two
  indexes are built, so the real checked build reports the assertion, as the translation does.
  Sufficient conditions: no overflow checks (`RlOrd_wrapping`, `rl_load_eq_wrapping` needs `RlOk` only), or "the zero
  column does not underflow" (`RlNoUnderflow`: in every stored pair ones ≤ bits; `rl_load_eq_of_noUnderflow`).
  The zero column comes before `len - ones` on both sides (the real code computes `len - ones` before it pulls the first
  item of the lazy zero column, but both can only give the overflow panic).
* streams of small words (`Small`, every word below `2^32`): `RlOk_of_small` with `RlWidthOk` (the width is a stream
  word, as for `SparseVector`), `rl_load_eq_small`, `rl_load_eq_small_wrapping`.

Method: `rl_load_pieces`, `rl_model_pieces` (by `rfl`) cut both loaders into the header and the tail after the sanity
check (`rlGenRest` with the three translated iterators `rlGenBits/Ones/Zeros`; `rlModRest`); `rl_gen_rest_eq` brings
the translated tail to `rlSrcRest` (model operations, order of the source); `rl_rest_eq_iff` compares the two orders.
-/
import Sds.Generated.FnsLoad2
import Sds.Proofs.GenEqLoad
import Sds.Proofs.GenEqConstr
import Sds.Proofs.GenEqConstr4

set_option linter.unusedSimpArgs false
set_option linter.unusedVariables false
namespace Sds.GenEq
open Sds Outcome Generated Codec2

/-! ### reads of a LOADED integer vector -/

theorem int_get_ld (m : Mode) (v : IntVec) (i : Nat) (hld : LoadWF.intVecLd v) (hw : v.width ≤ 64)
    (hi : i < v.len) : gen_IntVector_get m v i = ok (v.getRaw i) := by
  obtain ⟨_, _, hlen, hsz, hl⟩ := hld
  have h1 : (i + 1) * v.width ≤ v.len * v.width := Nat.mul_le_mul_right _ hi
  rw [Nat.succ_mul] at h1
  have hm : i * v.width < U64 := by rw [U64_eq]; omega
  have hin : i * v.width + v.width ≤ 64 * v.data.data.size := by omega
  unfold gen_IntVector_get IntVec.getRaw
  simp [gAssert, hi, mulM_ok hm, raw_int_eq m v.data (i * v.width) v.width hw hm hin]

/-- `(a - c) as usize` on words is the model's subtraction on their values, in both modes -/
theorem subW_toNat (m : Mode) (a c : Word) :
    (do let t ← subW m a c; pure t.toNat : Outcome Nat) = subM m a.toNat c.toNat := by
  unfold subW
  cases h : subM m a.toNat c.toNat with
  | fault e => rfl
  | ok s =>
    have hs : s < 2 ^ 64 := by
      have := subM_lt4 (by rw [U64_eq]; exact a.isLt) h
      rwa [U64_eq] at this
    show ok (BitVec.ofNat 64 s).toNat = ok s
    rw [BitVec.toNat_ofNat, Nat.mod_eq_of_lt hs]

theorem mapM_congr_mem {α β : Type} (f g : α → Outcome β) : ∀ l : List α, (∀ x ∈ l, f x = g x) →
    l.mapM f = l.mapM g := by
  intro l
  induction l with
  | nil => intro _; rfl
  | cons a l ih =>
    intro h
    rw [List.mapM_cons, List.mapM_cons, h a (by simp), ih (fun x hx => h x (by simp [hx]))]

/-! ### the translated function, cut into named pieces -/

/-- `(0..sample_blocks).map(|block| samples.get(2 * block + 1) as usize)` -/
def rlGenBits (m : Mode) (samples : IntVec) (sample_blocks : Nat) : Outcome (List Nat) :=
  (List.range' 0 (sample_blocks - 0)).mapM (fun block => do let t7 ← mulM m 2 block; let t8 ← addM m t7 1; let t9 ← gen_IntVector_get m samples t8; pure (t9).toNat)

/-- `(0..sample_blocks).map(|block| samples.get(2 * block) as usize)` -/
def rlGenOnes (m : Mode) (samples : IntVec) (sample_blocks : Nat) : Outcome (List Nat) :=
  (List.range' 0 (sample_blocks - 0)).mapM (fun block => do let t12 ← mulM m 2 block; let t13 ← gen_IntVector_get m samples t12; pure (t13).toNat)

/-- `(0..sample_blocks).map(|block| (samples.get(2 * block + 1) - samples.get(2 * block)) as usize)` -/
def rlGenZeros (m : Mode) (samples : IntVec) (sample_blocks : Nat) : Outcome (List Nat) :=
  (List.range' 0 (sample_blocks - 0)).mapM (fun block => do let t16 ← mulM m 2 block; let t17 ← addM m t16 1; let t18 ← gen_IntVector_get m samples t17; let t19 ← mulM m 2 block; let t20 ← gen_IntVector_get m samples t19; let t21 ← subW m t18 t20; pure (t21).toNat)

/-- everything after the sanity check, in the order of the source -/
def rlGenRest (m : Mode) (len ones : Nat) (samples data : IntVec) (reader : Elems) (sample_blocks : Nat) :
    Outcome (RL × Elems) := do
  let t10 ← rlGenBits m samples sample_blocks
  let t11 ← gen_SampleIndex_new m t10 len
  let t14 ← rlGenOnes m samples sample_blocks
  let t15 ← gen_SampleIndex_new m t14 ones
  let t22 ← rlGenZeros m samples sample_blocks
  let t23 ← subM m len ones
  let t24 ← gen_SampleIndex_new m t22 t23
  return ((⟨len, ones, t11, t15, t24, samples, data⟩ : RL), reader)

theorem rl_load_pieces (m : Mode) (es : Elems) : gen_RLVector_load m es = (do
    let (len, reader) ← usizeC.load es
    let (ones, reader) ← usizeC.load reader
    let (samples, reader) ← gen_IntVector_load m reader
    let (data, reader) ← gen_IntVector_load m reader
    let sample_blocks ← gDiv samples.len 2
    let data_blocks ← gen_div_round_up m data.len 64
    if decide (sample_blocks ≠ data_blocks) then fault (.err .invalid)
    else rlGenRest m len ones samples data reader sample_blocks) := rfl

/-- the model after its sanity check: all three columns first, then the indexes -/
def rlModRest (m : Mode) (len ones : Nat) (samples data : IntVec) (r : Elems) : Outcome (RL × Elems) := do
  let bitsCol ← bitsColQ samples (samples.len / 2)
  let onesCol ← onesColQ samples (samples.len / 2)
  let zerosCol ← zerosColQ m samples (samples.len / 2)
  let ri ← SampleIndex.new m bitsCol len
  let si ← SampleIndex.new m onesCol ones
  let z ← subM m len ones
  let zi ← SampleIndex.new m zerosCol z
  return (⟨len, ones, ri, si, zi, samples, data⟩, r)

theorem rl_model_pieces (m : Mode) (es : Elems) : (rlC m).load es = (do
    let (len, r) ← usizeC.load es
    let (ones, r) ← usizeC.load r
    let (samples, r) ← intVecC.load r
    let (data, r) ← intVecC.load r
    if samples.len / 2 ≠ (data.len + 63) / 64 then fault (.err .invalid)
    else rlModRest m len ones samples data r) := rfl


/-! ### the three iterators -/

theorem mapM_length {α β : Type} (f : α → Outcome β) : ∀ (l : List α) (zs : List β), l.mapM f = ok zs →
    zs.length = l.length := by
  intro l
  induction l with
  | nil =>
    intro zs h
    rw [List.mapM_nil] at h
    injection h with h
    subst h
    rfl
  | cons a l ih =>
    intro zs h
    rw [List.mapM_cons] at h
    obtain ⟨y, hy, h⟩ := Outcome.bind_eq_ok h
    obtain ⟨ys, hys, h⟩ := Outcome.bind_eq_ok h
    injection h with h
    rw [← h, List.length_cons, List.length_cons, ih ys hys]

section cols
variable (m : Mode) (s : IntVec) (hld : LoadWF.intVecLd s) (hw : 2 ≤ s.len → s.width ≤ 64)
include hld hw

theorem rl_gen_bits_eq : rlGenBits m s (s.len / 2) = ok (bitsCol s) := by
  unfold rlGenBits bitsCol
  rw [Nat.sub_zero, ← List.range_eq_range']
  refine mapM_ok_of _ _ _ (fun b hb => ?_)
  have hb' := List.mem_range.mp hb
  have hl := hld.1
  have h2 : 2 * b < U64 := by rw [U64_eq]; omega
  have h3 : 2 * b + 1 < U64 := by rw [U64_eq]; omega
  simp only [bind_eq_of_ok (mulM_ok (m := m) h2), bind_eq_of_ok (addM_ok (m := m) h3),
    bind_eq_of_ok (int_get_ld m s (2 * b + 1) hld (hw (by omega)) (by omega)), pure_eq]

theorem rl_gen_ones_eq : rlGenOnes m s (s.len / 2) = ok (onesCol s) := by
  unfold rlGenOnes onesCol
  rw [Nat.sub_zero, ← List.range_eq_range']
  refine mapM_ok_of _ _ _ (fun b hb => ?_)
  have hb' := List.mem_range.mp hb
  have hl := hld.1
  have h2 : 2 * b < U64 := by rw [U64_eq]; omega
  simp only [bind_eq_of_ok (mulM_ok (m := m) h2),
    bind_eq_of_ok (int_get_ld m s (2 * b) hld (hw (by omega)) (by omega)), pure_eq]

theorem rl_gen_zeros_eq : rlGenZeros m s (s.len / 2) = zerosColQ m s (s.len / 2) := by
  unfold rlGenZeros zerosColQ
  rw [Nat.sub_zero, ← List.range_eq_range']
  refine mapM_congr_mem _ _ _ (fun b hb => ?_)
  have hb' := List.mem_range.mp hb
  have hl := hld.1
  have h2 : 2 * b < U64 := by rw [U64_eq]; omega
  have h3 : 2 * b + 1 < U64 := by rw [U64_eq]; omega
  simp only [bind_eq_of_ok (mulM_ok (m := m) h2), bind_eq_of_ok (addM_ok (m := m) h3),
    bind_eq_of_ok (int_get_ld m s (2 * b + 1) hld (hw (by omega)) (by omega)),
    bind_eq_of_ok (int_get_ld m s (2 * b) hld (hw (by omega)) (by omega)),
    bind_eq_of_ok (IntVec.get_ok_rl (d := s) (i := 2 * b + 1) (by omega)),
    bind_eq_of_ok (IntVec.get_ok_rl (d := s) (i := 2 * b) (by omega))]
  exact subW_toNat m _ _

end cols

/-- the zero column can only fault by the arithmetic-overflow panic (its reads are in range) -/
theorem zerosColQ_sub (m : Mode) (s : IntVec) : zerosColQ m s (s.len / 2) =
    (List.range (s.len / 2)).mapM (fun b => subM m (s.getRaw (2 * b + 1)).toNat (s.getRaw (2 * b)).toNat) := by
  unfold zerosColQ
  refine mapM_congr_mem _ _ _ (fun b hb => ?_)
  have hb' := List.mem_range.mp hb
  simp only [bind_eq_of_ok (IntVec.get_ok_rl (d := s) (i := 2 * b + 1) (by omega)),
    bind_eq_of_ok (IntVec.get_ok_rl (d := s) (i := 2 * b) (by omega))]

theorem zerosColQ_ovf (m : Mode) (s : IntVec) : OvfOnly (zerosColQ m s (s.len / 2)) := by
  rw [zerosColQ_sub]
  exact (mapM_ovf _ (fun b => subM_ovf m _ _) _).1

/-- without overflow checks the zero column is always there -/
theorem zerosColQ_wrapping (s : IntVec) : ∃ zs, zerosColQ .wrapping s (s.len / 2) = ok zs := by
  rw [zerosColQ_sub]
  refine ⟨_, mapM_ok_of _ (fun b => if (s.getRaw (2 * b)).toNat ≤ (s.getRaw (2 * b + 1)).toNat then
    (s.getRaw (2 * b + 1)).toNat - (s.getRaw (2 * b)).toNat else
    ((s.getRaw (2 * b + 1)).toNat + U64 - (s.getRaw (2 * b)).toNat) % U64) _ (fun b _ => ?_)⟩
  unfold subM
  split <;> rfl

/-! ### after the sanity check: the order of the source against the order of the model -/

/-- the translated tail with every arithmetic step discharged — the order of the SOURCE: each column right before
the index built from it, `len - ones` after the third column -/
def rlSrcRest (m : Mode) (len ones : Nat) (samples data : IntVec) (r : Elems) : Outcome (RL × Elems) := do
  let ri ← SampleIndex.new m (bitsCol samples) len
  let si ← SampleIndex.new m (onesCol samples) ones
  let zs ← zerosColQ m samples (samples.len / 2)
  let z ← subM m len ones
  let zi ← SampleIndex.new m zs z
  return (⟨len, ones, ri, si, zi, samples, data⟩, r)

theorem rl_gen_rest_eq (m : Mode) (len ones : Nat) (samples data : IntVec) (r : Elems) (hl : len < U64)
    (ho : ones < U64) (hld : LoadWF.intVecLd samples) (hw : 2 ≤ samples.len → samples.width ≤ 64)
    (hsb : samples.len / 2 < 2 ^ 60) :
    rlGenRest m len ones samples data r (samples.len / 2) = rlSrcRest m len ones samples data r := by
  unfold rlGenRest rlSrcRest
  rw [rl_gen_bits_eq m samples hld hw, rl_gen_ones_eq m samples hld hw, rl_gen_zeros_eq m samples hld hw]
  simp only [bind_ok]
  rw [sample_index_new_eq m (bitsCol samples) len hl (by simpa [bitsCol] using hsb),
    sample_index_new_eq m (onesCol samples) ones ho (by simpa [onesCol] using hsb)]
  cases h1 : SampleIndex.new m (bitsCol samples) len with
  | fault e => rfl
  | ok ri =>
    simp only [bind_ok]
    cases h2 : SampleIndex.new m (onesCol samples) ones with
    | fault e => rfl
    | ok si =>
      simp only [bind_ok]
      cases hz : zerosColQ m samples (samples.len / 2) with
      | fault e => rfl
      | ok zs =>
        simp only [bind_ok]
        cases hs : subM m len ones with
        | fault e => rfl
        | ok z =>
          simp only [bind_ok]
          rw [sample_index_new_eq m zs z (subM_lt4 hl hs)
            (by rw [mapM_length _ _ _ hz, List.length_range]; exact hsb)]

/-- the model's tail: the zero column is evaluated BEFORE the first two indexes -/
theorem rl_mod_rest_eq (m : Mode) (len ones : Nat) (samples data : IntVec) (r : Elems) :
    rlModRest m len ones samples data r = (do
      let zs ← zerosColQ m samples (samples.len / 2)
      let ri ← SampleIndex.new m (bitsCol samples) len
      let si ← SampleIndex.new m (onesCol samples) ones
      let z ← subM m len ones
      let zi ← SampleIndex.new m zs z
      return (⟨len, ones, ri, si, zi, samples, data⟩, r)) := by
  unfold rlModRest
  rw [bitsColQ_eq, onesColQ_eq]
  simp only [bind_ok]

/-- the two orders are observably the same unless the zero column underflows (checked build) while the rank index or
the select index refuses its column with a DIFFERENT panic (an assertion of `SampleIndex::new`) -/
def RlRestOrd (m : Mode) (len ones : Nat) (samples : IntVec) : Prop :=
  (∃ e, zerosColQ m samples (samples.len / 2) = fault e) →
    OvfOnly (SampleIndex.new m (bitsCol samples) len) ∧
    ((SampleIndex.new m (bitsCol samples) len).isOk = true → OvfOnly (SampleIndex.new m (onesCol samples) ones))

theorem rl_rest_eq_iff (m : Mode) (len ones : Nat) (samples data : IntVec) (r : Elems) :
    rlSrcRest m len ones samples data r = rlModRest m len ones samples data r ↔ RlRestOrd m len ones samples := by
  rw [rl_mod_rest_eq]
  unfold rlSrcRest RlRestOrd
  cases hz : zerosColQ m samples (samples.len / 2) with
  | ok zs =>
    refine iff_of_true ?_ (fun ⟨e, he⟩ => by cases he)
    cases SampleIndex.new m (bitsCol samples) len with
    | fault e => rfl
    | ok ri =>
      cases SampleIndex.new m (onesCol samples) ones with
      | fault e => rfl
      | ok si => rfl
  | fault e =>
    have he : e = .panic .overflow := zerosColQ_ovf m samples e hz
    subst he
    simp only [bind_fault]
    cases h1 : SampleIndex.new m (bitsCol samples) len with
    | fault e1 =>
      simp only [bind_fault]
      constructor
      · intro h _
        injection h with h
        exact ⟨fun e' he' => (by injection he' with he'; rw [← he', h]), fun hk => (by cases hk)⟩
      · intro h
        rw [(h ⟨_, rfl⟩).1 e1 rfl]
    | ok ri =>
      simp only [bind_ok]
      cases h2 : SampleIndex.new m (onesCol samples) ones with
      | fault e2 =>
        simp only [bind_fault]
        constructor
        · intro h _
          injection h with h
          exact ⟨fun e' he' => (by cases he'), fun _ e' he' => (by injection he' with he'; rw [← he', h])⟩
        · intro h
          rw [(h ⟨_, rfl⟩).2 rfl e2 rfl]
      | ok si =>
        simp only [bind_ok, bind_fault]
        exact iff_of_true trivial (fun _ => ⟨fun e' he' => (by cases he'), fun _ e' he' => (by cases he')⟩)

/-! ### `RLVector::load` -/

/-- the arithmetic on the words read: the two embedded integer vectors are `IntOk`, `div_round_up(data.len(), 64)` does
not overflow, and — when the sanity check passes and there is at least one block — the width of the sample vector is at
most 64 (`samples.get` reads through `read_int`; `IntVector::load` does not check the width) -/
def RlOk (es : Elems) : Prop :=
  ∀ len r, usizeC.load es = ok (len, r) → ∀ ones r1, usizeC.load r = ok (ones, r1) →
    IntOk r1 ∧ ∀ samples r2, intVecC.load r1 = ok (samples, r2) →
      IntOk r2 ∧ ∀ data r3, intVecC.load r2 = ok (data, r3) →
        data.len + 64 < U64 ∧
        (samples.len / 2 = (data.len + 63) / 64 → 2 ≤ samples.len → samples.width ≤ 64)

/-- the order of effects: on an accepted header, `RlRestOrd` of the values read -/
def RlOrd (m : Mode) (es : Elems) : Prop :=
  ∀ len r ones r1 samples r2 data r3, usizeC.load es = ok (len, r) → usizeC.load r = ok (ones, r1) →
    intVecC.load r1 = ok (samples, r2) → intVecC.load r2 = ok (data, r3) →
    samples.len / 2 = (data.len + 63) / 64 → RlRestOrd m len ones samples

theorem gDiv_two (a : Nat) : gDiv a 2 = ok (a / 2) := by simp [gDiv]

set_option maxRecDepth 4000 in
theorem rl_load_eq (m : Mode) (es : Elems) (h : RlOk es) (ho : RlOrd m es) :
    gen_RLVector_load m es = (rlC m).load es := by
  rw [rl_load_pieces, rl_model_pieces]
  cases h1 : usizeC.load es with
  | fault f => simp only [bind_fault]
  | ok p =>
    obtain ⟨len, r⟩ := p
    simp only [bind_ok]
    cases h2 : usizeC.load r with
    | fault f => simp only [bind_fault]
    | ok p =>
      obtain ⟨ones, r1⟩ := p
      simp only [bind_ok]
      obtain ⟨hi1, h⟩ := h _ _ h1 _ _ h2
      rw [int_load_eq m r1 hi1]
      cases h3 : intVecC.load r1 with
      | fault f => simp only [bind_fault]
      | ok p =>
        obtain ⟨samples, r2⟩ := p
        simp only [bind_ok]
        obtain ⟨hi2, h⟩ := h _ _ h3
        rw [int_load_eq m r2 hi2]
        cases h4 : intVecC.load r2 with
        | fault f => simp only [bind_fault]
        | ok p =>
          obtain ⟨data, r3⟩ := p
          simp only [bind_ok]
          obtain ⟨hd, hwd⟩ := h _ _ h4
          rw [gDiv_two, div_round_up_ok m _ 64 63 rfl hd]
          simp only [bind_ok]
          by_cases c : samples.len / 2 = (data.len + 63) / 64
          · have c1 : decide (samples.len / 2 ≠ (data.len + 63) / 64) = false := by simp [c]
            rw [c1]
            simp only [Bool.false_eq_true, if_false]
            rw [if_neg (not_not_intro c)]
            have hl : len < U64 := by rw [U64_eq]; exact (LoadWF.usizeC_inv h1).2
            have hon : ones < U64 := by rw [U64_eq]; exact (LoadWF.usizeC_inv h2).2
            have hld := (LoadWF.intVecC_load_inv h3).2
            have hsb : samples.len / 2 < 2 ^ 60 := by rw [U64_eq] at hd; omega
            rw [rl_gen_rest_eq m len ones samples data r3 hl hon hld (hwd c) hsb]
            exact (rl_rest_eq_iff m len ones samples data r3).mpr (ho _ _ _ _ _ _ _ _ h1 h2 h3 h4 c)
          · simp [c]

/-- the order hypothesis is also necessary -/
theorem rl_load_ord_of_eq (m : Mode) (es : Elems) (h : RlOk es)
    (e : gen_RLVector_load m es = (rlC m).load es) : RlOrd m es := by
  intro len r ones r1 samples r2 data r3 h1 h2 h3 h4 c
  obtain ⟨hi1, h⟩ := h _ _ h1 _ _ h2
  obtain ⟨hi2, h⟩ := h _ _ h3
  obtain ⟨hd, hwd⟩ := h _ _ h4
  rw [rl_load_pieces, rl_model_pieces] at e
  simp only [bind_eq_of_ok h1, bind_eq_of_ok h2, bind_eq_of_ok ((int_load_eq m r1 hi1).trans h3),
    bind_eq_of_ok ((int_load_eq m r2 hi2).trans h4), bind_eq_of_ok h3, bind_eq_of_ok h4,
    bind_eq_of_ok (gDiv_two samples.len), bind_eq_of_ok (div_round_up_ok m data.len 64 63 rfl hd)] at e
  have c1 : decide (samples.len / 2 ≠ (data.len + 63) / 64) = false := by simp [c]
  rw [c1] at e
  simp only [Bool.false_eq_true, if_false] at e
  rw [if_neg (not_not_intro c)] at e
  have hl : len < U64 := by rw [U64_eq]; exact (LoadWF.usizeC_inv h1).2
  have hon : ones < U64 := by rw [U64_eq]; exact (LoadWF.usizeC_inv h2).2
  have hld := (LoadWF.intVecC_load_inv h3).2
  have hsb : samples.len / 2 < 2 ^ 60 := by rw [U64_eq] at hd; omega
  rw [rl_gen_rest_eq m len ones samples data r3 hl hon hld (hwd c) hsb] at e
  exact (rl_rest_eq_iff m len ones samples data r3).mp e

theorem rl_load_eq_iff (m : Mode) (es : Elems) (h : RlOk es) :
    gen_RLVector_load m es = (rlC m).load es ↔ RlOrd m es :=
  ⟨rl_load_ord_of_eq m es h, rl_load_eq m es h⟩

/-! ### when the order cannot be observed -/

/-- without overflow checks the zero column cannot fault -/
theorem RlOrd_wrapping (es : Elems) : RlOrd .wrapping es := by
  intro len r ones r1 samples r2 data r3 _ _ _ _ _ ⟨e, he⟩
  obtain ⟨zs, hz⟩ := zerosColQ_wrapping samples
  rw [hz] at he
  cases he

theorem rl_load_eq_wrapping (es : Elems) (h : RlOk es) :
    gen_RLVector_load .wrapping es = (rlC .wrapping).load es := rl_load_eq .wrapping es h (RlOrd_wrapping es)

/-- "the zero column does not underflow": in every stored sample pair the ones so far are at most the bits so far -/
def RlNoUnderflow (es : Elems) : Prop :=
  ∀ len r ones r1 samples r2 data r3, usizeC.load es = ok (len, r) → usizeC.load r = ok (ones, r1) →
    intVecC.load r1 = ok (samples, r2) → intVecC.load r2 = ok (data, r3) →
    samples.len / 2 = (data.len + 63) / 64 →
    ∀ b, b < samples.len / 2 → (samples.getRaw (2 * b)).toNat ≤ (samples.getRaw (2 * b + 1)).toNat

theorem RlOrd_of_noUnderflow (m : Mode) {es : Elems} (h : RlNoUnderflow es) : RlOrd m es := by
  intro len r ones r1 samples r2 data r3 h1 h2 h3 h4 c ⟨e, he⟩
  rw [zerosColQ_eq m samples (h _ _ _ _ _ _ _ _ h1 h2 h3 h4 c)] at he
  cases he

theorem rl_load_eq_of_noUnderflow (m : Mode) (es : Elems) (h : RlOk es) (hu : RlNoUnderflow es) :
    gen_RLVector_load m es = (rlC m).load es := rl_load_eq m es h (RlOrd_of_noUnderflow m hu)

/-! ### streams of small words -/

/-- small words do not bound the width of the sample vector: it is a stream word -/
def RlWidthOk (es : Elems) : Prop :=
  ∀ len r ones r1 samples r2 data r3, usizeC.load es = ok (len, r) → usizeC.load r = ok (ones, r1) →
    intVecC.load r1 = ok (samples, r2) → intVecC.load r2 = ok (data, r3) →
    samples.len / 2 = (data.len + 63) / 64 → 2 ≤ samples.len → samples.width ≤ 64

theorem RlOk_of_small {es : Elems} (hs : Small es) (hw : RlWidthOk es) : RlOk es := by
  intro len r h1 ones r1 h2
  have s1 := (hs.suffix (usizeC_suffix h1)).suffix (usizeC_suffix h2)
  refine ⟨IntOk_of_small s1, fun samples r2 h3 => ?_⟩
  have s2 := s1.suffix (intVecC_suffix h3)
  refine ⟨IntOk_of_small s2, fun data r3 h4 => ⟨?_, hw _ _ _ _ _ _ _ _ h1 h2 h3 h4⟩⟩
  have l1 := (intVecC_small s2 h4).1
  rw [U64_eq]; omega

theorem rl_load_eq_small (m : Mode) (es : Elems) (h : ∀ w ∈ es, w.toNat < 2 ^ 32) (hw : RlWidthOk es)
    (ho : RlOrd m es) : gen_RLVector_load m es = (rlC m).load es :=
  rl_load_eq m es (RlOk_of_small h hw) ho

theorem rl_load_eq_small_wrapping (es : Elems) (h : ∀ w ∈ es, w.toNat < 2 ^ 32) (hw : RlWidthOk es) :
    gen_RLVector_load .wrapping es = (rlC .wrapping).load es :=
  rl_load_eq_wrapping es (RlOk_of_small h hw)

/-! ### counterexamples -/

/-- one block whose stored sample pair is (ones so far, bits so far) = (5, 3) (4-bit samples, word `0x35`), over a
one-unit data vector; `len = 10`, `ones = 5`.  Every word is small and the width is 4: `RlOk` holds. -/
def rlOrderStream : Elems :=
  [10#64, 5#64, 2#64, 4#64, 8#64, 1#64, 0x35#64, 1#64, 1#64, 1#64, 1#64, 0#64]

/-- the order of effects is observable in the checked build: the SOURCE builds the rank index first and dies on the
assertion `prev == 0` of `SampleIndex::new` (the first bit sample is 3); the MODEL evaluates the zero column `3 - 5`
first and reports the arithmetic-overflow panic.  Without overflow checks both report the assertion. -/
theorem rl_load_ne_order :
    gen_RLVector_load .checked rlOrderStream = fault (.panic .assert) ∧
    (rlC .checked).load rlOrderStream = fault (.panic .overflow) ∧
    gen_RLVector_load .wrapping rlOrderStream = fault (.panic .assert) ∧
    (rlC .wrapping).load rlOrderStream = fault (.panic .assert) := by
  decide +kernel

theorem rl_load_ne_checked :
    gen_RLVector_load .checked rlOrderStream ≠ (rlC .checked).load rlOrderStream := by
  decide +kernel

/-- the arithmetic hypothesis holds of that stream: the divergence is the order of effects alone -/
theorem rlOrderStream_ok : RlOk rlOrderStream := by
  have hs : Small rlOrderStream := by
    intro w hw
    simp only [rlOrderStream, List.mem_cons, List.not_mem_nil, or_false] at hw
    rcases hw with h | h | h | h | h | h | h | h | h | h | h | h <;> subst h <;> decide
  refine RlOk_of_small hs ?_
  intro len r ones r1 samples r2 data r3 h1 h2 h3 h4 _ _
  rw [rlOrderStream, usizeC_cons] at h1
  injection h1 with h1; injection h1 with ha hb
  subst ha; subst hb
  rw [usizeC_cons] at h2
  injection h2 with h2; injection h2 with ha hb
  subst ha; subst hb
  have e3 : intVecC.load [2#64, 4#64, 8#64, 1#64, 0x35#64, 1#64, 1#64, 1#64, 1#64, 0#64] =
      ok (⟨2, 4, ⟨8, #[0x35#64]⟩⟩, [1#64, 1#64, 1#64, 1#64, 0#64]) := by decide +kernel
  rw [e3] at h3
  injection h3 with h3; injection h3 with ha hb
  subst ha
  decide

theorem rlOrderStream_not_ord : ¬ RlOrd .checked rlOrderStream :=
  fun ho => rl_load_ne_checked (rl_load_eq _ _ rlOrderStream_ok ho)

/-- the same with the pair (3, 0): the rank index is built, the select index dies on its assertion, the zero column
`0 - 3` underflows -/
theorem rl_load_ne_order_select :
    gen_RLVector_load .checked [10#64, 5#64, 2#64, 4#64, 8#64, 1#64, 0x03#64, 1#64, 1#64, 1#64, 1#64, 0#64] =
      fault (.panic .assert) ∧
    (rlC .checked).load [10#64, 5#64, 2#64, 4#64, 8#64, 1#64, 0x03#64, 1#64, 1#64, 1#64, 1#64, 0#64] =
      fault (.panic .overflow) := by
  decide +kernel

/-- `data.len() = 2^64 − 1` (width 0, so no data word is needed) and no samples: `div_round_up(data.len(), 64)`
overflows.  The checked build panics, the wrapping build ACCEPTS (its block count wraps to 0), the model refuses. -/
theorem rl_load_ne_blocks :
    gen_RLVector_load .checked [0#64, 0#64, 0#64, 0#64, 0#64, 0#64, 0xFFFFFFFFFFFFFFFF#64, 0#64, 0#64, 0#64] =
      fault (.panic .overflow) ∧
    (gen_RLVector_load .wrapping
      [0#64, 0#64, 0#64, 0#64, 0#64, 0#64, 0xFFFFFFFFFFFFFFFF#64, 0#64, 0#64, 0#64]).isOk = true ∧
    (rlC .checked).load [0#64, 0#64, 0#64, 0#64, 0#64, 0#64, 0xFFFFFFFFFFFFFFFF#64, 0#64, 0#64, 0#64] =
      fault (.err .invalid) ∧
    (rlC .wrapping).load [0#64, 0#64, 0#64, 0#64, 0#64, 0#64, 0xFFFFFFFFFFFFFFFF#64, 0#64, 0#64, 0#64] =
      fault (.err .invalid) := by
  decide +kernel

/-- sample width 65 (two samples in 130 bits, all zero): `samples.get(1)` goes through `read_int`, whose two-word branch
shifts by `64 - offset = 64`: a shift overflow in the checked build; the wrapping build and the model accept -/
theorem rl_load_ne_width :
    gen_RLVector_load .checked
      [10#64, 0#64, 2#64, 65#64, 130#64, 3#64, 0#64, 0#64, 0#64, 1#64, 1#64, 1#64, 1#64, 0#64] =
        fault (.panic .overflow) ∧
    ((rlC .checked).load
      [10#64, 0#64, 2#64, 65#64, 130#64, 3#64, 0#64, 0#64, 0#64, 1#64, 1#64, 1#64, 1#64, 0#64]).isOk = true ∧
    gen_RLVector_load .wrapping
      [10#64, 0#64, 2#64, 65#64, 130#64, 3#64, 0#64, 0#64, 0#64, 1#64, 1#64, 1#64, 1#64, 0#64] =
    (rlC .wrapping).load
      [10#64, 0#64, 2#64, 65#64, 130#64, 3#64, 0#64, 0#64, 0#64, 1#64, 1#64, 1#64, 1#64, 0#64] := by
  decide +kernel

end Sds.GenEq
