/-
Proofs/RLPredSucc: the one-iterators returned by `RLVector::predecessor` / `successor` (`rl_vector.rs:1077-1145`)
CONTINUE with the following set bits in rank order, under every forward call history.

Route.  `RLQ.drain_walk` (Proofs/RLQueries.lean) drains a one-iterator `⟨it, false, k⟩` whose run iterator `it` has
been reached by walking (`collect`) and whose rank `k` lies inside the run that ends at `it.pos` — the same
invariant `select_iter(r)` is handled with (`RLQ.selectIter_walk`).  Here the loops of `successor` (`succLoop`) and
`predecessor` (`predLoop`: `advance_if` with a closure that may refuse the peeked run, in which case NOTHING of
the iterator — offset, position, limit — is changed) are shown to stop in such a state.  The drain result is then
turned into a simulation relation (`Iter2.RLI.OneRel`) and `Iter2.fwdRun_sim` gives every call history.
-/
import Sds.Proofs.Iter2

namespace Sds.RLPS
open Sds Outcome RunIter RLQ IterProofs Iter2

/-! ### `successor` -/

theorem hsel_last (pre : List (Nat × Nat)) (r0 s l : Nat) (hl : lensAbs pre = r0) :
    ∀ j, r0 ≤ j → j < r0 + l →
      selectR (pre ++ [(s, l)]) j = some (s + l - (r0 + l - j)) ∧ r0 + l - j ≤ s + l := by
  intro j h1 h2
  rw [selectR_append_ge _ _ _ (by omega), hl]
  simp only [selectR]
  rw [if_pos (by omega)]
  exact ⟨by congr 1; omega, by omega⟩

/-- the loop of `successor` stops in a state from which the one-iterator drains the remaining set bits -/
theorem succLoop_drain (m : Mode) (v : RL) (value : Nat) :
    ∀ (rs pre : List (Nat × Nat)) (p0 r0 fuel F1 F : Nat) (it e : RunIter),
      collect m v fuel it = ok (withPos r0 (absRuns p0 rs), e) →
      lensAbs pre = r0 → r0 ≤ p0 → (∀ p ∈ rs, 1 ≤ p.2) → fuel ≤ F1 → r0 + lens rs + 1 ≤ F →
      ∃ res, RL.succLoop m v value F1 it = ok res ∧
        ∀ it' r, res = some (it', r) →
          drainOne m v F ⟨it', false, r⟩ = ok (oneItems (pre ++ absRuns p0 rs) r (r0 + lens rs - r)) := by
  intro rs
  induction rs with
  | nil =>
    intro pre p0 r0 fuel F1 F it e hc _ _ _ hF1 _
    obtain ⟨f, hf, hn⟩ := collect_nil_inv hc
    obtain ⟨F', rfl⟩ : ∃ F', F1 = F' + 1 := ⟨F1 - 1, by omega⟩
    exact ⟨none, by rw [RL.succLoop, hn]; rfl, fun it' r h => by cases h⟩
  | cons p rs ih =>
    intro pre p0 r0 fuel F1 F it e hc hl hrp hpos hF1 hF
    have hp2 := hpos p (by simp)
    simp only [absRuns, withPos] at hc
    obtain ⟨f, it', hf, hn, hp, hc'⟩ := collect_cons_inv hc
    obtain ⟨F', rfl⟩ : ∃ F', F1 = F' + 1 := ⟨F1 - 1, by omega⟩
    obtain ⟨o', ⟨r', p'⟩, lim'⟩ := it'
    simp only [Prod.mk.injEq] at hp
    obtain ⟨rfl, rfl⟩ := hp
    have hloop : RL.succLoop m v value (F' + 1) it =
        (if p0 + p.1 > value then
          ok (some ((⟨o', (r0 + p.2, p0 + p.1 + p.2), lim'⟩ : RunIter), r0))
        else if p0 + p.1 + p.2 > value then
          ok (some ((⟨o', (r0 + p.2, p0 + p.1 + p.2), lim'⟩ : RunIter), r0 + p.2 - (p0 + p.1 + p.2 - value)))
        else RL.succLoop m v value F' ⟨o', (r0 + p.2, p0 + p.1 + p.2), lim'⟩) := by
      rw [RL.succLoop, hn]
      show (if p0 + p.1 > value then
          (subM m (r0 + p.2) p.2 >>= fun r => pure (some ((⟨o', (r0 + p.2, p0 + p.1 + p.2), lim'⟩ : RunIter), r)))
        else if p0 + p.1 + p.2 > value then
          ((subM m (p0 + p.1 + p.2) value >>= fun d => subM m (r0 + p.2) d) >>= fun r =>
            pure (some ((⟨o', (r0 + p.2, p0 + p.1 + p.2), lim'⟩ : RunIter), r)))
        else RL.succLoop m v value F' ⟨o', (r0 + p.2, p0 + p.1 + p.2), lim'⟩) = _
      by_cases c1 : p0 + p.1 > value
      · rw [if_pos c1, if_pos c1, subM_ok (by omega), bind_ok, Nat.add_sub_cancel]; rfl
      · rw [if_neg c1, if_neg c1]
        by_cases c2 : p0 + p.1 + p.2 > value
        · rw [if_pos c2, if_pos c2, subM_ok (by omega), bind_ok, subM_ok (by omega), bind_ok]; rfl
        · rw [if_neg c2, if_neg c2]
    rw [hloop]
    have hR : pre ++ absRuns p0 (p :: rs) = (pre ++ [(p0 + p.1, p.2)]) ++ absRuns (p0 + p.1 + p.2) rs := by
      simp [absRuns]
    have hl' : lensAbs (pre ++ [(p0 + p.1, p.2)]) = r0 + p.2 := by
      rw [lensAbs_append, hl]; simp [lensAbs]
    have hsel' := hsel_last pre r0 (p0 + p.1) p.2 hl
    have hpos' : ∀ q ∈ rs, 1 ≤ q.2 := fun q hq => hpos q (by simp [hq])
    simp only [lens] at hF ⊢
    -- draining from the accepted run, at any rank `k` inside it
    have hdrain : ∀ k, r0 ≤ k → k ≤ r0 + p.2 →
        drainOne m v F ⟨⟨o', (r0 + p.2, p0 + p.1 + p.2), lim'⟩, false, k⟩ =
          ok (oneItems (pre ++ absRuns p0 (p :: rs)) k (r0 + (p.2 + lens rs) - k)) := by
      intro k hk1 hk2
      have := drain_walk m v rs (pre ++ [(p0 + p.1, p.2)]) (p0 + p.1 + p.2) (r0 + p.2) f F k _ e hc' rfl hl'
        hk2 (by omega) (fun j h1 h2 => hsel' j (by omega) h2) hpos' (by omega)
      rw [hR, this, show r0 + p.2 + lens rs - k = r0 + (p.2 + lens rs) - k by omega]
    by_cases c1 : p0 + p.1 > value
    · rw [if_pos c1]
      refine ⟨_, rfl, ?_⟩
      intro it' r h
      injection h with h; injection h with h1 h2
      subst h1 h2
      exact hdrain r0 (Nat.le_refl _) (by omega)
    · rw [if_neg c1]
      by_cases c2 : p0 + p.1 + p.2 > value
      · rw [if_pos c2]
        refine ⟨_, rfl, ?_⟩
        intro it' r h
        injection h with h; injection h with h1 h2
        subst h1 h2
        exact hdrain _ (by omega) (by omega)
      · rw [if_neg c2]
        obtain ⟨res, a1, a2⟩ := ih (pre ++ [(p0 + p.1, p.2)]) (p0 + p.1 + p.2) (r0 + p.2) f F' F _ e hc' hl'
          (by omega) hpos' (by omega) (by omega)
        refine ⟨res, a1, ?_⟩
        intro it' r h
        rw [hR, a2 it' r h, show r0 + p.2 + lens rs - r = r0 + (p.2 + lens rs) - r by omega]

theorem selectR_none_le : ∀ (R : List (Nat × Nat)) (r : Nat), selectR R r = none → lensAbs R ≤ r := by
  intro R
  induction R with
  | nil => intro r _; simp [lensAbs]
  | cons p R ih =>
    intro r h
    simp only [selectR] at h
    by_cases c : r < p.2
    · rw [if_pos c] at h; cases h
    · rw [if_neg c] at h
      have := ih _ h
      simp only [lensAbs]; omega

theorem rankR_le_lensAbs : ∀ (R : List (Nat × Nat)) (i : Nat), rankR R i ≤ lensAbs R := by
  intro R
  induction R with
  | nil => intro i; simp [rankR, lensAbs]
  | cons p R ih => intro i; have := ih i; simp only [rankR, lensAbs]; omega

theorem drain_empty (m : Mode) (v : RL) (F : Nat) (hF : 1 ≤ F) :
    drainOne m v F (RLOneIter.emptyIter v) = ok [] := by
  obtain ⟨F', rfl⟩ : ∃ F', F = F' + 1 := ⟨F - 1, by omega⟩
  exact drainOne_none m v F' _ _ (oneIter_nextQ_empty m v)

/-- **`successor(x)` drained**: the iterator delivers exactly the set bits of rank `rank(x), rank(x)+1, …` to the
end (`rank(x)` = number of set bits before `x` = rank of the successor), then `None` -/
theorem GoodB.successor_drain (m : Mode) {v : RL} {bl : Blocks} (g : GoodB v bl) (x F : Nat)
    (hF : v.ones + 1 ≤ F) :
    ∃ st, v.successor m x = ok st ∧
      st.rank + (v.ones - rankR (absRuns 0 bl.flatten) x) = v.ones ∧
      drainOne m v F st = ok (oneItems (absRuns 0 bl.flatten) (rankR (absRuns 0 bl.flatten) x)
        (v.ones - rankR (absRuns 0 bl.flatten) x)) := by
  unfold RL.successor
  have hsp := g.span_le
  have hones := g.ones
  by_cases hx : x ≥ v.len
  · rw [if_pos hx]
    have hr : rankR (absRuns 0 bl.flatten) x = v.ones := by
      rw [rankR_abs_ge _ 0 x (by omega), hones]
    rw [hr, Nat.sub_self]
    exact ⟨_, rfl, rfl, drain_empty m v F (by omega)⟩
  · rw [if_neg hx]
    by_cases hne : bl = []
    · subst hne
      rw [g.iterForBit_nil x (by omega), bind_ok, RL.succLoop, g.nextQ_nil m]
      have h0 : v.ones = 0 := hones
      refine ⟨_, rfl, ?_, ?_⟩
      · show v.ones + _ = _; omega
      · rw [h0, Nat.zero_sub]
        exact drain_empty m v F (by omega)
    · obtain ⟨b, hb, e1, h1, _⟩ := g.iterForBit hne x (by omega)
      obtain ⟨fuel, e, hf, hc, he⟩ := g.collect_block m b hb
      have htot := (drop_cum bl b).1
      obtain ⟨res, a1, a2, a3⟩ := succLoop_walk m v x _ _ _ fuel _ _ e hc hf (g.len_pos_of_blk b)
      obtain ⟨res', d1, d2⟩ := succLoop_drain m v x (bl.drop b).flatten (absRuns 0 (bl.take b).flatten)
        (cumS bl b) (cumL bl b) fuel (v.data.len + 2) F (blockIter bl b) e hc (lensAbs_absRuns 0 _)
        (cumL_le_cumS bl b) (g.len_pos_of_blk b) hf (by rw [htot, ← hones]; exact hF)
      rw [a1] at d1
      injection d1 with d1
      subst d1
      rw [e1, bind_ok, a1, bind_ok, rankR_split bl b x h1]
      cases res with
      | none =>
        have hle := selectR_none_le _ _ (a2 rfl)
        rw [lensAbs_absRuns] at hle
        have hz : v.ones - (cumL bl b + rankR (absRuns (cumS bl b) (bl.drop b).flatten) x) = 0 := by omega
        rw [hz]
        exact ⟨_, rfl, rfl, drain_empty m v F (by omega)⟩
      | some q =>
        obtain ⟨it', r⟩ := q
        obtain ⟨b1, b2, b3, b4⟩ := a3 it' r rfl
        have hd := d2 it' r rfl
        rw [absRuns_split, htot, ← hones] at hd
        have hle := rankR_le_lensAbs (absRuns (cumS bl b) (bl.drop b).flatten) x
        rw [lensAbs_absRuns] at hle
        rw [← b1]
        refine ⟨_, rfl, ?_, hd⟩
        show r + _ = _
        omega

/-! ### `predecessor` -/

/-- the rank `predecessor` computes from the position `(r, p)` its loop stops at (`rl_vector.rs:1107`) -/
def kOf (value r p : Nat) : Nat := if p > value then r - (p - value) else r - 1

theorem kOf_le (value r p : Nat) : kOf value r p ≤ r := by
  unfold kOf; split <;> omega

/-- the ranks from `kOf` up to `r` lie in the run that ends at `p` -/
def Inv (pre : List (Nat × Nat)) (value r p : Nat) : Prop :=
  ∀ j, kOf value r p ≤ j → j < r → selectR pre j = some (p - (r - j)) ∧ r - j ≤ p

/-- the loop of `predecessor` (`advance_if` with a closure that refuses the first run starting after `value`)
stops in a state from which the one-iterator, started at the rank `kOf` computed from that state, drains the
remaining set bits.  A refused run leaves the iterator untouched, so the state is the one `collect` walks through. -/
theorem predLoop_drain (m : Mode) (v : RL) (value : Nat) :
    ∀ (rs pre : List (Nat × Nat)) (p0 r0 fuel F1 F : Nat) (it e : RunIter),
      collect m v fuel it = ok (withPos r0 (absRuns p0 rs), e) → it.pos = (r0, p0) →
      lensAbs pre = r0 → r0 ≤ p0 → Inv pre value r0 p0 → (∀ p ∈ rs, 1 ≤ p.2) → fuel ≤ F1 →
      r0 + lens rs + 1 ≤ F →
      ∃ it', RL.predLoop m v value F1 it = ok it' ∧
        drainOne m v F ⟨it', false, kOf value it'.pos.1 it'.pos.2⟩ =
          ok (oneItems (pre ++ absRuns p0 rs) (kOf value it'.pos.1 it'.pos.2)
            (r0 + lens rs - kOf value it'.pos.1 it'.pos.2)) := by
  intro rs
  induction rs with
  | nil =>
    intro pre p0 r0 fuel F1 F it e hc hit hl hrp hI hpos hF1 hF
    obtain ⟨f, hf, hn⟩ := collect_nil_inv hc
    obtain ⟨F', rfl⟩ : ∃ F', F1 = F' + 1 := ⟨F1 - 1, by omega⟩
    refine ⟨it, ?_, ?_⟩
    · rw [RL.predLoop]
      rcases peek_of_nextQ_none hn with h | ⟨o, h⟩ <;> rw [h] <;> rfl
    · rw [hit]
      have hk := kOf_le value r0 p0
      exact drain_walk m v [] pre p0 r0 fuel F _ it e hc hit hl hk hrp hI hpos (by omega)
  | cons p rs ih =>
    intro pre p0 r0 fuel F1 F it e hc hit hl hrp hI hpos hF1 hF
    have hp2 := hpos p (by simp)
    have hc0 := hc
    simp only [absRuns, withPos] at hc
    obtain ⟨f, it', hf, hn, hp, hc'⟩ := collect_cons_inv hc
    obtain ⟨F', rfl⟩ : ∃ F', F1 = F' + 1 := ⟨F1 - 1, by omega⟩
    have hpk := peek_of_nextQ_some hn
    simp only [] at hpk hp
    rw [RL.predLoop, hpk]
    simp only [bind_ok]
    by_cases c : p0 + p.1 ≤ value
    · rw [if_pos c]
      have hR : pre ++ absRuns p0 (p :: rs) = (pre ++ [(p0 + p.1, p.2)]) ++ absRuns (p0 + p.1 + p.2) rs := by
        simp [absRuns]
      have hl' : lensAbs (pre ++ [(p0 + p.1, p.2)]) = r0 + p.2 := by
        rw [lensAbs_append, hl]; simp [lensAbs]
      have hI' : Inv (pre ++ [(p0 + p.1, p.2)]) value (r0 + p.2) (p0 + p.1 + p.2) := by
        intro j h1 h2
        refine hsel_last pre r0 (p0 + p.1) p.2 hl j ?_ h2
        unfold kOf at h1
        split at h1 <;> omega
      simp only [lens] at hF ⊢
      obtain ⟨it'', a1, a2⟩ := ih (pre ++ [(p0 + p.1, p.2)]) (p0 + p.1 + p.2) (r0 + p.2) f F' F it' e hc' hp hl'
        (by omega) hI' (fun q hq => hpos q (by simp [hq])) (by omega) (by omega)
      refine ⟨it'', a1, ?_⟩
      rw [hR, a2]
      congr 2; omega
    · rw [if_neg c]
      refine ⟨it, rfl, ?_⟩
      rw [hit]
      have hk := kOf_le value r0 p0
      exact drain_walk m v (p :: rs) pre p0 r0 fuel F _ it e hc0 hit hl hk hrp hI hpos (by omega)

/-- **`predecessor(x)` drained**: the iterator delivers the predecessor (rank `rank(x+1) - 1`) and then the set
bits of the following ranks to the end; nothing when there is no set bit at or before `x` -/
theorem GoodB.predecessor_drain (m : Mode) {v : RL} {bl : Blocks} (g : GoodB v bl) (x F : Nat)
    (hF : v.ones + 1 ≤ F) :
    ∃ st K, v.predecessor m x = ok st ∧
      K = (if rankR (absRuns 0 bl.flatten) (x + 1) = 0 then v.ones
        else rankR (absRuns 0 bl.flatten) (x + 1) - 1) ∧
      st.rank + (v.ones - K) = v.ones ∧
      drainOne m v F st = ok (oneItems (absRuns 0 bl.flatten) K (v.ones - K)) := by
  unfold RL.predecessor
  have hsp := g.span_le
  have hll := lens_le_span bl.flatten
  have hones := g.ones
  by_cases h0 : v.len = 0
  · rw [if_pos h0]
    refine ⟨_, v.ones, rfl, ?_, ?_, ?_⟩
    · rw [rankR_abs_ge _ 0 (x + 1) (by omega), if_pos (by omega)]
    · show v.ones + _ = _; omega
    · rw [Nat.sub_self]; exact drain_empty m v F (by omega)
  · rw [if_neg h0]
    have hcongr : rankR (absRuns 0 bl.flatten) (x + 1) = rankR (absRuns 0 bl.flatten) (min x (v.len - 1) + 1) := by
      by_cases hx : x < v.len
      · rw [Nat.min_eq_left (by omega)]
      · rw [Nat.min_eq_right (by omega), rankR_abs_ge _ 0 _ (by omega), rankR_abs_ge _ 0 _ (by omega)]
    rw [hcongr]
    have hv : min x (v.len - 1) < v.len := by
      have := Nat.min_le_right x (v.len - 1); omega
    generalize min x (v.len - 1) = value at *
    simp only []
    by_cases hne : bl = []
    · subst hne
      rw [g.iterForBit_nil value hv, bind_ok, RL.predLoop,
        peek_atEnd m v _ (by have := g.data_len; simp at this; show v.data.len ≤ 0; omega)]
      simp only [bind_ok, pure_eq]
      refine ⟨_, v.ones, rfl, ?_, ?_, ?_⟩
      · rw [if_pos (by rfl)]
      · show v.ones + _ = _; omega
      · rw [Nat.sub_self]; exact drain_empty m v F (by omega)
    · obtain ⟨b, hb, e1, h1, _⟩ := g.iterForBit hne value hv
      obtain ⟨fuel, e, hf, hc, he⟩ := g.collect_block m b hb
      have htot := (drop_cum bl b).1
      have hsl : ∀ hr : 0 < cumL bl b,
          selectR (absRuns 0 (bl.take b).flatten) (cumL bl b - 1) = some (cumS bl b - 1) := by
        intro hr
        have hne' : (bl.take b).flatten ≠ [] := by
          intro h; unfold cumL at hr; rw [h] at hr; simp [lens] at hr
        have := selectR_last _ 0 hne' (g.len_pos_of_take b)
        rw [Nat.zero_add] at this
        exact this
      have hP : PredAt (absRuns 0 (bl.take b).flatten) value (cumL bl b) (cumS bl b) := by
        refine ⟨cumL_le_cumS bl b, fun h => by omega, fun _ => ⟨?_, fun hr => hsl hr⟩⟩
        rw [rankR_abs_ge _ 0 _ (by unfold cumS at h1; omega)]; rfl
      have hI : Inv (absRuns 0 (bl.take b).flatten) value (cumL bl b) (cumS bl b) := by
        intro j j1 j2
        have hcl := cumL_le_cumS bl b
        unfold kOf at j1
        rw [if_neg (by omega)] at j1
        have hj : j = cumL bl b - 1 := by omega
        subst hj
        rw [hsl (by omega)]
        exact ⟨by congr 1; omega, by omega⟩
      obtain ⟨it', a1, a2⟩ := predLoop_walk m v value _ _ _ _ fuel _ _ e hc rfl hf (g.len_pos_of_blk b)
        (lensAbs_absRuns 0 _) hP
      obtain ⟨it'', d1, d2⟩ := predLoop_drain m v value (bl.drop b).flatten (absRuns 0 (bl.take b).flatten)
        (cumS bl b) (cumL bl b) fuel (v.data.len + 2) F (blockIter bl b) e hc rfl (lensAbs_absRuns 0 _)
        (cumL_le_cumS bl b) hI (g.len_pos_of_blk b) hf (by rw [htot, ← hones]; exact hF)
      rw [a1] at d1
      injection d1 with d1
      subst d1
      rw [absRuns_split] at a2
      rw [absRuns_split, htot, ← hones] at d2
      rw [e1, bind_ok, a1, bind_ok]
      have hrl := rankR_le_lensAbs (absRuns 0 bl.flatten) (value + 1)
      rw [lensAbs_absRuns, ← hones] at hrl
      obtain ⟨q0, q1, q2⟩ := a2
      rw [show it'.rank = it'.pos.1 from rfl, show it'.offsetBits = it'.pos.2 from rfl]
      unfold RunIter.rankAt
      rw [show it'.rank = it'.pos.1 from rfl, show it'.offsetBits = it'.pos.2 from rfl]
      by_cases hr : it'.pos.1 = 0
      · rw [if_pos hr]
        have hle : it'.pos.2 ≤ value := by
          rcases Nat.lt_or_ge value it'.pos.2 with h | h
          · have := (q1 h).1; omega
          · exact h
        refine ⟨_, v.ones, rfl, ?_, ?_, ?_⟩
        · rw [if_pos (by rw [(q2 hle).1]; exact hr)]
        · show v.ones + _ = _; omega
        · rw [Nat.sub_self]; exact drain_empty m v F (by omega)
      · rw [if_neg hr]
        by_cases hgt : it'.pos.2 > value
        · obtain ⟨k1, k2, k3⟩ := q1 hgt
          rw [if_pos hgt, subM_ok (by omega), bind_ok, subM_ok k1, bind_ok]
          have hk : kOf value it'.pos.1 it'.pos.2 = it'.pos.1 - (it'.pos.2 - value) := by
            unfold kOf; rw [if_pos hgt]
          rw [hk] at d2
          refine ⟨_, it'.pos.1 - (it'.pos.2 - value), rfl, ?_, ?_, d2⟩
          · rw [if_neg (by omega), k2, Nat.add_sub_cancel]
          · show it'.pos.1 - (it'.pos.2 - value) + _ = _; omega
        · obtain ⟨k1, k2⟩ := q2 (by omega)
          rw [if_neg hgt, subM_ok (by omega), bind_ok]
          have hk : kOf value it'.pos.1 it'.pos.2 = it'.pos.1 - 1 := by
            unfold kOf; rw [if_neg hgt]
          rw [hk] at d2
          refine ⟨_, it'.pos.1 - 1, rfl, ?_, ?_, d2⟩
          · rw [if_neg (by omega), k1]
          · show it'.pos.1 - 1 + _ = _; omega

/-! ### every forward call history -/

variable {v : RL} {bl : Blocks}

/-- **`successor(x)`**, every forward call history (`next` / `nth k` / `len`): the answers of the reference queue
over the set bits of rank `rank(x), rank(x)+1, …` -/
theorem goodB_successor_run (m : Mode) (g : GoodB v bl) (x : Nat) (calls : List FCall) :
    ∃ st, v.successor m x = ok st ∧
      RLI.oneRun m v st calls =
        ok (dequeRunM (oneItems (absRuns 0 bl.flatten) (rankR (absRuns 0 bl.flatten) x)
          (v.ones - rankR (absRuns 0 bl.flatten) x)) (calls.map FCall.toICall)) := by
  obtain ⟨st, h1, h2, h3⟩ := GoodB.successor_drain m g x (v.ones + 1) (Nat.le_refl _)
  refine ⟨st, h1, ?_⟩
  apply fwdRun_sim (RLI.one_fwdSim m v) (RLI.one_lenSim m v) calls
  refine ⟨?_, v.ones + 1, by rw [← RLI.drainOne_eq]; exact h3⟩
  unfold RLI.OneQ
  rw [RLI.oneItems_length]; exact h2

/-- **`predecessor(x)`**, every forward call history: the answers of the reference queue over the set bits of
rank `K, K+1, …` where `K = rank(x+1) - 1` is the rank of the predecessor (nothing when `rank(x+1) = 0`) -/
theorem goodB_predecessor_run (m : Mode) (g : GoodB v bl) (x : Nat) (calls : List FCall) :
    ∃ st K, v.predecessor m x = ok st ∧
      K = (if rankR (absRuns 0 bl.flatten) (x + 1) = 0 then v.ones
        else rankR (absRuns 0 bl.flatten) (x + 1) - 1) ∧
      RLI.oneRun m v st calls =
        ok (dequeRunM (oneItems (absRuns 0 bl.flatten) K (v.ones - K)) (calls.map FCall.toICall)) := by
  obtain ⟨st, K, h1, hK, h2, h3⟩ := GoodB.predecessor_drain m g x (v.ones + 1) (Nat.le_refl _)
  refine ⟨st, K, h1, hK, ?_⟩
  apply fwdRun_sim (RLI.one_fwdSim m v) (RLI.one_lenSim m v) calls
  refine ⟨?_, v.ones + 1, by rw [← RLI.drainOne_eq]; exact h3⟩
  unfold RLI.OneQ
  rw [RLI.oneItems_length]; exact h2

/-- **`successor(x)` in terms of the bit sequence `B`**: the iterator starts at the successor (rank `k`) and continues
with consecutive ranks to the end; it is empty when there is no set bit at or after `x` — every `x`, every forward
call history, both modes, no fault -/
theorem good_successor (m : Mode) (B : List Bool) (hg : Good v (maximalRuns B)) (e2 : v.ones = B.count true)
    (x : Nat) (cs : List FCall) :
    ∃ st, v.successor m x = ok st ∧
      RLI.oneRun m v st cs = ok (dequeRunM
        (match succSpec B x with
         | none => []
         | some (k, _) => (pairs (onesPos B)).drop k) (cs.map FCall.toICall)) := by
  obtain ⟨bl, g, hR⟩ := hg
  have hselO : ∀ j, selectR (maximalRuns B) j = (onesPos B)[j]? := fun j => by
    rw [selectR_maximalRuns, selectSpec_eq_onesPos]
  obtain ⟨st, h1, h2⟩ := goodB_successor_run m g x cs
  refine ⟨st, h1, ?_⟩
  rw [← hR, e2, RLI.oneItems_eq_selItems, ← length_onesPos, RLI.selItems_to_end _ (onesPos B) hselO] at h2
  rw [h2, ← succR_maximalRuns]
  unfold succR
  cases hs : selectR (maximalRuns B) (rankR (maximalRuns B) x) with
  | none =>
    rw [hselO] at hs
    have := List.getElem?_eq_none_iff.mp hs
    rw [List.drop_eq_nil_of_le (by rw [pairs_length]; exact this)]
    rfl
  | some p => rfl

/-- **`predecessor(x)` in terms of the bit sequence `B`**: the iterator starts AT the predecessor (its first item is
the nearest set bit at or before `x`, rank `k`) and continues with consecutive ranks to the end; it is empty when
there is no set bit at or before `x` — every `x` (also `x ≥ len`), every forward call history, both modes, no fault -/
theorem good_predecessor (m : Mode) (B : List Bool) (hg : Good v (maximalRuns B)) (e2 : v.ones = B.count true)
    (x : Nat) (cs : List FCall) :
    ∃ st, v.predecessor m x = ok st ∧
      RLI.oneRun m v st cs = ok (dequeRunM
        (match predSpec B x with
         | none => []
         | some (k, _) => (pairs (onesPos B)).drop k) (cs.map FCall.toICall)) := by
  obtain ⟨bl, g, hR⟩ := hg
  have hselO : ∀ j, selectR (maximalRuns B) j = (onesPos B)[j]? := fun j => by
    rw [selectR_maximalRuns, selectSpec_eq_onesPos]
  obtain ⟨st, K, h1, hK, h2⟩ := goodB_predecessor_run m g x cs
  refine ⟨st, h1, ?_⟩
  rw [← hR, e2, RLI.oneItems_eq_selItems, ← length_onesPos, RLI.selItems_to_end _ (onesPos B) hselO] at h2
  rw [← hR, e2, ← length_onesPos] at hK
  rw [h2, ← predR_maximalRuns]
  unfold predR
  by_cases c : rankR (maximalRuns B) (x + 1) = 0
  · rw [if_pos c] at hK ⊢
    rw [hK, List.drop_eq_nil_of_le (by rw [pairs_length]; exact Nat.le_refl _)]
  · rw [if_neg c] at hK ⊢
    rw [hK]
    cases hs : selectR (maximalRuns B) (rankR (maximalRuns B) (x + 1) - 1) with
    | none =>
      rw [hselO] at hs
      have := List.getElem?_eq_none_iff.mp hs
      rw [List.drop_eq_nil_of_le (by rw [pairs_length]; exact this)]
      rfl
    | some p => rfl

/-- the same for EVERY vector built by a list of accepted builder calls -/
theorem build_pred_succ (m : Mode) (calls : List RL.BCall) (hc : ∀ c ∈ calls, RL.callArgsOk c)
    (b : RLBuilder) (hb : RL.runBCalls m calls {} = ok b) (v : RL) (hv : RL.ofBuilder m b = ok v)
    (hsz : v.blocks + 8 < U64) :
    let B := calls.foldl RL.specCall []
    (∀ (x : Nat) (cs : List FCall), ∃ st, v.predecessor m x = ok st ∧
      RLI.oneRun m v st cs = ok (dequeRunM
        (match predSpec B x with
         | none => []
         | some (k, _) => (pairs (onesPos B)).drop k) (cs.map FCall.toICall))) ∧
    (∀ (x : Nat) (cs : List FCall), ∃ st, v.successor m x = ok st ∧
      RLI.oneRun m v st cs = ok (dequeRunM
        (match succSpec B x with
         | none => []
         | some (k, _) => (pairs (onesPos B)).drop k) (cs.map FCall.toICall))) := by
  intro B
  obtain ⟨hg, _, e2, _⟩ := build_good m calls hc b hb v hv hsz
  exact ⟨fun x cs => good_predecessor m B hg e2 x cs, fun x cs => good_successor m B hg e2 x cs⟩

end Sds.RLPS
