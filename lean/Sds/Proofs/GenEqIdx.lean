/-
Proofs/GenEqIdx: the index / support functions of `rank_support.rs`, `sparse_vector.rs`, `rl_vector/index.rs` and
`wavelet_matrix/wm_core.rs` as TRANSLATED statement by statement from the source (Generated/FnsIdx.lean) are equal
to the hand-written model definitions that all other theorems are about — under explicit hypotheses, each of which
is either a representation bound (all lengths < 2^64) or is shown to be necessary by a concrete counterexample.
-/
import Sds.Generated.FnsIdx
import Sds.Proofs.GenFns
import Sds.Proofs.Tables
import Sds.Proofs.BitsMore
import Sds.Proofs.GenEqBits

namespace Sds.GenEq
open Sds Outcome Generated

/-! ### vocabulary lemmas -/

theorem shAmt_lt (m : Mode) {k : Nat} (h : k < 64) : shAmt m k = ok k := by simp [shAmt, h]

theorem shrU_lt (m : Mode) (a : Nat) {k : Nat} (h : k < 64) : shrU m a k = ok (a >>> k) := by
  simp [shrU, shAmt_lt m h, Bind.bind, Outcome.bind, Pure.pure]

theorem shlU_lt (m : Mode) (a : Nat) {k : Nat} (h : k < 64) : shlU m a k = ok ((a <<< k) % U64) := by
  simp [shlU, shAmt_lt m h, Bind.bind, Outcome.bind, Pure.pure]

theorem shrW_lt (m : Mode) (w : Word) {k : Nat} (h : k < 64) : shrW m w k = ok (w >>> k) := by
  simp [shrW, shAmt_lt m h, Bind.bind, Outcome.bind, Pure.pure]

theorem shlW_lt (m : Mode) (w : Word) {k : Nat} (h : k < 64) : shlW m w k = ok (w <<< k) := by
  simp [shlW, shAmt_lt m h, Bind.bind, Outcome.bind, Pure.pure]

theorem and_7 (x : Nat) : x &&& 7 = x % 8 := Nat.and_two_pow_sub_one_eq_mod x 3
theorem and_63 (x : Nat) : x &&& 63 = x % 64 := Nat.and_two_pow_sub_one_eq_mod x 6
theorem and_511 (x : Nat) : x &&& 511 = x % 512 := Nat.and_two_pow_sub_one_eq_mod x 9

theorem splitOffset_eq (b : Nat) : splitOffset b = (b / 64, b % 64) := by
  simp [splitOffset, Nat.shiftRight_eq_div_pow, and_63]

theorem lowSet_toNat (w : Nat) (hw : w ≤ 64) : (lowSet w).toNat = 2 ^ w - 1 := by
  have h1 : 2 ^ w ≤ 2 ^ 64 := Nat.pow_le_pow_right (by decide) hw
  have h2 : 0 < 2 ^ w := Nat.two_pow_pos w
  simp only [lowSet, BitVec.toNat_ofNat]
  exact Nat.mod_eq_of_lt (by omega)

theorem and_lowSet (i w : Nat) (hw : w ≤ 64) : i &&& (lowSet w).toNat = i % 2 ^ w := by
  rw [lowSet_toNat w hw, Nat.and_two_pow_sub_one_eq_mod]

theorem shiftRight_64 (i : Nat) (hi : i < U64) : i >>> 64 = 0 := by
  rw [Nat.shiftRight_eq_div_pow]; exact Nat.div_eq_of_lt (by rw [U64_eq] at hi; exact hi)

/-! ### rank_support.rs -/

theorem addM_ok' {m a b} (h : a + b < 2 ^ 64) : addM m a b = ok (a + b) := addM_ok (by rw [U64_eq]; exact h)
theorem mulM_ok' {m a b} (h : a * b < 2 ^ 64) : mulM m a b = ok (a * b) := mulM_ok (by rw [U64_eq]; exact h)

/-- `rank_unchecked`: equal to the model whenever the two final additions do not overflow, which is guaranteed when
the sample of the block of `i` is at most `2^64 - 576` (`hs`; for a support built from a vector, the sample is a rank
and the sum is `rank(i) ≤ len < 2^64`).  No bound on `i` is needed. -/
theorem rank_unchecked_eq' (m : Mode) (s : RankSup) (v : RawVec) (i : Nat)
    (hs : ∀ h : i / 512 < s.samples.size, (s.samples[i / 512]).1.toNat + 575 < U64) :
    gen_RankSupport_rank_unchecked m s v i = RankSup.rankU s v i := by
  unfold gen_RankSupport_rank_unchecked RankSup.rankU
  rw [GenFns.gDiv_pos _ _ (by decide), GenFns.split_offset_eq, splitOffset_eq]
  simp only [Bind.bind, Outcome.bind, getPairU]
  by_cases hb : i / 512 < s.samples.size
  · have hs' := hs hb
    rw [U64_eq] at hs'
    have h1 : addM m (i / 64 % 8) 8 = ok (i / 64 % 8 + 8) := addM_ok' (by omega)
    have h2 : subM m (i / 64 % 8 + 8) 1 = ok (i / 64 % 8 + 7) := subM_ok (by omega)
    have h3 : mulM m ((i / 64 % 8 + 7) % 8) 9 = ok ((i / 64 % 8 + 7) % 8 * 9) := mulM_ok' (by omega)
    have h4 := shrW_lt m (s.samples[i / 512]).2 (k := (i / 64 % 8 + 7) % 8 * 9) (by omega)
    simp only [hb, dite_true, h1, h2, and_7, and_511, h3, h4, RawVec.wordU]
    cases hw : getW v.data (i / 64) with
    | fault f => rfl
    | ok w =>
      have hp := popcount_le (w &&& lowSet (i % 64))
      have hm : ((s.samples[i / 512]).2 >>> ((i / 64 % 8 + 7) % 8 * 9)).toNat % 512 < 512 :=
        Nat.mod_lt _ (by decide)
      have h5 : addM m (s.samples[i / 512]).1.toNat
          (((s.samples[i / 512]).2 >>> ((i / 64 % 8 + 7) % 8 * 9)).toNat % 512) = ok _ := addM_ok' (by omega)
      have h6 : addM m ((s.samples[i / 512]).1.toNat +
          ((s.samples[i / 512]).2 >>> ((i / 64 % 8 + 7) % 8 * 9)).toNat % 512)
          (popcount (w &&& lowSet (i % 64))) = ok _ := addM_ok' (by omega)
      simp only [low_set_unchecked_eq, lowSetU_eq (i % 64) (by omega), h5, h6, Pure.pure]
  · simp [hb]

theorem rank_unchecked_eq (m : Mode) (s : RankSup) (v : RawVec) (i : Nat)
    (hs : ∀ k (h : k < s.samples.size), (s.samples[k]).1.toNat + 575 < U64) :
    gen_RankSupport_rank_unchecked m s v i = RankSup.rankU s v i :=
  rank_unchecked_eq' m s v i (fun h => hs _ h)

/-- `hs` is necessary: the model adds in `Nat`, the code in `usize`.  With a sample of `2^64 - 1` (never produced by
`RankSupport::new` for a vector of length < 2^64) the code overflows and the model returns `2^64`. -/
theorem rank_unchecked_ne :
    let s : RankSup := ⟨#[(BitVec.ofNat 64 (2 ^ 64 - 1), 0)]⟩
    let v : RawVec := ⟨64, #[1]⟩
    gen_RankSupport_rank_unchecked .checked s v 1 = fault (.panic .overflow) ∧
    gen_RankSupport_rank_unchecked .wrapping s v 1 = ok 0 ∧
    RankSup.rankU s v 1 = ok (2 ^ 64) := by
  decide

/-- `rank` (the safe entry point): the same computation through bounds-checked reads, i.e. `safely` of the model
(`oob` becomes an index panic).  `hi` is needed: the safe variant computes `word + 8 - 1` WITHOUT masking `word`
first (the unchecked variant computes `(word & 7) + 8 - 1`). -/
theorem rank_eq_safely (m : Mode) (s : RankSup) (v : RawVec) (i : Nat) (hi : i < U64)
    (hs : ∀ h : i / 512 < s.samples.size, (s.samples[i / 512]).1.toNat + 575 < U64) :
    gen_RankSupport_rank m s v i = safely (RankSup.rankU s v i) := by
  unfold gen_RankSupport_rank RankSup.rankU
  rw [GenFns.gDiv_pos _ _ (by decide), GenFns.split_offset_eq, splitOffset_eq]
  simp only [Bind.bind, Outcome.bind, getPairC]
  rw [U64_eq] at hi
  by_cases hb : i / 512 < s.samples.size
  · have hs' := hs hb
    rw [U64_eq] at hs'
    have h1 : addM m (i / 64) 8 = ok (i / 64 + 8) := addM_ok' (by omega)
    have h2 : subM m (i / 64 + 8) 1 = ok (i / 64 + 7) := subM_ok (by omega)
    have e : (i / 64 + 7) % 8 = (i / 64 % 8 + 7) % 8 := by omega
    have h3 : mulM m ((i / 64 % 8 + 7) % 8) 9 = ok ((i / 64 % 8 + 7) % 8 * 9) := mulM_ok' (by omega)
    have h4 := shrW_lt m (s.samples[i / 512]).2 (k := (i / 64 % 8 + 7) % 8 * 9) (by omega)
    simp only [hb, dite_true, h1, h2, and_7, and_511, e, h3, h4, RawVec.wordM]
    by_cases hw : i / 64 < v.data.size
    · rw [getC_ok hw, getW_ok hw]
      have hp := popcount_le (rd v.data (i / 64) &&& lowSet (i % 64))
      have hm : ((s.samples[i / 512]).2 >>> ((i / 64 % 8 + 7) % 8 * 9)).toNat % 512 < 512 :=
        Nat.mod_lt _ (by decide)
      have h5 : addM m (s.samples[i / 512]).1.toNat
          (((s.samples[i / 512]).2 >>> ((i / 64 % 8 + 7) % 8 * 9)).toNat % 512) = ok _ := addM_ok' (by omega)
      have h6 : addM m ((s.samples[i / 512]).1.toNat +
          ((s.samples[i / 512]).2 >>> ((i / 64 % 8 + 7) % 8 * 9)).toNat % 512)
          (popcount (rd v.data (i / 64) &&& lowSet (i % 64))) = ok _ := addM_ok' (by omega)
      simp only [low_set_unchecked_eq, lowSetU_eq (i % 64) (by omega), h5, h6, Pure.pure, safely]
    · simp [getC, getW, hw, safely]
  · simp [hb, safely]

theorem rankU_ok (s : RankSup) (v : RawVec) (i : Nat) (hb : i / 512 < s.samples.size) (hw : i / 64 < v.data.size) :
    ∃ r, RankSup.rankU s v i = ok r := by
  unfold RankSup.rankU
  simp [hb, getW_ok hw, Bind.bind, Outcome.bind, Pure.pure]

/-- block and word in range: the result of the model -/
theorem rank_eq (m : Mode) (s : RankSup) (v : RawVec) (i : Nat) (hi : i < U64)
    (hb : i / 512 < s.samples.size) (hw : i / 64 < v.data.size)
    (hs : (s.samples[i / 512]).1.toNat + 575 < U64) :
    gen_RankSupport_rank m s v i = RankSup.rankU s v i := by
  rw [rank_eq_safely m s v i hi (fun _ => hs)]
  obtain ⟨r, hr⟩ := rankU_ok s v i hb hw
  rw [hr]; rfl

/-- block out of range: index panic (before any arithmetic, so without a bound on `i`) -/
theorem rank_eq_block_out (m : Mode) (s : RankSup) (v : RawVec) (i : Nat) (hb : s.samples.size ≤ i / 512) :
    gen_RankSupport_rank m s v i = fault (.panic .index) := by
  unfold gen_RankSupport_rank
  rw [GenFns.gDiv_pos _ _ (by decide), GenFns.split_offset_eq]
  have : ¬ i / 512 < s.samples.size := by omega
  simp [Bind.bind, Outcome.bind, getPairC, this]

/-- block in range, word out of range: index panic -/
theorem rank_eq_word_out (m : Mode) (s : RankSup) (v : RawVec) (i : Nat) (hi : i < U64)
    (hb : i / 512 < s.samples.size) (hw : v.data.size ≤ i / 64) :
    gen_RankSupport_rank m s v i = fault (.panic .index) := by
  unfold gen_RankSupport_rank
  rw [GenFns.gDiv_pos _ _ (by decide), GenFns.split_offset_eq, splitOffset_eq]
  rw [U64_eq] at hi
  have h1 : addM m (i / 64) 8 = ok (i / 64 + 8) := addM_ok' (by omega)
  have h2 : subM m (i / 64 + 8) 1 = ok (i / 64 + 7) := subM_ok (by omega)
  have h3 : mulM m ((i / 64 + 7) % 8) 9 = ok ((i / 64 + 7) % 8 * 9) := mulM_ok' (by omega)
  have h4 := shrW_lt m (s.samples[i / 512]).2 (k := (i / 64 + 7) % 8 * 9) (by omega)
  have : ¬ i / 64 < v.data.size := by omega
  simp [Bind.bind, Outcome.bind, getPairC, hb, h1, h2, and_7, h3, h4, RawVec.wordM, getC, this]

/-! ### sparse_vector.rs -/

/-- `split`.  `hw` is necessary (beyond 64 the unchecked mask read is out of the table); `hi` is only used at width 64,
where the code returns high part 0 without shifting. -/
theorem split_eq (m : Mode) (s : Sparse) (i : Nat) (hw : s.width ≤ 64) (hi : s.width = 64 → i < U64) :
    gen_SparseVector_split m s i = ok (s.split i) := by
  unfold gen_SparseVector_split Sparse.split
  have hw' : s.low.width ≤ 64 := hw
  simp only [low_set_unchecked_eq, lowSetU_eq _ hw', Bind.bind, Outcome.bind, Pure.pure, Sparse.width,
    and_lowSet _ _ hw']
  by_cases h : s.low.width < 64
  · simp [h, shrU_lt m i h]
  · have h64 : s.low.width = 64 := by omega
    simp [h64, shiftRight_64 i (hi h64)]

/-- `combine`, unconditionally: the code performs `high - low` only when the width is below 64, and so does the model
(beyond that the high part is 0). -/
theorem combine_eq (m : Mode) (s : Sparse) (p : Pos) :
    gen_SparseVector_combine m s p = s.combine m p := by
  unfold gen_SparseVector_combine Sparse.combine
  simp only [Sparse.width]
  by_cases h : s.low.width < 64
  · simp only [h, decide_true, if_true, Bind.bind, Outcome.bind, Pure.pure]
    cases h1 : subM m p.high p.low with
    | fault f => rfl
    | ok d =>
      simp only [shlU_lt m d h]
  · simp only [h, decide_false, if_false, Bind.bind, Outcome.bind, Pure.pure, Bool.false_eq_true]

/-- the draft form of the hypothesis (a corollary now) -/
theorem combine_eq_of_width (m : Mode) (s : Sparse) (p : Pos)
    (_hw : s.width < 64 ∨ (s.width = 64 ∧ p.low ≤ p.high)) :
    gen_SparseVector_combine m s p = s.combine m p :=
  combine_eq m s p

/-- at width 64 with `low > high` and overflow checks on, neither the code nor the model subtracts: both return a
value (the former model performed the subtraction and panicked here) -/
theorem combine_width64_no_subtraction :
    let s : Sparse := ⟨1, default, ⟨2, 64, ⟨128, #[5, 7]⟩⟩⟩
    gen_SparseVector_combine .checked s ⟨0, 1⟩ = ok (1, 7) ∧
    s.combine .checked ⟨0, 1⟩ = ok (1, 7) := by
  decide

theorem pos_eq (m : Mode) (s : Sparse) (r : Nat) : gen_SparseVector_pos m s r = s.pos m r := by
  unfold gen_SparseVector_pos Sparse.pos
  cases h : BitVector.selectQ m s.high r with
  | fault f => rfl
  | ok o => cases o <;> rfl

theorem lower_bound_eq (m : Mode) (s : Sparse) (hp : Nat) :
    gen_SparseVector_lower_bound m s hp = s.lowerBound m hp := by
  unfold gen_SparseVector_lower_bound Sparse.lowerBound
  by_cases h0 : hp = 0
  · simp [h0, Pure.pure]
  · have h1 : subM m hp 1 = ok (hp - 1) := subM_ok (by omega)
    simp only [h0, decide_false, if_false, Bind.bind, Outcome.bind, h1, Bool.false_eq_true]
    cases h : BitVector.selectZeroQ m s.high (hp - 1) with
    | fault f => rfl
    | ok o =>
      cases o with
      | none => rfl
      | some z =>
        simp only [unwrapM]

theorem upper_bound_eq (m : Mode) (s : Sparse) (hp : Nat) :
    gen_SparseVector_upper_bound m s hp = s.upperBound m hp := by
  unfold gen_SparseVector_upper_bound Sparse.upperBound
  cases h : BitVector.selectZeroQ m s.high hp with
  | fault f => rfl
  | ok o =>
    cases o with
    | none => rfl
    | some z =>
      simp only [Bind.bind, Outcome.bind, unwrapM]

/-- `get_buckets` on its domain -/
theorem get_buckets_eq (m : Mode) (univ w : Nat) (hw : w ≤ 64) (hu : univ < U64) :
    gen_SparseBuilder_get_buckets m univ w = ok (Sparse.getBuckets univ w) := by
  unfold gen_SparseBuilder_get_buckets Sparse.getBuckets
  simp only [low_set_eq, lowSetT_eq _ hw, Bind.bind, Outcome.bind, Pure.pure, and_lowSet _ _ hw]
  rw [U64_eq] at hu
  by_cases h : w < 64
  · simp only [h, decide_true, if_true, shrU_lt m univ h]
    by_cases hr : univ % 2 ^ w ≠ 0
    · have hw0 : w ≠ 0 := by intro h0; subst h0; simp [Nat.mod_one] at hr
      have : univ >>> w ≤ univ / 2 := by
        rw [Nat.shiftRight_eq_div_pow]
        have : 2 ^ 1 ≤ 2 ^ w := Nat.pow_le_pow_right (by decide) (by omega)
        exact Nat.div_le_div_left (by simpa using this) (by decide)
      have h1 : addM m (univ >>> w) 1 = ok (univ >>> w + 1) := addM_ok' (by omega)
      simp [hr, h1]
    · simp [hr]
  · simp only [h, decide_false]
    by_cases hr : univ % 2 ^ w ≠ 0
    · have h1 : addM m 0 1 = ok (0 + 1) := addM_ok' (by decide)
      simp [hr, h1]
    · simp [hr]

/-! ### rl_vector/index.rs -/

theorem sample_div_round_up_eq (m : Mode) (value n : Nat) (hv : value < U64) :
    gen_SampleIndex_div_round_up m value n = SampleIndex.divRoundUpSafe value n := by
  unfold gen_SampleIndex_div_round_up SampleIndex.divRoundUpSafe gDiv gMod
  rw [U64_eq] at hv
  by_cases hn : n = 0
  · simp [hn, Bind.bind, Outcome.bind]
  · simp only [hn, if_false, Bind.bind, Outcome.bind, boolU]
    by_cases hr : value % n ≠ 0
    · have hn2 : 2 ≤ n := by
        rcases Nat.lt_or_ge n 2 with h | h
        · have : n = 1 := by omega
          subst this; simp [Nat.mod_one] at hr
        · exact h
      have : value / n ≤ value / 2 := Nat.div_le_div_left hn2 (by decide)
      have h1 : addM m (value / n) 1 = ok (value / n + 1) := addM_ok' (by omega)
      simp [hr, h1]
    · have : value / n ≤ value := Nat.div_le_self _ _
      have h1 : addM m (value / n) 0 = ok (value / n + 0) := addM_ok' (by omega)
      simp [hr, h1]

theorem sample_parameters_eq (m : Mode) (values univ : Nat) (hu : univ < U64) :
    gen_SampleIndex_parameters m values univ = SampleIndex.parameters m values univ := by
  unfold gen_SampleIndex_parameters SampleIndex.parameters
  simp only [GenFns.div_round_up_eq, sample_div_round_up_eq _ _ _ hu]

/-- `range`.  `hv`: the sample offset after the one of `value` is representable; `hn`: the number of values is
representable (so that `limit + 1` cannot overflow when `limit < numValues`). -/
theorem sample_range_eq (m : Mode) (s : SampleIndex) (value : Nat)
    (hv : value / s.divisor + 1 < U64) (hn : s.numValues < U64) :
    gen_SampleIndex_range m s value = s.range value := by
  unfold gen_SampleIndex_range SampleIndex.range gDiv
  by_cases hd : s.divisor = 0
  · simp [hd, Bind.bind, Outcome.bind]
  · have h1 : addM m (value / s.divisor) 1 = ok (value / s.divisor + 1) := addM_ok hv
    simp only [hd, if_false, Bind.bind, Outcome.bind, Pure.pure, h1]
    by_cases hl : (s.samples.getOr (value / s.divisor + 1) (BitVec.ofNat 64 s.numValues)).toNat < s.numValues
    · have h2 : addM m (s.samples.getOr (value / s.divisor + 1) (BitVec.ofNat 64 s.numValues)).toNat 1 = ok _ :=
        addM_ok (by omega)
      simp [hl, h2]
    · simp [hl]

/-! ### wavelet_matrix/wm_core.rs -/

theorem wm_bit_value_eq (m : Mode) (c : WMCore) (l : Nat) (h1 : l < c.width) (h2 : c.width ≤ 64) :
    gen_WMCore_bit_value m c l = ok (BitVec.ofNat 64 (c.bitValue l)) := by
  unfold gen_WMCore_bit_value WMCore.bitValue
  have e1 : subM m c.width 1 = ok (c.width - 1) := subM_ok (by omega)
  have e2 : subM m (c.width - 1) l = ok (c.width - 1 - l) := subM_ok (by omega)
  have e3 := shlW_lt m (1 : Word) (k := c.width - 1 - l) (by omega)
  simp only [e1, e2, e3, Bind.bind, Outcome.bind]
  congr 1
  apply BitVec.eq_of_toNat_eq
  simp [BitVec.toNat_shiftLeft, Nat.shiftLeft_eq]

/-- `map_down_one`: the code adds with the mode's arithmetic -/
theorem wm_map_down_one_eq (m : Mode) (c : WMCore) (i l : Nat) :
    gen_WMCore_map_down_one m c i l =
      (do let b ← c.level l; let r ← b.rankQ i; addM m b.countZeros r) := by
  unfold gen_WMCore_map_down_one
  cases h : c.level l with
  | fault f => rfl
  | ok b =>
    simp only [Bind.bind, Outcome.bind]

/-- … and therefore equals the model (which adds in `Nat`) whenever the sum is representable -/
theorem wm_map_down_one_eq_model (m : Mode) (c : WMCore) (i l : Nat)
    (hs : ∀ b r, c.level l = ok b → b.rankQ i = ok r → b.countZeros + r < U64) :
    gen_WMCore_map_down_one m c i l = c.mapDownOne i l := by
  rw [wm_map_down_one_eq]
  unfold WMCore.mapDownOne
  cases h : c.level l with
  | fault f => rfl
  | ok b =>
    simp only [Bind.bind, Outcome.bind, Pure.pure]
    cases h2 : b.rankQ i with
    | fault f => rfl
    | ok r => simp only [addM_ok (hs b r h h2)]

/-- the hypothesis is necessary, but only violated by a level of length ≥ 2^64 (not representable) -/
theorem wm_map_down_one_ne :
    let c : WMCore := ⟨#[{ ones := 0, data := ⟨2 ^ 64, #[]⟩ }]⟩
    gen_WMCore_map_down_one .checked c (2 ^ 64) 0 = fault (.panic .overflow) ∧
    c.mapDownOne (2 ^ 64) 0 = ok (2 ^ 64) := by
  decide

theorem wm_map_down_zero_eq (m : Mode) (c : WMCore) (i l : Nat) :
    gen_WMCore_map_down_zero m c i l = c.mapDownZero m i l := by
  unfold gen_WMCore_map_down_zero WMCore.mapDownZero
  cases h : c.level l with
  | fault f => rfl
  | ok b =>
    simp only [Bind.bind, Outcome.bind]

theorem wm_map_up_one_eq (m : Mode) (c : WMCore) (i l : Nat) :
    gen_WMCore_map_up_one m c i l = c.mapUpOne m i l := by
  unfold gen_WMCore_map_up_one WMCore.mapUpOne
  cases h : c.level l with
  | fault f => rfl
  | ok b =>
    simp only [Bind.bind, Outcome.bind, Pure.pure, checkedSub]
    by_cases hlt : i < b.countZeros
    · have : ¬ b.countZeros ≤ i := by omega
      simp [hlt, this]
    · have : b.countZeros ≤ i := by omega
      simp only [hlt, this, if_true, if_false]

theorem wm_map_up_zero_eq (m : Mode) (c : WMCore) (i l : Nat) :
    gen_WMCore_map_up_zero m c i l = c.mapUpZero m i l := by
  unfold gen_WMCore_map_up_zero WMCore.mapUpZero
  cases h : c.level l with
  | fault f => rfl
  | ok b =>
    simp only [Bind.bind, Outcome.bind]

end Sds.GenEq
